---------------------------- MODULE InputRootMC ----------------------------
(***************************************************************************)
(* Tiny exhaustive configuration of InputRoot.tla: four Directory messages *)
(* forming a DAG (dE, the empty directory, is shared by "e" and "a/sub";   *)
(* dA is shared by "a" and by what CreateChildren inserts as a new lazy    *)
(* directory), depth 3, one malformed message                              *)
(* (duplicate name across files and symlinks), one message with an invalid *)
(* name, one with an unparsable digest, one missing message, one injected  *)
(* storage error; all exploration orders interleaved with two local        *)
(* modifications.  The second configuration has two actions sharing the    *)
(* CAS, one of them rooted in a Tree message.                              *)
(***************************************************************************)
EXTENDS InputRoot

Raw(ds, fs, ss) == [state |-> "ok", dirs |-> ds, files |-> fs, symlinks |-> ss]
D(n, d)        == [name |-> n, digest |-> d]
F(n, b, s, x)  == [name |-> n, blob |-> b, size |-> s, exec |-> x]
S(n, tg)       == [name |-> n, target |-> tg]

dE == Raw(<<>>, <<>>, <<>>)
dA == Raw(<<D("sub", "dE")>>, <<F("g", "c2", 1, FALSE)>>, <<>>)
dM == Raw(<<>>, <<F("g", "c1", 2, FALSE)>>, <<S("g", "t")>>)          \* duplicate name
dI == Raw(<<D("..", "dE")>>, <<>>, <<>>)                               \* invalid name
dB == Raw(<<D("k", "BAD")>>, <<>>, <<>>)                               \* unparsable digest
dR == Raw(<<D("a", "dA"), D("e", "dE"), D("m", "dM"), D("x", "dX")>>,
          <<F("f", "c1", 2, TRUE)>>, <<S("s", "t")>>)
dR2 == Raw(<<D("a", "dA"), D("i", "dI"), D("k", "dB")>>, <<F("f", "c1", 2, TRUE)>>, <<>>)

dR3 == Raw(<<D("a", "dA"), D("x", "dX")>>, <<F("f", "c1", 2, TRUE)>>, <<>>)

MCCas ==
  [dirs  |-> [d \in {"dR", "dR2", "dR3", "dA", "dE", "dM", "dI", "dB"} |->
                CASE d = "dR" -> dR [] d = "dR2" -> dR2 [] d = "dR3" -> dR3 [] d = "dA" -> dA [] d = "dE" -> dE
                  [] d = "dM" -> dM [] d = "dI" -> dI [] d = "dB" -> dB],
   trees |-> [T \in {"T1"} |-> [root |-> dR2, kids |-> [d \in {"dA", "dE", "dI"} |->
                CASE d = "dA" -> dA [] d = "dE" -> dE [] d = "dI" -> dI]]],
   blobs |-> [b \in {"c1", "c2"} |-> IF b = "c1" THEN <<7, 8>> ELSE <<9>>]]

MCInvalidNames == {"", ".", "..", "a/b"}
MCRenameTo == {"n", "e"}

\* one action, rich
MCActions1 == {"a1"}
MCRootOf1  == [a \in MCActions1 |-> DirSrc("dR")]
MCNames1   == {"a", "e", "f", "m", "n"}
MCPutNodes1 == {LazyDir(DirSrc("dA")), CasFile("c1", 2, FALSE)}

\* two actions over one CAS, the second rooted in a Tree message
MCActions2 == {"a1", "a2"}
MCRootOf2  == [a \in MCActions2 |-> IF a = "a1" THEN DirSrc("dR2") ELSE TreeSrc("T1", "ROOT")]
MCNames2   == {"a", "f", "k"}
MCPutNodes2 == {CasFile("c1", 2, FALSE)}

\* one action, two modifications in sequence (thorough tier)
MCRootOf3  == [a \in MCActions1 |-> DirSrc("dR3")]
MCNames3   == {"a", "f", "n"}
MCPutNodes3 == {LazyDir(DirSrc("dA"))}
MCRenameTo3 == {"n"}
=============================================================================
