// Package poolfile drives the real pool-backed file implementation
// (pkg/filesystem/virtual/pool_backed_file_allocator.go) behind the real
// FUSE/NFS stateful handle allocators and records traces that
// specs/PoolFileTrace.tla validates (property C16).
//
// Nothing in this package judges: it generates legal calls, runs them
// against the real code, and logs arguments, replies, what the
// instrumented pool and the fake CAS saw, and raw counters.
package poolfile

import (
	"context"
	"crypto/md5"
	"crypto/sha256"
	"encoding/hex"
	"fmt"
	"io"
	"os"
	"regexp"
	"runtime"
	"sort"
	"strings"
	"sync"
	"sync/atomic"
	"syscall"
	"testing"
	"testing/synctest"
	"time"

	remoteexecution "github.com/bazelbuild/remote-apis/build/bazel/remote/execution/v2"
	"github.com/buildbarn/bb-remote-execution/pkg/builder"
	"github.com/buildbarn/bb-remote-execution/pkg/filesystem/pool"
	"github.com/buildbarn/bb-remote-execution/pkg/filesystem/virtual"
	bazeloutputservicerev2 "github.com/buildbarn/bb-remote-execution/pkg/proto/bazeloutputservice/rev2"
	"github.com/buildbarn/bb-storage/pkg/blobstore"
	"github.com/buildbarn/bb-storage/pkg/blobstore/buffer"
	"github.com/buildbarn/bb-storage/pkg/blobstore/slicing"
	"github.com/buildbarn/bb-storage/pkg/clock"
	"github.com/buildbarn/bb-storage/pkg/digest"
	"github.com/buildbarn/bb-storage/pkg/filesystem"
	"github.com/buildbarn/bb-storage/pkg/filesystem/path"
	"github.com/buildbarn/bb-storage/pkg/random"
	"google.golang.org/grpc/codes"
	"google.golang.org/grpc/status"
	"google.golang.org/protobuf/types/known/anypb"

	"verif/harness/common"
)

const (
	maxFiles = 2
	maxSize  = 6 // contents stay within the digest dictionary
	maxByte  = 3
	// uploadDelay is the maximum writable-file upload delay of a trace.
	uploadDelay = time.Hour
)

var digestFunction = digest.MustNewFunction("verif", remoteexecution.DigestFunction_SHA256)

// The digest functions callers ask for ("" = sha256). A memoised digest
// belongs to one function; asking for another one must not reuse it.
var digestFunctions = map[string]digest.Function{
	"sha256": digestFunction,
	"md5":    digest.MustNewFunction("verif", remoteexecution.DigestFunction_MD5),
}

func functionOf(df string) digest.Function {
	if f, ok := digestFunctions[df]; ok {
		return f
	}
	return digestFunction
}

// ---------------------------------------------------------------------
// Digest dictionary: hash -> contents, for all contents of the small
// domain. Decoding a digest is a pure function; it lets the trace carry
// "the bytes this digest stands for" so that the specification can
// compare digests with contents without hashing.

var (
	dictOnce sync.Once
	dict     map[string]map[string][]int // function -> hash -> contents
)

// hashOf hashes b with the function a caller asked for.
func hashOf(df string, b []byte) string {
	if df == "md5" {
		s := md5.Sum(b)
		return hex.EncodeToString(s[:])
	}
	s := sha256.Sum256(b)
	return hex.EncodeToString(s[:])
}

// preimage decodes a hash of the function the caller asked for.
func preimage(df, hash string) ([]int, bool) {
	dictOnce.Do(func() {
		dict = map[string]map[string][]int{"sha256": {}, "md5": {}}
		var rec func(cur []byte)
		rec = func(cur []byte) {
			for fn, m := range dict {
				m[hashOf(fn, cur)] = ints(cur)
			}
			if len(cur) == maxSize {
				return
			}
			for b := 0; b <= maxByte; b++ {
				rec(append(append([]byte(nil), cur...), byte(b)))
			}
		}
		rec(nil)
	})
	if df != "md5" {
		df = "sha256"
	}
	p, ok := dict[df][hash]
	if !ok {
		return []int{}, false
	}
	return p, true
}

func ints(b []byte) []int {
	out := make([]int, len(b))
	for i, c := range b {
		out[i] = int(c)
	}
	return out
}

func fname(i int) string { return fmt.Sprintf("f%d", i+1) }

// ---------------------------------------------------------------------
// world: one trace = one bubble = one world.

type world struct {
	tr    *common.Trace // nil: run without logging (enumeration of inner nodes)
	alloc string
	// dir mode: files are created, linked, removed and uploaded through
	// the real build directory (builder.NewVirtualBuildDirectory over
	// virtual.NewInMemoryPrepopulatedDirectory, hooks installed as
	// LocalBuildExecutor does); otherwise the leaf is driven directly.
	dirMode bool
	root    virtual.PrepopulatedDirectory
	bd      builder.BuildDirectory

	mu      sync.Mutex
	cond    *sync.Cond
	current int // id of the operation whose events go first; 0 = nobody

	closes [maxFiles]int // Close() calls per pool file (under mu)
	uac    int           // touches of a closed pool file (under mu)

	creating  int // index of the file whose pool file is being created
	files     [maxFiles]*fileCtl
	allocator virtual.FileAllocator
	cas       *fakeCAS
	errors    atomic.Int64

	ops     map[int]*opCtl
	nextID  int
	readers []*readerCtl
	lastOp  *opCtl

	delayCtx    context.Context
	delayCancel context.CancelFunc
	delayFired  bool
	events      int
}

type errorLogger struct{ w *world }

func (l errorLogger) Log(err error) { l.w.errors.Add(1) }

func newWorld(tr *common.Trace, alloc string, dirMode bool) *world {
	w := &world{tr: tr, alloc: alloc, dirMode: dirMode, ops: map[int]*opCtl{}, nextID: 1}
	w.cond = sync.NewCond(&w.mu)
	var ha virtual.StatefulHandleAllocator
	switch alloc {
	case "nfs":
		ha = virtual.NewNFSHandleAllocator(random.NewFastSingleThreadedGenerator())
	default:
		ha = virtual.NewFUSEHandleAllocator(random.FastThreadSafeGenerator)
	}
	// The same composition as builder.virtualBuildDirectory.InstallHooks
	// and cmd/bb_worker: pool-backed files behind a stateful handle.
	w.allocator = virtual.NewHandleAllocatingFileAllocator(
		virtual.NewPoolBackedFileAllocator(
			&instrPool{w: w},
			errorLogger{w},
			func(requested virtual.AttributesMask, attributes *virtual.Attributes) {},
			virtual.NoNamedAttributesFactory,
		),
		ha,
	)
	w.cas = &fakeCAS{w: w}
	if dirMode {
		// cmd/bb_worker: the root of the virtual build directory,
		// initially over an empty pool ...
		defaultAttributesSetter := func(requested virtual.AttributesMask, attributes *virtual.Attributes) {}
		symlinkFactory := virtual.NewErrorSymlinkFactory(status.Error(codes.PermissionDenied, "Symlink outside build directory"))
		w.root = virtual.NewInMemoryPrepopulatedDirectory(
			virtual.NewHandleAllocatingFileAllocator(
				virtual.NewPoolBackedFileAllocator(pool.EmptyFilePool, errorLogger{w}, defaultAttributesSetter, virtual.NoNamedAttributesFactory),
				ha,
			),
			symlinkFactory,
			errorLogger{w},
			ha,
			sort.Sort,
			func(string) bool { return false },
			clock.SystemClock,
			virtual.CaseSensitiveComponentNormalizer,
			defaultAttributesSetter,
			virtual.NoNamedAttributesFactory,
		)
		// ... wrapped per action, with the action's file pool
		// installed (LocalBuildExecutor.Execute -> InstallHooks).
		w.bd = builder.NewVirtualBuildDirectory(w.root, nil, w.cas, symlinkFactory, nil, ha, defaultAttributesSetter, clock.SystemClock)
		w.bd.InstallHooks(&instrPool{w: w}, errorLogger{w})
	}
	// As LocalBuildExecutor does: one context with a timeout, whose
	// Done channel bounds the wait for writers of all uploads.
	w.delayCtx, w.delayCancel = clock.SystemClock.NewContextWithTimeout(context.Background(), uploadDelay)
	return w
}

// emit appends one event. Events of operation `id` wait until the
// operation that is being stepped has logged its own events, so that the
// order of lines follows cause and effect (a goroutine woken by a call
// logs after that call's return). id 0 (pool file events, harness
// events) never waits: pool events are emitted inside the real code's
// critical sections and therefore appear in their true order.
func (w *world) emit(id int, ev common.Ev) {
	w.mu.Lock()
	for id != 0 && w.current != 0 && w.current != id {
		w.cond.Wait()
	}
	w.emitLocked(ev)
	w.mu.Unlock()
}

func (w *world) emitLocked(ev common.Ev) {
	w.events++
	progress.Add(1)
	if w.tr == nil {
		return
	}
	ev["cl"] = []int{w.closes[0], w.closes[1]}
	ev["uac"] = w.uac
	w.tr.Emit(ev)
}

func (w *world) setCurrent(id int) {
	w.mu.Lock()
	w.current = id
	w.cond.Broadcast()
	w.mu.Unlock()
}

// ---------------------------------------------------------------------
// Instrumented pool.

type instrPool struct{ w *world }

type poolFile struct {
	w      *world
	idx    int
	data   []byte
	closed bool
	// failReads makes the next ReadAt calls fail (fault injection).
	failReads int
}

func (p *instrPool) NewFile(holeSource pool.HoleSource, size uint64) (filesystem.FileReadWriter, error) {
	w := p.w
	w.mu.Lock()
	defer w.mu.Unlock()
	pf := &poolFile{w: w, idx: w.creating, data: make([]byte, size)}
	w.files[w.creating].pf = pf
	w.emitLocked(common.Ev{"ev": "pool_new", "f": fname(pf.idx), "after": ints(pf.data)})
	return pf, nil
}

// touch reports a use of the pool file; returns false if it was closed.
func (pf *poolFile) touchLocked(what string) bool {
	if pf.closed {
		pf.w.uac++
		pf.w.emitLocked(common.Ev{"ev": "pool_uac", "f": fname(pf.idx), "what": what})
		return false
	}
	return true
}

var errClosed = status.Error(codes.Internal, "verif: pool file used after Close")

func (pf *poolFile) ReadAt(p []byte, off int64) (int, error) {
	w := pf.w
	w.mu.Lock()
	defer w.mu.Unlock()
	if !pf.touchLocked("read") {
		return 0, errClosed
	}
	if pf.failReads > 0 {
		pf.failReads--
		return 0, status.Error(codes.Internal, "verif: injected read fault")
	}
	if off >= int64(len(pf.data)) {
		return 0, io.EOF
	}
	n := copy(p, pf.data[off:])
	if n < len(p) {
		return n, io.EOF
	}
	return n, nil
}

func (pf *poolFile) WriteAt(p []byte, off int64) (int, error) {
	w := pf.w
	w.mu.Lock()
	defer w.mu.Unlock()
	if !pf.touchLocked("write") {
		return 0, errClosed
	}
	if end := int(off) + len(p); end > len(pf.data) {
		pf.data = append(pf.data, make([]byte, end-len(pf.data))...)
	}
	copy(pf.data[off:], p)
	w.emitLocked(common.Ev{"ev": "pool_write", "f": fname(pf.idx), "off": int(off), "data": ints(p), "after": ints(pf.data)})
	return len(p), nil
}

func (pf *poolFile) Truncate(size int64) error {
	w := pf.w
	w.mu.Lock()
	defer w.mu.Unlock()
	if !pf.touchLocked("truncate") {
		return errClosed
	}
	if int(size) <= len(pf.data) {
		pf.data = pf.data[:size]
	} else {
		pf.data = append(pf.data, make([]byte, int(size)-len(pf.data))...)
	}
	w.emitLocked(common.Ev{"ev": "pool_trunc", "f": fname(pf.idx), "size": int(size), "after": ints(pf.data)})
	return nil
}

func (pf *poolFile) Close() error {
	w := pf.w
	w.mu.Lock()
	defer w.mu.Unlock()
	pf.closed = true
	w.closes[pf.idx]++
	w.emitLocked(common.Ev{"ev": "pool_close", "f": fname(pf.idx)})
	return nil
}

func (pf *poolFile) Sync() error { return nil }

func (pf *poolFile) GetNextRegionOffset(off int64, regionType filesystem.RegionType) (int64, error) {
	w := pf.w
	w.mu.Lock()
	defer w.mu.Unlock()
	if !pf.touchLocked("seek") {
		return 0, errClosed
	}
	if off >= int64(len(pf.data)) {
		return 0, io.EOF
	}
	if regionType == filesystem.Data {
		return off, nil
	}
	return int64(len(pf.data)), nil
}

func (pf *poolFile) Len() (int64, error) { return int64(len(pf.data)), nil }

// ---------------------------------------------------------------------
// Fake CAS with a gated Put that reads the buffer in two halves.

type opKey struct{}

type fakeCAS struct{ w *world }

var errNotImplemented = status.Error(codes.Unimplemented, "verif: not implemented")

func (c *fakeCAS) GetCapabilities(ctx context.Context, instanceName digest.InstanceName) (*remoteexecution.ServerCapabilities, error) {
	return nil, errNotImplemented
}

func (c *fakeCAS) Get(ctx context.Context, d digest.Digest) buffer.Buffer {
	return buffer.NewBufferFromError(errNotImplemented)
}

func (c *fakeCAS) GetFromComposite(ctx context.Context, parentDigest, childDigest digest.Digest, slicer slicing.BlobSlicer) buffer.Buffer {
	return buffer.NewBufferFromError(errNotImplemented)
}

func (c *fakeCAS) FindMissing(ctx context.Context, digests digest.Set) (digest.Set, error) {
	return digests, nil
}

var errPutFailed = status.Error(codes.Unavailable, "verif: CAS rejected the blob")

func (c *fakeCAS) Put(ctx context.Context, d digest.Digest, b buffer.Buffer) error {
	o, _ := ctx.Value(opKey{}).(*opCtl)
	if o == nil {
		b.Discard()
		return status.Error(codes.Internal, "verif: Put without operation context")
	}
	f := fname(o.f)
	size := d.GetSizeBytes()
	// (the file is frozen by this upload now: events of the chain that
	// were held back come out first)
	o.log(common.Ev{"ev": "put_begin", "id": o.id, "f": f, "hash": d.GetHashString(), "dsize": int(size)}, false)
	o.wait("A")
	if o.mode == "fail_before" {
		b.Discard()
		o.log(common.Ev{"ev": "put_closed", "id": o.id, "f": f}, o.next != nil)
		return errPutFailed
	}
	r := b.ToReader()
	half := size / 2
	first := make([]byte, half)
	n1, err1 := io.ReadFull(r, first)
	o.log(common.Ev{"ev": "put_half", "id": o.id, "f": f, "data": ints(first[:n1])}, false)
	var rest []byte
	if err1 == nil {
		o.wait("B")
		var err2 error
		rest, err2 = io.ReadAll(r)
		err1 = err2
	}
	all := append(first[:n1], rest...)
	fail := o.mode == "fail_after" || err1 != nil
	// cashash: the digest of the received bytes under the function the caller of the upload asked for
	o.log(common.Ev{"ev": "put_end", "id": o.id, "f": f, "data": ints(all), "cashash": hashOf(o.df, all), "fail": fail}, false)
	r.Close()
	// (the frozen view is closed: if another operation follows in this
	// goroutine nothing is logged before it has frozen the file again)
	o.log(common.Ev{"ev": "put_closed", "id": o.id, "f": f}, o.next != nil)
	if err1 != nil {
		return err1
	}
	if fail {
		return errPutFailed
	}
	return nil
}

var _ blobstore.BlobAccess = (*fakeCAS)(nil)

// ---------------------------------------------------------------------
// Operations.

type fdCtl struct {
	mask string
	busy bool // a pending operation uses this descriptor
}

type readerCtl struct {
	r    filesystem.FileReader
	f    int
	id   int // id of the fopen operation
	busy bool
}

type fileCtl struct {
	leaf    virtual.LinkableLeaf
	pf      *poolFile
	links   int
	fds     []*fdCtl
	pinned  int              // pending path based mutators relying on a link
	names   []path.Component // dir mode: names the file has in the root directory
	nameSeq int
}

type opCtl struct {
	id    int
	op    string
	f     int
	mask  string
	trunc bool
	off   int
	data  []byte
	n     int
	mode  string
	df    string // digest function asked for (upload, stat); "" = sha256
	gated bool
	ref   int // fopen id for fread/fclose

	fd     *fdCtl
	reader *readerCtl
	// Chains: operations that run back to back in ONE goroutine, with
	// nothing logged in between, so that a goroutine woken by the first
	// (a mutator parked behind a frozen view that the first one closes)
	// cannot run before the next one has frozen the file again.
	head       *opCtl      // first operation of the chain (nil: this one)
	next       *opCtl      // operation that follows in the same goroutine
	from       *opCtl      // fread: the fopen of the same chain whose reader is read
	deferred   []common.Ev // head only: events held back until the chain has frozen the file again
	viaFd      bool        // path based mutator relying on a descriptor instead of a link
	pinnedLink bool        // path based mutator relying on a directory entry

	w      *world
	gateA  chan struct{}
	gateB  chan struct{}
	atGate atomic.Value // "", "A", "B"
	done   atomic.Bool
	st     string // result status (valid once done)
	opened filesystem.FileReader
}

func (o *opCtl) wait(stage string) {
	if !o.gated {
		return
	}
	o.atGate.Store(stage)
	// Let deferred events of other goroutines proceed: this operation
	// is now blocked by the harness itself.
	o.w.mu.Lock()
	if o.w.current == o.turn() {
		o.w.current = 0
		o.w.cond.Broadcast()
	}
	o.w.mu.Unlock()
	if stage == "A" {
		<-o.gateA
	} else {
		<-o.gateB
	}
	o.atGate.Store("")
}

// turn is the id under which the events of this operation take their turn
// in the log: the id of the head of its chain.
func (o *opCtl) turn() int {
	if o.head != nil {
		return o.head.id
	}
	return o.id
}

func (o *opCtl) headOp() *opCtl {
	if o.head != nil {
		return o.head
	}
	return o
}

// log emits an event of the operation, or holds it back while the chain is
// between two freezes (hold).
func (o *opCtl) log(ev common.Ev, hold bool) {
	h := o.headOp()
	if hold {
		h.deferred = append(h.deferred, ev)
		return
	}
	o.flush()
	o.w.emit(o.turn(), ev)
}

// flush emits the events that were held back, in order.
func (o *opCtl) flush() {
	h := o.headOp()
	evs := h.deferred
	h.deferred = nil
	for _, ev := range evs {
		o.w.emit(o.turn(), ev)
	}
}

func (o *opCtl) gate() string {
	s, _ := o.atGate.Load().(string)
	return s
}

func maskOf(m string) virtual.ShareMask {
	switch m {
	case "r":
		return virtual.ShareMaskRead
	case "w":
		return virtual.ShareMaskWrite
	case "rw":
		return virtual.ShareMaskRead | virtual.ShareMaskWrite
	}
	return 0
}

func statusName(s virtual.Status) string {
	switch s {
	case virtual.StatusOK:
		return "OK"
	case virtual.StatusErrStale:
		return "ESTALE"
	case virtual.StatusErrIO:
		return "EIO"
	case virtual.StatusErrNXIO:
		return "ENXIO"
	case virtual.StatusErrPerm:
		return "EPERM"
	}
	return fmt.Sprintf("E%d", int(s))
}

func errName(err error) string {
	if err == nil {
		return "OK"
	}
	if c := status.Code(err); c == codes.NotFound {
		return "NOTFOUND"
	} else {
		return "ERR:" + c.String()
	}
}

func (w *world) callEvent(o *opCtl) common.Ev {
	return common.Ev{"ev": "call", "id": o.id, "op": o.op, "f": fname(o.f), "mask": o.mask,
		"trunc": o.trunc, "off": o.off, "data": ints(o.data), "n": o.n, "mode": o.mode,
		"gated": o.gated, "ref": o.ref, "viafd": o.viaFd, "df": o.df}
}

func retEvent(o *opCtl) common.Ev {
	return common.Ev{"ev": "ret", "id": o.id, "op": o.op, "f": fname(o.f), "mask": o.mask, "st": "OK",
		"data": []int{}, "n": 0, "eof": false, "size": 0, "links": 0, "hash": "", "dsize": 0,
		"pre": []int{}, "known": false, "hasdigest": false, "dfok": true, "ref": o.ref}
}

// run performs the call on the real code and fills in the reply.
func (o *opCtl) run(ev common.Ev) {
	w := o.w
	ctx := context.Background()
	fc := w.files[o.f]
	switch o.op {
	case "create":
		w.creating = o.f
		if w.dirMode {
			var createAttributes, out virtual.Attributes
			createAttributes.SetPermissions(virtual.PermissionsRead | virtual.PermissionsWrite)
			if o.n > 0 {
				createAttributes.SetSizeBytes(uint64(o.n))
			}
			name := fc.newName(o.f)
			leaf, _, _, s := w.root.VirtualOpenChild(ctx, name, maskOf(o.mask), &createAttributes, nil, 0, &out)
			ev["st"] = statusName(s)
			if s == virtual.StatusOK {
				fc.leaf = leaf.(virtual.LinkableLeaf)
				fc.names = append(fc.names, name)
			}
			return
		}
		leaf, err := w.allocator.NewFile(pool.ZeroHoleSource, false, uint64(o.n), maskOf(o.mask))
		if err != nil {
			ev["st"] = errName(err)
			return
		}
		fc.leaf = leaf
	case "open":
		var out virtual.Attributes
		s := fc.leaf.VirtualOpenSelf(ctx, maskOf(o.mask), &virtual.OpenExistingOptions{Truncate: o.trunc}, virtual.AttributesMaskSizeBytes|virtual.AttributesMaskLinkCount, &out)
		ev["st"] = statusName(s)
		if s == virtual.StatusOK {
			if sz, ok := out.GetSizeBytes(); ok {
				ev["size"] = int(sz)
			}
			ev["links"] = int(out.GetLinkCount())
		}
	case "close":
		fc.leaf.VirtualClose(maskOf(o.mask))
	case "link":
		if w.dirMode {
			var out virtual.Attributes
			name := fc.newName(o.f)
			_, s := w.root.VirtualLink(ctx, name, fc.leaf, 0, &out)
			ev["st"] = statusName(s)
			if s == virtual.StatusOK {
				fc.names = append(fc.names, name)
			}
			return
		}
		ev["st"] = statusName(fc.leaf.Link())
	case "unlink":
		if w.dirMode {
			name := fc.names[len(fc.names)-1]
			fc.names = fc.names[:len(fc.names)-1]
			_, s := w.root.VirtualRemove(ctx, name, false, true)
			ev["st"] = statusName(s)
			return
		}
		fc.leaf.Unlink()
	case "write":
		n, s := fc.leaf.VirtualWrite(ctx, o.data, uint64(o.off))
		ev["st"] = statusName(s)
		ev["n"] = n
	case "read":
		buf := make([]byte, o.n)
		n, eof, s := fc.leaf.VirtualRead(ctx, buf, uint64(o.off))
		ev["st"] = statusName(s)
		ev["n"] = n
		ev["eof"] = eof
		ev["data"] = ints(buf[:n])
	case "setsize":
		var in, out virtual.Attributes
		in.SetSizeBytes(uint64(o.n))
		s := fc.leaf.VirtualSetAttributes(ctx, &in, virtual.AttributesMaskSizeBytes, &out)
		ev["st"] = statusName(s)
		if s == virtual.StatusOK {
			if sz, ok := out.GetSizeBytes(); ok {
				ev["size"] = int(sz)
			}
		}
	case "setperm":
		var in, out virtual.Attributes
		in.SetPermissions(virtual.PermissionsRead | virtual.PermissionsWrite | virtual.PermissionsExecute)
		s := fc.leaf.VirtualSetAttributes(ctx, &in, virtual.AttributesMaskPermissions, &out)
		ev["st"] = statusName(s)
	case "allocate":
		ev["st"] = statusName(fc.leaf.VirtualAllocate(ctx, uint64(o.off), uint64(o.n)))
	case "getattr":
		var out virtual.Attributes
		fc.leaf.VirtualGetAttributes(ctx, virtual.AttributesMaskSizeBytes|virtual.AttributesMaskLinkCount, &out)
		if sz, ok := out.GetSizeBytes(); ok {
			ev["size"] = int(sz)
		}
		ev["links"] = int(out.GetLinkCount())
	case "upload":
		if w.dirMode && len(fc.names) > 0 {
			// The call LocalBuildExecutor / OutputHierarchy make.
			d, err := w.bd.UploadFile(context.WithValue(ctx, opKey{}, o), fc.names[0], functionOf(o.df), w.delayCtx.Done())
			ev["st"] = errName(err)
			if err == nil {
				o.fillDigest(ev, d)
			}
			return
		}
		// What builder.virtualBuildDirectory.UploadFile does with
		// the leaf it looked up.
		p := virtual.ApplyUploadFile{
			Context:                   context.WithValue(ctx, opKey{}, o),
			ContentAddressableStorage: w.cas,
			DigestFunction:            functionOf(o.df),
			WritableFileUploadDelay:   w.delayCtx.Done(),
		}
		if !fc.leaf.VirtualApply(&p) {
			ev["st"] = "UNHANDLED"
			return
		}
		ev["st"] = errName(p.Err)
		if p.Err == nil {
			o.fillDigest(ev, p.Digest)
		}
	case "fopen":
		p := virtual.ApplyOpenReadFrozen{WritableFileDelay: w.delayCtx.Done()}
		if !fc.leaf.VirtualApply(&p) {
			ev["st"] = "UNHANDLED"
			return
		}
		ev["st"] = errName(p.Err)
		if p.Err == nil {
			o.opened = p.Reader
		}
	case "fread":
		var rd filesystem.FileReader
		if o.from != nil {
			rd = o.from.opened
		} else if o.reader != nil {
			rd = o.reader.r
		}
		if rd == nil {
			ev["st"] = "NOREADER" // the fopen of the chain did not succeed
			return
		}
		buf := make([]byte, o.n)
		n, err := rd.ReadAt(buf, int64(o.off))
		if err != nil && err != io.EOF {
			ev["st"] = errName(err)
		}
		ev["n"] = n
		ev["data"] = ints(buf[:n])
	case "fclose":
		o.reader.r.Close()
	case "stat":
		df := functionOf(o.df)
		p := virtual.ApplyGetBazelOutputServiceStat{DigestFunction: &df}
		if !fc.leaf.VirtualApply(&p) {
			ev["st"] = "UNHANDLED"
			return
		}
		ev["st"] = errName(p.Err)
		if p.Err == nil {
			if loc := p.Stat.GetFile().GetLocator(); loc != nil {
				if d, ok := locatorDigest(loc, df); ok {
					o.fillDigest(ev, d)
				} else {
					ev["st"] = "BADLOCATOR"
				}
			}
		}
	default:
		panic("unknown op " + o.op)
	}
}

// locatorDigest decodes the digest of a locator; a hash that does not have
// the shape of the function asked for is decoded with the function it has
// the shape of (the trace then says that another function was used).
func locatorDigest(loc *anypb.Any, asked digest.Function) (digest.Digest, bool) {
	var l bazeloutputservicerev2.FileArtifactLocator
	if err := loc.UnmarshalTo(&l); err != nil {
		return digest.BadDigest, false
	}
	if d, err := asked.NewDigestFromProto(l.Digest); err == nil {
		return d, true
	}
	for _, fn := range digestFunctions {
		if d, err := fn.NewDigestFromProto(l.Digest); err == nil {
			return d, true
		}
	}
	return digest.BadDigest, false
}

func (fc *fileCtl) newName(f int) path.Component {
	fc.nameSeq++
	return path.MustNewComponent(fmt.Sprintf("f%d_%d", f+1, fc.nameSeq))
}

func (o *opCtl) fillDigest(ev common.Ev, d digest.Digest) {
	ev["hasdigest"] = true
	ev["hash"] = d.GetHashString()
	ev["dsize"] = int(d.GetSizeBytes())
	ev["dfok"] = d.UsesDigestFunction(functionOf(o.df))
	pre, known := preimage(o.df, d.GetHashString())
	ev["pre"] = pre
	ev["known"] = known
}

// start launches the operation in its own goroutine and waits until
// everything is durably blocked or finished.
func (w *world) start(o *opCtl) {
	w.register(o, nil)
	w.setCurrent(o.id)
	go w.runChain(o)
	w.settle()
}

// register gives the operation its id and logs its call.
func (w *world) register(o, head *opCtl) {
	o.w = w
	o.id = w.nextID
	w.nextID++
	o.head = head
	if o.gated {
		o.gateA = make(chan struct{})
		o.gateB = make(chan struct{})
	}
	o.atGate.Store("")
	if o.from != nil {
		o.ref = o.from.id
	}
	w.ops[o.id] = o
	w.lastOp = o
	w.emit(0, w.callEvent(o))
}

// runChain runs the operation and then, in the same goroutine, the
// operations chained to it. The return of an operation that is followed by
// another one is logged only when the chain has ended or has reached the
// fake CAS (whichever comes first): in between nothing may be logged.
func (w *world) runChain(first *opCtl) {
	for o := first; o != nil; o = o.next {
		w.runOne(o)
	}
}

func (w *world) runOne(o *opCtl) {
	ev := retEvent(o)
	defer func() {
		if r := recover(); r != nil {
			o.log(common.Ev{"ev": "panic", "id": o.id, "op": o.op, "f": fname(o.f), "msg": fmt.Sprint(r)}, false)
			o.st = "PANIC"
		}
		o.done.Store(true)
		if o.next == nil {
			w.mu.Lock()
			if w.current == o.turn() {
				w.current = 0
			}
			w.cond.Broadcast()
			w.mu.Unlock()
		}
	}()
	o.run(ev)
	o.st = ev["st"].(string)
	o.log(ev, o.next != nil)
}

// startChain starts operations that run back to back in one goroutine
// (see opCtl.head). While they run only one processor is used, so that a
// goroutine the first operation wakes up does not run before the chain
// blocks or ends; the real code decides everything else.
func (w *world) startChain(ops ...*opCtl) {
	for i, o := range ops {
		var head *opCtl
		if i > 0 {
			head = ops[0]
		}
		w.register(o, head)
		if i > 0 {
			ops[i-1].next = o
		}
	}
	w.setCurrent(ops[0].id)
	prev := runtime.GOMAXPROCS(1)
	go w.runChain(ops[0])
	w.settle()
	runtime.GOMAXPROCS(prev)
}

// releaseChain opens the gate an upload is waiting at and lets further
// operations follow in the upload's goroutine as soon as it has returned.
func (w *world) releaseChain(u *opCtl, succ ...*opCtl) {
	stage := u.gate()
	w.emit(0, common.Ev{"ev": "release", "id": u.id, "stage": stage})
	last := u
	for _, o := range succ {
		w.register(o, u.headOp())
		last.next = o
		last = o
	}
	w.setCurrent(u.turn())
	prev := runtime.GOMAXPROCS(1)
	if stage == "A" {
		close(u.gateA)
	} else {
		close(u.gateB)
	}
	w.settle()
	runtime.GOMAXPROCS(prev)
}

// settle waits for quiescence, lets deferred events out, and logs the
// quiescent snapshot.
func (w *world) settle() {
	synctest.Wait()
	progress.Add(1)
	w.setCurrent(0)
	synctest.Wait()
	progress.Add(1)
	w.reap()
	w.quiesce()
}

// reap updates the driver's own bookkeeping from finished operations.
// The bookkeeping only serves to generate legal calls.
func (w *world) reap() {
	for id := 1; id < w.nextID; id++ {
		o, present := w.ops[id]
		if !present || !o.done.Load() {
			continue
		}
		fc := w.files[o.f]
		delete(w.ops, id)
		if o.fd != nil {
			o.fd.busy = false
		}
		if o.reader != nil {
			o.reader.busy = false
		}
		if o.pinnedLink {
			fc.pinned--
		}
		ok := o.st == "OK"
		switch o.op {
		case "create":
			if ok {
				fc.links = 1
				if o.mask != "" {
					fc.fds = append(fc.fds, &fdCtl{mask: o.mask})
				}
			}
		case "open":
			if ok {
				fc.fds = append(fc.fds, &fdCtl{mask: o.mask})
			}
		case "close":
			for i, fd := range fc.fds {
				if fd == o.fd {
					fc.fds = append(fc.fds[:i:i], fc.fds[i+1:]...)
					break
				}
			}
		case "link":
			if ok {
				fc.links++
			}
		case "unlink":
			fc.links--
		case "fopen":
			if ok && o.opened != nil {
				w.readers = append(w.readers, &readerCtl{r: o.opened, f: o.f, id: o.id})
			}
		case "fclose":
			for i, r := range w.readers {
				if r == o.reader {
					w.readers = append(w.readers[:i:i], w.readers[i+1:]...)
					break
				}
			}
		}
	}
}

// quiesce logs which operations are still pending and the raw counters
// of every file.
func (w *world) quiesce() {
	pending := []map[string]any{}
	for id := 1; id < w.nextID; id++ {
		if o, ok := w.ops[id]; ok {
			pending = append(pending, map[string]any{"id": id, "gate": o.gate() != ""})
		}
	}
	hook := []map[string]any{}
	for i := 0; i < maxFiles; i++ {
		h := map[string]any{"f": fname(i), "found": false, "locked": false, "refs": 0, "writers": 0,
			"frozen": 0, "size": 0, "cached": false, "released": false, "links": 0}
		if fc := w.files[i]; fc != nil && fc.leaf != nil {
			s := virtual.VerifPoolFileStateOf(fc.leaf)
			h["found"] = s.Found
			h["locked"] = s.Locked
			h["refs"] = int(s.ReferenceCount)
			h["writers"] = int(s.WritableDescriptorsCount)
			h["frozen"] = int(s.FrozenDescriptorsCount)
			h["size"] = int(s.Size)
			h["cached"] = s.CachedDigestValid
			h["released"] = s.FileReleased
			if s.Found && !s.Locked {
				var out virtual.Attributes
				fc.leaf.VirtualGetAttributes(context.Background(), virtual.AttributesMaskLinkCount, &out)
				h["links"] = int(out.GetLinkCount())
			}
		}
		hook = append(hook, h)
	}
	w.emit(0, common.Ev{"ev": "quiesce", "pending": pending, "hook": hook})
}

// release opens the gate an upload is waiting at.
func (w *world) release(o *opCtl) {
	stage := o.gate()
	w.emit(0, common.Ev{"ev": "release", "id": o.id, "stage": stage})
	w.setCurrent(o.turn())
	if stage == "A" {
		close(o.gateA)
	} else {
		close(o.gateB)
	}
	w.settle()
}

// fireDelay lets the maximum writable-file upload delay expire.
func (w *world) fireDelay() {
	w.emit(0, common.Ev{"ev": "delay_fire"})
	w.delayFired = true
	time.Sleep(uploadDelay + time.Second)
	w.settle()
}

// injectReadFault makes the next read of the pool file fail.
func (w *world) injectReadFault(f int) {
	w.mu.Lock()
	w.files[f].pf.failReads = 1
	w.emitLocked(common.Ev{"ev": "fault", "f": fname(f)})
	w.mu.Unlock()
}

// Watchdog. A call that spins inside the real code (or blocks on a mutex)
// never lets the bubble become quiescent, and cannot be interrupted. A
// goroutine outside the bubble watches the progress counter. Real
// (wall-clock) time decides nothing about the real code: on a busy machine
// a healthy run may make no progress for minutes. A "hang" event is logged
// only on a fact that does not depend on how fast the machine is:
//
//   - spin: since the last progress this process has CONSUMED more than
//     VERIF_C16_HANG_CPU_SECS seconds of CPU time (a step costs
//     milliseconds of CPU; a starved process does not accumulate CPU
//     time, a spinning call does), or
//   - lock: in several consecutive goroutine dumps no goroutine but the
//     watchdog is running, runnable or in a system call, and at least one
//     is waiting for a sync.Mutex/RWMutex: nobody is left who could ever
//     release it.
//
// The trace is then flushed and the process ends with exit code 3; the
// trace specification decides what the hang means. If neither fact holds
// but nothing happened for VERIF_C16_STALL_SECS seconds of real time, the
// process ends with exit code 4 WITHOUT a hang event: the check reports
// an infrastructure failure (exit 2), never a violation.
var progress atomic.Int64

const (
	hangExitCode  = 3
	stallExitCode = 4
)

func cpuSeconds() float64 {
	var ru syscall.Rusage
	if err := syscall.Getrusage(syscall.RUSAGE_SELF, &ru); err != nil {
		return 0
	}
	tv := func(t syscall.Timeval) float64 { return float64(t.Sec) + float64(t.Usec)/1e6 }
	return tv(ru.Utime) + tv(ru.Stime)
}

var goroutineHeader = regexp.MustCompile(`(?m)^goroutine \d+ \[([^\]]*)\]:`)

// lockedForGood: no goroutine other than the caller can run, and one of
// them waits for a mutex.
func lockedForGood() bool {
	buf := make([]byte, 4<<20)
	buf = buf[:runtime.Stack(buf, true)]
	hs := goroutineHeader.FindAllSubmatch(buf, -1)
	if len(hs) < 2 {
		return false
	}
	waiter := false
	for _, h := range hs[1:] { // the first goroutine of the dump is the caller
		state := strings.TrimSpace(strings.SplitN(string(h[1]), ",", 2)[0])
		switch {
		case state == "running" || state == "runnable" || state == "syscall" || state == "sleep" || state == "IO wait":
			return false // somebody can still act (or will, in real time)
		case strings.HasPrefix(state, "sync.Mutex.Lock") || strings.HasPrefix(state, "sync.RWMutex."):
			waiter = true
		}
	}
	return waiter
}

func startWatchdog(tr *common.Trace) (stop func()) {
	cpuLimit := float64(common.EnvInt("VERIF_C16_HANG_CPU_SECS", 30))
	stallLimit := time.Duration(common.EnvInt("VERIF_C16_STALL_SECS", 1500)) * time.Second
	const lockSamplesNeeded = 5
	done := make(chan struct{})
	go func() {
		last := progress.Load()
		lastChange, lastCPU := time.Now(), cpuSeconds()
		lockSamples := 0
		tick := time.NewTicker(time.Second)
		defer tick.Stop()
		hang := func(why string) {
			if tr != nil {
				tr.Emit(common.Ev{"ev": "hang", "why": why, "cl": []int{0, 0}, "uac": 0})
				tr.Close()
			}
			fmt.Fprintln(os.Stderr, "verif: the step did not become quiescent ("+why+"); see the hang event")
			os.Exit(hangExitCode)
		}
		for {
			select {
			case <-done:
				return
			case <-tick.C:
				if cur := progress.Load(); cur != last {
					last, lastChange, lastCPU, lockSamples = cur, time.Now(), cpuSeconds(), 0
					continue
				}
				if cpuSeconds()-lastCPU > cpuLimit {
					hang("spin")
				}
				if lockedForGood() {
					if lockSamples++; lockSamples >= lockSamplesNeeded && progress.Load() == last {
						hang("lock")
					}
				} else {
					lockSamples = 0
				}
				if time.Since(lastChange) > stallLimit {
					// Real time alone: not a fact about the real code.
					if tr != nil {
						tr.Close()
					}
					fmt.Fprintln(os.Stderr, "verif: no progress for a long (real) time, but the process neither burns CPU nor is deadlocked on a lock: infrastructure")
					os.Exit(stallExitCode)
				}
			}
		}
	}()
	return func() { close(done) }
}

// runTrace runs body inside a fresh bubble and world, followed by the
// drain that releases every reference the driver holds.
func runTrace(t *testing.T, tr *common.Trace, trace int, alloc string, dirMode bool, nfiles int, body func(w *world)) (events int) {
	defer func() {
		// A goroutine that is parked for good inside the real code
		// (reported as "stuck" in the trace) makes the bubble end with
		// a deadlock panic; the trace already says so.
		if r := recover(); r != nil {
			if s := fmt.Sprint(r); len(s) < 8 || s[:8] != "deadlock" {
				panic(r)
			}
		}
	}()
	synctest.Test(t, func(t *testing.T) {
		w := newWorld(tr, alloc, dirMode)
		for i := 0; i < maxFiles; i++ {
			w.files[i] = &fileCtl{}
		}
		mode := "leaf"
		if dirMode {
			mode = "dir"
		}
		w.emit(0, common.Ev{"ev": "reset", "trace": trace, "alloc": alloc, "mode": mode, "nfiles": nfiles})
		body(w)
		w.drain()
		events = w.events
	})
	return events
}

// drain ends a trace: expire the delay, open all gates, close frozen
// readers, then give up every descriptor and link. Whatever is still
// pending afterwards is reported as stuck.
func (w *world) drain() {
	for guard := 0; guard < 100; guard++ {
		progressed := false
		if !w.delayFired {
			for _, o := range w.ops {
				if (o.op == "upload" || o.op == "fopen") && o.gate() == "" {
					w.fireDelay()
					progressed = true
					break
				}
			}
		}
		for id := 1; id < w.nextID && !progressed; id++ {
			if o, ok := w.ops[id]; ok && o.gate() != "" {
				w.release(o)
				progressed = true
			}
		}
		if !progressed && len(w.readers) > 0 && !w.readers[0].busy {
			r := w.readers[0]
			r.busy = true
			w.start(&opCtl{op: "fclose", f: r.f, ref: r.id, reader: r})
			progressed = true
		}
		if !progressed {
			break
		}
	}
	for i := 0; i < maxFiles; i++ {
		fc := w.files[i]
		if fc.leaf == nil {
			continue
		}
		for len(fc.fds) > 0 && !fc.fds[0].busy {
			fd := fc.fds[0]
			fd.busy = true
			n := len(fc.fds)
			w.start(&opCtl{op: "close", f: i, mask: fd.mask, fd: fd})
			if len(fc.fds) == n {
				break // close did not return
			}
		}
		for fc.links > 0 && fc.pinned == 0 {
			n := fc.links
			w.start(&opCtl{op: "unlink", f: i})
			if fc.links == n {
				break
			}
		}
	}
	for id := 1; id < w.nextID; id++ {
		if o, ok := w.ops[id]; ok {
			w.emit(0, common.Ev{"ev": "stuck", "id": id, "op": o.op, "f": fname(o.f)})
		}
	}
	w.emit(0, common.Ev{"ev": "end"})
	w.delayCancel()
}
