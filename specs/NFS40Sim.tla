------------------------------ MODULE NFS40Sim ------------------------------
(* Behaviour generator: `tlc -simulate` walks the model NFS40.tla and every  *)
(* walk of SimDepth steps is written to beh_<n>.ndjson.  harness/nfs40      *)
(* (TestReplay) replays the requests on the real server; the recorded trace *)
(* is validated by NFS40Trace.tla like any other.                           *)
EXTENDS NFS40MC, Json

CONSTANT SimDepth
VARIABLE hist

simvars == <<s, last, hist>>

AllOps == {"SETCLIENTID", "SETCLIENTID_CONFIRM", "RENEW", "OPEN", "OPEN_PREV", "OPEN_CONFIRM", "OPEN_DOWNGRADE",
           "CLOSE", "LOCK", "LOCKU", "LOCKT", "RELEASE_LOCKOWNER", "READ", "WRITE", "REMOVE", "RENAME", "PUTFH"}
AllHows == {"NOCREATE", "UNCHECKED", "GUARDED"}
RW == {"READ", "WRITE"}

Event(x) ==
  [k |-> x.kind, req |-> x.req,
   id |-> IF x.kind = "ioend" THEN x.req.st ELSE 0,
   d |-> IF x.kind = "tick" THEN x.req.seq ELSE 0]

\* One random request per kind of operation, so that a walk is not
\* dominated by the kinds that have the most variants.
KindSets(st) ==
  <<ReqOpen(st), ReqOpen(st), ReqOpenPrev(st),
    ReqOpenSid(st, "OPEN_CONFIRM"), ReqOpenSid(st, "OPEN_CONFIRM"), ReqOpenSid(st, "OPEN_CONFIRM"),
    ReqDowngrade(st), ReqOpenSid(st, "CLOSE"),
    ReqLockNew(st), ReqLockNew(st), ReqLockSid(st, "LOCK"), ReqLockSid(st, "LOCK"), ReqLockSid(st, "LOCKU"),
    ReqLockt(st), ReqRelease(st), ReqIO(st), ReqIO(st),
    ReqSetclientid(st) \cup ReqConfirm(st) \cup ReqRenew(st) \cup ReqRemove(st) \cup ReqRename(st) \cup ReqPutfh(st)>>

SimStep ==
  LET K == KindSets(s) IN
  \E i \in 1 .. Len(K) : K[i] # {} /\ LET r == RandomElement(K[i]) IN ~Blocked(s, r) /\ StepWith(CHOOSE a \in Alts(r) : TRUE)

\* I/O, or a reclaim-type OPEN, that is held in flight (one OPEN at a time;
\* one random request per kind, as above).
OpenGateSet(st) == IF \E i \in DOMAIN st.io : st.io[i].kind = "open" THEN {} ELSE ReqOpenGate(st)
SimGated ==
  /\ Card(DOMAIN s.io) < MaxIO
  /\ LET K == <<ReqIO(s), ReqIO(s), OpenGateSet(s), OpenGateSet(s), OpenGateSet(s)>> IN
     \E i \in 1 .. Len(K) : K[i] # {} /\ LET r == RandomElement(K[i]) IN ~Blocked(s, r) /\ GatedWith(r)

SimInit == Init /\ hist = << >>
SimTick ==
  LET d == <<1, 1, 2, 3, 11>>[RandomElement(1 .. 5)] IN
  /\ s' = Tick(s, d)
  /\ last' = [kind |-> "tick", req |-> [Blank("TICK") EXCEPT !.seq = d], rep |-> BlankRep, ctx |-> "none"]

SimNext == (SimStep \/ SimGated \/ GatedEnd \/ SimTick) /\ hist' = Append(hist, Event(last'))
SimSpec == SimInit /\ [][SimNext]_simvars

Dump ==
  Len(hist) < SimDepth
  \/ ndJsonSerialize("beh_" \o ToString(TLCGet("stats").traces) \o ".ndjson", hist)
=============================================================================
