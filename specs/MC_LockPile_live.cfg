SPECIFICATION FairSpec
CONSTANTS
  Threads = {t1, t2}
  Locks = {l1, l2}
  None = None
  MaxReq = 2
  MaxRec = 0
  Budget = 1
  Multi = {t1}
INVARIANTS
  TypeOK
  C14_NoHoldAndWait
PROPERTIES
  C14_CallsReturn
CHECK_DEADLOCK TRUE
