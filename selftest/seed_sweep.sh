#!/bin/bash
# selftest/seed_sweep.sh <seeds...>: quick tier of every registered property for each seed; summary in /tmp/sweep.log
ids=$(python3 -c "import json; print(' '.join(c['property_id'] for c in json.load(open('/verif/MANIFEST.json'))['checks']))")
for seed in "$@"; do
  for id in $ids; do
    out=$(cd /verif && VERIF_SEED=$seed bin/check $id 2>&1); rc=$?
    echo "seed=$seed $id rc=$rc $(echo "$out" | grep -E '^(OK|VIOLATION|INCONCLUSIVE|KNOWN)' | cut -c1-200 | tr '\n' ' ')" >> /tmp/sweep.log
    if [ $rc -ne 0 ]; then echo "$out" > /tmp/sweep-fail-$id-seed$seed.log; fi
  done
done
echo SWEEP-DONE >> /tmp/sweep.log
