"""Common machinery for /verif checks: building Go drivers against /repo,
running TLC, validating recorded traces, writing evidence, verdicts.

Verdict policy (DESIGN.md 1.1):
  exit 0  property held on everything explored
  exit 1  + line "VIOLATION property=<id> replay=<path>": a predicate of the
          specification failed on states/replies observed from the real code
  exit 2  infrastructure problem (never a verdict)
"""
import json
import os
import re
import shutil
import subprocess
import sys
import tempfile
import time

VERIF = os.path.dirname(os.path.dirname(os.path.abspath(__file__)))
REPO = os.environ.get("VERIF_REPO", "/repo")
SPECS = os.path.join(VERIF, "specs")
HARNESS = os.path.join(VERIF, "harness")
EVIDENCE = os.path.join(VERIF, "evidence") if REPO == "/repo" else os.path.join(tempfile.gettempdir(), "verif-evidence-" + re.sub(r"\W+", "_", REPO))
REPLAYS = os.path.join(EVIDENCE, "replays")
BINCACHE = os.path.join(VERIF, ".build")
KNOWN = os.path.join(VERIF, "known_findings.jsonl")

GO = "go1.26.8"
GOENV = {
    "GOFLAGS": "-mod=mod",
    "GOPROXY": "off",
    "GOSUMDB": "off",
    "GOTOOLCHAIN": "local",
}


class Infra(Exception):
    """Infrastructure failure: exit 2, never a violation."""


def log(*a):
    print(*a, flush=True)


class Ctx:
    """State of one check run."""

    def __init__(self, prop, tier, seed):
        self.prop = prop
        self.tier = tier
        self.seed = seed
        self.t0 = time.time()
        self.scratch = tempfile.mkdtemp(prefix="verif-%s-" % prop)
        self.violations = []      # list of dicts {reason, replay}
        self.known_hits = []
        self.cov = {
            "states": 0,
            "transitions": 0,
            "traces_validated_against_impl": 0,
            "samples": [],
            "tlc_runs": [],
            "nonconformances": 0,
        }
        self.assumptions = []
        self.is_replay = False

    def sub(self, name):
        d = os.path.join(self.scratch, name)
        os.makedirs(d, exist_ok=True)
        return d

    def quick(self):
        return self.tier == "quick"

    def cleanup(self):
        shutil.rmtree(self.scratch, ignore_errors=True)


# --------------------------------------------------------------------------
# Go

def harness_prepare(ctx):
    """Return the harness directory to build in.  For the default REPO this
    is /verif/harness (go.sum copied from REPO if missing); for another
    VERIF_REPO (mutation testing on a scratch copy) a private copy of the
    harness with a rewritten replace directive is used."""
    if REPO == "/repo":
        gosum = os.path.join(HARNESS, "go.sum")
        if not os.path.exists(gosum):
            shutil.copy(os.path.join(REPO, "go.sum"), gosum)
        return HARNESS
    h = os.path.join(ctx.scratch, "harness")
    if not os.path.exists(h):
        shutil.copytree(HARNESS, h)
        gomod = os.path.join(h, "go.mod")
        src = open(gomod).read()
        src = re.sub(r"(replace github.com/buildbarn/bb-remote-execution => )\S+",
                     r"\g<1>" + REPO, src)
        open(gomod, "w").write(src)
        shutil.copy(os.path.join(REPO, "go.sum"), os.path.join(h, "go.sum"))
    return h


def go_env():
    env = dict(os.environ)
    env.update(GOENV)
    return env


def go_build_test(ctx, pkg, timeout=1500):
    """go test -c -tags verif ./pkg against REPO's working tree."""
    hdir = harness_prepare(ctx)
    out = os.path.join(ctx.sub("bin"), pkg.replace("/", "_") + ".test")
    cmd = [GO, "test", "-c", "-tags", "verif", "-o", out, "./" + pkg]
    t = time.time()
    try:
        p = subprocess.run(cmd, cwd=hdir, env=go_env(), capture_output=True,
                           text=True, timeout=timeout)
    except subprocess.TimeoutExpired:
        raise Infra("go build of %s timed out" % pkg)
    if p.returncode != 0:
        raise Infra("harness %s does not build against %s:\n%s" % (pkg, REPO, p.stdout + p.stderr))
    log("built %s in %.1fs" % (pkg, time.time() - t))
    return out


def run_driver(binary, test, outdir, seed, env=None, timeout=1200, extra_args=()):
    """Run one driver test function; returns (returncode, output)."""
    e = go_env()
    e["VERIF_OUT"] = outdir
    e["VERIF_SEED"] = str(seed)
    if env:
        e.update({k: str(v) for k, v in env.items()})
    cmd = [binary, "-test.run", "^%s$" % test, "-test.timeout", "%ds" % timeout,
           "-test.count=1"] + list(extra_args)
    try:
        p = subprocess.run(cmd, cwd=outdir, env=e, capture_output=True, text=True,
                           timeout=timeout + 60)
    except subprocess.TimeoutExpired:
        raise Infra("driver %s %s timed out" % (binary, test))
    return p.returncode, p.stdout + p.stderr


# --------------------------------------------------------------------------
# TLC

class TLCResult:
    def __init__(self):
        self.ok = False
        self.generated = 0
        self.distinct = 0
        self.violated = None      # name of violated invariant/property
        self.error = None         # other error text
        self.last_l = None        # value of `l` in the last printed state
        self.prints = []          # PrintT outputs
        self.last_state = ""      # text of the last state of the error trace
        self.verdict = None       # value of `verdict` in that state
        self.fails = []           # [(label, line)] when the trace spec collects all failures
        self.output = ""
        self.wall = 0.0
        self.coverage = {}


DEFAULT_WORKERS = os.environ.get("VERIF_TLC_WORKERS", "4")


def tlc_run(workdir, module, cfg, workers=None, timeout=600, simulate=None,
            depth=None, seed=None, coverage=False, deque=False, heap=None,
            extra=()):
    """Run TLC in workdir (which must contain the spec files)."""
    if workers in (None, "auto"):
        workers = DEFAULT_WORKERS
    meta = tempfile.mkdtemp(prefix="meta-", dir=workdir)
    java_opts = ["-XX:+UseParallelGC", "-XX:ParallelGCThreads=2"]
    if heap:
        java_opts.append("-Xmx%s" % heap)
    java_opts.append("-Xss64m")
    if deque:
        java_opts.append("-Dtlc2.tool.queue.IStateQueue=StateDeque")
    cmd = ["java"] + java_opts + [
        "-cp", "/opt/veriftools/tla/tla2tools.jar:/opt/veriftools/tla/CommunityModules-deps.jar",
        "tlc2.TLC", "-workers", str(workers), "-metadir", meta, "-config", cfg,
        "-noGenerateSpecTE"]
    if simulate:
        cmd += ["-simulate", simulate]
    if depth:
        cmd += ["-depth", str(depth)]
    if seed is not None:
        cmd += ["-seed", str(seed)]
    if coverage:
        cmd += ["-coverage", "1"]
    cmd += list(extra)
    cmd.append(module)
    r = TLCResult()
    t = time.time()
    try:
        p = subprocess.run(cmd, cwd=workdir, capture_output=True, text=True,
                           timeout=timeout)
        out = p.stdout + p.stderr
        rc = p.returncode
    except subprocess.TimeoutExpired as ex:
        out = (ex.stdout or b"").decode("utf8", "replace") if isinstance(ex.stdout, bytes) else (ex.stdout or "")
        r.output = out
        r.wall = time.time() - t
        r.error = "timeout after %ds" % timeout
        shutil.rmtree(meta, ignore_errors=True)
        return r
    finally:
        pass
    shutil.rmtree(meta, ignore_errors=True)
    r.wall = time.time() - t
    r.output = out
    m = re.search(r"(\d[\d,]*) states generated, (\d[\d,]*) distinct states found", out)
    if m:
        r.generated = int(m.group(1).replace(",", ""))
        r.distinct = int(m.group(2).replace(",", ""))
    m = re.search(r"Error: Invariant (\S+) is violated", out)
    if m:
        r.violated = m.group(1)
    m2 = re.search(r"Error: Action property (\S+) is violated", out)
    if m2:
        r.violated = m2.group(1)
    m3 = re.search(r"Error: Temporal properties were violated", out)
    if m3:
        r.violated = "temporal"
    if re.search(r"Error: Deadlock reached", out):
        r.violated = "deadlock"
    ls = re.findall(r"^/\\ l = (\d+)$", out, re.M)
    if ls:
        r.last_l = int(ls[-1])
    states = re.split(r"^State \d+: .*$", out, flags=re.M)
    if len(states) > 1:
        r.last_state = states[-1].strip()
        mv = re.search(r'/\\ verdict = "([^"]*)"', r.last_state)
        r.verdict = mv.group(1) if mv else None
        # trace specifications that collect every failing predicate of a
        # trace (verdict "MULTI") keep them in `fails`: label -> line
        mf = re.search(r'/\\ fails = (.*?)(?=\n/\\ |\Z)', r.last_state, re.S)
        r.fails = [(lab, int(n)) for lab, n in re.findall(r'"([^"]+)" :> (\d+)', mf.group(1))] if mf else []
    r.prints = re.findall(r"^<<.*>>$", out, re.M)
    if r.violated is None:
        if "Model checking completed. No error has been found." in out or \
           (simulate and rc == 0):
            r.ok = True
        else:
            errs = re.findall(r"^Error: .*$", out, re.M)
            # include some context for evaluation errors
            r.error = ("; ".join(errs) if errs else "TLC exit %d" % rc) + "\n" + out[-3000:]
    return r


def copy_specs(workdir, names):
    for n in names:
        shutil.copy(os.path.join(SPECS, n), os.path.join(workdir, n))


def design_check(ctx, module, cfg, deps, timeout=900, workers=None, label=None,
                 coverage=False, heap=None):
    """Exhaustive TLC run of a bounded configuration of the specification.
    A failure here is a problem in the *specification* (exit 2), never a
    verdict about the code."""
    wd = ctx.sub("mc_" + cfg.replace(".cfg", ""))
    copy_specs(wd, deps + [module, cfg])
    r = tlc_run(wd, module, cfg, workers=workers, timeout=timeout, coverage=coverage, heap=heap)
    info = {"cfg": cfg, "generated": r.generated, "distinct": r.distinct,
            "wall_s": round(r.wall, 1), "ok": r.ok}
    ctx.cov["tlc_runs"].append(info)
    ctx.cov["states"] += r.distinct
    ctx.cov["transitions"] += r.generated
    log("TLC %s: %d generated / %d distinct in %.1fs ok=%s" % (label or cfg, r.generated, r.distinct, r.wall, r.ok))
    if not r.ok:
        raise Infra("design check %s failed in the specification itself (%s):\n%s"
                    % (cfg, r.violated or r.error, r.output[-3000:]))
    return r


# --------------------------------------------------------------------------
# Trace validation

def read_lines(path):
    with open(path) as f:
        return f.read().splitlines()


def split_traces(lines):
    """Return list of (first_index, last_index) 0-based inclusive, one per
    trace; a trace starts at a line whose ev is "reset"."""
    starts = [i for i, ln in enumerate(lines) if '"ev":"reset"' in ln or '"ev":"jump"' in ln]
    if not starts or starts[0] != 0:
        starts = [0] + starts
    out = []
    for k, s in enumerate(starts):
        e = (starts[k + 1] - 1) if k + 1 < len(starts) else len(lines) - 1
        out.append((s, e))
    return out


def save_replay(ctx, name, lines, info):
    os.makedirs(REPLAYS, exist_ok=True)
    p = os.path.join(REPLAYS, "%s_%s_seed%d_%s.ndjson" % (getattr(ctx, "family", None) or ctx.prop, ctx.tier, ctx.seed, name))
    with open(p, "w") as f:
        f.write("\n".join(lines) + "\n")
    with open(p + ".info.json", "w") as f:
        json.dump(info, f, indent=1)
    return p


def validate_traces(ctx, trace_path, module, cfg, deps, label, timeout=900,
                    max_failures=8, classify=None, deque=False, tracefile="trace.ndjson",
                    workers=1, hide_events=None):
    """Validate a (concatenated) NDJSON trace with a trace specification.

    The trace specification consumes every line and sets `verdict`; an
    invariant violation at line l identifies the failing trace, which is saved
    as a replay and removed, after which the rest is validated again.

    classify(reason, invariant, failing_line_obj, trace_lines) -> ("violation"|"nonconformance"|"known:<text>")
    """
    lines = [ln for ln in read_lines(trace_path) if ln.strip()]
    if not lines:
        raise Infra("driver for %s produced an empty trace" % label)
    total_traces = len(split_traces(lines))
    wd = ctx.sub("tv_" + label)
    copy_specs(wd, deps + [module, cfg])
    failures = 0
    validated_events = 0
    while True:
        with open(os.path.join(wd, tracefile), "w") as f:
            f.write("\n".join(lines) + "\n")
        r = tlc_run(wd, module, cfg, workers=workers, timeout=timeout, deque=deque)
        ctx.cov["tlc_runs"].append({"cfg": cfg, "label": label, "events": len(lines),
                                    "generated": r.generated, "wall_s": round(r.wall, 1),
                                    "violated": r.violated})
        if r.ok:
            acc = [p for p in r.prints if "TRACE_ACCEPTED" in p]
            if not acc:
                raise Infra("trace validation %s finished without acceptance marker:\n%s" % (label, r.output[-2000:]))
            for p in r.prints:
                m = re.match(r'<<"NONCONF", (\d+)>>', p)
                if m:
                    ctx.cov["nonconformances"] += int(m.group(1))
                m = re.match(r'<<"STATS", "(.*)">>$', p)
                if m:
                    try:
                        st = json.loads(m.group(1).replace('\\"', '"'))
                        acc = ctx.cov.setdefault("exercised", {})
                        for k, v in st.items():
                            acc[k] = acc.get(k, 0) + v
                    except Exception:
                        pass
            validated_events = len(lines)
            break
        if r.violated is None:
            raise Infra("trace validation %s: TLC error: %s" % (label, r.error))
        if r.violated in ("Accepted", "TraceAccepted") or r.last_l is None:
            raise Infra("trace validation %s: could not locate failing line (%s)\n%s" % (label, r.violated, r.output[-3000:]))
        # l in the failing state is the index of the *next* line, so the line
        # that produced the bad state is l-1 (1-based) = index l-2.
        bad = r.last_l - 2
        if bad < 0:
            bad = 0
        traces = split_traces(lines)
        idx = next(k for k, (s, e) in enumerate(traces) if s <= bad <= e)
        s, e = traces[idx]
        # one entry per failed predicate: (reason, index of the line it failed at)
        if r.verdict == "MULTI" and r.fails:
            entries = sorted(((lab, max(s, min(e, n - 1))) for lab, n in r.fails), key=lambda x: x[1])
        else:
            reason = r.verdict
            if reason in (None, "ok"):
                reason = "invariant:" + r.violated
            entries = [(reason, bad)]
        saved = None
        for reason, at in entries:
            tl = lines[s:at + 1]
            try:
                failing = json.loads(lines[at])
            except Exception:
                failing = {}
            kind = "violation"
            if classify:
                kind = classify(reason, r.violated, failing, tl)
            info = {"property": ctx.prop, "reason": reason, "invariant": r.violated,
                    "failing_line": failing, "label": label, "seed": ctx.seed,
                    "spec": module, "cfg": cfg, "all_failed_predicates": [x[0] for x in entries],
                    "state": r.last_state[-3000:]}
            if kind == "violation":
                if saved is None:
                    saved = save_replay(ctx, "%s_%d" % (label, failures), lines[s:e + 1] if len(entries) > 1 else tl, info)
                ctx.violations.append({"reason": reason, "replay": saved, "line": failing})
                log("  failing trace: %s (line %d of trace, event %s)" % (reason, at - s + 1, json.dumps(failing)[:300]))
            elif kind.startswith("known:"):
                ctx.known_hits.append(kind[6:])
            elif kind == "other":
                log("  NOTE other-property verdict %s (not decided by the %s check) at %s" % (reason, ctx.prop, json.dumps(failing)[:200]))
                ctx.cov.setdefault("other_property_verdicts", 0)
                ctx.cov["other_property_verdicts"] += 1
            else:
                ctx.cov["nonconformances"] += 1
                log("  NONCONFORMANCE property=%s %s at %s" % (ctx.prop, reason, json.dumps(failing)[:200]))
        failures += 1
        # remove the failing trace and validate the rest
        lines = lines[:s] + lines[e + 1:]
        if failures >= max_failures or not lines:
            break
    ctx.cov["traces_validated_against_impl"] += total_traces
    ctx.cov.setdefault("events_validated", 0)
    ctx.cov["events_validated"] += validated_events
    ctx.cov["transitions"] += validated_events
    ctx.cov["states"] += validated_events
    return failures


def classify_for(prop):
    """Standard classification of a failing trace line for a check of
    property `prop`.  Verdict strings are "<PID>:<reason>" where PID is the
    property whose predicate failed, "NC:<reason>" for a non-conformance of
    the model that is not a property failure; invariants are named
    <PID>_<name>.  Unprefixed reasons count for `prop`."""
    def f(reason, invariant, failing, trace_lines):
        if prop == "ALL":
            # family run shared by several properties: record every verdict,
            # the per-property filter is applied afterwards (family_cached)
            return "nonconformance" if reason.startswith("NC:") else "violation"
        k = known_match(prop, reason, failing)
        if k:
            return "known:" + k
        r = reason
        if r.startswith("invariant:"):
            r = r[len("invariant:"):].replace("_", ":", 1)
        if r.startswith("NC:"):
            return "nonconformance"
        if r.startswith("PANIC"):
            return "violation"   # the real code panicked: no property survives that
        m = re.match(r"(C\d\d+):", r)
        if m and m.group(1) != prop:
            return "other"
        return "violation"
    return f


def sample_lines(path, n=6, maxlen=400):
    out = []
    for ln in read_lines(path)[:n]:
        try:
            out.append(json.loads(ln))
        except Exception:
            out.append(ln[:maxlen])
    return out


# --------------------------------------------------------------------------
# Families: several properties decided from the same drivers and traces

def family_cached(ctx, name, key_paths, runner):
    """Run `runner(fctx)` once per (contents of key_paths, seed, tier, REPO) and
    re-use its recorded verdicts for the other properties of the family.

    fctx is a context with prop "ALL" (see classify_for): every verdict is
    recorded with its reason; here the verdicts are filtered for ctx.prop.
    key_paths must include the compiled driver binary, so that the key covers
    every source file of /repo the drivers depend on."""
    import fcntl
    import hashlib
    h = hashlib.sha256()
    for p in key_paths:
        h.update(open(p, "rb").read())
    h.update(("%s|%s|%s|%s" % (name, ctx.seed, ctx.tier, REPO)).encode())
    key = h.hexdigest()[:24]
    cdir = os.path.join(VERIF, ".cache")
    os.makedirs(cdir, exist_ok=True)
    cpath = os.path.join(cdir, "%s_%s.json" % (name, key))
    with open(cpath + ".lock", "w") as lk:
        fcntl.flock(lk, fcntl.LOCK_EX)
        res = None
        if os.path.exists(cpath):
            try:
                res = json.load(open(cpath))
                if not all(os.path.exists(v["replay"]) for v in res["violations"]):
                    res = None
            except Exception:
                res = None
        if res is None:
            fctx = Ctx("ALL", ctx.tier, ctx.seed)
            fctx.family = name
            try:
                extra = runner(fctx)
                res = {"violations": fctx.violations, "cov": fctx.cov, "assumptions": fctx.assumptions, "extra": extra}
                json.dump(res, open(cpath, "w"))
            finally:
                fctx.cleanup()
        else:
            log("%s: re-using the validation of identical binary/specs/seed/tier (%s)" % (name, key))
    classify = classify_for(ctx.prop)
    for k, v in res["cov"].items():
        if isinstance(v, bool):
            ctx.cov[k] = v
        elif isinstance(v, int) and isinstance(ctx.cov.get(k, 0), int):
            ctx.cov[k] = ctx.cov.get(k, 0) + v
        elif isinstance(v, list) and isinstance(ctx.cov.get(k, []), list):
            ctx.cov[k] = ctx.cov.get(k, []) + v
        elif isinstance(v, dict) and isinstance(ctx.cov.get(k, {}), dict):
            d = ctx.cov.setdefault(k, {})
            for kk, vv in v.items():
                d[kk] = d.get(kk, 0) + vv if isinstance(vv, int) and isinstance(d.get(kk, 0), int) else vv
        else:
            ctx.cov[k] = v
    ctx.assumptions += [a for a in res.get("assumptions", []) if a not in ctx.assumptions]
    for v in res["violations"]:
        kind = classify(v["reason"], "VerdictOK", v.get("line", {}), [])
        if kind == "violation":
            ctx.violations.append(v)
        elif kind.startswith("known:"):
            ctx.known_hits.append(kind[6:])
        elif kind == "other":
            ctx.cov["other_property_verdicts"] = ctx.cov.get("other_property_verdicts", 0) + 1
            log("  NOTE other-property verdict %s (not decided by the %s check)" % (v["reason"], ctx.prop))
    return res.get("extra")


# --------------------------------------------------------------------------
# Known findings

def load_known():
    out = []
    if os.path.exists(KNOWN):
        for ln in open(KNOWN):
            ln = ln.strip()
            if ln and not ln.startswith("#"):
                out.append(json.loads(ln))
    return out


def known_match(prop, reason, failing):
    """Return the text of a *known* (not fixed) finding that matches."""
    for k in load_known():
        if k.get("status") != "known" or k.get("property") != prop:
            continue
        m = k.get("match", {})
        if m.get("reason") and m["reason"] != reason:
            continue
        ok = True
        for fk, fv in m.get("line", {}).items():
            if failing.get(fk) != fv:
                ok = False
        if ok:
            return k.get("text", "known finding")
    return None


# --------------------------------------------------------------------------
# Evidence and exit

def finish(ctx, rule, explanation, exhaustive=False, extra=None):
    cov = ctx.cov
    cov["rule"] = rule
    cov["explanation"] = explanation
    cov["exhaustive"] = bool(exhaustive)
    cov["evaluations"] = max(1, cov.get("events_validated", 0) + sum(x.get("generated", 0) for x in cov["tlc_runs"] if "label" not in x))
    cov["distinct_nontrivial"] = max(2, cov["states"])
    if extra:
        cov.update(extra)
    if not cov["samples"]:
        cov["samples"] = ["(no sample recorded)"]
    ev = {
        "property_id": ctx.prop,
        "tier": ctx.tier,
        "seed": ctx.seed,
        "level": "model_checking",
        "coverage": cov,
        "assumptions": ctx.assumptions,
        "wall_s": round(time.time() - ctx.t0, 1),
        "violations": len(ctx.violations),
    }
    cov["states"] = max(1, cov["states"])
    cov["transitions"] = max(1, cov["transitions"])
    os.makedirs(REPLAYS, exist_ok=True)
    target = os.path.join(REPLAYS, ctx.prop + "_last_replay.json") if ctx.is_replay else os.path.join(EVIDENCE, ctx.prop + ".json")
    with open(target, "w") as f:
        json.dump(ev, f, indent=1)
    for k in sorted(set(ctx.known_hits)):
        log("KNOWN-FINDING: property=%s %s" % (ctx.prop, k))
    rc = 0
    for v in ctx.violations:
        log("VIOLATION property=%s replay=%s reason=%s" % (ctx.prop, v["replay"], v["reason"]))
        rc = 1
    if rc == 0:
        log("OK property=%s tier=%s seed=%d states=%d traces=%d wall=%.0fs" % (
            ctx.prop, ctx.tier, ctx.seed, cov["states"], cov["traces_validated_against_impl"], time.time() - ctx.t0))
    ctx.cleanup()
    return rc
