----------------------------- MODULE NFS40Trace -----------------------------
(***************************************************************************)
(* Validates traces recorded from the real NFSv4.0 server (harness/nfs40)  *)
(* against NFS40.tla.  Every line is consumed.  The reference state `s` is *)
(* advanced with the logged request; the logged reply, the open/close      *)
(* counters of the instrumented leaves and the hook snapshot are compared  *)
(* with it.  `verdict` names the property whose predicate failed on the    *)
(* observed data ("C18:..", "C19:..", "C20:..") or "NC:.." when the model   *)
(* cannot explain the step without a property predicate failing.  Exact    *)
(* agreement of bookkeeping that no property speaks about is only counted  *)
(* (nonconf).                                                              *)
(***************************************************************************)
EXTENDS NFS40, Json, TLCExt

TraceLog == ndJsonDeserialize("trace.ndjson")

CONSTANT StrictReplayFh  \* TRUE: a GETFH after a replayed OPEN must see the opened file

VARIABLES l,        \* next line of TraceLog
          verdict,  \* "ok" or "<property>:<reason>" for the last consumed line
          nonconf,  \* lines whose bookkeeping differs from the model (not a property)
          obs,      \* the previous observation [leaf, hook]
          seen      \* reduced reply -> hash of its XDR encoding

tvars == <<s, last, l, verdict, nonconf, obs, seen>>

Line == TraceLog[l]
IsEvent(e) == l <= Len(TraceLog) /\ Line.ev = e /\ l' = l + 1
Range(q) == {q[i] : i \in 1 .. Len(q)}

NoObs == [leaf |-> << >>, hook |-> [oofs |-> << >>, lofs |-> << >>, pool |-> << >>]]

-----------------------------------------------------------------------------
(* Replies.                                                                *)

Proj(r) == [pre |-> r.pre, st |-> r.st, t |-> r.t, q |-> r.q, conf |-> r.conf,
            cid |-> r.cid, verf |-> r.verf, fh |-> r.fh]
Key(ln) == LET r == ln.rep IN
           [op |-> ln.req.op, pre |-> r.pre, st |-> r.st, t |-> r.t, q |-> r.q, conf |-> r.conf,
            cid |-> r.cid, verf |-> r.verf, fh |-> r.fh, den |-> r.den]

SidErrors == {"BAD_STATEID", "OLD_STATEID", "STALE_STATEID", "OPENMODE", "NOFILEHANDLE"}

OkCached(sp) == {x \in CachedReps(sp, 0) : x.st = "OK"}

\* Which clause of which property a differing reply contradicts.
\* sp = state before the request, m = model reply, r = real reply.
Classify(sp, req, m, ctx, r) ==
  IF r = m THEN "ok"
  ELSE IF r.pre # m.pre THEN
         IF m.pre = "OK" /\ req.fh \in DOMAIN sp.held THEN "C18:open-file-not-reachable-by-handle"
         ELSE "NC:file-handle-resolution-differs"
  ELSE IF ctx = "replay" THEN "C19:retransmission-got-different-reply"
  ELSE IF ctx = "falseretry" THEN
         IF r.st = "OK" \/ r \in CachedReps(sp, 0) THEN "C19:differing-request-answered-from-replay-cache"
         ELSE "NC:status-of-false-retry"
  ELSE IF ctx = "misordered" THEN
         IF r.st = "OK" \/ r \in OkCached(sp) THEN "C19:misordered-seqid-accepted"
         ELSE "NC:status-of-misordered-request"
  ELSE IF ctx = "new" /\ r \in OkCached(sp) THEN "C19:new-request-answered-from-replay-cache"
  ELSE IF ctx = "new" /\ r.st = "BAD_SEQID" THEN "C19:in-order-seqid-rejected"
  ELSE IF m.st \in SidErrors /\ r.st = "OK" THEN "C18:state-id-honoured-wrongly"
  ELSE IF req.op \in {"LOCK", "LOCKT"} /\ m.st = "DENIED" /\ r.st = "OK" THEN "C20:conflicting-lock-granted"
  ELSE IF req.op \in {"LOCK", "LOCKT"} /\ m.st = "OK" /\ r.st = "DENIED" THEN "C20:lock-denied-without-conflict"
  ELSE IF req.op = "RELEASE_LOCKOWNER" /\ m.st = "LOCKS_HELD" /\ r.st = "OK" THEN "C20:release-lockowner-with-locks-held"
  ELSE IF req.op = "RELEASE_LOCKOWNER" /\ m.st = "OK" /\ r.st = "LOCKS_HELD" THEN "C20:locks-held-without-locks"
  ELSE IF req.op \in {"LOCK", "LOCKT", "LOCKU"} /\ m.st = "INVAL" /\ r.st = "OK" THEN "C20:invalid-range-accepted"
  ELSE IF req.op \in {"LOCK", "LOCKT", "LOCKU"} /\ m.st = "OK" /\ r.st = "INVAL" THEN "C20:valid-range-rejected"
  ELSE "NC:reply-differs"

\* A denied reply must report a lock that really conflicts: another owner,
\* holding every byte of the reported range with the reported type, the
\* range overlapping the request, one of the two exclusive.
DeniedOK(sp, req, d) ==
  LET e == Expire(sp)
      o == <<d.cid, d.lk>>
  IN /\ req.fh \in DOMAIN e.held
     /\ d.lt \in {"R", "W"} /\ 0 <= d.s /\ d.s < d.e /\ d.e <= NB
     /\ \A b \in d.s .. (d.e - 1) : o \in DOMAIN e.held[req.fh][b] /\ e.held[req.fh][b][o] = d.lt
     /\ \E b \in d.s .. (d.e - 1) : req.s <= b /\ b < RangeEnd(req)
     /\ (d.lt = "W" \/ TableType(req.lt) = "W")

\* The requester of a LOCK is the owner of the state id, not (cid, lk).
Requester(sp, req) ==
  IF req.op = "LOCKT" \/ req.newlo THEN <<req.cid, req.lk>>
  ELSE IF req.st \in DOMAIN sp.lofs THEN <<sp.lofs[req.st].c, sp.lofs[req.st].lk>> ELSE <<0, "">>

DeniedCheck(sp, req, r) ==
  IF r.st = "DENIED" /\ req.op \in {"LOCK", "LOCKT"}
     /\ ~(DeniedOK(sp, req, r.den) /\ <<r.den.cid, r.den.lk>> # Requester(Expire(sp), req))
  THEN "C20:denied-reports-nonconflicting-lock" ELSE "ok"

-----------------------------------------------------------------------------
(* Leaves: C18_Balance on the observed open/close counters.                *)

NotExpirable(st, c) ==
  c \in DOMAIN st.conf /\ (st.conf[c].hold > 0 \/ st.conf[c].seen + Lease >= Max(st.now, st.clock))

\* Opens that a state id or in-flight I/O entitles to for sure: the client's
\* lease cannot have expired and the open-owner is confirmed.
EntitledForSure(st, f, b) ==
  Card({t \in DOMAIN st.oofs :
          /\ st.oofs[t].f = f /\ HasBit(st.oofs[t], b) /\ NotExpirable(st, st.oofs[t].c)
          /\ (st.oofs[t].st = "gone" \/ st.oo[<<st.oofs[t].c, st.oofs[t].ok>>].confirmed)})
  + Card({i \in DOMAIN st.io : st.io[i].kind = "anon" /\ st.io[i].f = f /\ b \in st.io[i].bits})

Diff(lf, b) == IF b = "R" THEN lf[1] - lf[2] ELSE lf[3] - lf[4]

LeafVerdict(st, leaf) ==
  LET F == 1 .. Len(leaf) IN
  IF \E f \in F : \E b \in {"R", "W"} : Diff(leaf[f], b) < 0
    THEN "C18:leaf-closed-more-often-than-opened"
  ELSE IF \E f \in F \cap DOMAIN st.leaf : \E b \in {"R", "W"} : EntitledForSure(st, f, b) > 0 /\ Diff(leaf[f], b) = 0
    THEN "C18:leaf-closed-while-state-id-entitles-to-access"
  ELSE IF \E f \in F \cap DOMAIN st.leaf : \E b \in {"R", "W"} : Entitled(st, f, b) = 0 /\ Diff(leaf[f], b) > 0
    THEN "C18:leaf-left-open-without-entitlement"
  ELSE "ok"

LeafExact(st, leaf) ==
  /\ Len(leaf) = st.nfile
  /\ \A f \in 1 .. Len(leaf) : \A b \in {"R", "W"} : f \in DOMAIN st.leaf /\ Diff(leaf[f], b) = st.leaf[f][b]

-----------------------------------------------------------------------------
(* Hook snapshot.                                                          *)

HookLocks(h) == UNION {{[f |-> p.f, s |-> x.s, e |-> x.e, lt |-> x.lt, cid |-> x.cid, lk |-> x.lk, ptr |-> x.ptr]
                          : x \in Range(p.locks)} : p \in Range(h.pool)}

RECURSIVE SumField(_)
SumField(S) == IF S = {} THEN 0 ELSE LET x == CHOOSE y \in S : TRUE IN x.lc + SumField(S \ {x})

TableOf(L, f) ==
  [b \in Bytes |->
     LET C == {e \in L : e.f = f /\ e.s <= b /\ b < e.e}
         O == {<<e.cid, e.lk>> : e \in C}
     IN [o \in O |-> (CHOOSE e \in C : <<e.cid, e.lk>> = o).lt]]

\* NFS level of C20 on the observed lock tables and lock counts.
HookC20(st, h) ==
  LET L == HookLocks(h)
      lofs == Range(h.lofs)
  IN
  IF \E a, b \in L : (a.cid = b.cid /\ a.lk = b.lk) # (a.ptr = b.ptr)
    THEN "C20:protocol-lock-owner-is-not-one-table-owner"
  ELSE IF \E x \in lofs : x.lc < 0 THEN "C20:negative-lock-count"
  ELSE IF \E x \in lofs :
            LET same == {y \in lofs : y.cid = x.cid /\ y.lk = x.lk /\ y.f = x.f}
                tot  == SumField(same)
            IN tot # Card({e \in L : e.f = x.f /\ e.cid = x.cid /\ e.lk = x.lk})
    THEN "C20:lock-count-differs-from-table-entries"
  ELSE IF \E e \in L : ~\E x \in lofs : x.cid = e.cid /\ x.lk = e.lk /\ x.f = e.f
    THEN "C20:table-entry-without-lock-owner-state"
  ELSE IF \E p \in Range(h.pool) : p.f \in DOMAIN st.held /\ TableOf(L, p.f) # st.held[p.f]
    THEN "C20:lock-table-differs-from-reference"
  ELSE "ok"

\* The model's bookkeeping in the shape of the hook snapshot.
ModelConfs(st) == {[t |-> c, cl |-> st.conf[c].cl, cv |-> st.conf[c].cv, confirmed |-> st.conf[c].confirmed,
                    hold |-> st.conf[c].hold, idle |-> st.conf[c].hold = 0] : c \in DOMAIN st.conf}
ModelOos(st) == {[cid |-> k[1], ok |-> k[2], confirmed |-> st.oo[k].confirmed, lastseq |-> st.oo[k].lastseq,
                  hasresp |-> st.oo[k].resp.op # "none",
                  closedresp |-> st.oo[k].resp.op # "none" /\ st.oo[k].resp.closed # 0,
                  files |-> Card(OofsOf(st, k)), unused |-> st.oo[k].unused >= 0, intxn |-> FALSE]
                   : k \in DOMAIN st.oo}
ModelOofs(st) == {[t |-> t, q |-> st.oofs[t].q, cid |-> st.oofs[t].c, ok |-> st.oofs[t].ok, f |-> st.oofs[t].f,
                   share |-> ShareWire(st.oofs[t].share), r |-> st.oofs[t].r, w |-> st.oofs[t].w]
                    : t \in {x \in DOMAIN st.oofs : st.oofs[x].st # "gone"}}
ModelLos(st) == {[cid |-> k[1], lk |-> k[2], lastseq |-> st.lo[k].lastseq, hasresp |-> st.lo[k].resp.op # "none",
                  files |-> Card(LofsOf(st, k[1], k[2]))] : k \in DOMAIN st.lo}
ModelLofs(st) == {[t |-> t, q |-> st.lofs[t].q, cid |-> st.lofs[t].c, lk |-> st.lofs[t].lk, ot |-> st.lofs[t].ot,
                   f |-> st.oofs[st.lofs[t].ot].f, share |-> ShareWire(st.lofs[t].share), lc |-> st.lofs[t].lc]
                    : t \in DOMAIN st.lofs}
ModelPool(st) == {[f |-> f, use |-> UseCount(st, f)] : f \in DOMAIN st.held}

HookExact(st, h) ==
  /\ Range(h.confs) = ModelConfs(st)
  /\ Range(h.oos) = ModelOos(st)
  /\ Range(h.oofs) = ModelOofs(st)
  /\ Range(h.los) = ModelLos(st)
  /\ Range(h.lofs) = ModelLofs(st)
  /\ {[f |-> p.f, use |-> p.use] : p \in Range(h.pool)} = ModelPool(st)
  /\ h.nidle = Card({c \in DOMAIN st.conf : st.conf[c].hold = 0})
  /\ h.nbykey = Card(DOMAIN st.conf) /\ h.nbyshort = Card(DOMAIN st.conf)
  /\ h.nbyother = Card(ModelOofs(st)) /\ h.nlbyother = Card(DOMAIN st.lofs)
  /\ h.nunused = Card({k \in DOMAIN st.oo : st.oo[k].unused >= 0})

HookEmpty(h) ==
  /\ h.nclients = 0 /\ h.nidle = 0 /\ h.nunused = 0 /\ h.nbyother = 0 /\ h.nlbyother = 0
  /\ h.nbykey = 0 /\ h.nbyshort = 0
  /\ h.confs = << >> /\ h.oos = << >> /\ h.oofs = << >> /\ h.los = << >> /\ h.lofs = << >> /\ h.pool = << >>

\* Client visible part of a snapshot, for "no side effects" checks.
HookVisible(h) == [oofs |-> {x \in Range(h.oofs) : x.share # 0}, lofs |-> Range(h.lofs), locks |-> HookLocks(h)]

-----------------------------------------------------------------------------
(* One lock-owner with lock state on one file through two open-owners: the  *)
(* protocol allows it, but which of the owner's bytes belong to which of    *)
(* the two lock state ids is not defined once ranges merge, so the model    *)
(* cannot prescribe what CLOSE or lease expiry of one of them releases (the *)
(* pinned server panics in that situation, see TestFindings).  From the     *)
(* moment it arises until the end of the history only the clauses that any  *)
(* correct server satisfies are judged: no panic, no leaf closed more often *)
(* than opened, nothing retained after all leases expired.                  *)

Ambiguous(st) ==
  \E x, y \in DOMAIN st.lofs :
    /\ x # y /\ st.lofs[x].c = st.lofs[y].c /\ st.lofs[x].lk = st.lofs[y].lk
    /\ st.oofs[st.lofs[x].ot].f = st.oofs[st.lofs[y].ot].f

Amb == last.kind = "ambiguous"
MarkAmb(st) == last' = IF Amb \/ Ambiguous(st) THEN [last EXCEPT !.kind = "ambiguous"] ELSE last
LeafNeg(leaf) == IF \E f \in 1 .. Len(leaf) : \E b \in {"R", "W"} : Diff(leaf[f], b) < 0
                 THEN "C18:leaf-closed-more-often-than-opened" ELSE "ok"

-----------------------------------------------------------------------------
(* Combined verdict of one observed step.                                  *)

First(vs) == IF \E i \in 1 .. Len(vs) : vs[i] # "ok"
             THEN vs[CHOOSE i \in 1 .. Len(vs) : vs[i] # "ok" /\ \A j \in 1 .. (i - 1) : vs[j] = "ok"]
             ELSE "ok"

\* A request that was rejected because of its seqid, or answered from the
\* replay cache, must not change anything the client can see (when the
\* model says that no lease expired during the request).
EffectsVerdict(sp, ctx, same, ln) ==
  IF /\ ctx \in {"replay", "falseretry", "misordered"} /\ same
     /\ Visible(Expire(sp)) = Visible(sp) /\ DOMAIN Expire(sp).conf = DOMAIN sp.conf
     /\ (ln.leaf # obs.leaf \/ HookVisible(ln.hook) # HookVisible(obs.hook))
  THEN "C19:rejected-or-replayed-request-had-effects" ELSE "ok"

HashVerdict(ctx, ln) ==
  IF ctx = "replay" /\ Key(ln) \in DOMAIN seen /\ seen[Key(ln)] # ln.rep.h
  THEN "C19:retransmission-reply-not-byte-equal"
  ELSE IF ctx = "replay" /\ Key(ln) \notin DOMAIN seen THEN "C19:retransmission-got-different-reply"
  ELSE "ok"

Observe(st, ln) ==
  /\ obs' = [leaf |-> ln.leaf, hook |-> ln.hook]
  /\ nonconf' = IF Amb \/ (LeafExact(st, ln.leaf) /\ HookExact(st, ln.hook)) THEN nonconf ELSE nonconf + 1

Remember(ln) == seen' = IF ln.rep.h # "" THEN Put(seen, Key(ln), ln.rep.h) ELSE seen

-----------------------------------------------------------------------------
TInit == /\ s = InitState(Names) /\ last = NoStep /\ l = 1 /\ verdict = "ok" /\ nonconf = 0
         /\ obs = NoObs /\ seen = EmptyMap

TReset ==
  /\ IsEvent("reset")
  /\ s' = InitState(Names) /\ verdict' = IF Line.lease = Lease /\ Line.nb = NB THEN "ok" ELSE "NC:constants-differ"
  /\ obs' = NoObs /\ seen' = EmptyMap /\ last' = NoStep
  /\ UNCHANGED nonconf

TTick ==
  /\ IsEvent("tick")
  /\ s' = Tick(s, Line.d) /\ verdict' = "ok"
  /\ UNCHANGED <<last, nonconf, obs, seen>>

TVanish ==
  /\ IsEvent("vanish")
  /\ verdict' = "ok"
  /\ UNCHANGED <<s, last, nonconf, obs, seen>>

TOp ==
  /\ IsEvent("op")
  /\ LET req == Line.req
         o   == Do(s, req)
         \* A replayed OPEN leaves the current file handle of the COMPOUND
         \* alone in the real server (a following GETFH does not see the
         \* opened file).  The OPEN result itself is what C19 speaks about,
         \* so unless StrictReplayFh is set this is tolerated.
         lax == o.ctx = "replay" /\ req.op = "OPEN" /\ ~StrictReplayFh
         ln  == IF lax THEN [Line EXCEPT !.rep.fh = o.rep.fh] ELSE Line
         r   == Proj(ln.rep)
         v1  == Classify(s, req, o.rep, o.ctx, r)
     IN /\ s' = o.s
        /\ verdict' = IF Amb THEN LeafNeg(Line.leaf)
                       ELSE First(<<v1, HashVerdict(o.ctx, ln), DeniedCheck(s, req, Line.rep),
                                    EffectsVerdict(s, o.ctx, v1 = "ok", Line),
                                    LeafVerdict(o.s, Line.leaf), HookC20(o.s, Line.hook)>>)
        /\ Observe(o.s, Line) /\ Remember(Line)
        /\ MarkAmb(o.s)

TIOStart ==
  /\ IsEvent("iostart")
  /\ LET req == Line.req
         a   == IF req.fh > 0 /\ ~(req.fh \in DOMAIN s.leaf /\ Resolves(s, req.fh))
                THEN [s |-> s, rep |-> PreErr("STALE"), io |-> [kind |-> "fail"]]
                ELSE IOStart(s, req)
         ok  == req.op \in {"READ", "WRITE", "SETATTR"} /\ a.io.kind # "fail"
         s1  == IF ok THEN [a.s EXCEPT !.io = Put(@, Line.id, a.io)] ELSE s
     IN /\ s' = s1
        /\ verdict' = IF Amb THEN LeafNeg(Line.leaf)
                       ELSE First(<<IF ok THEN "ok"
                                    ELSE IF req.op \in {"READ", "WRITE", "SETATTR"} /\ a.rep.st \in SidErrors
                                         THEN "C18:state-id-honoured-wrongly"
                                    ELSE "NC:request-in-flight-that-the-model-rejects",
                                    LeafVerdict(s1, Line.leaf), HookC20(s1, Line.hook)>>)
        /\ Observe(s1, Line)
  /\ UNCHANGED <<last, seen>>

TIOEnd ==
  /\ IsEvent("ioend")
  /\ LET known == Line.id \in DOMAIN s.io
         s1 == IF known THEN [IOEnd(s, s.io[Line.id]) EXCEPT !.io = Del(@, {Line.id})] ELSE s
         r  == Proj(Line.rep)
         \* a SETATTR without state id that was held inside a leaf which lost
         \* its last reference meanwhile fails (see harness/nfs40/fixture_test.go)
         m  == IF known /\ s.io[Line.id].kind = "plain" /\ s.io[Line.id].f > 0 /\ ~LeafAlive(s, s.io[Line.id].f)
               THEN Err("STALE") ELSE OkRep
     IN /\ s' = s1
        /\ verdict' = IF Amb THEN LeafNeg(Line.leaf)
                       ELSE First(<<IF ~known THEN "NC:completion-of-unknown-request"
                                    ELSE IF r # m THEN "NC:reply-differs" ELSE "ok",
                                    LeafVerdict(s1, Line.leaf), HookC20(s1, Line.hook)>>)
        /\ Observe(s1, Line) /\ Remember(Line)
  /\ UNCHANGED last

\* End of a history: every lease has expired and one more request ran.
TFinal ==
  /\ IsEvent("final")
  /\ verdict' = First(<<IF ~HookEmpty(Line.hook) THEN "C18:state-retained-after-all-leases-expired" ELSE "ok",
                        IF \E f \in 1 .. Len(Line.leaf) : \E b \in {"R", "W"} : Diff(Line.leaf[f], b) # 0
                        THEN "C18:leaf-opens-and-closes-differ-after-all-leases-expired" ELSE "ok",
                        IF ~Amb /\ ~Empty(s) THEN "NC:model-retains-state-at-the-end" ELSE "ok">>)
  /\ UNCHANGED <<s, last, nonconf, obs, seen>>

\* The real code panicked.
TPanic ==
  /\ IsEvent("panic")
  /\ verdict' = IF Line.pk = "lock" THEN "C20:server-panic-in-lock-accounting"
                ELSE "C18:server-panic-in-state-accounting"
  /\ UNCHANGED <<s, last, nonconf, obs, seen>>

TNext == TReset \/ TTick \/ TVanish \/ TOp \/ TIOStart \/ TIOEnd \/ TFinal \/ TPanic

TraceSpec == TInit /\ [][TNext]_tvars

-----------------------------------------------------------------------------
VerdictOK == verdict = "ok"

Accepted ==
  /\ TLCGet("stats").diameter - 1 = Len(TraceLog)
  /\ PrintT(<<"TRACE_ACCEPTED", Len(TraceLog)>>)

NonconfReport == (l <= Len(TraceLog)) \/ PrintT(<<"NONCONF", nonconf>>)
=============================================================================
