SPECIFICATION Spec
CONSTANTS
  Lease = 1
  NB = 2
  Clients = {}
  Verifs = {1}
  OKeys = {"o1"}
  LKeys = {}
  Names = {"a"}
  Ops = {"OPEN", "OPEN_CONFIRM", "OPEN_DOWNGRADE", "CLOSE", "READ"}
  Shares = {1, 3}
  Hows = {"UNCHECKED"}
  SeqDev <- DevNone
  SidDev <- DevNone
  WrongFh = FALSE
  RangeSet <- NoRanges
  LockTypes = {}
  TickSet = {2}
  PreClients = {1, 2}
  GateOpen = "all"
  FirstSeqs <- FirstOne
  LaxSet = {"cache"}
  RejSet = {""}
  AnonOps = {}
  MaxLSeq = 0
  MaxConf = 2
  MaxSid = 2
  MaxFile = 1
  MaxSeq = 3
  MaxClock = 2
  MaxIO = 1
CONSTRAINT Bounded
INVARIANTS
  Inv_C18_Balance
  Inv_C18_Counts
  Inv_C18_Reach
  Inv_C18_Struct
  Inv_C18_Final
  Inv_C20_LockCount
  Inv_C20_Exclusion
PROPERTIES
  Act_C19_Once
  Act_C19_Same
  Act_C19_Misordered
  Act_C19_FalseRetry
  Act_C19_LaxRetry
  Act_C18_StateIds
  Act_C20_Replies
VIEW StateView
CHECK_DEADLOCK FALSE
