"""C07 — temporary wrapper (parts 2 and 3 only); the maintainer replaces it
by the combination with the scheduler part."""
from checks import c07_iscc

run = c07_iscc.run
replay = c07_iscc.replay
