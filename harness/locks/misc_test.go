package locks

// Lock balance of the other lock-taking components named by property
// C14: pool-backed files, OpenedFilesPool, IdleInvoker and the bitmap
// sector allocator. Seeded random call sequences that respect the
// calling conventions; after every call the locks are probed.

import (
	"context"
	"fmt"
	"io"
	"math"
	"testing"
	"time"

	remoteexecution "github.com/bazelbuild/remote-apis/build/bazel/remote/execution/v2"
	"github.com/buildbarn/bb-remote-execution/pkg/cleaner"
	"github.com/buildbarn/bb-remote-execution/pkg/filesystem/pool"
	"github.com/buildbarn/bb-remote-execution/pkg/filesystem/virtual"
	virtual_nfsv4 "github.com/buildbarn/bb-remote-execution/pkg/filesystem/virtual/nfsv4"
	"github.com/buildbarn/bb-remote-execution/pkg/proto/outputpathpersistency"
	"github.com/buildbarn/bb-storage/pkg/blobstore/buffer"
	"github.com/buildbarn/bb-storage/pkg/blobstore/slicing"
	"github.com/buildbarn/bb-storage/pkg/digest"
	"github.com/buildbarn/bb-storage/pkg/filesystem"
	"github.com/buildbarn/go-xdr/pkg/protocols/nfsv4"
	"google.golang.org/grpc/codes"
	"google.golang.org/grpc/status"

	"verif/harness/common"
)

func grpcClass(err error) string {
	if err == nil {
		return "ok"
	}
	return status.Code(err).String()
}

// ---------------------------------------------------------------------------
// Pool-backed files.

// fakeCAS is a BlobAccess whose Put consumes or discards the buffer.
type fakeCAS struct{ fail bool }

func (c *fakeCAS) Get(ctx context.Context, d digest.Digest) buffer.Buffer {
	return buffer.NewBufferFromError(status.Error(codes.NotFound, "fake"))
}

func (c *fakeCAS) GetFromComposite(ctx context.Context, parentDigest, childDigest digest.Digest, slicer slicing.BlobSlicer) buffer.Buffer {
	return buffer.NewBufferFromError(status.Error(codes.NotFound, "fake"))
}

func (c *fakeCAS) Put(ctx context.Context, d digest.Digest, b buffer.Buffer) error {
	if c.fail {
		b.Discard()
		return status.Error(codes.Unavailable, "injected")
	}
	_, err := b.ToByteSlice(1 << 20)
	return err
}

func (c *fakeCAS) FindMissing(ctx context.Context, digests digest.Set) (digest.Set, error) {
	return digest.EmptySet, nil
}

func (c *fakeCAS) GetCapabilities(ctx context.Context, instanceName digest.InstanceName) (*remoteexecution.ServerCapabilities, error) {
	return nil, status.Error(codes.Unimplemented, "fake")
}

var closedChan = func() chan struct{} { c := make(chan struct{}); close(c); return c }()

// fileModel is the driver's bookkeeping needed to respect the calling
// conventions of a file (no reads of a closed file, Close() only of what
// was opened, no writes while a frozen reader exists: those block by
// design until the reader is closed).
type fileModel struct {
	links  int // link count of the handle decorator
	readO  int
	writeO int
	rwO    int
	frozen []filesystem.FileReader
	size   uint64
}

func (m *fileModel) alive() bool { return m.links > 0 || m.readO+m.writeO+m.rwO+len(m.frozen) > 0 }

func TestFileRandom(t *testing.T) {
	traces := common.EnvInt("VERIF_N", 40)
	steps := common.EnvInt("VERIF_STEPS", 80)
	tr := common.NewTrace("trace.ndjson")
	defer tr.Close()
	digestFunction := digest.MustNewFunction("verif", remoteexecution.DigestFunction_SHA256)
	calls := 0
	for i := 0; i < traces && hangCount.Load() < maxHangs; i++ {
		rng := common.Rand(int64(7000 + i))
		e := newEnv(tr)
		tr.Emit(common.Ev{"ev": "reset", "trace": i, "mode": "file"})
		initial := []virtual.ShareMask{0, virtual.ShareMaskRead, virtual.ShareMaskWrite, virtual.ShareMaskRead | virtual.ShareMaskWrite}[rng.Intn(4)]
		leaf, err := e.fileAllocator.NewFile(pool.ZeroHoleSource, rng.Intn(2) == 0, uint64(rng.Intn(40)), initial)
		mustErr(err, "new file")
		e.addLeaf(leaf)
		m := &fileModel{links: 1}
		open := func(share virtual.ShareMask, d int) {
			switch share {
			case virtual.ShareMaskRead:
				m.readO += d
			case virtual.ShareMaskWrite:
				m.writeO += d
			case virtual.ShareMaskRead | virtual.ShareMaskWrite:
				m.rwO += d
			}
		}
		open(initial, 1)
		for j := 0; j < steps; j++ {
			alive := m.alive()
			mutable := alive && len(m.frozen) == 0
			writers := m.writeO + m.rwO
			var o *op
			pick := rng.Intn(24)
			fault := rng.Intn(4) == 0
			variant := fmt.Sprintf("alive=%v;writers=%v;frozen=%v", alive, writers > 0, len(m.frozen) > 0)
			mk := func(call, v string, f func() string) { o = &op{call, v + ";" + variant, f} }
			switch pick {
			case 0:
				mask := []virtual.AttributesMask{maskLocked, maskUnlocked}[rng.Intn(2)]
				mk("VirtualGetAttributes", "", func() string {
					var out virtual.Attributes
					leaf.VirtualGetAttributes(ctxBG, mask, &out)
					return "ok"
				})
			case 1, 2:
				kind := rng.Intn(5)
				if kind == 1 && len(m.frozen) > 0 {
					kind = 0 // would wait for the frozen reader, by design
				}
				size := uint64(rng.Intn(60))
				mk("VirtualSetAttributes", []string{"none", "size", "permissions", "uid", "gid"}[kind], func() string {
					in := &virtual.Attributes{}
					switch kind {
					case 1:
						in.SetSizeBytes(size)
						e.faults.truncate.Store(fault)
					case 2:
						in.SetPermissions(virtual.PermissionsExecute)
					case 3:
						in.SetOwnerUserID(7)
					case 4:
						in.SetOwnerGroupID(7)
					}
					var out virtual.Attributes
					return st(leaf.VirtualSetAttributes(ctxBG, in, maskLocked, &out))
				})
			case 3:
				if len(m.frozen) == 0 {
					off, n := uint64(rng.Intn(50)), uint64(rng.Intn(30))
					mk("VirtualAllocate", "", func() string {
						e.faults.truncate.Store(fault)
						return st(leaf.VirtualAllocate(ctxBG, off, n))
					})
				}
			case 4:
				if alive {
					off := uint64(rng.Intn(70))
					rt := []filesystem.RegionType{filesystem.Data, filesystem.Hole}[rng.Intn(2)]
					mk("VirtualSeek", "", func() string {
						e.faults.seek.Store(fault)
						_, s := leaf.VirtualSeek(ctxBG, off, rt)
						return st(s)
					})
				}
			case 5, 6, 7:
				share := []virtual.ShareMask{virtual.ShareMaskRead, virtual.ShareMaskWrite, virtual.ShareMaskRead | virtual.ShareMaskWrite}[rng.Intn(3)]
				truncate := rng.Intn(3) == 0 && (len(m.frozen) == 0)
				mk("VirtualOpenSelf", fmt.Sprintf("truncate=%v", truncate), func() string {
					e.faults.truncate.Store(fault)
					var out virtual.Attributes
					s := leaf.VirtualOpenSelf(ctxBG, share, &virtual.OpenExistingOptions{Truncate: truncate}, maskLocked, &out)
					if s == virtual.StatusOK {
						open(share, 1)
					}
					return st(s)
				})
			case 8:
				if alive {
					off := uint64(rng.Intn(70))
					mk("VirtualRead", "", func() string {
						e.faults.read.Store(fault)
						_, _, s := leaf.VirtualRead(ctxBG, make([]byte, 1+rng.Intn(40)), off)
						return st(s)
					})
				}
			case 9, 10:
				if mutable {
					off := uint64(rng.Intn(70))
					mk("VirtualWrite", "", func() string {
						e.faults.write.Store(fault)
						_, s := leaf.VirtualWrite(ctxBG, []byte("hello world, this is a write"), off)
						return st(s)
					})
				}
			case 11, 12, 13:
				var share virtual.ShareMask
				switch {
				case m.rwO > 0 && rng.Intn(2) == 0:
					share = virtual.ShareMaskRead | virtual.ShareMaskWrite
				case m.writeO > 0:
					share = virtual.ShareMaskWrite
				case m.readO > 0:
					share = virtual.ShareMaskRead
				case m.rwO > 0:
					share = virtual.ShareMaskRead | virtual.ShareMaskWrite
				}
				if share != 0 {
					mk("VirtualClose", "", func() string {
						leaf.VirtualClose(share)
						open(share, -1)
						return "ok"
					})
				}
			case 14:
				mk("Link", "", func() string {
					s := leaf.(virtual.LinkableLeaf).Link()
					if s == virtual.StatusOK {
						m.links++
					}
					return st(s)
				})
			case 15, 16:
				if m.links > 0 {
					mk("Unlink", "", func() string {
						leaf.(virtual.LinkableLeaf).Unlink()
						m.links--
						return "ok"
					})
				}
			case 17, 18:
				failPut := rng.Intn(3) == 0
				mk("VirtualApply:UploadFile", fmt.Sprintf("put-fails=%v", failPut), func() string {
					e.faults.read.Store(fault)
					p := &virtual.ApplyUploadFile{Context: ctxBG, ContentAddressableStorage: &fakeCAS{fail: failPut}, DigestFunction: digestFunction, WritableFileUploadDelay: closedChan}
					leaf.VirtualApply(p)
					return grpcClass(p.Err)
				})
			case 19:
				mk("VirtualApply:GetBazelOutputServiceStat", "", func() string {
					e.faults.read.Store(fault)
					p := &virtual.ApplyGetBazelOutputServiceStat{DigestFunction: &digestFunction}
					leaf.VirtualApply(p)
					return grpcClass(p.Err)
				})
			case 20:
				mk("VirtualApply:AppendOutputPathPersistencyDirectoryNode", "", func() string {
					leaf.VirtualApply(&virtual.ApplyAppendOutputPathPersistencyDirectoryNode{Directory: &outputpathpersistency.Directory{}, Name: comp("f")})
					return "ok"
				})
			case 21:
				mk("VirtualApply:OpenReadFrozen", "", func() string {
					p := &virtual.ApplyOpenReadFrozen{WritableFileDelay: closedChan}
					leaf.VirtualApply(p)
					if p.Err == nil {
						m.frozen = append(m.frozen, p.Reader)
					}
					return grpcClass(p.Err)
				})
			case 22:
				if len(m.frozen) > 0 {
					r := m.frozen[len(m.frozen)-1]
					switch rng.Intn(4) {
					case 0:
						mk("FrozenFile.Close", "", func() string {
							err := r.Close()
							m.frozen = m.frozen[:len(m.frozen)-1]
							return grpcClass(err)
						})
					case 1:
						mk("FrozenFile.ReadAt", "", func() string {
							e.faults.read.Store(fault)
							_, err := r.ReadAt(make([]byte, 8), 0)
							if err != nil {
								return "error"
							}
							return "ok"
						})
					case 2:
						mk("FrozenFile.GetNextRegionOffset", "", func() string {
							e.faults.seek.Store(fault)
							_, err := r.GetNextRegionOffset(0, filesystem.Data)
							if err != nil {
								return "error"
							}
							return "ok"
						})
					default:
						mk("FrozenFile.Len", "", func() string {
							_, err := r.(interface{ Len() (int64, error) }).Len()
							return grpcClass(err)
						})
					}
				}
			case 23:
				create := rng.Intn(2) == 0
				if alive || !create {
					mk("VirtualOpenNamedAttributes", fmt.Sprintf("create=%v", create), func() string {
						var out virtual.Attributes
						d, s := leaf.VirtualOpenNamedAttributes(ctxBG, create, maskLocked, &out)
						if s == virtual.StatusOK {
							e.addDirectory(d)
						}
						return st(s)
					})
				}
			}
			if o == nil {
				continue
			}
			calls++
			if !e.record("file", o.call, o.variant, o.f) {
				break
			}
		}
	}
	common.WriteJSON("meta.json", map[string]any{"traces": traces, "calls": calls})
}

// ---------------------------------------------------------------------------
// Recording for components that are not part of an env.

type prober func() []string

func recordWith(tr *common.Trace, probe prober, obj, call, variant string, f func() string) bool {
	res, hung := runWatched(f)
	if hung {
		hangCount.Add(1)
		tr.Emit(common.Ev{"ev": "hang", "obj": obj, "call": call, "variant": variant})
		return false
	}
	busy := probe()
	if res.panic != "" {
		tr.Emit(common.Ev{"ev": "panic", "obj": obj, "call": call, "variant": variant, "msg": res.panic, "locks_free": len(busy) == 0, "busy": busy})
		return false
	}
	tr.Emit(common.Ev{"ev": "call", "obj": obj, "call": call, "variant": variant, "outcome": res.outcome, "locks_free": len(busy) == 0, "busy": busy})
	return len(busy) == 0
}

// ---------------------------------------------------------------------------
// OpenedFilesPool.

func TestOpenedFilesPoolRandom(t *testing.T) {
	traces := common.EnvInt("VERIF_N", 30)
	steps := common.EnvInt("VERIF_STEPS", 80)
	tr := common.NewTrace("trace.ndjson")
	defer tr.Close()
	calls := 0
	for i := 0; i < traces && hangCount.Load() < maxHangs; i++ {
		rng := common.Rand(int64(9000 + i))
		tr.Emit(common.Ev{"ev": "reset", "trace": i, "mode": "ofp"})
		resolverOK := true
		ofp := virtual_nfsv4.NewOpenedFilesPool(func(r io.ByteReader) (virtual.DirectoryChild, virtual.Status) {
			if resolverOK {
				return virtual.DirectoryChild{}.FromLeaf(plainLeaf{}), virtual.StatusOK
			}
			return virtual.DirectoryChild{}, virtual.StatusErrStale
		})
		handles := []nfsv4.NfsFh4{[]byte("h1"), []byte("h2"), []byte("h3")}
		owners := []*nfsv4.LockOwner4{{Clientid: 1, Owner: []byte("a")}, {Clientid: 2, Owner: []byte("b")}}
		type opened struct {
			of   *virtual_nfsv4.OpenedFile
			refs int
		}
		var files []*opened
		probe := func() []string {
			out := []string{}
			if !ofp.VerifLockProbeIsFree() {
				out = append(out, "OpenedFilesPool.lock")
			}
			for k, f := range files {
				if !f.of.VerifLockProbeIsFree() {
					out = append(out, fmt.Sprintf("OpenedFile#%d.locksLock", k))
				}
			}
			return out
		}
		randRange := func() (uint64, uint64, string) {
			switch rng.Intn(8) {
			case 0:
				return uint64(rng.Intn(10)), 0, "zero-length"
			case 1:
				return math.MaxUint64 - 3, 10, "overflow"
			case 2:
				return uint64(rng.Intn(10)), math.MaxUint64, "to-eof"
			}
			return uint64(rng.Intn(10)), uint64(1 + rng.Intn(10)), "range"
		}
		randType := func() (nfsv4.NfsLockType4, string) {
			switch rng.Intn(6) {
			case 0:
				return 99, "bad-type"
			case 1, 2:
				return nfsv4.READ_LT, "read"
			}
			return nfsv4.WRITE_LT, "write"
		}
		for j := 0; j < steps; j++ {
			var call, variant string
			var f func() string
			h := handles[rng.Intn(len(handles))]
			owner := owners[rng.Intn(len(owners))]
			var live []*opened
			for _, o := range files {
				if o.refs > 0 {
					live = append(live, o)
				}
			}
			switch k := rng.Intn(9); {
			case k == 0 || len(live) == 0 && k < 3:
				call = "Open"
				f = func() string {
					of := ofp.Open(h, plainLeaf{})
					for _, o := range files {
						if o.of == of {
							o.refs++
							return "existing"
						}
					}
					files = append(files, &opened{of: of, refs: 1})
					return "new"
				}
			case k == 1:
				off, length, rv := randRange()
				lt, tv := randType()
				call, variant = "TestLock", rv+";"+tv
				f = func() string {
					switch r := ofp.TestLock(h, owner, off, length, lt).(type) {
					case *nfsv4.Lockt4res_NFS4_OK:
						return "NFS4_OK"
					case *nfsv4.Lockt4res_NFS4ERR_DENIED:
						return "NFS4ERR_DENIED"
					case *nfsv4.Lockt4res_default:
						return fmt.Sprintf("status%d", r.Status)
					}
					return "?"
				}
			case k == 2:
				resolverOK = rng.Intn(2) == 0
				call, variant = "Resolve", fmt.Sprintf("resolver-ok=%v", resolverOK)
				f = func() string {
					_, s := ofp.Resolve(h)
					return fmt.Sprintf("status%d", s)
				}
			case len(live) == 0:
				continue
			case k == 3 || k == 4:
				o := live[rng.Intn(len(live))]
				off, length, rv := randRange()
				lt, tv := randType()
				call, variant = "OpenedFile.Lock", rv+";"+tv
				f = func() string {
					_, res := o.of.Lock(owner, off, length, lt)
					switch r := res.(type) {
					case nil:
						return "NFS4_OK"
					case *nfsv4.Lock4res_NFS4ERR_DENIED:
						return "NFS4ERR_DENIED"
					case *nfsv4.Lock4res_default:
						return fmt.Sprintf("status%d", r.Status)
					}
					return "?"
				}
			case k == 5:
				o := live[rng.Intn(len(live))]
				off, length, rv := randRange()
				call, variant = "OpenedFile.Unlock", rv
				f = func() string {
					_, s := o.of.Unlock(owner, off, length)
					return fmt.Sprintf("status%d", s)
				}
			case k == 6:
				o := live[rng.Intn(len(live))]
				call = "OpenedFile.UnlockAll"
				f = func() string {
					o.of.UnlockAll(owner)
					return "ok"
				}
			default:
				o := live[rng.Intn(len(live))]
				call = "OpenedFile.Close"
				f = func() string {
					o.of.Close()
					o.refs--
					if o.refs == 0 {
						return "last"
					}
					return "not-last"
				}
			}
			calls++
			if !recordWith(tr, probe, "ofp", call, variant, f) {
				break
			}
		}
	}
	common.WriteJSON("meta.json", map[string]any{"traces": traces, "calls": calls})
}

// ---------------------------------------------------------------------------
// IdleInvoker.

func TestIdleInvokerRandom(t *testing.T) {
	traces := common.EnvInt("VERIF_N", 30)
	steps := common.EnvInt("VERIF_STEPS", 40)
	tr := common.NewTrace("trace.ndjson")
	defer tr.Close()
	calls := 0
	for i := 0; i < traces && hangCount.Load() < maxHangs; i++ {
		rng := common.Rand(int64(11000 + i))
		tr.Emit(common.Ev{"ev": "reset", "trace": i, "mode": "idle"})
		var cleanErr error
		var block chan struct{}   // non-nil: the cleaner waits for it
		var entered chan struct{} // signalled when the cleaner starts
		ii := cleaner.NewIdleInvoker(func(ctx context.Context) error {
			if entered != nil {
				close(entered)
				entered = nil
			}
			if block != nil {
				<-block
			}
			return cleanErr
		})
		probe := func() []string {
			if !ii.VerifLockProbeIsFree() {
				return []string{"IdleInvoker.lock"}
			}
			return []string{}
		}
		useCount := 0
		for j := 0; j < steps; j++ {
			fail := rng.Intn(3) == 0
			cleanErr = nil
			if fail {
				cleanErr = status.Error(codes.Internal, "injected")
			}
			ok := true
			switch k := rng.Intn(6); {
			case k < 2:
				ok = recordWith(tr, probe, "idle", "Acquire", fmt.Sprintf("use-count-zero=%v;cleaner-fails=%v", useCount == 0, fail), func() string {
					err := ii.Acquire(ctxBG)
					if err == nil {
						useCount++
					}
					return grpcClass(err)
				})
			case k < 4 && useCount > 0:
				ok = recordWith(tr, probe, "idle", "Release", fmt.Sprintf("last=%v;cleaner-fails=%v", useCount == 1, fail), func() string {
					useCount--
					return grpcClass(ii.Release(ctxBG))
				})
			case k == 4 && useCount == 0:
				// Acquire while another Acquire is cleaning: one
				// waiter gives up (context cancelled), one stays.
				block = make(chan struct{})
				started := make(chan struct{})
				entered = started
				first := make(chan error, 1)
				go func() { first <- ii.Acquire(ctxBG) }()
				<-started
				ok = recordWith(tr, probe, "idle", "Acquire", "while-cleaning;context-cancelled", func() string {
					ctx, cancel := context.WithCancel(ctxBG)
					cancel()
					return grpcClass(ii.Acquire(ctx))
				})
				if !ok {
					// The lock is gone: the calls in flight cannot
					// finish. They are abandoned.
					close(block)
					break
				}
				second := make(chan error, 1)
				go func() { second <- ii.Acquire(ctxBG) }()
				time.Sleep(time.Millisecond)
				close(block)
				block = nil
				// Both calls must have returned before the lock is
				// probed: a call in progress may hold it.
				errFirst := <-first
				errSecond := <-second
				ok = ok && recordWith(tr, probe, "idle", "Acquire", fmt.Sprintf("cleaner-was-blocked;cleaner-fails=%v", fail), func() string {
					if errFirst == nil {
						useCount++
					}
					return grpcClass(errFirst)
				})
				ok = ok && recordWith(tr, probe, "idle", "Acquire", "waited-for-cleaning", func() string {
					if errSecond == nil {
						useCount++
					}
					return grpcClass(errSecond)
				})
			default:
				continue
			}
			calls++
			if !ok {
				break
			}
		}
	}
	common.WriteJSON("meta.json", map[string]any{"traces": traces, "calls": calls})
}

// ---------------------------------------------------------------------------
// Bitmap sector allocator.

func TestSectorAllocatorRandom(t *testing.T) {
	traces := common.EnvInt("VERIF_N", 30)
	steps := common.EnvInt("VERIF_STEPS", 80)
	tr := common.NewTrace("trace.ndjson")
	defer tr.Close()
	calls := 0
	for i := 0; i < traces && hangCount.Load() < maxHangs; i++ {
		rng := common.Rand(int64(13000 + i))
		tr.Emit(common.Ev{"ev": "reset", "trace": i, "mode": "sector"})
		sa := pool.NewBitmapSectorAllocator(uint32(20 + rng.Intn(150)))
		probe := func() []string {
			if !pool.VerifLockProbeSectorAllocator(sa) {
				return []string{"bitmapSectorAllocator.lock"}
			}
			return []string{}
		}
		type run struct {
			first uint32
			n     int
		}
		var runs []run
		for j := 0; j < steps; j++ {
			ok := true
			switch k := rng.Intn(5); {
			case k < 3:
				max := 1 + rng.Intn(100)
				ok = recordWith(tr, probe, "sector", "AllocateContiguous", "", func() string {
					first, n, err := sa.AllocateContiguous(max)
					if err == nil {
						runs = append(runs, run{first, n})
					}
					return grpcClass(err)
				})
			case k == 3 && len(runs) > 0:
				x := rng.Intn(len(runs))
				r := runs[x]
				runs = append(runs[:x], runs[x+1:]...)
				ok = recordWith(tr, probe, "sector", "FreeContiguous", "", func() string {
					sa.FreeContiguous(r.first, r.n)
					return "ok"
				})
			case k == 4 && len(runs) > 0:
				n := 1 + rng.Intn(len(runs))
				var list []uint32
				for _, r := range runs[:n] {
					for s := 0; s < r.n; s++ {
						list = append(list, r.first+uint32(s))
					}
				}
				list = append(list, 0) // holes are permitted
				rng.Shuffle(len(list), func(a, b int) { list[a], list[b] = list[b], list[a] })
				runs = runs[n:]
				ok = recordWith(tr, probe, "sector", "FreeList", "", func() string {
					sa.FreeList(list)
					return "ok"
				})
			default:
				continue
			}
			calls++
			if !ok {
				break
			}
		}
	}
	common.WriteJSON("meta.json", map[string]any{"traces": traces, "calls": calls})
}
