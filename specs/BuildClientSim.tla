---------------------------- MODULE BuildClientSim ----------------------------
(***************************************************************************)
(* Spec -> code direction for C08: run with `tlc -simulate` to write        *)
(* behaviours of BuildClient.tla (the sequence of action labels) to         *)
(* beh_<n>.ndjson; harness/buildclient TestReplay performs the              *)
(* environment's moves of each behaviour on the real BuildClient.           *)
(***************************************************************************)
EXTENDS BuildClient, Json, TLC, TLCExt

CONSTANT Depth

VARIABLE hist

SimInit == Init /\ hist = <<>>
\* Shutdown and clock ticks are almost always possible; thinned out so that
\* behaviours get past the first few calls of Run().
Thin(a) == CASE a = "Shutdown" -> RandomElement(1 .. 12) = 1
             [] a = "Tick"     -> RandomElement(1 .. 3) = 1
             [] a = "ReadyFail" -> RandomElement(1 .. 4) = 1
             [] OTHER          -> TRUE
SimNext == Next /\ Thin(act'.a) /\ hist' = Append(hist, act')
SimSpec == SimInit /\ [][SimNext]_<<vars, hist>>

\* Written when the behaviour is long enough or the worker has terminated.
Export ==
  (Len(hist) < Depth /\ pc # "terminated")
    \/ ndJsonSerialize("beh_" \o ToString(TLCGet("stats").traces) \o ".ndjson", hist)
=============================================================================
