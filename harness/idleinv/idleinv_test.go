// Package idleinv drives the real cleaner.IdleInvoker — directly, under
// runner.NewCleanRunner, under builder.NewCleanBuildDirectoryCreator and
// under the Shared(Clean(Root(dir))) build directory creator chain over a
// real in-memory build directory — and records traces that
// specs/IdleInvokerTrace.tla validates (property C12).
//
// Every trace runs in its own testing/synctest bubble. The harness takes
// one step (start an Acquire, start a Release, cancel a context, let one
// Cleaner call return), waits until every goroutine is durably blocked
// and logs the raw state of the invoker. Nothing is judged here.
package idleinv

import (
	"context"
	"encoding/json"
	"fmt"
	"os"
	"runtime"
	"sort"
	"strconv"
	"strings"
	"sync"
	"sync/atomic"
	"testing"
	"testing/synctest"

	remoteexecution "github.com/bazelbuild/remote-apis/build/bazel/remote/execution/v2"
	"github.com/buildbarn/bb-remote-execution/pkg/builder"
	"github.com/buildbarn/bb-remote-execution/pkg/cleaner"
	"github.com/buildbarn/bb-remote-execution/pkg/filesystem/pool"
	"github.com/buildbarn/bb-remote-execution/pkg/filesystem/virtual"
	runner_pb "github.com/buildbarn/bb-remote-execution/pkg/proto/runner"
	"github.com/buildbarn/bb-remote-execution/pkg/runner"
	"github.com/buildbarn/bb-storage/pkg/clock"
	"github.com/buildbarn/bb-storage/pkg/digest"
	"github.com/buildbarn/bb-storage/pkg/filesystem"
	"github.com/buildbarn/bb-storage/pkg/filesystem/path"
	"github.com/buildbarn/bb-storage/pkg/random"
	"github.com/buildbarn/bb-storage/pkg/util"

	"google.golang.org/grpc/codes"
	"google.golang.org/grpc/status"
	"google.golang.org/protobuf/types/known/emptypb"

	"verif/harness/common"
)

const maxThreads = 4 // must match Threads in Trace_IdleInvoker.cfg

var (
	errCleanFail = status.Error(codes.DataLoss, "verif: injected cleaner failure")
	errBase      = status.Error(codes.Unavailable, "verif: injected base failure")
	errInjected  = status.Error(codes.ResourceExhausted, "verif: injected directory failure")
)

func tn(tid int) string {
	if tid < 0 {
		return "?"
	}
	return fmt.Sprintf("t%d", tid+1)
}

func goid() uint64 {
	var buf [64]byte
	n := runtime.Stack(buf[:], false)
	s := strings.TrimPrefix(string(buf[:n]), "goroutine ")
	if i := strings.IndexByte(s, ' '); i > 0 {
		if id, err := strconv.ParseUint(s[:i], 10, 64); err == nil {
			return id
		}
	}
	return 0
}

func classifyAcq(err error) string {
	switch {
	case err == nil:
		return "ok"
	case strings.Contains(err.Error(), "injected cleaner failure"):
		return "fail"
	case status.Code(err) == codes.Canceled || status.Code(err) == codes.DeadlineExceeded:
		return "cancelled"
	}
	return "other"
}

func classifyRel(err error) string {
	switch {
	case err == nil:
		return "ok"
	case strings.Contains(err.Error(), "injected cleaner failure"):
		return "fail"
	}
	return "other"
}

const (
	stIdle = iota
	stAcquiring
	stUsing
	stReleasing
)

// opts are the choices the harness makes for one call.
type opts struct {
	cancelled bool   // start with a context that is already cancelled
	digest    int    // chain: 0 = nil digest (may run in parallel), else digest number
	variant   int    // runner: 0 = Run, 1 = CheckReadiness
	fault     string // client specific fault to inject
}

// client is what sits on top of the IdleInvoker.
type client interface {
	// start performs the acquiring call on the thread's own goroutine.
	start(e *engine, tid int, ctx context.Context, o opts)
	// finish makes a thread that is using give up (harness goroutine).
	finish(e *engine, tid int, o opts)
	digestName(o opts) string
}

type cleanCall struct {
	tid  int
	done chan string
}

type engine struct {
	tr  *common.Trace
	n   int
	inv *cleaner.IdleInvoker
	cl  client

	mu        sync.Mutex
	gids      map[uint64]int
	status    []int
	cancelled []bool
	ctxs      []context.Context
	cancels   []context.CancelFunc
	pending   []*cleanCall
	broken    bool
	fatal     string

	rootList  func() []string
	realClean func() error

	// chained: the invoker's Cleaner is cleaner.NewChainedCleaner of two
	// parts (as bb_runner wires it); the harness decides which part fails.
	chained  bool
	failFlip int
	partRes  map[int]string
}

func newEngine(tr *common.Trace, n int) *engine {
	e := &engine{
		tr: tr, n: n, gids: map[uint64]int{},
		status: make([]int, n), cancelled: make([]bool, n),
		ctxs: make([]context.Context, n), cancels: make([]context.CancelFunc, n),
		rootList: func() []string { return []string{} },
	}
	e.inv = cleaner.NewIdleInvoker(e.cleanerFunc)
	return e
}

func (e *engine) tidHere() int {
	e.mu.Lock()
	defer e.mu.Unlock()
	if tid, ok := e.gids[goid()]; ok {
		return tid
	}
	return -1
}

func (e *engine) getStatus(tid int) int {
	e.mu.Lock()
	defer e.mu.Unlock()
	return e.status[tid]
}

func (e *engine) setStatus(tid, s int) {
	e.mu.Lock()
	e.status[tid] = s
	e.mu.Unlock()
}

// cleanerFunc is the gated, instrumented Cleaner: the harness decides
// when it returns and with what result.
func (e *engine) cleanerFunc(ctx context.Context) error {
	tid := e.tidHere()
	c := &cleanCall{tid: tid, done: make(chan string, 1)}
	e.mu.Lock()
	e.pending = append(e.pending, c)
	e.mu.Unlock()
	e.tr.Emit(common.Ev{"ev": "CleanStart", "t": tn(tid), "root": e.rootList()})
	res := <-c.done
	if res == "ok" && e.realClean != nil {
		if err := e.realClean(); err != nil {
			res = "fail"
		}
	}
	e.tr.Emit(common.Ev{"ev": "CleanEnd", "t": tn(tid), "res": res, "root": e.rootList()})
	if res != "ok" {
		return errCleanFail
	}
	return nil
}

// useChainedCleaner replaces the invoker by one whose Cleaner is the real
// ChainedCleaner over two gated parts. Must be called before a client is
// made. One CleanStart is logged when the first part starts and one
// CleanEnd when the last part ends; its result is "fail" iff the harness
// made any part fail (what the chain itself returned is not consulted).
func (e *engine) useChainedCleaner() {
	e.chained = true
	e.partRes = map[int]string{}
	e.inv = cleaner.NewIdleInvoker(cleaner.NewChainedCleaner([]cleaner.Cleaner{e.cleanPartA, e.cleanPartB}))
}

func (e *engine) cleanPartA(ctx context.Context) error {
	tid := e.tidHere()
	c := &cleanCall{tid: tid, done: make(chan string, 1)}
	e.mu.Lock()
	e.pending = append(e.pending, c)
	e.mu.Unlock()
	e.tr.Emit(common.Ev{"ev": "CleanStart", "t": tn(tid), "root": e.rootList()})
	res := <-c.done
	e.mu.Lock()
	if res == "fail" {
		// alternately the first and the second part
		e.failFlip++
		res = []string{"fail1", "fail2"}[e.failFlip%2]
	}
	e.partRes[tid] = res
	e.mu.Unlock()
	if res == "fail1" {
		return errCleanFail
	}
	return nil
}

func (e *engine) cleanPartB(ctx context.Context) error {
	tid := e.tidHere()
	e.mu.Lock()
	res := e.partRes[tid]
	delete(e.partRes, tid)
	e.mu.Unlock()
	if res == "ok" && e.realClean != nil {
		if err := e.realClean(); err != nil {
			res = "fail2"
		}
	}
	overall := "ok"
	if res != "ok" {
		overall = "fail"
	}
	e.tr.Emit(common.Ev{"ev": "CleanEnd", "t": tn(tid), "res": overall, "root": e.rootList(), "part": res})
	if res == "fail2" {
		return errCleanFail
	}
	return nil
}

func (e *engine) spawn(tid int, f func()) {
	go func() {
		id := goid()
		e.mu.Lock()
		e.gids[id] = tid
		e.mu.Unlock()
		defer func() {
			e.mu.Lock()
			delete(e.gids, id)
			e.mu.Unlock()
		}()
		defer func() {
			if r := recover(); r != nil {
				msg := fmt.Sprint(r)
				kind := "other"
				if strings.Contains(msg, "Cleaning is already in progress") || strings.Contains(msg, "IdleInvoker with a zero use count") {
					kind = "invoker"
				}
				e.tr.Emit(common.Ev{"ev": "Panic", "t": tn(tid), "kind": kind, "msg": msg})
				e.mu.Lock()
				e.broken = true
				if kind == "other" {
					buf := make([]byte, 4096)
					e.fatal = msg + "\n" + string(buf[:runtime.Stack(buf, false)])
				}
				e.mu.Unlock()
			}
		}()
		f()
	}()
}

func (e *engine) acqEnd(tid int, res string) {
	if res == "ok" {
		e.setStatus(tid, stUsing)
	} else {
		e.setStatus(tid, stIdle)
	}
	e.tr.Emit(common.Ev{"ev": "AcqEnd", "t": tn(tid), "res": res})
}

func (e *engine) relStart(tid int) {
	e.setStatus(tid, stReleasing)
	e.tr.Emit(common.Ev{"ev": "RelStart", "t": tn(tid)})
}

// relStartIfNot logs RelStart at the latest possible moment if the
// client did not see an earlier one.
func (e *engine) relStartIfNot(tid int) {
	if e.getStatus(tid) != stReleasing {
		e.relStart(tid)
	}
}

func (e *engine) relEnd(tid int, res string) {
	e.tr.Emit(common.Ev{"ev": "RelEnd", "t": tn(tid), "res": res})
	e.setStatus(tid, stIdle)
}

func (e *engine) quiescent() {
	uc, cl, free := e.inv.VerifState()
	e.tr.Emit(common.Ev{"ev": "Quiescent", "uc": int(uc), "cl": cl, "lockfree": free, "root": e.rootList()})
}

// ---- harness steps

type action struct {
	kind string // "acq" | "rel" | "cancel" | "clean"
	tid  int
	res  string // clean: "ok" | "fail"
	o    opts
}

func (a action) String() string {
	return fmt.Sprintf("%s(%s,%s,%+v)", a.kind, tn(a.tid), a.res, a.o)
}

func (e *engine) pendingOf(tid int) *cleanCall {
	e.mu.Lock()
	defer e.mu.Unlock()
	for _, c := range e.pending {
		if c.tid == tid {
			return c
		}
	}
	return nil
}

// applicable tells whether the harness may take the step now.
func (e *engine) applicable(a action) bool {
	if a.tid < 0 || a.tid >= e.n {
		return false
	}
	switch a.kind {
	case "acq":
		return e.getStatus(a.tid) == stIdle
	case "rel":
		return e.getStatus(a.tid) == stUsing
	case "cancel":
		e.mu.Lock()
		defer e.mu.Unlock()
		return e.status[a.tid] == stAcquiring && !e.cancelled[a.tid]
	case "clean":
		return e.pendingOf(a.tid) != nil
	}
	return false
}

// do takes one step and waits for quiescence.
func (e *engine) do(a action) {
	switch a.kind {
	case "acq":
		ctx, cancel := context.WithCancel(context.Background())
		if a.o.cancelled {
			cancel()
		}
		e.mu.Lock()
		e.ctxs[a.tid], e.cancels[a.tid], e.cancelled[a.tid] = ctx, cancel, a.o.cancelled
		e.status[a.tid] = stAcquiring
		e.mu.Unlock()
		e.tr.Emit(common.Ev{"ev": "AcqStart", "t": tn(a.tid), "cancelled": a.o.cancelled, "digest": e.cl.digestName(a.o)})
		tid, o := a.tid, a.o
		e.spawn(tid, func() { e.cl.start(e, tid, ctx, o) })
	case "rel":
		e.cl.finish(e, a.tid, a.o)
	case "cancel":
		e.mu.Lock()
		e.cancelled[a.tid] = true
		cancel := e.cancels[a.tid]
		e.mu.Unlock()
		e.tr.Emit(common.Ev{"ev": "Cancel", "t": tn(a.tid)})
		cancel()
	case "clean":
		e.mu.Lock()
		var c *cleanCall
		for i, p := range e.pending {
			if p.tid == a.tid {
				c = p
				e.pending = append(e.pending[:i], e.pending[i+1:]...)
				break
			}
		}
		e.mu.Unlock()
		c.done <- a.res
	}
	synctest.Wait()
	e.quiescent()
}

func (e *engine) isBroken() bool {
	e.mu.Lock()
	defer e.mu.Unlock()
	return e.broken
}

// drain brings every thread back to idle so that no goroutine is left
// behind: cleaners return successfully, holders release, and as a last
// resort contexts are cancelled.
func (e *engine) drain() {
	for round := 0; round < 8*e.n+8; round++ {
		progress := false
		for tid := 0; tid < e.n; tid++ {
			if e.pendingOf(tid) != nil {
				e.do(action{kind: "clean", tid: tid, res: "ok"})
				progress = true
			} else if e.getStatus(tid) == stUsing {
				e.do(action{kind: "rel", tid: tid})
				progress = true
			}
		}
		e.mu.Lock()
		if len(e.pending) > 0 && e.pending[0].tid < 0 {
			// cleaner called from a goroutine the harness does not know
			c := e.pending[0]
			e.pending = e.pending[1:]
			e.mu.Unlock()
			c.done <- "ok"
			synctest.Wait()
			progress = true
		} else {
			e.mu.Unlock()
		}
		if !progress {
			break
		}
	}
	for tid := 0; tid < e.n; tid++ {
		if e.applicable(action{kind: "cancel", tid: tid}) {
			e.do(action{kind: "cancel", tid: tid})
		}
	}
	e.mu.Lock()
	for _, c := range e.cancels {
		if c != nil {
			c()
		}
	}
	e.mu.Unlock()
	synctest.Wait()
}

// runTrace runs f in a fresh bubble. Goroutines that the real code
// leaves blocked for ever make the bubble panic on exit; that is noted
// in the trace (the events before it tell TLC what happened).
func runTrace(t *testing.T, tr *common.Trace, f func()) {
	defer func() {
		if r := recover(); r != nil {
			tr.Emit(common.Ev{"ev": "Note", "what": "bubble: " + fmt.Sprint(r)})
		}
	}()
	synctest.Test(t, func(t *testing.T) { f() })
}

// ---- clients

// directClient calls Acquire and Release themselves.
type directClient struct{}

func (directClient) digestName(o opts) string { return "" }

func (directClient) start(e *engine, tid int, ctx context.Context, o opts) {
	err := e.inv.Acquire(ctx)
	e.acqEnd(tid, classifyAcq(err))
}

func (directClient) finish(e *engine, tid int, o opts) {
	e.mu.Lock()
	ctx := e.ctxs[tid]
	e.mu.Unlock()
	e.relStart(tid)
	e.spawn(tid, func() {
		err := e.inv.Release(ctx)
		e.relEnd(tid, classifyRel(err))
	})
}

// runnerClient goes through runner.NewCleanRunner on top of a fake
// runner whose calls last as long as the harness wants.
type runnerClient struct {
	r          runner_pb.RunnerServer
	gates      []chan string
	entered    []bool
	baseFailed []bool
}

type fakeRunner struct {
	e *engine
	c *runnerClient
}

func (f *fakeRunner) use() error {
	tid := f.e.tidHere()
	if tid < 0 {
		panic("verif: base runner called from unknown goroutine")
	}
	f.c.entered[tid] = true
	f.e.acqEnd(tid, "ok")
	r := <-f.c.gates[tid]
	f.e.relStart(tid)
	if r == "base" {
		f.c.baseFailed[tid] = true
		return errBase
	}
	return nil
}

func (f *fakeRunner) Run(ctx context.Context, request *runner_pb.RunRequest) (*runner_pb.RunResponse, error) {
	if err := f.use(); err != nil {
		return nil, err
	}
	return &runner_pb.RunResponse{}, nil
}

func (f *fakeRunner) CheckReadiness(ctx context.Context, request *runner_pb.CheckReadinessRequest) (*emptypb.Empty, error) {
	if err := f.use(); err != nil {
		return nil, err
	}
	return &emptypb.Empty{}, nil
}

func newRunnerClient(e *engine) *runnerClient {
	c := &runnerClient{gates: make([]chan string, e.n), entered: make([]bool, e.n), baseFailed: make([]bool, e.n)}
	for i := range c.gates {
		c.gates[i] = make(chan string, 1)
	}
	c.r = runner.NewCleanRunner(&fakeRunner{e: e, c: c}, e.inv)
	return c
}

func (c *runnerClient) digestName(o opts) string { return "" }

func (c *runnerClient) start(e *engine, tid int, ctx context.Context, o opts) {
	c.entered[tid], c.baseFailed[tid] = false, false
	var err error
	if o.variant == 0 {
		_, err = c.r.Run(ctx, &runner_pb.RunRequest{})
	} else {
		_, err = c.r.CheckReadiness(ctx, &runner_pb.CheckReadinessRequest{})
	}
	if !c.entered[tid] {
		res := classifyAcq(err)
		if res == "ok" {
			res = "other" // returned success without running anything
		}
		e.acqEnd(tid, res)
		return
	}
	res := "any"
	if !c.baseFailed[tid] {
		res = classifyRel(err)
	}
	e.relEnd(tid, res)
}

func (c *runnerClient) finish(e *engine, tid int, o opts) {
	c.gates[tid] <- o.fault
}

// creatorClient goes through builder.NewCleanBuildDirectoryCreator on top
// of a fake creator that can fail and whose directories can fail to close.
type creatorClient struct {
	dc         builder.BuildDirectoryCreator
	fault      []string
	entered    []bool
	baseFailed []bool
	dirs       []builder.BuildDirectory
}

type fakeCreator struct {
	e *engine
	c *creatorClient
}

type fakeDir struct {
	builder.BuildDirectory
	e   *engine
	c   *creatorClient
	tid int
}

func (d *fakeDir) Close() error {
	d.e.relStart(d.tid)
	if d.c.fault[d.tid] == "close" {
		d.c.baseFailed[d.tid] = true
		return errBase
	}
	return nil
}

func (f *fakeCreator) GetBuildDirectory(ctx context.Context, actionDigest *digest.Digest) (builder.BuildDirectory, *path.Trace, error) {
	tid := f.e.tidHere()
	if tid < 0 {
		panic("verif: base creator called from unknown goroutine")
	}
	f.c.entered[tid] = true
	f.e.acqEnd(tid, "ok")
	if f.c.fault[tid] == "base" {
		f.c.baseFailed[tid] = true
		f.e.relStart(tid)
		return nil, nil, errBase
	}
	return &fakeDir{e: f.e, c: f.c, tid: tid}, nil, nil
}

func newCreatorClient(e *engine) *creatorClient {
	c := &creatorClient{fault: make([]string, e.n), entered: make([]bool, e.n), baseFailed: make([]bool, e.n), dirs: make([]builder.BuildDirectory, e.n)}
	c.dc = builder.NewCleanBuildDirectoryCreator(&fakeCreator{e: e, c: c}, e.inv)
	return c
}

func (c *creatorClient) digestName(o opts) string { return "" }

func (c *creatorClient) start(e *engine, tid int, ctx context.Context, o opts) {
	c.entered[tid], c.baseFailed[tid], c.fault[tid] = false, false, o.fault
	d, _, err := c.dc.GetBuildDirectory(ctx, nil)
	if err != nil {
		if c.entered[tid] {
			e.relStartIfNot(tid)
			e.relEnd(tid, "any")
		} else {
			e.acqEnd(tid, classifyAcq(err))
		}
		return
	}
	if !c.entered[tid] {
		e.acqEnd(tid, "other")
		return
	}
	c.dirs[tid] = d
}

func (c *creatorClient) finish(e *engine, tid int, o opts) {
	c.fault[tid] = o.fault
	e.spawn(tid, func() {
		err := c.dirs[tid].Close()
		e.relStartIfNot(tid)
		res := "any"
		if !c.baseFailed[tid] {
			res = classifyRel(err)
		}
		e.relEnd(tid, res)
	})
}

// chainClient is the worker's wiring: every thread has its own
// Shared(Clean(Root(virtual build directory))) chain; the in-memory
// directory, the IdleInvoker and the name counter are shared. A thin
// wrapper between Root and the virtual build directory records the
// operations and injects failures.
type chainClient struct {
	rootPD virtual.PrepopulatedDirectory
	chains []builder.BuildDirectoryCreator
	wraps  []*wrapDir
	dirs   []builder.BuildDirectory
	held   [][]virtual.PrepopulatedDirectory
	rng    func(int) int
}

type wrapDir struct {
	builder.BuildDirectory
	e        *engine
	tid      int
	acquired bool
	fault    string
}

func resOf(err error) string {
	if err == nil {
		return "ok"
	}
	return "err"
}

func (w *wrapDir) first() {
	if !w.acquired {
		w.acquired = true
		w.e.acqEnd(w.tid, "ok")
	}
}

func (w *wrapDir) Mkdir(name path.Component, perm os.FileMode) error {
	w.first()
	if w.fault == "mkdir" {
		w.e.tr.Emit(common.Ev{"ev": "Mkdir", "t": tn(w.tid), "name": name.String(), "res": "inj"})
		w.e.relStart(w.tid)
		return errInjected
	}
	err := w.BuildDirectory.Mkdir(name, perm)
	w.e.tr.Emit(common.Ev{"ev": "Mkdir", "t": tn(w.tid), "name": name.String(), "res": resOf(err)})
	if err != nil {
		w.e.relStart(w.tid)
	}
	return err
}

type childWrap struct {
	builder.BuildDirectory
	w *wrapDir
}

func (c *childWrap) Close() error {
	err := c.BuildDirectory.Close()
	if c.w.fault == "childclose" {
		return errInjected
	}
	return err
}

func (w *wrapDir) EnterBuildDirectory(name path.Component) (builder.BuildDirectory, error) {
	w.first()
	if w.fault == "enter" || w.fault == "enter+remove" {
		w.e.tr.Emit(common.Ev{"ev": "Enter", "t": tn(w.tid), "name": name.String(), "res": "inj"})
		return nil, errInjected
	}
	d, err := w.BuildDirectory.EnterBuildDirectory(name)
	w.e.tr.Emit(common.Ev{"ev": "Enter", "t": tn(w.tid), "name": name.String(), "res": resOf(err)})
	if err != nil {
		return nil, err
	}
	return &childWrap{BuildDirectory: d, w: w}, nil
}

func (w *wrapDir) remove(ev, faultName string, name path.Component, f func(path.Component) error) error {
	w.first()
	if w.fault == faultName {
		w.e.tr.Emit(common.Ev{"ev": ev, "t": tn(w.tid), "name": name.String(), "res": "inj"})
		w.e.relStart(w.tid)
		return errInjected
	}
	err := f(name)
	w.e.tr.Emit(common.Ev{"ev": ev, "t": tn(w.tid), "name": name.String(), "res": resOf(err)})
	w.e.relStart(w.tid)
	return err
}

func (w *wrapDir) Remove(name path.Component) error {
	return w.remove("Remove", "enter+remove", name, w.BuildDirectory.Remove)
}

func (w *wrapDir) RemoveAll(name path.Component) error {
	return w.remove("RemoveAll", "removeall", name, w.BuildDirectory.RemoveAll)
}

func listNames(d interface {
	ReadDir() ([]filesystem.FileInfo, error)
}) []string {
	out := []string{}
	fis, err := d.ReadDir()
	if err != nil {
		return out
	}
	for _, fi := range fis {
		out = append(out, fi.Name().String())
	}
	sort.Strings(out)
	return out
}

func newChainClient(e *engine, rng func(int) int) *chainClient {
	handleAllocator := virtual.NewFUSEHandleAllocator(random.FastThreadSafeGenerator)
	defaultAttributesSetter := func(requested virtual.AttributesMask, attributes *virtual.Attributes) {}
	symlinkFactory := virtual.NewBaseSymlinkFactory(defaultAttributesSetter)
	rootPD := virtual.NewInMemoryPrepopulatedDirectory(
		virtual.NewHandleAllocatingFileAllocator(
			virtual.NewPoolBackedFileAllocator(pool.EmptyFilePool, util.DefaultErrorLogger, defaultAttributesSetter, virtual.NoNamedAttributesFactory),
			handleAllocator),
		symlinkFactory,
		util.DefaultErrorLogger,
		handleAllocator,
		sort.Sort,
		func(s string) bool { return false },
		clock.SystemClock,
		virtual.CaseSensitiveComponentNormalizer,
		defaultAttributesSetter,
		virtual.NoNamedAttributesFactory,
	)
	characterDeviceFactory := virtual.NewHandleAllocatingCharacterDeviceFactory(virtual.BaseCharacterDeviceFactory, handleAllocator.New())
	c := &chainClient{
		rootPD: rootPD, rng: rng,
		chains: make([]builder.BuildDirectoryCreator, e.n), wraps: make([]*wrapDir, e.n),
		dirs: make([]builder.BuildDirectory, e.n), held: make([][]virtual.PrepopulatedDirectory, e.n),
	}
	var nextParallelActionID atomic.Uint64
	for tid := 0; tid < e.n; tid++ {
		vbd := builder.NewVirtualBuildDirectory(rootPD, nil, nil, symlinkFactory, characterDeviceFactory, handleAllocator, defaultAttributesSetter, clock.SystemClock)
		w := &wrapDir{BuildDirectory: vbd, e: e, tid: tid}
		c.wraps[tid] = w
		c.chains[tid] = builder.NewSharedBuildDirectoryCreator(
			builder.NewCleanBuildDirectoryCreator(builder.NewRootBuildDirectoryCreator(w), e.inv),
			&nextParallelActionID)
	}
	e.rootList = func() []string { return listNames(rootPD) }
	e.realClean = func() error { return rootPD.RemoveAllChildren(false) }
	return c
}

func digestOf(k int) digest.Digest {
	return digest.MustNewDigest("verif", remoteexecution.DigestFunction_SHA256,
		fmt.Sprintf("%016x%048x", 0xd1905700000000+uint64(k), k), 123)
}

func (c *chainClient) digestName(o opts) string {
	if o.digest == 0 {
		return ""
	}
	return digestOf(o.digest).GetHashString()[:16]
}

func (c *chainClient) start(e *engine, tid int, ctx context.Context, o opts) {
	w := c.wraps[tid]
	w.acquired, w.fault = false, o.fault
	var dg *digest.Digest
	if o.digest != 0 {
		d := digestOf(o.digest)
		dg = &d
	}
	d, p, err := c.chains[tid].GetBuildDirectory(ctx, dg)
	w.fault = ""
	if err != nil {
		if w.acquired {
			e.relStartIfNot(tid)
			e.relEnd(tid, "any")
		} else {
			e.acqEnd(tid, classifyAcq(err))
		}
		e.tr.Emit(common.Ev{"ev": "GetEnd", "t": tn(tid), "res": "fail", "name": "", "entries": []string{}, "root": e.rootList(), "err": err.Error()})
		return
	}
	name := p.GetUNIXString()
	if i := strings.LastIndexByte(name, '/'); i >= 0 {
		name = name[i+1:]
	}
	c.dirs[tid] = d
	e.tr.Emit(common.Ev{"ev": "GetEnd", "t": tn(tid), "res": "ok", "name": name, "entries": listNames(d), "root": e.rootList(), "err": ""})
	if !w.acquired {
		// nothing to populate or to give back
		return
	}
	// The action populates its directory.
	c.held[tid] = nil
	if child, err := c.rootPD.LookupChild(path.MustNewComponent(name)); err == nil {
		if pd, _ := child.GetPair(); pd != nil {
			c.held[tid] = append(c.held[tid], pd)
		}
	}
	created := 0
	k := 1 + c.rng(3)
	for i := 0; i < k; i++ {
		sub := path.MustNewComponent(fmt.Sprintf("sub%d", i))
		if d.Mkdir(sub, 0o777) == nil {
			created++
			if sd, err := d.EnterBuildDirectory(sub); err == nil {
				if sd.Mkdir(path.MustNewComponent("deep"), 0o777) == nil {
					created++
				}
				if sd.Mknod(path.MustNewComponent("null"), os.ModeDevice|os.ModeCharDevice|0o666, filesystem.NewDeviceNumberFromMajorMinor(1, 3)) == nil {
					created++
				}
				sd.Close()
			}
			if len(c.held[tid]) > 0 {
				if child, err := c.held[tid][0].LookupChild(sub); err == nil {
					if pd, _ := child.GetPair(); pd != nil {
						c.held[tid] = append(c.held[tid], pd)
					}
				}
			}
		}
	}
	if d.Mknod(path.MustNewComponent("zero"), os.ModeDevice|os.ModeCharDevice|0o666, filesystem.NewDeviceNumberFromMajorMinor(1, 5)) == nil {
		created++
	}
	e.tr.Emit(common.Ev{"ev": "Populate", "t": tn(tid), "n": created, "entries": listNames(d)})
}

func (c *chainClient) finish(e *engine, tid int, o opts) {
	w := c.wraps[tid]
	w.fault = o.fault
	e.spawn(tid, func() {
		e.tr.Emit(common.Ev{"ev": "CloseStart", "t": tn(tid), "fault": o.fault})
		err := c.dirs[tid].Close()
		w.fault = ""
		e.relStartIfNot(tid)
		e.relEnd(tid, "any")
		detached := 0
		for _, pd := range c.held[tid] {
			detached += len(listNames(pd))
		}
		e.tr.Emit(common.Ev{"ev": "CloseEnd", "t": tn(tid), "res": resOf(err), "root": e.rootList(), "detached": detached})
	})
}

// ---- drivers

type mode struct {
	name string
	mk   func(e *engine, rng func(int) int) client
	// choose fills in the client specific options of a step
	choose func(a *action, rng func(int) int)
}

var modes = map[string]mode{
	"direct": {"direct", func(e *engine, rng func(int) int) client { return directClient{} }, func(a *action, rng func(int) int) {}},
	"runner": {"runner", func(e *engine, rng func(int) int) client { return newRunnerClient(e) }, func(a *action, rng func(int) int) {
		if a.kind == "acq" {
			a.o.variant = rng(2)
		}
		if a.kind == "rel" && rng(4) == 0 {
			a.o.fault = "base"
		}
	}},
	"creator": {"creator", func(e *engine, rng func(int) int) client { return newCreatorClient(e) }, func(a *action, rng func(int) int) {
		if a.kind == "acq" && rng(5) == 0 {
			a.o.fault = "base"
		}
		if a.kind == "rel" && rng(5) == 0 {
			a.o.fault = "close"
		}
	}},
	"chain": {"chain", func(e *engine, rng func(int) int) client { return newChainClient(e, rng) }, func(a *action, rng func(int) int) {
		if a.kind == "acq" {
			if rng(2) == 0 {
				a.o.digest = 1 + rng(3)
			}
			switch rng(12) {
			case 0:
				a.o.fault = "mkdir"
			case 1:
				a.o.fault = "enter"
			case 2:
				a.o.fault = "enter+remove"
			}
		}
		if a.kind == "rel" {
			switch rng(10) {
			case 0:
				a.o.fault = "removeall"
			case 1:
				a.o.fault = "childclose"
			}
		}
	}},
}

// enabled lists the steps the harness may take, thread by thread.
func (e *engine) enabled() []action {
	var out []action
	for tid := 0; tid < e.n; tid++ {
		switch {
		case e.pendingOf(tid) != nil:
			out = append(out, action{kind: "clean", tid: tid, res: "ok"}, action{kind: "clean", tid: tid, res: "fail"})
			if e.applicable(action{kind: "cancel", tid: tid}) {
				out = append(out, action{kind: "cancel", tid: tid})
			}
		case e.getStatus(tid) == stIdle:
			out = append(out, action{kind: "acq", tid: tid}, action{kind: "acq", tid: tid, o: opts{cancelled: true}})
		case e.getStatus(tid) == stUsing:
			out = append(out, action{kind: "rel", tid: tid})
		case e.applicable(action{kind: "cancel", tid: tid}):
			out = append(out, action{kind: "cancel", tid: tid})
		}
	}
	return out
}

func finishDriver(t *testing.T, fatal []string) {
	if len(fatal) > 0 {
		t.Fatalf("unexpected panic in the code under test or the harness:\n%s", strings.Join(fatal, "\n"))
	}
}

// spin starts VERIF_SPIN busy goroutines outside the bubbles, so that the
// goroutines of the code under test are preempted at arbitrary points
// (other interleavings inside a wake-up cascade, other log orders).
func spin() (stop func()) {
	n := common.EnvInt("VERIF_SPIN", 0)
	var flag atomic.Bool
	var wg sync.WaitGroup
	for i := 0; i < n; i++ {
		wg.Add(1)
		go func() {
			defer wg.Done()
			x := 0
			for !flag.Load() {
				x++
			}
			_ = x
		}()
	}
	return func() { flag.Store(true); wg.Wait() }
}

// TestRandom: seeded random schedules for one client kind (VERIF_MODE).
func TestRandom(t *testing.T) {
	defer spin()()
	m, ok := modes[common.Env("VERIF_MODE", "direct")]
	if !ok {
		t.Fatal("unknown VERIF_MODE")
	}
	traces := common.EnvInt("VERIF_N", 100)
	steps := common.EnvInt("VERIF_STEPS", 30)
	tr := common.NewTrace("trace.ndjson")
	defer tr.Close()
	var fatal []string
	for i := 0; i < traces; i++ {
		r := common.Rand(int64(i)*7 + int64(len(m.name)))
		rng := r.Intn
		n := 2 + rng(maxThreads-1)
		tr.Emit(common.Ev{"ev": "reset", "trace": i, "mode": m.name, "n": n})
		runTrace(t, tr, func() {
			e := newEngine(tr, n)
			if i%2 == 1 {
				// every other schedule: ChainedCleaner of two parts
				e.useChainedCleaner()
			}
			e.cl = m.mk(e, rng)
			for s := 0; s < steps && !e.isBroken(); s++ {
				acts := e.enabled()
				if len(acts) == 0 {
					break
				}
				// prefer starting work over finishing it half of the time so
				// that waiters pile up behind a cleaner
				a := acts[rng(len(acts))]
				if a.kind == "acq" && a.o.cancelled && rng(3) != 0 {
					a.o.cancelled = false
				}
				if a.kind == "cancel" && rng(2) == 0 {
					continue
				}
				m.choose(&a, rng)
				e.do(a)
			}
			if !e.isBroken() {
				e.drain()
			}
			if e.fatal != "" {
				fatal = append(fatal, e.fatal)
			}
		})
	}
	finishDriver(t, fatal)
}

// stateKey describes what the harness can see of a quiescent invoker,
// with threads in canonical order (they are interchangeable).
func (e *engine) view() (key string, order []int) {
	type tv struct {
		tid int
		s   string
	}
	var v []tv
	for tid := 0; tid < e.n; tid++ {
		s := ""
		switch st := e.getStatus(tid); {
		case e.pendingOf(tid) != nil && st == stAcquiring:
			s = "cleanA"
		case e.pendingOf(tid) != nil:
			s = "cleanR"
		case st == stAcquiring:
			s = "wait"
		case st == stUsing:
			s = "using"
		case st == stReleasing:
			s = "releasing"
		default:
			s = "idle"
		}
		v = append(v, tv{tid, s})
	}
	sort.SliceStable(v, func(i, j int) bool { return v[i].s < v[j].s })
	var parts []string
	for _, x := range v {
		parts = append(parts, x.s)
		order = append(order, x.tid)
	}
	uc, cl, _ := e.inv.VerifState()
	return fmt.Sprintf("%s uc=%d cl=%v", strings.Join(parts, ","), uc, cl), order
}

// TestEnumerate: every harness step from every quiescent state of the
// real invoker that the harness can reach with VERIF_THREADS threads
// (breadth first; a state is re-established by replaying the steps that
// first led to it, steps name threads by their canonical position).
func TestEnumerate(t *testing.T) {
	n := common.EnvInt("VERIF_THREADS", 3)
	tr := common.NewTrace("trace.ndjson")
	defer tr.Close()
	type step struct {
		kind string
		pos  int
		res  string
		o    opts
	}
	type node struct{ path []step }
	seen := map[string]bool{}
	queue := []node{{}}
	transitions, diverged, ntraces := 0, 0, 0
	maxStates := common.EnvInt("VERIF_MAX_STATES", 48)
	maxDepth := common.EnvInt("VERIF_MAX_DEPTH", 12)
	truncated := false
	var fatal []string
	first := true
	for len(queue) > 0 {
		nd := queue[0]
		queue = queue[1:]
		// steps to try from this state; found by a dry replay
		var cands []step
		var key string
		explore := func(extra *step) (reached string, ok bool) {
			ok = true
			tr.Emit(common.Ev{"ev": "reset", "trace": ntraces, "mode": "direct", "n": n})
			ntraces++
			runTrace(t, tr, func() {
				e := newEngine(tr, n)
				e.cl = directClient{}
				run := func(s step) bool {
					_, order := e.view()
					a := action{kind: s.kind, tid: order[s.pos], res: s.res, o: s.o}
					if !e.applicable(a) {
						return false
					}
					e.do(a)
					return !e.isBroken()
				}
				for _, s := range nd.path {
					if !run(s) {
						ok = false
						break
					}
				}
				if ok {
					var order []int
					key, order = e.view()
					if extra == nil {
						pos := map[int]int{}
						for p, tid := range order {
							pos[tid] = p
						}
						lastKind := map[string]bool{}
						for _, a := range e.enabled() {
							// one representative per (kind, canonical class)
							s := step{kind: a.kind, pos: pos[a.tid], res: a.res, o: a.o}
							cls := fmt.Sprintf("%s/%s/%v/%s", a.kind, classOf(e, a.tid), a.o.cancelled, a.res)
							if lastKind[cls] {
								continue
							}
							lastKind[cls] = true
							cands = append(cands, s)
						}
					} else if run(*extra) {
						reached, _ = e.view()
					} else {
						ok = false
					}
				}
				if !e.isBroken() {
					e.drain()
				}
				if e.fatal != "" {
					fatal = append(fatal, e.fatal)
				}
			})
			return reached, ok
		}
		if _, ok := explore(nil); !ok {
			diverged++
			continue
		}
		if first {
			seen[key] = true
			first = false
		}
		for i := range cands {
			s := cands[i]
			reached, ok := explore(&s)
			if !ok {
				diverged++
				continue
			}
			transitions++
			if !seen[reached] {
				// The real invoker has a handful of quiescent states; an
				// implementation whose state keeps growing (a use count
				// that leaks) must not make the enumeration run away.
				if len(seen) >= maxStates || len(nd.path) >= maxDepth {
					truncated = true
					continue
				}
				seen[reached] = true
				queue = append(queue, node{path: append(append([]step{}, nd.path...), s)})
			}
		}
	}
	keys := []string{}
	for k := range seen {
		keys = append(keys, k)
	}
	sort.Strings(keys)
	common.WriteJSON("meta.json", map[string]any{"threads": n, "states": len(seen), "transitions": transitions, "diverged_replays": diverged, "traces": ntraces, "truncated": truncated, "state_keys": keys})
	finishDriver(t, fatal)
}

func classOf(e *engine, tid int) string {
	switch st := e.getStatus(tid); {
	case e.pendingOf(tid) != nil && st == stAcquiring:
		return "cleanA"
	case e.pendingOf(tid) != nil:
		return "cleanR"
	case st == stAcquiring:
		return "wait"
	case st == stUsing:
		return "using"
	case st == stReleasing:
		return "releasing"
	}
	return "idle"
}

// TestSchedules replays schedules generated by TLC from the
// specification (VERIF_SCHEDULES = file with one JSON array of steps per
// line): each step of the environment (start an Acquire, cancel, let
// the cleaner return, start a Release) is taken on the real invoker
// when it is applicable there.
func TestSchedules(t *testing.T) {
	p := common.Env("VERIF_SCHEDULES", "")
	data, err := os.ReadFile(p)
	if err != nil {
		t.Fatal(err)
	}
	tr := common.NewTrace("trace.ndjson")
	defer tr.Close()
	taken, skipped, ntraces := 0, 0, 0
	var fatal []string
	for _, ln := range strings.Split(string(data), "\n") {
		ln = strings.TrimSpace(ln)
		if ln == "" {
			continue
		}
		sched := parseSchedule(ln)
		tr.Emit(common.Ev{"ev": "reset", "trace": ntraces, "mode": "direct", "n": 3})
		ntraces++
		runTrace(t, tr, func() {
			e := newEngine(tr, 3)
			e.cl = directClient{}
			for _, a := range sched {
				if e.isBroken() {
					break
				}
				if !e.applicable(a) {
					skipped++
					continue
				}
				taken++
				e.do(a)
			}
			if !e.isBroken() {
				e.drain()
			}
			if e.fatal != "" {
				fatal = append(fatal, e.fatal)
			}
		})
	}
	common.WriteJSON("meta.json", map[string]any{"schedules": ntraces, "steps_taken": taken, "steps_not_applicable": skipped})
	finishDriver(t, fatal)
}

func parseSchedule(ln string) []action {
	var raw []struct {
		A string `json:"a"`
		T string `json:"t"`
		C bool   `json:"c"`
		R string `json:"r"`
	}
	if err := json.Unmarshal([]byte(ln), &raw); err != nil {
		panic(fmt.Sprintf("bad schedule line %q: %v", ln, err))
	}
	var out []action
	for _, r := range raw {
		tid, _ := strconv.Atoi(strings.TrimPrefix(r.T, "t"))
		out = append(out, action{kind: r.A, tid: tid - 1, res: r.R, o: opts{cancelled: r.C}})
	}
	return out
}
