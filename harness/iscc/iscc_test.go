// Package iscc drives the real size-class analyzers and the real
// BlobAccess backed MutableProtoStore and records traces that
// specs/ISCCTrace.tla validates (property C07, parts 2 and 3).
//
// This file: part 3 (persistence). The real store from
// NewBlobAccessMutableProtoStore runs over a fake Initial Size Class
// Cache whose Get()/Put() calls are gates opened by the driver, inside a
// testing/synctest bubble so that "everything is blocked again" is a
// deterministic notion. The driver executes schedules of the commands
//
//	get t d      thread t calls store.Get(d)
//	rd t ok      the backing store answers t's read (ok / error)
//	wa t d c ok  the backing store applies t's Put of content c for d
//	             (ok: stored, call not yet returned; !ok: Put fails)
//	wd t d c     that Put returns
//	rel t dirty  t mutates the message (new content version) if dirty
//	             and releases its handle
//
// and after each command logs the complete bookkeeping of the store as
// exported by the verif hook. No judgement happens here.
package iscc

import (
	"bufio"
	"context"
	"encoding/json"
	"fmt"
	"os"
	"path/filepath"
	"sort"
	"sync"
	"testing"
	"testing/synctest"

	remoteexecution "github.com/bazelbuild/remote-apis/build/bazel/remote/execution/v2"
	re_blobstore "github.com/buildbarn/bb-remote-execution/pkg/blobstore"
	"github.com/buildbarn/bb-storage/pkg/blobstore"
	"github.com/buildbarn/bb-storage/pkg/blobstore/buffer"
	"github.com/buildbarn/bb-storage/pkg/digest"
	"github.com/buildbarn/bb-storage/pkg/proto/iscc"

	"google.golang.org/grpc/codes"
	"google.golang.org/grpc/status"
	"google.golang.org/protobuf/proto"
	"google.golang.org/protobuf/types/known/timestamppb"

	"verif/harness/common"
)

const maxMessageSize = 1 << 20

// maxUpdates bounds the dirty releases of one trace (one bit each in a
// mask that TLC reads as a 32-bit integer).
const maxUpdates = 29

var (
	storeThreads = []string{"t1", "t2", "t3"}
	// storeDigests are the digests schedules work on; drainDigest is
	// only used by the final drain (nobody ever updates it, so getting
	// it never touches a handle that carries an update).
	storeDigests = []string{"d1", "d2"}
	drainDigest  = "d0"
	allDigests   = []string{"d0", "d1", "d2"}
)

type statsStore = re_blobstore.MutableProtoStore[*iscc.PreviousExecutionStats]
type statsHandle = re_blobstore.MutableProtoHandle[*iscc.PreviousExecutionStats]

type threadKey struct{}

// contentVersion is the ghost content of a stats message: the set of
// updates (dirty releases, numbered 1, 2, ... per trace) the message
// incorporates, as a bit mask (update u = bit u) that the driver keeps in
// last_seen_failure.seconds. A dirty release adds its bit to whatever the
// handle's message held, so a handle that was created from a stale read
// visibly lacks the updates it did not see.
func contentVersion(m *iscc.PreviousExecutionStats) int {
	if m == nil || m.LastSeenFailure == nil {
		return 0
	}
	return int(m.LastSeenFailure.Seconds)
}

// pendOp is one BlobAccess call that is blocked at a gate.
type pendOp struct {
	k    string // "r" or "w"
	t    string // thread (from the context)
	d    string // model digest
	c    int    // content version being written
	h    int    // handle id the driver attributes the write to
	st   string // "flight" or "applied"
	gate chan string
}

// fakeISCC is the backing BlobAccess. Only Get and Put are used by the
// store.
type fakeISCC struct {
	blobstore.BlobAccess
	mu    sync.Mutex
	data  map[string]*iscc.PreviousExecutionStats
	ops   []*pendOp
	names map[string]string // digest.String() -> model digest
}

func (f *fakeISCC) register(ctx context.Context, k string, dg digest.Digest, c int) *pendOp {
	t, _ := ctx.Value(threadKey{}).(string)
	op := &pendOp{k: k, t: t, d: f.names[dg.String()], c: c, st: "flight", gate: make(chan string)}
	f.mu.Lock()
	f.ops = append(f.ops, op)
	f.mu.Unlock()
	return op
}

func (f *fakeISCC) unregister(op *pendOp) {
	f.mu.Lock()
	for i, o := range f.ops {
		if o == op {
			f.ops = append(f.ops[:i], f.ops[i+1:]...)
			break
		}
	}
	f.mu.Unlock()
}

func (f *fakeISCC) Get(ctx context.Context, dg digest.Digest) buffer.Buffer {
	op := f.register(ctx, "r", dg, 0)
	res := <-op.gate
	defer f.unregister(op)
	if res != "ok" {
		return buffer.NewBufferFromError(status.Error(codes.Internal, "injected read failure"))
	}
	f.mu.Lock()
	m := f.data[op.d]
	f.mu.Unlock()
	if m == nil {
		return buffer.NewBufferFromError(status.Error(codes.NotFound, "no such stats"))
	}
	return buffer.NewProtoBufferFromProto(proto.Clone(m), buffer.UserProvided)
}

func (f *fakeISCC) Put(ctx context.Context, dg digest.Digest, b buffer.Buffer) error {
	pm, err := b.ToProto(&iscc.PreviousExecutionStats{}, maxMessageSize)
	if err != nil {
		return err
	}
	m := pm.(*iscc.PreviousExecutionStats)
	op := f.register(ctx, "w", dg, contentVersion(m))
	res := <-op.gate
	if res != "ok" {
		f.unregister(op)
		return status.Error(codes.Internal, "injected write failure")
	}
	f.mu.Lock()
	f.data[op.d] = proto.Clone(m).(*iscc.PreviousExecutionStats)
	op.st = "applied"
	f.mu.Unlock()
	<-op.gate
	f.unregister(op)
	return nil
}

// cmd is one schedule command (same fields as the labels of ISCC.tla).
type cmd struct {
	A  string `json:"a"`
	T  string `json:"t"`
	D  string `json:"d"`
	C  int    `json:"c"`
	Ok bool   `json:"ok"`
}

type thread struct {
	name   string
	pc     string // idle, get, hold
	d      string
	ex     bool
	pinned int // handle id found in the map when Get started (0 if none)
	h      int // handle id owned (pc == hold)
	handle statsHandle
	err    bool

	mu       sync.Mutex
	returned bool
	retH     statsHandle
	retErr   error
}

// world is one store with its threads; it lives inside a synctest bubble.
type world struct {
	tr      *common.Trace
	fake    *fakeISCC
	store   statsStore
	digests map[string]digest.Digest
	threads map[string]*thread
	ids     map[any]int
	byID    []statsHandle
	latest  map[string]int
	prev    snapshot
	gets    int
	upds    int
}

type hState struct {
	Dg  string `json:"dg"`
	Use int    `json:"use"`
	Wr  int    `json:"wr"`
	Cur int    `json:"cur"`
	C   int    `json:"c"`
}

type opState struct {
	K  string `json:"k"`
	H  int    `json:"h"`
	C  int    `json:"c"`
	St string `json:"st"`
}

type tState struct {
	Pc  string    `json:"pc"`
	Dg  string    `json:"dg"`
	H   int       `json:"h"`
	Ex  bool      `json:"ex"`
	Ops []opState `json:"ops"`
}

type snapshot struct {
	Hs      []hState          `json:"hs"`
	Hmap    map[string]int    `json:"hmap"`
	Queue   []int             `json:"queue"`
	Backing map[string]int    `json:"backing"`
	Latest  map[string]int    `json:"latest"`
	// Th lists the threads that are not idle.
	Th map[string]tState `json:"th"`
	Ng int               `json:"ng"`
	Nu int               `json:"nu"`
	// observation-only extra (not part of the model state)
	qi []int
}

func newWorld(tr *common.Trace) *world {
	w := &world{
		tr:      tr,
		fake:    &fakeISCC{data: map[string]*iscc.PreviousExecutionStats{}, names: map[string]string{}},
		digests: map[string]digest.Digest{},
		threads: map[string]*thread{},
		ids:     map[any]int{},
		latest:  map[string]int{},
	}
	for i, d := range allDigests {
		dg := digest.MustNewDigest("iscc", remoteexecution.DigestFunction_SHA256,
			fmt.Sprintf("%064x", i+1), int64(100+i))
		w.digests[d] = dg
		w.fake.names[dg.String()] = d
		w.latest[d] = 0
	}
	for _, t := range storeThreads {
		w.threads[t] = &thread{name: t, pc: "idle", d: "none"}
	}
	w.store = re_blobstore.NewBlobAccessMutableProtoStore[iscc.PreviousExecutionStats](w.fake, maxMessageSize)
	w.prev = w.snap()
	return w
}

func (w *world) idOf(h any) int {
	if id, ok := w.ids[h]; ok {
		return id
	}
	id := len(w.ids) + 1
	w.ids[h] = id
	w.byID = append(w.byID, h.(statsHandle))
	return id
}

// snap reads the store through the hook and combines it with what the
// driver and the fake backing store know.
func (w *world) snap() snapshot {
	hs, queue, ok := re_blobstore.VerifMutableProtoStoreSnapshot[iscc.PreviousExecutionStats](w.store, w.byID)
	if !ok {
		panic("store is not the BlobAccess backed implementation")
	}
	// Known handles keep their ids; new ones get ids in the order
	// queue, then map (at most one new handle per step in practice).
	for _, h := range hs {
		w.idOf(h.Handle)
	}
	s := snapshot{
		Hs:      make([]hState, len(w.ids)),
		qi:      make([]int, len(w.ids)),
		Hmap:    map[string]int{},
		Queue:   []int{},
		Backing: map[string]int{},
		Latest:  map[string]int{},
		Th:      map[string]tState{},
		Ng:      0,
		Nu:      0,
	}
	for _, d := range allDigests {
		s.Hmap[d] = 0
		s.Latest[d] = w.latest[d]
	}
	for _, h := range hs {
		id := w.ids[h.Handle]
		d := w.fake.names[h.DigestKey]
		s.Hs[id-1] = hState{Dg: d, Use: h.UseCount, Wr: h.WrittenVersion, Cur: h.CurrentVersion,
			C: contentVersion(h.Message.(*iscc.PreviousExecutionStats))}
		s.qi[id-1] = h.HandlesToWriteIndex
		if h.InMap {
			s.Hmap[d] = id
		}
	}
	for _, q := range queue {
		s.Queue = append(s.Queue, w.ids[q])
	}
	w.fake.mu.Lock()
	for _, d := range allDigests {
		s.Backing[d] = contentVersion(w.fake.data[d])
	}
	// Attribute new writes to handles: a write for (d, c) that has no
	// handle yet belongs to a handle of digest d with content c that was
	// queued in the previous snapshot and is not queued now.
	for _, op := range w.fake.ops {
		if op.k == "w" && op.h == 0 {
			best := 0
			for id := range s.Hs {
				if s.Hs[id].Dg != op.d || s.Hs[id].C != op.c {
					continue
				}
				wasQueued := false
				for _, q := range w.prev.Queue {
					if q == id+1 {
						wasQueued = true
					}
				}
				if wasQueued && s.qi[id] < 0 && (best == 0) {
					best = id + 1
				}
			}
			if best == 0 {
				for id := range s.Hs {
					if s.Hs[id].Dg == op.d && s.Hs[id].C == op.c && best == 0 {
						best = id + 1
					}
				}
			}
			op.h = best
		}
	}
	for _, t := range storeThreads {
		th := w.threads[t]
		ts := tState{Pc: th.pc, Dg: th.d, H: 0, Ex: false, Ops: []opState{}}
		switch th.pc {
		case "get":
			ts.Ex = th.ex
			ts.H = th.pinned
		case "hold":
			ts.Ex = th.ex
			ts.H = th.h
		}
		for _, op := range w.fake.ops {
			if op.t == t {
				ts.Ops = append(ts.Ops, opState{K: op.k, H: op.h, C: op.c, St: op.st})
			}
		}
		sort.Slice(ts.Ops, func(i, j int) bool {
			a, b := ts.Ops[i], ts.Ops[j]
			if a.K != b.K {
				return a.K < b.K
			}
			if a.H != b.H {
				return a.H < b.H
			}
			return a.C < b.C
		})
		if th.pc != "idle" {
			s.Th[t] = ts
		}
	}
	w.fake.mu.Unlock()
	return s
}

func (w *world) findOp(t, k, d string, c int, st string) *pendOp {
	w.fake.mu.Lock()
	defer w.fake.mu.Unlock()
	for _, op := range w.fake.ops {
		if op.t == t && op.k == k && op.st == st && (k == "r" || (op.d == d && op.c == c)) {
			return op
		}
	}
	return nil
}

// settle waits until every goroutine is blocked and moves threads whose
// Get() returned to their next state.
func (w *world) settle() {
	synctest.Wait()
	for _, t := range storeThreads {
		th := w.threads[t]
		if th.pc != "get" {
			continue
		}
		th.mu.Lock()
		returned, h, err := th.returned, th.retH, th.retErr
		th.mu.Unlock()
		if !returned {
			continue
		}
		if err != nil {
			th.pc, th.d, th.ex, th.pinned, th.h, th.handle, th.err = "idle", "none", false, 0, 0, nil, true
			continue
		}
		th.pc, th.handle, th.h = "hold", h, w.idOf(any(h))
	}
}

// exec runs one command; it reports false if the command is not
// executable in the current state (then nothing happened).
func (w *world) exec(c cmd) bool {
	th := w.threads[c.T]
	if th == nil {
		return false
	}
	switch c.A {
	case "get":
		dg, ok := w.digests[c.D]
		if th.pc != "idle" || !ok {
			return false
		}
		th.pc, th.d, th.err = "get", c.D, false
		th.pinned = w.prev.Hmap[c.D]
		th.ex = th.pinned != 0
		th.mu.Lock()
		th.returned, th.retH, th.retErr = false, nil, nil
		th.mu.Unlock()
		ctx := context.WithValue(context.Background(), threadKey{}, c.T)
		w.gets++
		go func() {
			h, err := w.store.Get(ctx, dg)
			th.mu.Lock()
			th.returned, th.retH, th.retErr = true, h, err
			th.mu.Unlock()
		}()
	case "rd":
		op := w.findOp(c.T, "r", "", 0, "flight")
		if op == nil {
			return false
		}
		if c.Ok {
			op.gate <- "ok"
		} else {
			op.gate <- "fail"
		}
	case "wa":
		op := w.findOp(c.T, "w", c.D, c.C, "flight")
		if op == nil {
			return false
		}
		if c.Ok {
			op.gate <- "ok"
		} else {
			op.gate <- "fail"
		}
	case "wd":
		op := w.findOp(c.T, "w", c.D, c.C, "applied")
		if op == nil {
			return false
		}
		op.gate <- "return"
	case "rel":
		if th.pc != "hold" {
			return false
		}
		if c.Ok {
			m := th.handle.GetMutableProto()
			w.upds++
			bit := 1 << uint(w.upds)
			w.latest[th.d] |= bit
			m.LastSeenFailure = &timestamppb.Timestamp{Seconds: int64(contentVersion(m) | bit)}
		}
		th.handle.Release(c.Ok)
		th.pc, th.d, th.ex, th.pinned, th.h, th.handle = "idle", "none", false, 0, 0, nil
	default:
		return false
	}
	return true
}

// step executes a command and logs it together with the resulting state.
func (w *world) step(c cmd) bool {
	done := w.exec(c)
	if !done {
		w.tr.Emit(common.Ev{"ev": "skip", "a": c.A, "t": c.T, "d": c.D, "c": c.C, "ok": c.Ok})
		return false
	}
	w.settle()
	s := w.snap()
	s.Ng, s.Nu = w.gets, w.upds
	w.prev = s
	w.tr.Emit(common.Ev{"ev": "st", "a": c.A, "t": c.T, "d": c.D, "c": c.C, "ok": c.Ok, "S": s})
	return true
}

// enabled lists the commands that can be executed now.
func (w *world) enabled(allowGet, allowDirty, allowFail bool) []cmd {
	var out []cmd
	for _, t := range storeThreads {
		th := w.threads[t]
		switch th.pc {
		case "idle":
			if allowGet {
				for _, d := range storeDigests {
					out = append(out, cmd{"get", t, d, 0, true})
				}
			}
		case "hold":
			out = append(out, cmd{"rel", t, th.d, 0, false})
			if allowDirty && w.upds < maxUpdates {
				out = append(out, cmd{"rel", t, th.d, 0, true})
			}
		case "get":
			w.fake.mu.Lock()
			for _, op := range w.fake.ops {
				if op.t != t {
					continue
				}
				switch {
				case op.k == "r":
					out = append(out, cmd{"rd", t, th.d, 0, true})
					if allowFail {
						out = append(out, cmd{"rd", t, th.d, 0, false})
					}
				case op.st == "flight":
					out = append(out, cmd{"wa", t, op.d, op.c, true})
					if allowFail {
						out = append(out, cmd{"wa", t, op.d, op.c, false})
					}
				default:
					out = append(out, cmd{"wd", t, op.d, op.c, true})
				}
			}
			w.fake.mu.Unlock()
		}
	}
	return out
}

// drain completes every call successfully, releases every handle clean
// and then keeps calling Get() until the write queue is empty: what the
// backing store holds afterwards is what survives.
func (w *world) drain() {
	for round := 0; round < 120; round++ {
		cs := w.enabled(false, false, false)
		if len(cs) == 0 {
			if len(w.prev.Queue) == 0 {
				break
			}
			// Everything is idle but handles are queued: one more Get().
			w.step(cmd{"get", storeThreads[0], drainDigest, 0, true})
			continue
		}
		w.step(cs[0])
	}
	w.tr.Emit(common.Ev{"ev": "end", "S": w.prev})
}

// abort lets every blocked call fail so that the bubble can end.
func (w *world) abort() {
	for i := 0; i < 100; i++ {
		w.fake.mu.Lock()
		var op *pendOp
		if len(w.fake.ops) > 0 {
			op = w.fake.ops[0]
		}
		w.fake.mu.Unlock()
		if op == nil {
			return
		}
		op.gate <- "fail"
		synctest.Wait()
	}
}

func runSchedule(t *testing.T, tr *common.Trace, name string, idx int, sched func(w *world)) {
	synctest.Test(t, func(t *testing.T) {
		tr.Emit(common.Ev{"ev": "reset", "part": "store", "name": name, "trace": idx})
		w := newWorld(tr)
		defer w.abort()
		defer func() {
			if r := recover(); r != nil {
				tr.Emit(common.Ev{"ev": "panic", "msg": fmt.Sprint(r)})
			}
		}()
		sched(w)
		w.drain()
	})
}

// TestStoreRandom: seeded random schedules.
func TestStoreRandom(t *testing.T) {
	n := common.EnvInt("VERIF_N", 200)
	steps := common.EnvInt("VERIF_STEPS", 40)
	tr := common.NewTrace("trace.ndjson")
	defer tr.Close()
	for i := 0; i < n; i++ {
		rng := common.Rand(int64(1000 + i))
		failPct := []int{0, 5, 15, 30}[rng.Intn(4)]
		dirtyPct := []int{30, 60, 90}[rng.Intn(3)]
		nThreads := 1 + rng.Intn(len(storeThreads))
		runSchedule(t, tr, "random", i, func(w *world) {
			for s := 0; s < steps; s++ {
				all := w.enabled(true, true, true)
				var cs []cmd
				for _, c := range all {
					if c.T > storeThreads[nThreads-1] {
						continue
					}
					isFail := (c.A == "rd" || c.A == "wa") && !c.Ok
					if isFail && rng.Intn(100) >= failPct {
						continue
					}
					if c.A == "rel" {
						if c.Ok != (rng.Intn(100) < dirtyPct) {
							continue
						}
					}
					cs = append(cs, c)
				}
				if len(cs) == 0 {
					cs = all
				}
				if len(cs) == 0 {
					break
				}
				w.step(cs[rng.Intn(len(cs))])
			}
		})
	}
}

func readSchedule(path string) ([]cmd, error) {
	f, err := os.Open(path)
	if err != nil {
		return nil, err
	}
	defer f.Close()
	var out []cmd
	sc := bufio.NewScanner(f)
	for sc.Scan() {
		if len(sc.Bytes()) == 0 {
			continue
		}
		var c cmd
		if err := json.Unmarshal(sc.Bytes(), &c); err != nil {
			return nil, err
		}
		out = append(out, c)
	}
	return out, sc.Err()
}

// TestStoreReplay: replays the schedules TLC generated (counterexamples of
// the "as coded" model variant, simulated behaviours) found as *.ndjson
// files in VERIF_SCHED_DIR.
func TestStoreReplay(t *testing.T) {
	dir := common.Env("VERIF_SCHED_DIR", "")
	files, _ := filepath.Glob(filepath.Join(dir, "*.ndjson"))
	sort.Strings(files)
	tr := common.NewTrace("trace.ndjson")
	defer tr.Close()
	executed, skipped := 0, 0
	for i, p := range files {
		cs, err := readSchedule(p)
		if err != nil {
			t.Fatalf("%s: %v", p, err)
		}
		runSchedule(t, tr, filepath.Base(p), i, func(w *world) {
			for _, c := range cs {
				if c.A == "fin" {
					continue
				}
				if w.step(c) {
					executed++
				} else {
					skipped++
				}
			}
		})
	}
	common.WriteJSON("meta.json", map[string]any{"schedules": len(files), "executed": executed, "skipped": skipped})
}
