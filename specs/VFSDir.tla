------------------------------- MODULE VFSDir -------------------------------
(***************************************************************************)
(* Reference model of pkg/filesystem/virtual/in_memory_prepopulated_       *)
(* directory.go (property C13): a POSIX-style file hierarchy.              *)
(*                                                                         *)
(* The state is a pair S = [dirs, leaves] (plus the scratch field `mat`):  *)
(*   dirs[id]   = [deleted, lazy, pend, chg, nc, ents]                     *)
(*                ents: sequence of [n (name), k (kind), c (child id),     *)
(*                ck (cookie)] in attach order; cookies strictly increase  *)
(*                along the sequence and are never re-issued (nc = the     *)
(*                largest cookie issued so far); chg = change counter      *)
(*                (only ever compared for increase); lazy/pend = contents  *)
(*                not instantiated yet (InitialContentsFetcher).           *)
(*   leaves[id] = [k (file|fifo|socket|symlink), links, t (target)]        *)
(*                symlinks are stateless: one leaf per target, no count.   *)
(* Every API call is an operator  <Op>Res(S, args)  that returns the SET   *)
(* of outcomes [st, S, ret] a POSIX hierarchy + the documented interface   *)
(* permit; each case of the case analysis is a separate named disjunct.    *)
(* Where POSIX leaves the choice of errno open when several error          *)
(* conditions hold, every applicable error is allowed.                     *)
(* The same operators are used by the exhaustive configuration (Next) and  *)
(* by VFSDirTrace.tla to judge traces of the real code.                    *)
(***************************************************************************)
EXTENDS Integers, Sequences, FiniteSets, TLC

CONSTANTS NameOrder,      \* all names, in byte order (strings cannot be compared in TLC)
          HiddenNames,    \* names matched by the hidden-files pattern
          MaxDirs,        \* bounds of the exhaustive configuration only
          MaxLeaves,
          SymLeaf,        \* leaf id standing for "symlink to target t0" (exhaustive cfg only)
          InitCI,         \* exhaustive cfg: case-insensitive normalizer?
          InitHid,        \* exhaustive cfg: hidden-files matcher enabled?
          Ops,            \* exhaustive cfg: the calls that are generated (set of names, see Next)
          AllowSubtreeRename  \* exhaustive cfg: generate renames of a directory into its own subtree?

VARIABLES dirs, leaves,
          mode,           \* [ci, hid]: which normalizer / matcher this hierarchy was built with
          reply,          \* reply of the last call
          lst,            \* the Listing process (paginated readdir with a resumable cookie)
          hist            \* history of calls (for behaviour generation; hidden by the VIEW)

vars == <<dirs, leaves, mode, reply, lst, hist>>

\* values for NameOrder (a cfg file cannot contain a sequence)
NamesSmall == <<"A", "a", "b">>
NamesAB == <<"a", "b">>
NamesCI == <<"A", "a">>
NamesABC == <<"a", "b", "c">>
NamesTrace == <<"A", "B", "_h", "a", "b", "c">>

Names == {NameOrder[i] : i \in 1 .. Len(NameOrder)}
NameRank(n) == CHOOSE i \in 1 .. Len(NameOrder) : NameOrder[i] = n

Lower(n) == CASE n = "A" -> "a" [] n = "B" -> "b" [] n = "C" -> "c" [] n = "_H" -> "_h" [] OTHER -> n
Norm(n) == IF mode.ci THEN Lower(n) ELSE n
Hidden(n) == mode.hid /\ n \in HiddenNames

LeafKinds == {"file", "fifo", "socket", "symlink"}
Stateful(k) == k \in {"file", "fifo", "socket"}
Root == 0

-----------------------------------------------------------------------------
(* Sequence helpers.                                                       *)

Range(s) == {s[i] : i \in 1 .. Len(s)}
Without(s_, i) == LET s == s_ IN [j \in 1 .. (Len(s) - 1) |-> IF j < i THEN s[j] ELSE s[j + 1]]
Find(es_, n) ==
  LET es == es_
      I == {i \in 1 .. Len(es) : Norm(es[i].n) = Norm(n)}
  IN IF I = {} THEN 0 ELSE CHOOSE i \in I : TRUE
Strip(e) == [n |-> e.n, k |-> e.k, c |-> e.c]
Visible(es) == SelectSeq(es, LAMBDA e : e.k = "d" \/ ~Hidden(e.n))

NewDir(pend) == [deleted |-> FALSE, lazy |-> TRUE, pend |-> pend, chg |-> 0, nc |-> 0, ents |-> <<>>]
NoRet == [k |-> "none", c |-> -1, list |-> <<>>, more |-> FALSE]
ChildRet(e) == [k |-> e.k, c |-> e.c, list |-> <<>>, more |-> FALSE]

\* (TLC evaluates an operator argument at every use of the parameter but a
\* LET definition only once: state arguments are re-bound with LET.)
SetDir(S_, d, r_) == LET S == S_  r == r_ IN [S EXCEPT !.dirs = (d :> r) @@ S.dirs]
SetLeaf(S_, c, r_) == LET S == S_  r == r_ IN [S EXCEPT !.leaves = (c :> r) @@ S.leaves]

-----------------------------------------------------------------------------
(* Primitive state changes.                                                *)

\* attach a child at the end of the list with a fresh cookie; modification.
Attach(S_, d, n, k, c) ==
  LET S == S_  r == S.dirs[d] IN
  SetDir(S, d, [r EXCEPT !.ents = Append(r.ents, [n |-> n, k |-> k, c |-> c, ck |-> r.nc + 1]),
                         !.nc = r.nc + 1, !.chg = r.chg + 1])

\* the same while instantiating lazy contents: no (required) change of chg.
AttachQuiet(S_, d, n, k, c) ==
  LET S == S_  r == S.dirs[d] IN
  SetDir(S, d, [r EXCEPT !.ents = Append(r.ents, [n |-> n, k |-> k, c |-> c, ck |-> r.nc + 1]),
                         !.nc = r.nc + 1])

Detach(S_, d, i) ==
  LET S == S_  r == S.dirs[d] IN
  SetDir(S, d, [r EXCEPT !.ents = Without(r.ents, i), !.chg = r.chg + 1])

DetachName(S_, d, n) == LET S == S_ IN Detach(S, d, Find(S.dirs[d].ents, n))

\* a new leaf object owned by one directory entry (or an existing symlink)
MakeLeaf(S_, k, c, t) ==
  LET S == S_ IN
  IF k = "symlink"
  THEN (IF c \in DOMAIN S.leaves THEN S ELSE SetLeaf(S, c, [k |-> "symlink", links |-> 0, t |-> t]))
  ELSE SetLeaf(S, c, [k |-> k, links |-> 1, t |-> ""])

LinkUp(S_, c) ==
  LET S == S_ IN
  IF S.leaves[c].k = "symlink" THEN S
  ELSE SetLeaf(S, c, [S.leaves[c] EXCEPT !.links = @ + 1])

Unlink(S_, c) ==
  LET S == S_ IN
  IF S.leaves[c].k = "symlink" THEN S
  ELSE SetLeaf(S, c, [S.leaves[c] EXCEPT !.links = @ - 1])

\* child description (used by CreateChildren and by lazy contents):
\* [n, k, c, t, sub]; k = "d" creates a lazy directory c with contents sub.
RECURSIVE AttachChildren(_, _, _, _, _)
AttachChildren(S_, d, ch, i, quiet) ==
  LET S == S_ IN
  IF i > Len(ch) THEN S
  ELSE LET x == ch[i]
           S1 == IF x.k = "d" THEN SetDir(S, x.c, NewDir(x.sub)) ELSE MakeLeaf(S, x.k, x.c, x.t)
           S2 == IF quiet THEN AttachQuiet(S1, d, x.n, x.k, x.c) ELSE Attach(S1, d, x.n, x.k, x.c)
       IN AttachChildren(S2, d, ch, i + 1, quiet)

\* Instantiate lazy contents (getContents()).  Not a modification that a
\* client asked for, so chg need not move; `mat` remembers that it may.
Mat(S_, d) ==
  LET S == S_  r == S.dirs[d] IN
  IF ~r.lazy THEN S
  ELSE LET S1 == SetDir(S, d, [r EXCEPT !.lazy = FALSE, !.pend = <<>>])
           S2 == AttachChildren(S1, d, r.pend, 1, TRUE)
       IN IF r.pend = <<>> THEN S2 ELSE [S2 EXCEPT !.mat = @ \cup {d}]

\* "empty" in the sense of rmdir(): no directories, and only hidden leaves
\* (the documented purpose of the hidden-files matcher).
Deletable(S_, d) == LET S == S_ IN \A i \in 1 .. Len(S.dirs[d].ents) :
                      S.dirs[d].ents[i].k # "d" /\ Hidden(S.dirs[d].ents[i].n)

RECURSIVE UnlinkAll(_, _, _)
UnlinkAll(S_, es_, i) == LET S == S_  es == es_ IN IF i > Len(es) THEN S ELSE UnlinkAll(Unlink(S, es[i].c), es, i + 1)

\* markDeleted(): d is instantiated and Deletable; leftover hidden leaves go.
MarkDeleted(S_, d) ==
  LET S == S_  r == S.dirs[d] IN
  IF r.deleted THEN S
  ELSE UnlinkAll(SetDir(S, d, [r EXCEPT !.deleted = TRUE, !.ents = <<>>, !.chg = r.chg + Len(r.ents)]),
                 r.ents, 1)

\* removeAllChildren(deleteSelf): recursive removal; lazy contents are
\* dropped without being instantiated.
RECURSIVE Clear(_, _, _), DropEntries(_, _, _)
Clear(S_, d, self) ==
  LET S == S_  r == S.dirs[d] IN
  IF r.lazy
  THEN SetDir(S, d, [r EXCEPT !.lazy = FALSE, !.pend = <<>>, !.deleted = self])
  ELSE DropEntries(SetDir(S, d, [r EXCEPT !.ents = <<>>, !.chg = r.chg + Len(r.ents),
                                          !.deleted = r.deleted \/ self]),
                   r.ents, 1)
DropEntries(S_, es_, i) ==
  LET S == S_  es == es_ IN
  IF i > Len(es) THEN S
  ELSE DropEntries(IF es[i].k = "d" THEN Clear(S, es[i].c, TRUE) ELSE Unlink(S, es[i].c), es, i + 1)

\* directories reachable from `top` through instantiated entries (incl. top)
RECURSIVE ReachFrom(_, _, _)
ReachFrom(S, todo_, seen_) ==
  LET todo == todo_  seen == seen_ IN
  IF todo = {} THEN seen
  ELSE LET d == CHOOSE x \in todo : TRUE
           kids == {S.dirs[d].ents[i].c : i \in {j \in 1 .. Len(S.dirs[d].ents) : S.dirs[d].ents[j].k = "d"}}
       IN ReachFrom(S, (todo \cup kids) \ (seen \cup {d}), seen \cup {d})
Subtree(S, top) == ReachFrom(S, {top}, {})

\* number of directory entries that refer to leaf c
RECURSIVE RefsIn(_, _, _)
RefsIn(S, ds, c) ==
  IF ds = {} THEN 0
  ELSE LET d == CHOOSE x \in ds : TRUE
       IN Cardinality({i \in 1 .. Len(S.dirs[d].ents) :
                         S.dirs[d].ents[i].k # "d" /\ S.dirs[d].ents[i].c = c}) + RefsIn(S, ds \ {d}, c)
Refs(S, c) == RefsIn(S, DOMAIN S.dirs, c)

-----------------------------------------------------------------------------
(* Outcomes.                                                               *)

Ok(S, ret) == {[st |-> "OK", S |-> S, ret |-> ret]}
Err(S_, E) == LET S == S_ IN {[st |-> e, S |-> S, ret |-> NoRet] : e \in E}
\* if any error condition holds the call fails with one of the applicable
\* errors and changes nothing; otherwise the success outcome(s).
Decide(S, E_, good) == LET E == E_ IN IF E # {} THEN Err(S, E) ELSE good

AttachErrs(S_, d, n) ==
  LET S == S_ IN
  (IF S.dirs[d].deleted THEN {"NoEnt"} ELSE {}) \cup
  (IF Find(S.dirs[d].ents, n) # 0 THEN {"Exist"} ELSE {})

-----------------------------------------------------------------------------
(* Kernel-facing calls (virtual.Directory).                                *)

\* VirtualLookup / LookupChild: hidden names resolve (hiding affects
\* listings and emptiness only).
LookupRes(S0, d, n) ==
  LET S == Mat(S0, d)
      i == Find(S.dirs[d].ents, n)
  IN IF i = 0 THEN Err(S, {"NoEnt"})                        \* Lookup_Missing
     ELSE Ok(S, ChildRet(S.dirs[d].ents[i]))                \* Lookup_Found

MkdirRes(S0, d, n, new) ==
  LET S == Mat(S0, d) IN
  Decide(S, AttachErrs(S, d, n),                            \* Mkdir_Deleted / Mkdir_Exists
         Ok(Attach(SetDir(S, new, NewDir(<<>>)), d, n, "d", new),
            [NoRet EXCEPT !.k = "d", !.c = new]))           \* Mkdir_Created

\* kind: fifo | socket | symlink are permitted; anything else (devices) EPERM
MknodRes(S0, d, n, kind, new, t) ==
  LET S == Mat(S0, d) IN
  Decide(S, AttachErrs(S, d, n) \cup (IF kind \in {"fifo", "socket", "symlink"} THEN {} ELSE {"Perm"}),
         Ok(Attach(MakeLeaf(S, kind, new, t), d, n, kind, new),
            [NoRet EXCEPT !.k = kind, !.c = new]))          \* Mknod_Created

\* VirtualLink: hard link to an existing leaf.
LinkRes(S0, d, n, c) ==
  LET S == Mat(S0, d)
      lf == S.leaves[c]
      dead == Stateful(lf.k) /\ lf.links = 0
      good == Ok(Attach(LinkUp(S, c), d, n, lf.k, c), [NoRet EXCEPT !.k = lf.k, !.c = c])
  IN Decide(S, AttachErrs(S, d, n) \cup (IF dead THEN {"Stale", "NoEnt"} ELSE {}),   \* Link_Deleted/_Exists/_UnlinkedLeaf
            IF lf.k = "symlink" /\ Refs(S, c) = 0
            THEN good \cup Err(S, {"Stale", "NoEnt"})       \* Link_StatelessGone: handle may or may not still resolve
            ELSE good)                                      \* Link_Linked

\* VirtualOpenChild(createAttributes given?, existingOptions given?)
OpenChildRes(S0, d, n, create, existing, new) ==
  LET S == Mat(S0, d)
      i == Find(S.dirs[d].ents, n)
  IN IF i # 0
     THEN LET e == S.dirs[d].ents[i] IN
          IF ~existing THEN Err(S, {"Exist"})               \* Open_ExclExists
          ELSE IF e.k = "d" THEN Err(S, {"IsDir"})          \* Open_IsDirectory
          ELSE IF e.k # "file" THEN Err(S, {"Symlink"})     \* Open_Irregular (NFS4ERR_SYMLINK for all irregular files)
          ELSE Ok(S, ChildRet(e))                           \* Open_Existing
     ELSE IF ~create \/ S.dirs[d].deleted THEN Err(S, {"NoEnt"})   \* Open_Missing / Open_Deleted
     ELSE Ok(Attach(MakeLeaf(S, "file", new, ""), d, n, "file", new),
             [NoRet EXCEPT !.k = "file", !.c = new])        \* Open_Created

\* VirtualRemove(removeDirectory, removeLeaf) / Remove (both TRUE)
RemoveRes(S0, d, n, rd, rl) ==
  LET S == Mat(S0, d)
      i == Find(S.dirs[d].ents, n)
  IN IF i = 0 THEN Err(S, {"NoEnt"})                        \* Remove_Missing
     ELSE LET e == S.dirs[d].ents[i] IN
          IF e.k = "d"
          THEN IF ~rd THEN Err(S, {"Perm", "IsDir"})        \* Remove_UnlinkOnDirectory
               ELSE LET S2 == Mat(S, e.c) IN
                    IF ~Deletable(S2, e.c) THEN Err(S2, {"NotEmpty", "Exist"})   \* Remove_NotEmpty
                    ELSE Ok(DetachName(MarkDeleted(S2, e.c), d, n), NoRet)       \* Remove_Rmdir (hidden leftovers unlinked)
          ELSE IF ~rl THEN Err(S, {"NotDir"})               \* Remove_RmdirOnLeaf
               ELSE Ok(Detach(Unlink(S, e.c), d, i), NoRet) \* Remove_Unlink

\* VirtualReadDir(firstCookie, page size): the first `page` visible entries
\* whose cookie is greater than the resume cookie, in cookie order.
ReadDirRes(S0, d, ck, page) ==
  LET S == Mat(S0, d)
      rest == SelectSeq(Visible(S.dirs[d].ents), LAMBDA e : e.ck > ck)
  IN Ok(S, [NoRet EXCEPT !.list = SubSeq(rest, 1, IF Len(rest) < page THEN Len(rest) ELSE page),
                         !.more = Len(rest) > page])

\* VirtualRename(d1/n1 -> d2/n2)
RenameRes(S0, d1, n1, d2, n2) ==
  LET S == Mat(Mat(S0, d1), d2)
      i1 == Find(S.dirs[d1].ents, n1)
      i2 == Find(S.dirs[d2].ents, n2)
  IN IF i1 = 0 THEN Err(S, {"NoEnt"})                       \* Rename_SourceMissing
     ELSE LET old == S.dirs[d1].ents[i1]
              move(T) == Attach(DetachName(T, d1, n1), d2, n2, old.k, old.c)
              cyclic == old.k = "d" /\ d2 \in Subtree(S, old.c)
          IN
          IF i2 = 0
          THEN IF S.dirs[d2].deleted THEN Err(S, {"NoEnt"}) \* Rename_TargetDirectoryDeleted
               ELSE IF cyclic THEN Err(S, {"Inval"}) \cup Ok(move(S), NoRet)    \* Rename_IntoOwnSubtree: EINVAL (POSIX) or performed (documented TODO)
               ELSE Ok(move(S), NoRet)                      \* Rename_ToFreeName
          ELSE LET new == S.dirs[d2].ents[i2] IN
               IF d1 = d2 /\ i1 = i2
               THEN Ok(S, NoRet) \cup                       \* Rename_SameEntry: no effect ...
                    (IF n2 # new.n THEN Ok(move(S), NoRet) ELSE {})   \* ... or only the spelling changes (case-insensitive)
               ELSE IF old.k = "d" /\ new.k # "d" THEN Err(S, {"NotDir"})        \* Rename_DirectoryOntoLeaf
               ELSE IF old.k # "d" /\ new.k = "d" THEN Err(S, {"IsDir"})         \* Rename_LeafOntoDirectory
               ELSE IF old.k = "d"
               THEN LET S2 == Mat(S, new.c) IN
                    IF ~Deletable(S2, new.c) THEN Err(S2, {"NotEmpty", "Exist"}) \* Rename_OntoNonEmptyDirectory
                    ELSE LET done == Attach(MarkDeleted(DetachName(DetachName(S2, d1, n1), d2, n2), new.c),
                                            d2, n2, "d", old.c)
                         IN IF cyclic THEN Err(S2, {"Inval"}) \cup Ok(done, NoRet)
                            ELSE Ok(done, NoRet)            \* Rename_OntoEmptyDirectory
               ELSE LET replace == Ok(Attach(Unlink(DetachName(DetachName(S, d1, n1), d2, n2), new.c),
                                             d2, n2, old.k, old.c), NoRet)
                    IN IF old.c = new.c
                       THEN IF old.k = "symlink"
                            THEN Ok(S, NoRet) \cup replace  \* Rename_OntoEqualSymlink: stateless, "same file" is a matter of representation
                            ELSE Ok(S, NoRet)               \* Rename_OntoHardLinkOfItself: no effect, both names stay
                       ELSE replace                         \* Rename_ReplaceLeaf: replaced leaf loses a link

\* VirtualSetAttributes on a directory: what = "size" | "owner" | "other"
SetAttrRes(S, d, what) ==
  IF what = "size" THEN Err(S, {"Inval", "IsDir"})
  ELSE IF what = "owner" THEN Err(S, {"Perm"}) \cup Ok(S, NoRet)
  ELSE Ok(S, NoRet)

-----------------------------------------------------------------------------
(* Worker-facing bulk calls (virtual.PrepopulatedDirectory).               *)

RemoveAllRes(S0, d, n) ==
  LET S == Mat(S0, d)
      i == Find(S.dirs[d].ents, n)
  IN IF i = 0 THEN Err(S, {"NoEnt"})                        \* RemoveAll_Missing
     ELSE LET e == S.dirs[d].ents[i]
              S1 == Detach(S, d, i)
          IN Ok(IF e.k = "d" THEN Clear(S1, e.c, TRUE) ELSE Unlink(S1, e.c), NoRet)   \* RemoveAll_Tree / _Leaf

\* never fails; lazy contents are dropped, not instantiated
RemoveAllChildrenRes(S, d, self) == Ok(Clear(S, d, self), NoRet)

\* CreateChildren(children, overwrite); children: sequence of child
\* descriptions with pairwise different normalized names.  Overwritten
\* entries are detached first and removed recursively afterwards.
CreateChildrenRes(S0, d, ch, overwrite) ==
  LET S == Mat(S0, d)
      r == S.dirs[d]
      hit(e) == \E i \in 1 .. Len(ch) : Norm(ch[i].n) = Norm(e.n)
      gone == SelectSeq(r.ents, hit)
      S1 == SetDir(S, d, [r EXCEPT !.ents = SelectSeq(r.ents, LAMBDA e : ~hit(e)), !.chg = r.chg + Len(gone)])
  IN IF r.deleted THEN Err(S, {"NoEnt"})                    \* CreateChildren_Deleted
     ELSE IF ~overwrite /\ gone # <<>> THEN Err(S, {"Exist"})   \* CreateChildren_NoOverwriteExists: nothing changes
     ELSE Ok(DropEntries(AttachChildren(S1, d, ch, 1, FALSE), gone, 1), NoRet)   \* CreateChildren_Created / _Overwritten

CreateAndEnterRes(S0, d, n, new) ==
  LET S == Mat(S0, d)
      i == Find(S.dirs[d].ents, n)
      mk(T) == Attach(SetDir(T, new, NewDir(<<>>)), d, n, "d", new)
  IN IF i # 0
     THEN LET e == S.dirs[d].ents[i] IN
          IF e.k = "d" THEN Ok(S, ChildRet(e))              \* CreateAndEnter_Existing
          ELSE Ok(mk(Detach(Unlink(S, e.c), d, i)), [NoRet EXCEPT !.k = "d", !.c = new])   \* CreateAndEnter_ReplacesLeaf
     ELSE IF S.dirs[d].deleted THEN Err(S, {"NoEnt"})       \* CreateAndEnter_Deleted
     ELSE Ok(mk(S), [NoRet EXCEPT !.k = "d", !.c = new])    \* CreateAndEnter_Created

\* FilterChildren: the callbacks, in order: per directory first all its
\* leaves (hidden ones too), then its subdirectories recursively; a lazy
\* directory is reported as one item.  The walk is over the state at the
\* time of the call (removals by the callbacks cannot change its shape).
RECURSIVE Walk(_, _, _), WalkKids(_, _, _, _)
Walk(S, d, seen) ==
  LET r == S.dirs[d] IN
  IF d \in seen THEN <<>>
  ELSE IF r.lazy THEN <<[t |-> "lazy", d |-> d, n |-> "", c |-> -1]>>
  ELSE [i \in 1 .. Len(SelectSeq(r.ents, LAMBDA e : e.k # "d")) |->
           LET e == SelectSeq(r.ents, LAMBDA x : x.k # "d")[i]
           IN [t |-> "leaf", d |-> d, n |-> e.n, c |-> e.c]]
       \o WalkKids(S, SelectSeq(r.ents, LAMBDA e : e.k = "d"), 1, seen \cup {d})
WalkKids(S, ds, i, seen) ==
  IF i > Len(ds) THEN <<>> ELSE Walk(S, ds[i].c, seen) \o WalkKids(S, ds, i + 1, seen)

\* apply the removers that the filter invoked (rm = set of walk indices)
RECURSIVE ApplyRemovers(_, _, _, _)
ApplyRemovers(S_, w, rm, i) ==
  LET S == S_ IN
  IF i > Len(w) THEN S
  ELSE LET x == w[i]
           S1 == IF i \notin rm THEN S
                 ELSE IF x.t = "lazy" THEN Clear(S, x.d, FALSE)
                 ELSE LET o == CHOOSE o \in RemoveRes(S, x.d, x.n, TRUE, TRUE) : TRUE IN o.S
       IN ApplyRemovers(S1, w, rm, i + 1)

\* stop = number of callbacks made (the filter returned FALSE at callback `stop`, or Len(walk))
FilterChildrenRes(S, d, stop, rm) ==
  LET w == SubSeq(Walk(S, d, {}), 1, stop)
  IN Ok(ApplyRemovers(S, w, rm, 1), [NoRet EXCEPT !.list = w])

\* sorted listings (LookupAllChildren, ReadDir): visible entries by name
SortedByName(es) ==
  LET idx == {i \in 1 .. Len(es) : TRUE}
      rank(i) == Cardinality({j \in idx : NameRank(es[j].n) < NameRank(es[i].n)}) + 1
  IN [p \in 1 .. Len(es) |-> es[CHOOSE i \in idx : rank(i) = p]]
ListAllRes(S0, d) ==
  LET S == Mat(S0, d) IN Ok(S, [NoRet EXCEPT !.list = SortedByName(Visible(S.dirs[d].ents))])

-----------------------------------------------------------------------------
(* The exhaustive configuration: every call from every reachable state of  *)
(* a small universe, plus a Listing process that pages through one         *)
(* directory while the other calls mutate it.                              *)

S0 == [dirs |-> dirs, leaves |-> leaves, mat |-> {}]

RECURSIVE PendIds(_, _, _)
PendIds(ch, i, wantDir) ==
  IF i > Len(ch) THEN {}
  ELSE (IF (ch[i].k = "d") = wantDir THEN {ch[i].c} ELSE {})
       \cup (IF ch[i].k = "d" THEN PendIds(ch[i].sub, 1, wantDir) ELSE {})
       \cup PendIds(ch, i + 1, wantDir)
EntryIds(wantDir) ==
  UNION {{dirs[d].ents[i].c : i \in {j \in 1 .. Len(dirs[d].ents) : (dirs[d].ents[j].k = "d") = wantDir}}
         \cup PendIds(dirs[d].pend, 1, wantDir) : d \in DOMAIN dirs}

IdleLst == [on |-> FALSE, d |-> 0, k |-> 0, ck |-> 0, thr |-> {}, rep |-> {}, dup |-> FALSE, ok |-> TRUE]

FreeDirs == {i \in 1 .. (MaxDirs - 1) :
               i \notin DOMAIN dirs \/
               (dirs[i].deleted /\ i \notin EntryIds(TRUE) /\ ~(lst.on /\ lst.d = i))}
FreeLeaves == {i \in 0 .. (MaxLeaves - 1) :
                 i # SymLeaf /\ i \notin EntryIds(FALSE) /\
                 (i \notin DOMAIN leaves \/ leaves[i].links = 0)}
Least(s) == CHOOSE i \in s : \A j \in s : i <= j

CookiesOf(r) == {e.ck : e \in Range(Visible(r.ents))}
\* (an entry that is gone cannot be reported again, cookies are not re-issued:
\* the process only needs to remember the reported entries that still exist)
LstAfter(nd) == IF lst.on THEN [lst EXCEPT !.thr = @ \cap CookiesOf(nd[lst.d]), !.rep = @ \cap CookiesOf(nd[lst.d])]
                ELSE lst

H(op, d, n, d2, n2, a, b, c, new, ch) ==
  [op |-> op, d |-> d, n |-> n, d2 |-> d2, n2 |-> n2, a |-> a, b |-> b, c |-> c, new |-> new, ch |-> ch]

Do(outs, h) ==
  \E o \in outs :
    /\ dirs' = o.S.dirs /\ leaves' = o.S.leaves
    /\ reply' = [st |-> o.st, ret |-> o.ret, mat |-> o.S.mat]
    /\ lst' = LstAfter(o.S.dirs)
    /\ hist' = Append(hist, h)
    /\ UNCHANGED mode

Init ==
  /\ dirs = (Root :> NewDir(<<>>))
  /\ leaves = [x \in {} |-> 0]
  /\ mode = [ci |-> InitCI, hid |-> InitHid]
  /\ reply = [st |-> "init", ret |-> NoRet, mat |-> {}]
  /\ lst = IdleLst
  /\ hist = <<>>

Cyclic(d1, n1, d2) ==
  LET S == Mat(Mat(S0, d1), d2)
      i == Find(S.dirs[d1].ents, n1)
  IN i # 0 /\ S.dirs[d1].ents[i].k = "d" /\ d2 \in Subtree(S, S.dirs[d1].ents[i].c)

File(n, c) == [n |-> n, k |-> "file", c |-> c, t |-> "", sub |-> <<>>]
Sym(n) == [n |-> n, k |-> "symlink", c |-> SymLeaf, t |-> "t0", sub |-> <<>>]
Dir(n, c, sub) == [n |-> n, k |-> "d", c |-> c, t |-> "", sub |-> sub]

\* menus of children for CreateChildren
ChildMenus ==
  LET fd == FreeDirs  fl == FreeLeaves IN
  {<<Sym(n)>> : n \in Names}
  \cup (IF fl # {} THEN {<<File(n, Least(fl))>> : n \in Names} ELSE {})
  \cup (IF fd # {} THEN {<<Dir(n, Least(fd), <<>>)>> : n \in Names} ELSE {})
  \cup (IF fd # {} /\ fl # {}
        THEN {<<Dir(n, Least(fd), <<File(m, Least(fl))>>)>> : n \in Names, m \in Names}
             \cup {<<File(x[1], Least(fl)), Dir(x[2], Least(fd), <<>>)>> :
                     x \in {y \in Names \X Names : NameRank(y[1]) < NameRank(y[2]) /\ Norm(y[1]) # Norm(y[2])}}
        ELSE {})

KernelCalls ==
  \E d \in DOMAIN dirs : \E n \in Names :
    \/ "lookup" \in Ops /\ Do(LookupRes(S0, d, n), H("lookup", d, n, 0, "", FALSE, FALSE, 0, 0, <<>>))
    \/ "mkdir" \in Ops /\ FreeDirs # {} /\ Do(MkdirRes(S0, d, n, Least(FreeDirs)), H("mkdir", d, n, 0, "", FALSE, FALSE, 0, Least(FreeDirs), <<>>))
    \/ "mknod" \in Ops /\ FreeLeaves # {} /\ \E k \in {"fifo", "chr"} :
          Do(MknodRes(S0, d, n, k, Least(FreeLeaves), ""), H("mknod", d, n, 0, k, FALSE, FALSE, 0, Least(FreeLeaves), <<>>))
    \/ "symlink" \in Ops /\ Do(MknodRes(S0, d, n, "symlink", SymLeaf, "t0"), H("mknod", d, n, 0, "symlink", FALSE, FALSE, 0, SymLeaf, <<>>))
    \/ "link" \in Ops /\ \E c \in DOMAIN leaves : Do(LinkRes(S0, d, n, c), H("link", d, n, 0, "", FALSE, FALSE, c, 0, <<>>))
    \/ \E cr, ex \in BOOLEAN :
          /\ "open" \in Ops /\ (cr \/ ex)
          /\ cr => FreeLeaves # {}
          /\ LET new == IF cr THEN Least(FreeLeaves) ELSE 0 IN
             Do(OpenChildRes(S0, d, n, cr, ex, new), H("open", d, n, 0, "", cr, ex, 0, new, <<>>))
    \/ \E rd, rl \in BOOLEAN :
          /\ "vremove" \in Ops /\ (rd \/ rl)
          /\ Do(RemoveRes(S0, d, n, rd, rl), H("vremove", d, n, 0, "", rd, rl, 0, 0, <<>>))
    \/ \E d2 \in DOMAIN dirs : \E n2 \in Names :
          /\ "rename" \in Ops
          /\ AllowSubtreeRename \/ ~Cyclic(d, n, d2)
          /\ Do(RenameRes(S0, d, n, d2, n2), H("rename", d, n, d2, n2, FALSE, FALSE, 0, 0, <<>>))
    \/ "setattr" \in Ops /\ \E w \in {"size", "owner", "other"} : Do(SetAttrRes(S0, d, w), H("setattr", d, w, 0, "", FALSE, FALSE, 0, 0, <<>>))

BulkCalls ==
  \E d \in DOMAIN dirs :
    \/ \E n \in Names :
         \/ "remove" \in Ops /\ Do(RemoveRes(S0, d, n, TRUE, TRUE), H("remove", d, n, 0, "", TRUE, TRUE, 0, 0, <<>>))
         \/ "removeall" \in Ops /\ Do(RemoveAllRes(S0, d, n), H("removeall", d, n, 0, "", FALSE, FALSE, 0, 0, <<>>))
         \/ "enter" \in Ops /\ FreeDirs # {} /\ Do(CreateAndEnterRes(S0, d, n, Least(FreeDirs)), H("enter", d, n, 0, "", FALSE, FALSE, 0, Least(FreeDirs), <<>>))
    \/ "clear" \in Ops /\ \E self \in BOOLEAN : Do(RemoveAllChildrenRes(S0, d, self), H("clear", d, "", 0, "", self, FALSE, 0, 0, <<>>))
    \/ "create" \in Ops /\ \E ch \in ChildMenus : \E ow \in BOOLEAN :
          Do(CreateChildrenRes(S0, d, ch, ow), H("create", d, "", 0, "", ow, FALSE, 0, 0, ch))
    \/ "listall" \in Ops /\ Do(ListAllRes(S0, d), H("listall", d, "", 0, "", FALSE, FALSE, 0, 0, <<>>))
    \/ "filter" \in Ops /\ LET w == Walk(S0, d, {}) IN
       \E stop \in 0 .. Len(w) : \E all \in BOOLEAN :
          Do(FilterChildrenRes(S0, d, stop, IF all THEN 1 .. stop ELSE {}),
             H("filter", d, "", 0, "", all, FALSE, stop, 0, <<>>))

\* One page of the paginated listing: remember what was reported.
PageUpdate(l, list, more) ==
  LET cks == {list[i].ck : i \in 1 .. Len(list)}
      rep == l.rep \cup cks
      dup == l.dup \/ (cks \cap l.rep # {})
  IN IF more
     THEN [l EXCEPT !.rep = rep, !.dup = dup, !.ck = list[Len(list)].ck]
     ELSE [IdleLst EXCEPT !.ok = (l.thr \subseteq rep) /\ ~dup, !.dup = dup]

Listing ==
  \/ /\ ~lst.on
     /\ \E d \in DOMAIN dirs : \E k \in 1 .. 2 : \E o \in ReadDirRes(S0, d, 0, k) :
          /\ dirs' = o.S.dirs /\ leaves' = o.S.leaves
          /\ reply' = [st |-> o.st, ret |-> o.ret, mat |-> o.S.mat]
          /\ lst' = PageUpdate([IdleLst EXCEPT !.on = TRUE, !.d = d, !.k = k, !.thr = CookiesOf(o.S.dirs[d])],
                                o.ret.list, o.ret.more)
          /\ hist' = Append(hist, H("readdir", d, "", 0, "", FALSE, FALSE, 0, k, <<>>))
  \/ /\ lst.on
     /\ \E o \in ReadDirRes(S0, lst.d, lst.ck, lst.k) :
          /\ dirs' = o.S.dirs /\ leaves' = o.S.leaves
          /\ reply' = [st |-> o.st, ret |-> o.ret, mat |-> o.S.mat]
          /\ lst' = PageUpdate(lst, o.ret.list, o.ret.more)
          /\ hist' = Append(hist, H("readdir", lst.d, "", 0, "", TRUE, FALSE, lst.ck, lst.k, <<>>))
  /\ UNCHANGED mode

Next == KernelCalls \/ BulkCalls \/ ("listing" \in Ops /\ Listing)

Spec == Init /\ [][Next]_vars

\* States that differ only in the absolute values of counters behave alike:
\* cookies matter only through their order (per directory, together with
\* the cookies the Listing process remembers), chg only through increase.
RelevantCookies(d) ==
  {dirs[d].ents[i].ck : i \in 1 .. Len(dirs[d].ents)}
  \cup (IF lst.on /\ lst.d = d THEN {lst.ck} \cup lst.thr \cup lst.rep ELSE {})
Rank(d, v) == Cardinality({u \in RelevantCookies(d) : u < v})
View ==
  <<[d \in DOMAIN dirs |->
       [deleted |-> dirs[d].deleted, pend |-> dirs[d].pend,
        \* lazy-and-empty differs from instantiated-and-empty only for clear/filter
        lazy |-> dirs[d].lazy /\ (dirs[d].pend # <<>> \/ Ops \cap {"clear", "filter"} # {}),
        ents |-> [i \in 1 .. Len(dirs[d].ents) |->
                    [n |-> dirs[d].ents[i].n, k |-> dirs[d].ents[i].k, c |-> dirs[d].ents[i].c,
                     ck |-> Rank(d, dirs[d].ents[i].ck)]]]],
    leaves,
    IF lst.on
    THEN [lst EXCEPT !.ck = Rank(lst.d, lst.ck), !.thr = {Rank(lst.d, v) : v \in lst.thr},
                     !.rep = {Rank(lst.d, v) : v \in lst.rep}]
    ELSE lst>>

-----------------------------------------------------------------------------
(* Properties of the reference model (C13).                                *)

\* map/list agreement: one entry per normalized name; cookies strictly
\* increase along the list and were all issued.
C13_MapListAgreement ==
  \A d \in DOMAIN dirs : LET es == dirs[d].ents IN
    /\ \A i, j \in 1 .. Len(es) : i # j => Norm(es[i].n) # Norm(es[j].n)
    /\ \A i \in 1 .. (Len(es) - 1) : es[i].ck < es[i + 1].ck
    /\ \A i \in 1 .. Len(es) : es[i].ck <= dirs[d].nc /\ es[i].ck > 0
    /\ \A i \in 1 .. Len(es) : IF es[i].k = "d" THEN es[i].c \in DOMAIN dirs
                                 ELSE es[i].c \in DOMAIN leaves /\ leaves[es[i].c].k = es[i].k

\* a removed directory is empty ...
C13_DeletedIsEmpty ==
  \A d \in DOMAIN dirs : dirs[d].deleted => dirs[d].ents = <<>> /\ ~dirs[d].lazy

\* ... and accepts nothing, whichever call is used.
C13_DeletedAcceptsNothing ==
  \A d \in DOMAIN dirs : dirs[d].deleted =>
    \A n \in Names :
      \A o \in MkdirRes(S0, d, n, MaxDirs) \cup MknodRes(S0, d, n, "fifo", MaxLeaves, "")
              \cup OpenChildRes(S0, d, n, TRUE, TRUE, MaxLeaves) \cup CreateAndEnterRes(S0, d, n, MaxDirs)
              \cup CreateChildrenRes(S0, d, <<File(n, MaxLeaves)>>, TRUE)
              \cup UNION {LinkRes(S0, d, n, c) : c \in DOMAIN leaves}
              \cup UNION {RenameRes(S0, d2, n2, d, n) : d2 \in DOMAIN dirs, n2 \in Names} :
        o.st # "OK" /\ o.S.dirs[d].ents = <<>>

\* hard links share one file: the link count of a counted leaf is the
\* number of entries that refer to it.
C13_LinkCounts ==
  \A c \in DOMAIN leaves : Stateful(leaves[c].k) => leaves[c].links = Refs(S0, c)

ParentCount(d) ==
  LET F[ds \in SUBSET DOMAIN dirs] ==
        IF ds = {} THEN 0
        ELSE LET p == CHOOSE x \in ds : TRUE
             IN Cardinality({i \in 1 .. Len(dirs[p].ents) : dirs[p].ents[i].k = "d" /\ dirs[p].ents[i].c = d})
                + F[ds \ {p}]
  IN F[DOMAIN dirs]

\* the live directories form a tree below the root (checked in the
\* configurations that do not generate renames into the own subtree).
C13_Tree ==
  /\ ParentCount(Root) = 0
  /\ \A d \in DOMAIN dirs \ {Root} :
       /\ ParentCount(d) <= 1
       /\ ~dirs[d].deleted => ParentCount(d) = 1 /\ d \in Subtree(S0, Root)

\* the paginated listing reported every entry that existed throughout
\* exactly once, and nothing twice, whatever happened between the pages.
C13_Pagination == lst.ok /\ ~lst.dup

\* the exhaustive configuration re-uses the ids of removed, unreferenced
\* directories for new ones; such an id is a different directory afterwards
Recycled(d) == d \in FreeDirs

\* the change counter moves iff the directory was modified (instantiating
\* lazy contents is allowed but not required to move it).
C13_ChangeCounter ==
  [][\A d \in DOMAIN dirs \cap DOMAIN dirs' : ~Recycled(d) =>
        /\ dirs'[d].chg >= dirs[d].chg
        /\ dirs'[d].chg > dirs[d].chg => dirs'[d].ents # dirs[d].ents \/ d \in reply'.mat
        /\ (dirs'[d].ents # dirs[d].ents /\ d \notin reply'.mat) => dirs'[d].chg > dirs[d].chg]_vars

\* cookies are stable and never re-issued
C13_CookiesStable ==
  [][\A d \in DOMAIN dirs \cap DOMAIN dirs' : ~Recycled(d) =>
        \A e \in Range(dirs'[d].ents) : e \in Range(dirs[d].ents) \/ e.ck > dirs[d].nc]_vars

\* a removed directory stays removed
C13_DeletedForever ==
  [][\A d \in DOMAIN dirs \cap DOMAIN dirs' :
        (dirs[d].deleted /\ ~Recycled(d)) => dirs'[d].deleted]_vars
=============================================================================
