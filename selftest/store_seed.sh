#!/bin/bash
# selftest/store_seed.sh <tag> <PID> <round>: verify /tmp/seed-out/<tag>, store under seeded/S<round>-<PID>[suffix], remove worktree, print mutant line
tag=$1; pid=$2; rnd=$3; suffix=$4
res=$(/verif/selftest/verify_seed.sh /tmp/seed-$tag /tmp/seed-out/$tag 2>&1 | grep "^demo with")
echo "$tag: $res"
case "$res" in *"exit=0 (want !=0)"*|"") echo "NOT CONFIRMED"; exit 1;; esac
case "$res" in *"baseline with patch: exit=0"*"demo without patch: exit=0"*) ;; *) echo "NOT CONFIRMED"; exit 1;; esac
d=/verif/seeded/S$rnd-$pid$suffix; mkdir -p $d && cp /tmp/seed-out/$tag/patch.diff $d/ && rm -rf $d/demo && cp -r /tmp/seed-out/$tag/demo $d/
python3 - "$tag" "$d" <<'PY'
import json,sys
tag,d=sys.argv[1],sys.argv[2]
m=json.load(open('/tmp/seed-out/%s/meta.json'%tag))
m['origin']='written by an independent sub-agent that saw only the property text and a scratch worktree of /repo'
m['confirmed_by_maintainer']='selftest/verify_seed.sh: with patch.diff the demo (go test ./internal/seeddemo/) fails, the three baseline test packages pass and pkg/... builds; without the patch the demo passes'
json.dump(m,open(d+'/meta.json','w'),indent=1)
PY
git -C /repo worktree remove --force /tmp/seed-$tag
echo "S$rnd-$pid$suffix|$pid|PATCH|$d/patch.diff"
