SPECIFICATION Spec
CONSTANTS
  InvalidNames <- MCInvalidNames
  CasInit <- MCCas
  Actions <- MCActions1
  RootOf <- MCRootOf3
  Names <- MCNames3
  PutNodes <- MCPutNodes3
  RenameTo <- MCRenameTo3
  MaxMods = 2
  MaxFaults = 1
INVARIANTS
  C17_Fidelity
  C17_InitialDenotation
  C17_Errors
PROPERTIES
  C17_ReplyFidelity
  C17_FaultLeavesLazy
  C17_Immutable
  C17_OwnTreeOnly
VIEW
  StateView
CHECK_DEADLOCK FALSE
