#!/bin/bash
# Polls /tmp/mq.txt for lines "name|props|PATCH|diff" and runs each once, sequentially. Log: /tmp/mq.log
touch /tmp/mq.txt
n=0
while true; do
  total=$(wc -l < /tmp/mq.txt)
  if [ "$n" -lt "$total" ]; then
    n=$((n+1)); sed -n "${n}p" /tmp/mq.txt > /tmp/mq.one
    grep -q "^STOP" /tmp/mq.one && exit 0
    /verif/selftest/run_mutants.sh /tmp/mq.one >> /tmp/mq.log 2>&1
  else
    sleep 15
  fi
done
