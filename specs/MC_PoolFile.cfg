SPECIFICATION Spec
CONSTANTS
  Files = {f1}
  Clients = {c1, c2}
  Uploaders = {u1, u2}
  MaxLinks = 2
  Contents = {"a", "b"}
  EmptyC = "a"
  PinPathOps = TRUE
  UpKinds = {"upload"}
  MutOps = {"write", "setsize"}
INVARIANTS
  TypeOK
  C16_Refs
  C16_CloseOnce
  C16_DigestInv
  C16_NoLostWakeup
PROPERTIES
  C16_CloseForGood
  C16_Stale
  C16_StaleUntouched
  C16_Digest
SYMMETRY Symm
VIEW
  View
CHECK_DEADLOCK FALSE
