// Running one case of property C10 on the real code and decoding what it
// reported (environment: env_test.go / native_test.go; executor mode:
// exec_test.go; case generators: drivers_test.go).
//
// One case = (working directory, output paths, output directory format,
// initial input root, produced tree, backend, mode). Per case the log has
//
//	reset    the case as given to the real code
//	new      NewOutputHierarchy: accepted or rejected
//	parents  CreateParentDirectories: error flag + everything that exists
//	         afterwards (before the "command" runs)
//	prerun   (executor mode, instead of new + parents) whether the real
//	         localBuildExecutor invoked the runner + what existed then
//	upload   UploadOutputs: error flag, everything that exists afterwards,
//	         and the decoded ActionResult with every Tree blob decoded
//	panic    the real code panicked
//
// No judgement happens here: specs/OutputHierarchyTrace.tla judges.
package outputs

import (
	"fmt"
	"strings"

	remoteexecution "github.com/bazelbuild/remote-apis/build/bazel/remote/execution/v2"
	"github.com/buildbarn/bb-remote-execution/pkg/builder"

	"google.golang.org/protobuf/encoding/protowire"
	"google.golang.org/protobuf/proto"

	"verif/harness/common"
)

// ---------------------------------------------------------------------
// Cases.

type caseT struct {
	gen    string
	wd     []string
	paths  [][]string
	format int  // remoteexecution.Command_OutputDirectoryFormat
	force  bool // forceUploadTreesAndDirectories
	pre    *node
	lazy   bool // input root merged lazily from the CAS (as the worker does)
	native bool // naive build directory on the local file system instead
	exec   bool // through the real localBuildExecutor with a fake runner (exec_test.go)
	prod   *node
}

type pathJ struct {
	S string   `json:"s"`
	C []string `json:"c"`
}

func mkPath(c []string) pathJ {
	if c == nil {
		c = []string{}
	}
	return pathJ{S: strings.Join(c, "/"), C: c}
}

func formatName(f int) string {
	switch remoteexecution.Command_OutputDirectoryFormat(f) {
	case remoteexecution.Command_TREE_ONLY:
		return "tree"
	case remoteexecution.Command_DIRECTORY_ONLY:
		return "directory"
	case remoteexecution.Command_TREE_AND_DIRECTORY:
		return "both"
	}
	return fmt.Sprint(f)
}

// ---------------------------------------------------------------------
// Decoding of what the real code reported.

type fileJ struct {
	Path   string `json:"path"`
	Exec   bool   `json:"exec"`
	Cid    string `json:"cid"`
	Stored bool   `json:"stored"` // the CAS holds a blob with this digest
}

type linkJ struct {
	Path   string `json:"path"`
	Target string `json:"target"`
}

type tFileJ struct {
	Name string `json:"name"`
	Exec bool   `json:"exec"`
	Cid  string `json:"cid"`
}
type tDirJ struct {
	Name string `json:"name"`
	Did  string `json:"did"`
}
type tLinkJ struct {
	Name   string `json:"name"`
	Target string `json:"target"`
}

// tEntryJ is one Directory message of a Tree blob, in wire order.
type tEntryJ struct {
	Did      string   `json:"did"`    // identity of the digest of the message's bytes
	Root     bool     `json:"root"`   // stored in field `root` (else `children`)
	Sorted   bool     `json:"sorted"` // each of the three lists is strictly ascending by name
	Files    []tFileJ `json:"files"`
	Dirs     []tDirJ  `json:"dirs"`
	Symlinks []tLinkJ `json:"symlinks"`
}

type dirJ struct {
	Path       string    `json:"path"`
	Found      bool      `json:"found"`      // Tree blob retrievable from the CAS and decodable
	Topo       bool      `json:"topo"`       // is_topologically_sorted
	RootDid    string    `json:"rootdid"`    // root_directory_digest ("" if unset)
	RootStored bool      `json:"rootstored"` // all Directory blobs of the tree are in the CAS
	Junk       int       `json:"junk"`       // fields of the Tree blob that are neither root nor children
	Tree       []tEntryJ `json:"tree"`
}

// didTable names directory digests d1, d2, ... in order of appearance.
type didTable map[string]string

func (t didTable) of(d *remoteexecution.Digest) string {
	if d == nil {
		return "nil"
	}
	k := casKey(d.Hash, d.SizeBytes)
	if v, ok := t[k]; ok {
		return v
	}
	v := fmt.Sprintf("d%d", len(t)+1)
	t[k] = v
	return v
}

// decodeTree splits a Tree blob at wire level so that the order of the
// Directory messages and the exact bytes that were hashed are preserved.
func decodeTree(e *env, data []byte, dt didTable) (entries []tEntryJ, junk int, allStored bool, ok bool) {
	entries = []tEntryJ{}
	allStored = true
	for len(data) > 0 {
		num, typ, n := protowire.ConsumeTag(data)
		if n < 0 {
			return entries, junk, false, false
		}
		data = data[n:]
		if typ != protowire.BytesType || (num != 1 && num != 2) {
			m := protowire.ConsumeFieldValue(num, typ, data)
			if m < 0 {
				return entries, junk, false, false
			}
			data = data[m:]
			junk++
			continue
		}
		raw, m := protowire.ConsumeBytes(data)
		if m < 0 {
			return entries, junk, false, false
		}
		data = data[m:]
		var d remoteexecution.Directory
		if err := proto.Unmarshal(raw, &d); err != nil {
			return entries, junk, false, false
		}
		dg := &remoteexecution.Digest{Hash: hashOf(raw), SizeBytes: int64(len(raw))}
		if _, found := e.cas.lookup(dg); !found {
			allStored = false
		}
		te := tEntryJ{Did: dt.of(dg), Root: num == 1, Sorted: true, Files: []tFileJ{}, Dirs: []tDirJ{}, Symlinks: []tLinkJ{}}
		ascending := func(names []string) {
			for i := 1; i < len(names); i++ {
				if names[i-1] >= names[i] {
					te.Sorted = false
				}
			}
		}
		var fn, dn, sn []string
		for _, f := range d.Files {
			te.Files = append(te.Files, tFileJ{Name: f.Name, Exec: f.IsExecutable, Cid: cidOfDigest(f.Digest)})
			fn = append(fn, f.Name)
		}
		for _, s := range d.Directories {
			te.Dirs = append(te.Dirs, tDirJ{Name: s.Name, Did: dt.of(s.Digest)})
			dn = append(dn, s.Name)
		}
		for _, s := range d.Symlinks {
			te.Symlinks = append(te.Symlinks, tLinkJ{Name: s.Name, Target: s.Target})
			sn = append(sn, s.Name)
		}
		ascending(fn)
		ascending(dn)
		ascending(sn)
		entries = append(entries, te)
	}
	return entries, junk, allStored, true
}

func decodeResult(e *env, ar *remoteexecution.ActionResult) (files []fileJ, links, legacy []linkJ, dirs []dirJ) {
	files, links, legacy, dirs = []fileJ{}, []linkJ{}, []linkJ{}, []dirJ{}
	for _, f := range ar.OutputFiles {
		b, stored := e.cas.lookup(f.Digest)
		if stored && f.Digest != nil && (hashOf(b) != f.Digest.Hash) {
			stored = false
		}
		files = append(files, fileJ{Path: f.Path, Exec: f.IsExecutable, Cid: cidOfDigest(f.Digest), Stored: stored})
	}
	for _, s := range ar.OutputSymlinks {
		links = append(links, linkJ{Path: s.Path, Target: s.Target})
	}
	for _, s := range ar.OutputFileSymlinks {
		legacy = append(legacy, linkJ{Path: s.Path, Target: s.Target})
	}
	for _, s := range ar.OutputDirectorySymlinks {
		legacy = append(legacy, linkJ{Path: s.Path, Target: s.Target})
	}
	dt := didTable{}
	for _, d := range ar.OutputDirectories {
		dj := dirJ{Path: d.Path, Topo: d.IsTopologicallySorted, Tree: []tEntryJ{}}
		if d.RootDirectoryDigest != nil {
			dj.RootDid = dt.of(d.RootDirectoryDigest)
		}
		if blob, found := e.cas.lookup(d.TreeDigest); found {
			dj.Tree, dj.Junk, dj.RootStored, dj.Found = decodeTree(e, blob, dt)
		}
		dirs = append(dirs, dj)
	}
	return
}

// ---------------------------------------------------------------------
// Running one case on the real code.

func errMsg(err error) string {
	if err == nil {
		return ""
	}
	m := err.Error()
	if len(m) > 200 {
		m = m[:200]
	}
	return m
}

func (c *caseT) command() *remoteexecution.Command {
	cmd := &remoteexecution.Command{
		Arguments:             []string{"true"},
		WorkingDirectory:      strings.Join(c.wd, "/"),
		OutputDirectoryFormat: remoteexecution.Command_OutputDirectoryFormat(c.format),
	}
	for _, p := range c.paths {
		cmd.OutputPaths = append(cmd.OutputPaths, strings.Join(p, "/"))
	}
	return cmd
}

func preEntries(n *node, prefix []string, out *[]entry) {
	if n == nil {
		return
	}
	for _, name := range sortedNames(n.children) {
		c := n.children[name]
		p := append(append([]string(nil), prefix...), name)
		switch c.kind {
		case "dir":
			*out = append(*out, entry{Path: p, Kind: "dir"})
			preEntries(c, p, out)
		case "file":
			*out = append(*out, entry{Path: p, Kind: "file", Exec: c.exec, Cid: fmt.Sprintf("c%d", c.content)})
		case "symlink":
			*out = append(*out, entry{Path: p, Kind: "symlink", Target: c.target})
		case "hardlink", "absent":
			panic("input roots hold files, directories and symlinks only")
		default:
			*out = append(*out, entry{Path: p, Kind: "special"})
		}
	}
}

// runCase drives the real code through one case and logs it. All
// failures of the harness itself (not of the code under test) panic.
func runCase(tr *common.Trace, id int, c *caseT) {
	paths := []pathJ{}
	for _, p := range c.paths {
		paths = append(paths, mkPath(p))
	}
	pre := []entry{}
	preEntries(c.pre, nil, &pre)
	prodDesc := ""
	if c.prod != nil {
		prodDesc = c.prod.describe()
	}
	tr.Emit(common.Ev{"ev": "reset", "case": id, "gen": c.gen, "wd": mkPath(c.wd), "paths": paths,
		"format": formatName(c.format), "force": c.force, "lazy": c.lazy, "native": c.native, "executor": c.exec, "pre": pre, "prod": prodDesc})
	defer func() {
		if r := recover(); r != nil {
			if he, ok := r.(harnessError); ok {
				panic(he.err) // the harness is broken: abort the driver
			}
			tr.Emit(common.Ev{"ev": "panic", "msg": fmt.Sprint(r)})
		}
	}()

	if c.exec {
		runCaseExecutor(tr, c)
		return
	}

	command := c.command()
	oh, err := builder.NewOutputHierarchy(command)
	tr.Emit(common.Ev{"ev": "new", "err": err != nil, "msg": errMsg(err)})
	if err != nil {
		return
	}

	if c.lazy {
		// Looking at a lazily loaded input root loads it. Observe the
		// state after CreateParentDirectories on a twin environment,
		// so that the upload below sees directories nobody touched.
		twin := mustEnv(c)
		oh2, err2 := builder.NewOutputHierarchy(c.command())
		if err2 != nil {
			panic(harnessError{fmt.Errorf("NewOutputHierarchy is not deterministic: %v", err2)})
		}
		perr := oh2.CreateParentDirectories(twin.inputRoot)
		tree := mustObserve(twin)
		twin.release()
		tr.Emit(common.Ev{"ev": "parents", "err": perr != nil, "msg": errMsg(perr), "tree": tree})
		if perr != nil {
			return
		}
	}
	e := mustEnv(c)
	defer e.release()
	perr := oh.CreateParentDirectories(e.inputRoot)
	if !c.lazy {
		tr.Emit(common.Ev{"ev": "parents", "err": perr != nil, "msg": errMsg(perr), "tree": mustObserve(e)})
	}
	if perr != nil {
		if c.lazy {
			panic(harnessError{fmt.Errorf("CreateParentDirectories is not deterministic: %v", perr)})
		}
		return
	}

	// The command runs.
	if c.prod != nil {
		if err := e.produce(c.prod); err != nil {
			panic(harnessError{fmt.Errorf("cannot produce tree %s: %w", c.prod.describe(), err)})
		}
	}

	var ar remoteexecution.ActionResult
	closed := make(chan struct{})
	close(closed)
	uerr := oh.UploadOutputs(e.ctx, e.inputRoot, e.cas, e.df, closed, &ar, c.force)
	files, links, legacy, dirs := decodeResult(e, &ar)
	tr.Emit(common.Ev{"ev": "upload", "err": uerr != nil, "msg": errMsg(uerr), "tree": mustObserve(e),
		"files": files, "symlinks": links, "legacy": legacy, "dirs": dirs,
		"badputs": len(e.cas.bad), "fserrors": len(e.logger.errs)})
}

type harnessError struct{ err error }

func mustEnv(c *caseT) *env {
	var e *env
	var err error
	if c.native {
		e, err = newNativeEnv(c.pre)
	} else {
		e, err = newEnv(c.pre, c.lazy)
	}
	if err != nil {
		panic(harnessError{fmt.Errorf("cannot build environment: %w", err)})
	}
	return e
}

func mustObserve(e *env) []entry {
	t, err := e.observe()
	if err != nil {
		panic(harnessError{fmt.Errorf("cannot walk the build directory: %w", err)})
	}
	return t
}
