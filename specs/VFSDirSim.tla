----------------------------- MODULE VFSDirSim -----------------------------
(***************************************************************************)
(* Behaviour generation for the spec -> code direction: run with           *)
(* tlc -simulate; every behaviour of Depth calls is written to a file      *)
(* beh_<n>.ndjson (one call of the history per line), which the driver     *)
(* harness/vfsdir TestReplay replays on the real hierarchy.                *)
(***************************************************************************)
EXTENDS VFSDir, Json

CONSTANT Depth

Dump == Len(hist) < Depth
        \/ ndJsonSerialize("beh_" \o ToString(TLCGet("stats").traces) \o ".ndjson", hist)
=============================================================================
