SPECIFICATION Spec
CONSTANTS
  NameOrder <- NamesSmall
  HiddenNames = {"b"}
  MaxDirs = 4
  MaxLeaves = 4
  SymLeaf = 3
  InitCI = TRUE
  InitHid = TRUE
  Ops = {"lookup", "mkdir", "mknod", "symlink", "link", "open", "vremove", "rename", "setattr",
         "remove", "removeall", "enter", "clear", "create", "listall", "filter", "listing"}
  AllowSubtreeRename = FALSE
  Depth = 30
INVARIANTS
  Dump
CHECK_DEADLOCK FALSE
