SPECIFICATION Spec
CONSTANTS
  Blobs = {b1, b2, b3}
  MaxPuts = 4
  BatchSizes = {1, 2, 3}
  Sems = {1, 2}
SYMMETRY BlobSymmetry
INVARIANTS
  TypeOK
  C09_AC
  C09_Error
  C09_Ack
  C09_Buffers
  C09_ACComplete
  C09_StickyUntilFlush
  C09_NothingPendingAfterFlush
CHECK_DEADLOCK FALSE
