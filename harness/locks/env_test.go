package locks

// The real object graph the lock balance drivers work on: an in-memory
// directory tree backed by a pool-backed file allocator over a block
// device backed file pool, NFS handle allocation and in-memory named
// attributes, with fault injection at the outermost interfaces (file
// pool, symlink factory, InitialContentsFetcher).

import (
	"context"
	"errors"
	"fmt"
	"runtime"
	"sort"
	"strings"
	"sync"
	"sync/atomic"
	"syscall"
	"time"

	"github.com/buildbarn/bb-remote-execution/pkg/filesystem/pool"
	"github.com/buildbarn/bb-remote-execution/pkg/filesystem/virtual"
	"github.com/buildbarn/bb-storage/pkg/clock"
	"github.com/buildbarn/bb-storage/pkg/filesystem"
	"github.com/buildbarn/bb-storage/pkg/filesystem/path"
	"github.com/buildbarn/bb-storage/pkg/random"

	"verif/harness/common"
)

var ctxBG = context.Background()

func comp(s string) path.Component { return path.MustNewComponent(s) }

// ---------------------------------------------------------------------------
// Fault injecting leaves of the object graph.

type memBlockDevice struct {
	mu   sync.Mutex
	data []byte
}

func (d *memBlockDevice) ReadAt(p []byte, off int64) (int, error) {
	d.mu.Lock()
	defer d.mu.Unlock()
	return copy(p, d.data[off:]), nil
}

func (d *memBlockDevice) WriteAt(p []byte, off int64) (int, error) {
	d.mu.Lock()
	defer d.mu.Unlock()
	return copy(d.data[off:], p), nil
}
func (d *memBlockDevice) Sync() error  { return nil }
func (d *memBlockDevice) Close() error { return nil }

// faults are switches the drivers flip around a call.
type faults struct {
	newFile  atomic.Bool
	truncate atomic.Bool
	write    atomic.Bool
	read     atomic.Bool
	seek     atomic.Bool
	symlink  atomic.Bool
}

func (f *faults) clear() {
	f.newFile.Store(false)
	f.truncate.Store(false)
	f.write.Store(false)
	f.read.Store(false)
	f.seek.Store(false)
	f.symlink.Store(false)
}

var errInjected = errors.New("injected failure")

type faultyPool struct {
	base pool.FilePool
	f    *faults
}

func (p *faultyPool) NewFile(holeSource pool.HoleSource, size uint64) (filesystem.FileReadWriter, error) {
	if p.f.newFile.Load() {
		return nil, errInjected
	}
	file, err := p.base.NewFile(holeSource, size)
	if err != nil {
		return nil, err
	}
	return &faultyFile{FileReadWriter: file, f: p.f}, nil
}

type faultyFile struct {
	filesystem.FileReadWriter
	f *faults
}

func (ff *faultyFile) Truncate(size int64) error {
	if ff.f.truncate.Load() {
		return errInjected
	}
	return ff.FileReadWriter.Truncate(size)
}

func (ff *faultyFile) WriteAt(p []byte, off int64) (int, error) {
	if ff.f.write.Load() {
		return 0, errInjected
	}
	return ff.FileReadWriter.WriteAt(p, off)
}

func (ff *faultyFile) ReadAt(p []byte, off int64) (int, error) {
	if ff.f.read.Load() {
		return 0, errInjected
	}
	return ff.FileReadWriter.ReadAt(p, off)
}

func (ff *faultyFile) GetNextRegionOffset(off int64, regionType filesystem.RegionType) (int64, error) {
	if ff.f.seek.Load() {
		return 0, errInjected
	}
	return ff.FileReadWriter.GetNextRegionOffset(off, regionType)
}

type faultySymlinkFactory struct {
	base virtual.SymlinkFactory
	f    *faults
}

func (sf *faultySymlinkFactory) LookupSymlink(target path.Parser) (virtual.LinkableLeaf, error) {
	if sf.f.symlink.Load() {
		return nil, errInjected
	}
	return sf.base.LookupSymlink(target)
}

type countingErrorLogger struct{ n atomic.Int64 }

func (l *countingErrorLogger) Log(err error) { l.n.Add(1) }

// fetcher is an InitialContentsFetcher whose failure can be chosen.
type fetcher struct {
	fail     *atomic.Bool
	children func() map[path.Component]virtual.InitialChild
	fetched  atomic.Int64
}

func (f *fetcher) FetchContents(fileReadMonitorFactory virtual.FileReadMonitorFactory) (map[path.Component]virtual.InitialChild, error) {
	if f.fail != nil && f.fail.Load() {
		return nil, errInjected
	}
	f.fetched.Add(1)
	if f.children == nil {
		return map[path.Component]virtual.InitialChild{}, nil
	}
	return f.children(), nil
}

func (f *fetcher) VirtualApply(data any) bool { return false }

// plainLeaf is a Leaf that is not a LinkableLeaf.
type plainLeaf struct{}

func (plainLeaf) VirtualGetAttributes(ctx context.Context, requested virtual.AttributesMask, attributes *virtual.Attributes) {
	attributes.SetFileType(filesystem.FileTypeRegularFile)
	attributes.SetPermissions(virtual.PermissionsRead)
	attributes.SetSizeBytes(0)
}

func (plainLeaf) VirtualSetAttributes(ctx context.Context, in *virtual.Attributes, requested virtual.AttributesMask, attributes *virtual.Attributes) virtual.Status {
	return virtual.StatusErrPerm
}
func (plainLeaf) VirtualApply(data any) bool { return false }
func (plainLeaf) VirtualOpenNamedAttributes(ctx context.Context, createDirectory bool, requested virtual.AttributesMask, attributes *virtual.Attributes) (virtual.Directory, virtual.Status) {
	return nil, virtual.StatusErrNoEnt
}

func (plainLeaf) VirtualAllocate(ctx context.Context, off, size uint64) virtual.Status {
	return virtual.StatusErrWrongType
}

func (plainLeaf) VirtualSeek(ctx context.Context, offset uint64, regionType filesystem.RegionType) (*uint64, virtual.Status) {
	return nil, virtual.StatusErrNXIO
}

func (plainLeaf) VirtualOpenSelf(ctx context.Context, shareAccess virtual.ShareMask, options *virtual.OpenExistingOptions, requested virtual.AttributesMask, attributes *virtual.Attributes) virtual.Status {
	return virtual.StatusOK
}

func (plainLeaf) VirtualRead(ctx context.Context, buf []byte, offset uint64) (int, bool, virtual.Status) {
	return 0, true, virtual.StatusOK
}
func (plainLeaf) VirtualClose(shareAccess virtual.ShareMask) {}
func (plainLeaf) VirtualWrite(ctx context.Context, buf []byte, offset uint64) (int, virtual.Status) {
	return 0, virtual.StatusErrPerm
}

// ---------------------------------------------------------------------------
// The environment: one file system instance plus everything the driver
// has ever seen of it.

type env struct {
	tr              *common.Trace
	faults          *faults
	fetchFail       *atomic.Bool
	errorLogger     *countingErrorLogger
	handleAllocator *virtual.NFSStatefulHandleAllocator
	sectorAllocator pool.SectorAllocator
	filePool        pool.FilePool
	fileAllocator   virtual.FileAllocator
	symlinkFactory  virtual.SymlinkFactory
	nattrFactory    virtual.NamedAttributesFactory
	root            virtual.PrepopulatedDirectory

	mu      sync.Mutex
	dirs    []virtual.PrepopulatedDirectory // every directory ever seen, also removed ones
	dirSeen map[virtual.PrepopulatedDirectory]int
	leaves  []virtual.Leaf
	leafSet map[virtual.Leaf]int
}

func hiddenMatcher(s string) bool { return strings.HasPrefix(s, ".hid") }

func defaultAttributesSetter(requested virtual.AttributesMask, attributes *virtual.Attributes) {}

func newEnv(tr *common.Trace) *env {
	e := &env{
		tr:          tr,
		faults:      &faults{},
		fetchFail:   &atomic.Bool{},
		errorLogger: &countingErrorLogger{},
		dirSeen:     map[virtual.PrepopulatedDirectory]int{},
		leafSet:     map[virtual.Leaf]int{},
	}
	e.fetchFail.Store(true)
	e.handleAllocator = virtual.NewNFSHandleAllocator(random.NewFastSingleThreadedGenerator())
	const sectorSize, sectorCount = 16, 4096
	e.sectorAllocator = pool.NewBitmapSectorAllocator(sectorCount)
	e.filePool = &faultyPool{
		base: pool.NewBlockDeviceBackedFilePool(&memBlockDevice{data: make([]byte, sectorSize*sectorCount)}, e.sectorAllocator, sectorSize),
		f:    e.faults,
	}
	e.symlinkFactory = &faultySymlinkFactory{
		base: virtual.NewHandleAllocatingSymlinkFactory(
			virtual.NewBaseSymlinkFactory(defaultAttributesSetter),
			e.handleAllocator.New(),
			path.UNIXFormat),
		f: e.faults,
	}
	// Named attribute directories are in-memory directories of their
	// own file system; files in them cannot have named attributes.
	nattrFileAllocator := virtual.NewHandleAllocatingFileAllocator(
		virtual.NewPoolBackedFileAllocator(e.filePool, e.errorLogger, defaultAttributesSetter, virtual.InNamedAttributeDirectoryNamedAttributesFactory),
		e.handleAllocator)
	e.nattrFactory = virtual.NewInMemoryNamedAttributesFactory(nattrFileAllocator, e.symlinkFactory, e.errorLogger, e.handleAllocator, clock.SystemClock)
	e.fileAllocator = virtual.NewHandleAllocatingFileAllocator(
		virtual.NewPoolBackedFileAllocator(e.filePool, e.errorLogger, defaultAttributesSetter, e.nattrFactory),
		e.handleAllocator)
	e.root = virtual.NewInMemoryPrepopulatedDirectory(
		e.fileAllocator, e.symlinkFactory, e.errorLogger, e.handleAllocator,
		sort.Sort, hiddenMatcher, clock.SystemClock, virtual.CaseSensitiveComponentNormalizer,
		defaultAttributesSetter, e.nattrFactory)
	e.addDir(e.root)
	return e
}

func (e *env) addDir(d virtual.PrepopulatedDirectory) int {
	if d == nil {
		return -1
	}
	e.mu.Lock()
	defer e.mu.Unlock()
	if i, ok := e.dirSeen[d]; ok {
		return i
	}
	e.dirSeen[d] = len(e.dirs)
	e.dirs = append(e.dirs, d)
	return len(e.dirs) - 1
}

// addDirectory registers a virtual.Directory if it is one of ours.
func (e *env) addDirectory(d virtual.Directory) virtual.PrepopulatedDirectory {
	if pd, ok := d.(virtual.PrepopulatedDirectory); ok && pd != nil {
		e.addDir(pd)
		return pd
	}
	return nil
}

func (e *env) addLeaf(l virtual.Leaf) {
	if l == nil {
		return
	}
	e.mu.Lock()
	defer e.mu.Unlock()
	if _, ok := e.leafSet[l]; ok {
		return
	}
	e.leafSet[l] = len(e.leaves)
	e.leaves = append(e.leaves, l)
}

// discover registers all directories reachable from the known ones
// (without initializing anything).
func (e *env) discover() {
	for i := 0; i < len(e.snapshotDirs()); i++ {
		for _, c := range virtual.VerifLockProbeSubdirectories(e.snapshotDirs()[i]) {
			e.addDir(c)
		}
	}
}

func (e *env) snapshotDirs() []virtual.PrepopulatedDirectory {
	e.mu.Lock()
	defer e.mu.Unlock()
	return e.dirs
}

func (e *env) snapshotLeaves() []virtual.Leaf {
	e.mu.Lock()
	defer e.mu.Unlock()
	return e.leaves
}

// busy probes every lock the driver knows of and returns the ones that
// cannot be acquired.
func (e *env) busy() []string {
	out := []string{}
	for i, d := range e.snapshotDirs() {
		if !virtual.VerifLockIsFree(d) {
			out = append(out, fmt.Sprintf("dir#%d", i))
		}
	}
	for i, l := range e.snapshotLeaves() {
		if free, _ := virtual.VerifLockProbeLeaf(l); !free {
			out = append(out, fmt.Sprintf("file#%d", i))
		}
	}
	if !e.handleAllocator.VerifLockProbeIsFree() {
		out = append(out, "nfsHandlePool")
	}
	if !pool.VerifLockProbeSectorAllocator(e.sectorAllocator) {
		out = append(out, "sectorAllocator")
	}
	return out
}

// ---------------------------------------------------------------------------
// Running one call under a watchdog and recording it.

//go:noinline
func verifCallTrampoline(f func() string) string { return f() }

// hangCount counts the calls that never returned. Every hang costs a
// watchdog period, so drivers stop after a few of them (the verdict does
// not need more).
var hangCount atomic.Int64

const maxHangs = 3

type callResult struct {
	outcome string
	panic   string
}

// watchdog is how long a call may take before the goroutine that runs it
// is inspected. Calls take microseconds; the machine may be overloaded.
var watchdog = time.Duration(common.EnvInt("VERIF_WATCHDOG_S", 20)) * time.Second

// runWatched runs f in its own goroutine. It returns hung=true if the
// call did not return in time and its goroutine is parked waiting for a
// mutex; a call that is merely slow makes the driver fail (exit 2).
func runWatched(f func() string) (res callResult, hung bool) {
	done := make(chan callResult, 1)
	gid := make(chan string, 1)
	go func() {
		defer func() {
			if r := recover(); r != nil {
				done <- callResult{panic: fmt.Sprint(r)}
			}
		}()
		gid <- currentGoroutineID()
		done <- callResult{outcome: verifCallTrampoline(f)}
	}()
	id := <-gid
	deadline := time.NewTimer(watchdog)
	defer deadline.Stop()
	for attempt := 0; ; attempt++ {
		select {
		case r := <-done:
			return r, false
		case <-deadline.C:
		}
		state := goroutineStateOf(id)
		if isMutexWait(state) {
			// Look again a little later: it must still be there.
			select {
			case r := <-done:
				return r, false
			case <-time.After(2 * time.Second):
			}
			if isMutexWait(goroutineStateOf(id)) {
				return callResult{}, true
			}
		}
		if attempt >= 5 {
			panic(fmt.Sprintf("INFRA: call did not return within %v but is not waiting for a mutex (state %q)", 6*watchdog, state))
		}
		deadline.Reset(watchdog)
	}
}

// currentGoroutineID returns the "goroutine N" prefix of the caller's
// stack dump.
func currentGoroutineID() string {
	buf := make([]byte, 64)
	n := runtime.Stack(buf, false)
	head := string(buf[:n])
	if i := strings.Index(head, " ["); i >= 0 {
		return head[:i]
	}
	return head
}

// goroutineStateOf returns the wait state of the goroutine with the
// given "goroutine N" prefix ("" if it is gone).
func goroutineStateOf(id string) string {
	for _, g := range goroutineDump() {
		if strings.HasPrefix(g.stack, id+" [") {
			return g.state
		}
	}
	return ""
}

type goroutineInfo struct {
	state string
	stack string
}

func goroutineDump() []goroutineInfo {
	buf := make([]byte, 1<<20)
	for {
		n := runtime.Stack(buf, true)
		if n < len(buf) {
			buf = buf[:n]
			break
		}
		buf = make([]byte, 2*len(buf))
	}
	var out []goroutineInfo
	for _, block := range strings.Split(string(buf), "\n\n") {
		head, _, _ := strings.Cut(block, "\n")
		// "goroutine 12 [sync.Mutex.Lock, 2 minutes]:"
		i := strings.Index(head, "[")
		j := strings.LastIndex(head, "]")
		if !strings.HasPrefix(head, "goroutine ") || i < 0 || j < i {
			continue
		}
		state := head[i+1 : j]
		if k := strings.Index(state, ","); k >= 0 {
			state = state[:k]
		}
		out = append(out, goroutineInfo{state: state, stack: block})
	}
	return out
}

func isMutexWait(state string) bool {
	return strings.HasPrefix(state, "sync.Mutex.Lock") || strings.HasPrefix(state, "sync.RWMutex.") || state == "semacquire"
}

// record runs one call and logs the event the trace specification
// judges: call name, outcome class and whether every known lock is free.
// It returns false if the trace must end (hang or leaked lock).
func (e *env) record(obj, call, variant string, f func() string) bool {
	res, hung := runWatched(f)
	e.faults.clear()
	if hung {
		hangCount.Add(1)
		e.tr.Emit(common.Ev{"ev": "hang", "obj": obj, "call": call, "variant": variant})
		return false
	}
	e.discover()
	busy := e.busy()
	if res.panic != "" {
		e.tr.Emit(common.Ev{"ev": "panic", "obj": obj, "call": call, "variant": variant, "msg": res.panic, "locks_free": len(busy) == 0, "busy": busy})
		return false
	}
	e.tr.Emit(common.Ev{"ev": "call", "obj": obj, "call": call, "variant": variant, "outcome": res.outcome, "locks_free": len(busy) == 0, "busy": busy})
	return len(busy) == 0
}

// ---------------------------------------------------------------------------
// Outcome classes.

var statusNames = map[virtual.Status]string{
	virtual.StatusOK:             "OK",
	virtual.StatusErrAccess:      "ErrAccess",
	virtual.StatusErrBadHandle:   "ErrBadHandle",
	virtual.StatusErrExist:       "ErrExist",
	virtual.StatusErrInval:       "ErrInval",
	virtual.StatusErrIO:          "ErrIO",
	virtual.StatusErrIsDir:       "ErrIsDir",
	virtual.StatusErrNoEnt:       "ErrNoEnt",
	virtual.StatusErrNotDir:      "ErrNotDir",
	virtual.StatusErrNotEmpty:    "ErrNotEmpty",
	virtual.StatusErrNXIO:        "ErrNXIO",
	virtual.StatusErrPerm:        "ErrPerm",
	virtual.StatusErrROFS:        "ErrROFS",
	virtual.StatusErrStale:       "ErrStale",
	virtual.StatusErrSymlink:     "ErrSymlink",
	virtual.StatusErrWrongType:   "ErrWrongType",
	virtual.StatusErrXDev:        "ErrXDev",
	virtual.StatusErrNameTooLong: "ErrNameTooLong",
}

func st(s virtual.Status) string {
	if n, ok := statusNames[s]; ok {
		return n
	}
	return fmt.Sprintf("Status%d", int(s))
}

func errClass(err error) string {
	if err == nil {
		return "ok"
	}
	var errno syscall.Errno
	if errors.As(err, &errno) {
		switch errno {
		case syscall.ENOENT:
			return "ENOENT"
		case syscall.EEXIST:
			return "EEXIST"
		case syscall.ENOTEMPTY:
			return "ENOTEMPTY"
		}
		return fmt.Sprintf("errno%d", int(errno))
	}
	if errors.Is(err, errInjected) {
		return "fetch-error"
	}
	return "error"
}
