"""C07, parts 2 and 3 (module ISCC): well-formed size-class choices of the
real analyzers, and persistence (no lost update) of the real BlobAccess
backed MutableProtoStore.

run_parts(ctx) does everything except vlib.finish, so that checks/c07.py can
combine it with the scheduler part of C07 (linear Selector/Learner protocol).
run(ctx) / replay(ctx, path) make the module usable on its own.
"""
import glob
import json
import os
import shutil

from lib import vlib

SPEC = "ISCC.tla"
GEN = "ISCCGen.tla"
TRACE = "ISCCTrace.tla"
DEPS = [SPEC]
CFG_STORE = "Trace_ISCC_store.cfg"
CFG_AN = "Trace_ISCC_analyzer.cfg"

RULE = (
    "ISCC.tla part A transcribes the selector/learner state machine of feedback_driven_analyzer.go and "
    "fallback_analyzer.go; TLC explores it exhaustively for arbitrary well-formed strategies (3 size classes, "
    "changing size-class lists) and checks index/timeout well-formedness, retry-once, one background run, "
    "stats handle released exactly once and dirty when an outcome was recorded. The real FeedbackDrivenAnalyzer "
    "(real PageRank and smallest-size-class calculators) and the real FallbackAnalyzer are driven by seeded "
    "generators of stats messages, size-class lists, action timeouts and outcome sequences; every strategy list "
    "(probabilities in ppm), every choice, learner kind and Release is logged and TLC evaluates the predicates on "
    "each logged value. ISCC.tla part B models blob_access_mutable_proto_store.go per lock section with a ghost "
    "content version; TLC checks the intended design exhaustively (2 digests, 3 threads, at most 6 Gets / 3 updates in the quick and 10 Gets / 5 updates in the thorough tier, "
    "write success/failure): useCount balance, in-use handle in the map, no lost update after draining, "
    "monotonic writes, pending content carried. The real store runs over a gated fake ISCC BlobAccess inside "
    "testing/synctest; content is the set of updates a message incorporates (a bit per dirty release), so that a "
    "handle created from a stale read visibly lacks updates; TLC-generated schedules (counterexamples of the "
    "as-coded and of the no-read-guard model variants, simulated "
    "behaviours) and seeded random schedules are executed, the hook exports every handle's fields after each "
    "step, the store is drained and read back, and TLC evaluates the same predicates on the observed states."
)


def classify():
    # every verdict of ISCCTrace.tla is a C07 predicate, whichever wrapper
    # (C07, or the stand-alone C07I) runs this module
    return vlib.classify_for("C07")


def _run_and_validate(ctx, binary, test, label, cfg, env, timeout_drv=1200, timeout_tlc=1800):
    out = ctx.sub(label)
    rc, o = vlib.run_driver(binary, test, out, ctx.seed, env=env, timeout=timeout_drv)
    if rc != 0:
        raise vlib.Infra("iscc driver %s failed:\n%s" % (test, o[-3000:]))
    trace = os.path.join(out, "trace.ndjson")
    fails = vlib.validate_traces(ctx, trace, TRACE, cfg, DEPS, label, classify=classify(),
                                 timeout=timeout_tlc, max_failures=4)
    ctx.cov["samples"] += vlib.sample_lines(trace, 3, 300)
    meta = os.path.join(out, "meta.json")
    return fails, (json.load(open(meta)) if os.path.exists(meta) else {})


def _generate_schedules(ctx):
    """Spec -> code direction for the store: schedules from TLC."""
    wd = ctx.sub("iscc_gen")
    cfgs = ["MC_ISCC_store_ascoded.cfg", "MC_ISCC_store_staleread.cfg", "Sim_ISCC_store.cfg"]
    if not ctx.quick():
        cfgs.append("MC_ISCC_store_ascoded2.cfg")
    vlib.copy_specs(wd, [SPEC, GEN] + cfgs)
    sched = ctx.sub("iscc_sched")
    info = {"counterexamples": [], "simulated": 0}
    # 1. counterexamples of the "as coded" variant of the model (version rule
    #    currentVersion = writtenVersion + 1, no write guard): TLC is expected
    #    to break the predicate; the invariant writes the schedule.
    #    Likewise for the design without the read guard (finding F11: a Get()
    #    that read before another handle's content was written inserts its
    #    stale copy).
    for cfg, inv, fname in [("MC_ISCC_store_ascoded.cfg", "CexNoLostUpdate", "cex_nolostupdate.ndjson"),
                            ("MC_ISCC_store_staleread.cfg", "CexStaleRead", "cex_staleread.ndjson"),
                            ("MC_ISCC_store_ascoded2.cfg", "CexInUseInMap", "cex_inuseinmap.ndjson")]:
        if cfg not in cfgs:
            continue
        r = vlib.tlc_run(wd, "ISCCGen", cfg, workers=1, timeout=1800, heap="3g")
        ctx.cov["tlc_runs"].append({"cfg": cfg, "generated": r.generated, "distinct": r.distinct,
                                    "wall_s": round(r.wall, 1), "violated_as_expected": r.violated})
        ctx.cov["states"] += r.distinct
        ctx.cov["transitions"] += r.generated
        p = os.path.join(wd, fname)
        if r.violated == inv and os.path.exists(p):
            shutil.copy(p, os.path.join(sched, "a_" + fname))
            info["counterexamples"].append(fname)
            vlib.log("TLC %s: weakened model variant breaks %s after %d states; schedule written" % (cfg, inv, r.generated))
        elif r.ok:
            vlib.log("TLC %s: weakened model variant has no counterexample within the bounds" % cfg)
        else:
            raise vlib.Infra("counterexample search %s failed: %s\n%s" % (cfg, r.violated or r.error, r.output[-2000:]))
    # 2. simulated behaviours
    n = 25 if ctx.quick() else 1000
    r = vlib.tlc_run(wd, "ISCCGen", "Sim_ISCC_store.cfg", workers=1, timeout=1800, heap="2g",
                     simulate="num=%d" % n, depth=40, seed=ctx.seed)
    ctx.cov["tlc_runs"].append({"cfg": "Sim_ISCC_store.cfg", "simulate": n, "wall_s": round(r.wall, 1), "generated": 0})
    if not r.ok:
        raise vlib.Infra("TLC simulation of the store failed: %s\n%s" % (r.violated or r.error, r.output[-2000:]))
    for p in sorted(glob.glob(os.path.join(wd, "beh_*.ndjson"))):
        shutil.copy(p, os.path.join(sched, "b_" + os.path.basename(p)))
        info["simulated"] += 1
    if info["simulated"] == 0:
        raise vlib.Infra("TLC simulation wrote no behaviour files:\n" + r.output[-2000:])
    return sched, info


def run_parts(ctx):
    """Everything except vlib.finish. Returns a dict for the evidence.

    VERIF_C07_ONLY=analyzer|store|traces restricts the run to one part (traces:
    both parts) and skips the seed-independent design checks (a development
    aid for mutation runs and seed sweeps; the evidence says so)."""
    extra = {}
    only = os.environ.get("VERIF_C07_ONLY", "")
    if only:
        extra["restricted_to"] = only
        ctx.assumptions.append("run restricted to part '%s' by VERIF_C07_ONLY" % only)
    else:
        # --- design checks (a failure here is a bug of the specification: exit 2)
        vlib.design_check(ctx, SPEC, "MC_ISCC_analyzer.cfg", [], timeout=1800, workers=2, heap="2g", label="ISCC analyzer part")
        store_cfg = "MC_ISCC_store.cfg" if ctx.quick() else "MC_ISCC_store_thorough.cfg"
        vlib.design_check(ctx, SPEC, store_cfg, [], timeout=9000, heap="8g", label="ISCC store part (intended design)")

    binary = vlib.go_build_test(ctx, "iscc")

    # --- part 2: the real analyzers
    if only in ("", "analyzer", "traces"):
        n = 120 if ctx.quick() else 4000
        _, meta = _run_and_validate(ctx, binary, "TestAnalyzerRandom", "iscc_analyzer", CFG_AN,
                                    {"VERIF_N": n, "VERIF_EPISODES": 12}, timeout_tlc=6000)
        extra["analyzer"] = meta
    if only == "analyzer":
        return {"rule": RULE, "extra": extra}

    # --- part 3: the real store, schedules generated by TLC
    sched, info = _generate_schedules(ctx)
    _, meta = _run_and_validate(ctx, binary, "TestStoreReplay", "iscc_store_tlc", CFG_STORE,
                                {"VERIF_SCHED_DIR": sched})
    info.update(meta)
    extra["store_tlc_schedules"] = info

    # --- part 3: the real store, seeded random schedules
    n = 100 if ctx.quick() else 3000
    _run_and_validate(ctx, binary, "TestStoreRandom", "iscc_store_random", CFG_STORE,
                      {"VERIF_N": n, "VERIF_STEPS": 40}, timeout_tlc=6000)
    extra["store_random"] = {"schedules": n, "steps": 40}
    return {"rule": RULE, "extra": extra}


def run(ctx):
    parts = run_parts(ctx)
    return vlib.finish(ctx, rule=parts["rule"],
                       explanation="model-based conformance of initialsizeclass analyzers and the mutable proto store",
                       exhaustive=False, extra=parts["extra"])


def replay_parts(ctx, path):
    lines = [ln for ln in vlib.read_lines(path) if ln.strip()]
    part = "store"
    for ln in lines[:3]:
        if '"part":"an"' in ln or '"ev":"an_' in ln:
            part = "an"
    cfg = CFG_AN if part == "an" else CFG_STORE
    vlib.validate_traces(ctx, path, TRACE, cfg, DEPS, "iscc_replay", classify=classify())


def handles(path):
    """True if the replay file was produced by this module."""
    try:
        with open(path) as f:
            head = f.readline()
        return '"part":"store"' in head or '"part":"an"' in head
    except OSError:
        return False


def replay(ctx, path):
    replay_parts(ctx, path)
    return vlib.finish(ctx, rule="replay of a saved trace", explanation="replay")
