--------------------------- MODULE IdleInvokerSim ---------------------------
(***************************************************************************)
(* Takes behaviours out of IdleInvoker.tla (tlc -simulate): `hist` is the  *)
(* sequence of steps of the environment (start an Acquire, cancel, let the *)
(* cleaner return ok/fail, start a Release) of one behaviour; it is        *)
(* written to sched_<n>.ndjson when it has K steps.  The Go driver         *)
(* TestSchedules replays these schedules on the real IdleInvoker.          *)
(***************************************************************************)
EXTENDS IdleInvoker, Json

CONSTANT K

VARIABLE hist
svars == <<st, hist>>

Rec(a, t, c, r) == [a |-> a, t |-> t, c |-> c, r |-> r]

SimInit == Init /\ hist = <<>>

SimNext ==
  \E t \in Threads :
    \/ /\ Len(hist) < K
       /\ \/ \E c \in BOOLEAN : Step(AcqStartS(st, t, c)) /\ hist' = Append(hist, Rec("acq", t, c, ""))
          \/ Cancel(t) /\ hist' = Append(hist, Rec("cancel", t, FALSE, ""))
          \/ \E r \in {"ok", "fail"} : Step(CleanEndS(st, t, r)) /\ hist' = Append(hist, Rec("clean", t, FALSE, r))
          \/ RelStart(t) /\ hist' = Append(hist, Rec("rel", t, FALSE, ""))
    \/ System(t) /\ UNCHANGED hist

SimSpec == SimInit /\ [][SimNext]_svars

Dump ==
  Len(hist) < K \/ ndJsonSerialize("sched_" \o ToString(TLCGet("stats").traces) \o ".ndjson", <<hist>>)
=============================================================================
