package iscc

// Part 2 of property C07 (well-formed choices): the real
// FeedbackDrivenAnalyzer (with the real PageRank and smallest-size-class
// strategy calculators) and the real FallbackAnalyzer are driven over
// generated stats messages, size class lists, action timeouts and outcome
// sequences. Every call and its result is logged; the strategy calculator
// is observed through a logging decorator of the exported
// StrategyCalculator interface, the stats handle through a fake
// MutableProtoStore. No judgement happens here.

import (
	"context"
	"fmt"
	"math"
	"math/rand"
	"os"
	"sort"
	"strings"
	"testing"
	"time"

	remoteexecution "github.com/bazelbuild/remote-apis/build/bazel/remote/execution/v2"
	"github.com/buildbarn/bb-remote-execution/pkg/scheduler/initialsizeclass"
	"github.com/buildbarn/bb-storage/pkg/clock"
	"github.com/buildbarn/bb-storage/pkg/digest"
	"github.com/buildbarn/bb-storage/pkg/proto/iscc"

	"google.golang.org/grpc/codes"
	"google.golang.org/grpc/status"
	"google.golang.org/protobuf/types/known/durationpb"
	"google.golang.org/protobuf/types/known/emptypb"
	"google.golang.org/protobuf/types/known/timestamppb"

	"verif/harness/common"
)

// ms converts a duration to whole milliseconds, rounding towards minus
// infinity (monotone, so a <= b in nanoseconds implies ms(a) <= ms(b)),
// clamped to what a 32-bit TLC integer holds.
func ms(d time.Duration) int {
	var v int64
	if d >= 0 {
		v = int64(d / time.Millisecond)
	} else if d == math.MinInt64 {
		v = -2000000000
	} else {
		v = -int64((-d + time.Millisecond - 1) / time.Millisecond)
	}
	if v > 2000000000 {
		v = 2000000000
	}
	if v < -2000000000 {
		v = -2000000000
	}
	return int(v)
}

// ppm converts a probability to parts per million.
func ppm(p float64) int {
	if math.IsNaN(p) {
		return 2000001
	}
	v := math.Round(p * 1e6)
	if v > 2000001 {
		v = 2000001
	}
	if v < -2000001 {
		v = -2000001
	}
	return int(v)
}

type anClock struct {
	clock.Clock
	now time.Time
}

func (c *anClock) Now() time.Time { return c.now }

// anWorld is one analyzer with the stats message it works on.
type anWorld struct {
	tr        *common.Trace
	rng       *rand.Rand
	clk       *anClock
	stats     *iscc.PreviousExecutionStats
	getErr    bool
	lastStrat []initialsizeclass.Strategy
	nstrat    int
}

// fakeStatsStore is the MutableProtoStore handed to the analyzer.
type fakeStatsStore struct{ w *anWorld }

type fakeStatsHandle struct {
	w      *anWorld
	before string
}

func (s fakeStatsStore) Get(ctx context.Context, d digest.Digest) (statsHandle, error) {
	if s.w.getErr {
		return nil, status.Error(codes.Unavailable, "injected ISCC failure")
	}
	return &fakeStatsHandle{w: s.w, before: outcomesOf(s.w.stats)}, nil
}

func (h *fakeStatsHandle) GetMutableProto() *iscc.PreviousExecutionStats { return h.w.stats }

func (h *fakeStatsHandle) Release(isDirty bool) {
	h.w.tr.Emit(common.Ev{"ev": "an_release", "dirty": isDirty, "learned": outcomesOf(h.w.stats) != h.before})
}

// outcomesOf renders the recorded outcomes of a stats message (not the
// cached PageRank probabilities, not empty per size class entries).
func outcomesOf(m *iscc.PreviousExecutionStats) string {
	var keys []int
	for k, v := range m.SizeClasses {
		if v != nil && len(v.PreviousExecutions) > 0 {
			keys = append(keys, int(k))
		}
	}
	sort.Ints(keys)
	var sb strings.Builder
	for _, k := range keys {
		fmt.Fprintf(&sb, "%d:[", k)
		for _, e := range m.SizeClasses[uint32(k)].PreviousExecutions {
			switch o := e.Outcome.(type) {
			case *iscc.PreviousExecution_Failed:
				sb.WriteString("F ")
			case *iscc.PreviousExecution_TimedOut:
				fmt.Fprintf(&sb, "T%d ", o.TimedOut.AsDuration())
			case *iscc.PreviousExecution_Succeeded:
				fmt.Fprintf(&sb, "S%d ", o.Succeeded.AsDuration())
			default:
				sb.WriteString("? ")
			}
		}
		sb.WriteString("]")
	}
	if m.LastSeenFailure != nil {
		fmt.Fprintf(&sb, " lsf=%d.%d", m.LastSeenFailure.Seconds, m.LastSeenFailure.Nanos)
	}
	return sb.String()
}

// loggingCalculator decorates the real StrategyCalculator.
type loggingCalculator struct {
	w     *anWorld
	inner initialsizeclass.StrategyCalculator
}

func intsOf(sc []uint32) []int {
	out := make([]int, len(sc))
	for i, v := range sc {
		out[i] = int(v)
	}
	return out
}

func (c loggingCalculator) GetStrategies(m map[uint32]*iscc.PerSizeClassStats, sizeClasses []uint32, originalTimeout time.Duration) []initialsizeclass.Strategy {
	out := c.inner.GetStrategies(m, sizeClasses, originalTimeout)
	strat := []map[string]any{}
	for _, s := range out {
		strat = append(strat, map[string]any{"p": ppm(s.Probability), "bg": s.RunInBackground, "fto": ms(s.ForegroundExecutionTimeout)})
	}
	c.w.lastStrat = out
	c.w.nstrat++
	c.w.tr.Emit(common.Ev{"ev": "an_strategies", "n": len(sizeClasses), "T": ms(originalTimeout), "sc": intsOf(sizeClasses), "strat": strat})
	return out
}

func (c loggingCalculator) GetBackgroundExecutionTimeout(m map[uint32]*iscc.PerSizeClassStats, sizeClasses []uint32, sizeClassIndex int, originalTimeout time.Duration) time.Duration {
	out := c.inner.GetBackgroundExecutionTimeout(m, sizeClasses, sizeClassIndex, originalTimeout)
	c.w.tr.Emit(common.Ev{"ev": "an_bgtimeout", "to": ms(out), "idx": sizeClassIndex, "n": len(sizeClasses), "T": ms(originalTimeout)})
	return out
}

// anRNG is the deterministic random number generator handed to the
// analyzer. Float64 picks one of the strategies that can be drawn (or the
// remainder = largest size class), returns the middle of its interval and
// logs which position the selector's subtraction loop reaches with it.
type anRNG struct{ w *anWorld }

func (g anRNG) Float64() float64 {
	w := g.w
	type cand struct{ lo, width float64 }
	var cands []cand
	cum := 0.0
	for _, s := range w.lastStrat {
		if s.Probability > 1e-4 && s.Probability <= 1 {
			cands = append(cands, cand{cum, s.Probability})
		}
		cum += s.Probability
	}
	if cum < 1-1e-4 && cum >= 0 {
		cands = append(cands, cand{cum, 1 - cum})
	}
	r := w.rng.Float64()
	if len(cands) > 0 {
		c := cands[w.rng.Intn(len(cands))]
		r = c.lo + c.width/2
	}
	if r < 0 || r >= 1 || math.IsNaN(r) {
		r = 0.5
	}
	// The selector's loop, transcribed: which position does r fall into?
	bucket := len(w.lastStrat) + 1
	rr := r
	for i, s := range w.lastStrat {
		if rr < s.Probability {
			bucket = i + 1
			break
		}
		rr -= s.Probability
	}
	w.tr.Emit(common.Ev{"ev": "an_rng", "bucket": bucket, "r": ppm(r)})
	return r
}

func (anRNG) Int64N(n int64) int64               { panic("unexpected Int64N") }
func (anRNG) IntN(n int) int                     { panic("unexpected IntN") }
func (anRNG) Read(p []byte) (int, error)         { panic("unexpected Read") }
func (anRNG) Shuffle(n int, swap func(i, j int)) { panic("unexpected Shuffle") }
func (anRNG) Uint32() uint32                     { panic("unexpected Uint32") }
func (anRNG) Uint64() uint64                     { panic("unexpected Uint64") }

func kindOf(l initialsizeclass.Learner) string {
	if l == nil {
		return "nil"
	}
	name := fmt.Sprintf("%T", l)
	if i := strings.LastIndex(name, "."); i >= 0 {
		name = name[i+1:]
	}
	switch name {
	case "smallerForegroundLearner":
		return "SF"
	case "largestForegroundLearner":
		return "LF"
	case "largestBackgroundLearner":
		return "LB"
	case "smallerBackgroundLearner":
		return "SB"
	case "largestLearner":
		return "L"
	case "smallerFallbackLearner":
		return "FS"
	case "largestFallbackLearner":
		return "FL"
	}
	return "?" + name
}

var sizeClassUniverse = []uint32{1, 2, 4, 8, 16, 32}

// genSizeClasses returns an ascending list with the given largest class.
func genSizeClasses(rng *rand.Rand, largest uint32) []uint32 {
	var out []uint32
	for _, s := range sizeClassUniverse {
		if s < largest && rng.Intn(2) == 0 {
			out = append(out, s)
		}
	}
	return append(out, largest)
}

func genDuration(rng *rand.Rand, weird bool) time.Duration {
	if weird && rng.Intn(6) == 0 {
		switch rng.Intn(4) {
		case 0:
			return -time.Duration(rng.Intn(5000)) * time.Millisecond
		case 1:
			return time.Duration(rng.Int63n(int64(400 * 24 * time.Hour)))
		case 2:
			return 0
		default:
			return time.Duration(rng.Int63n(1000)) // nanoseconds
		}
	}
	switch rng.Intn(3) {
	case 0:
		return time.Duration(rng.Intn(3000)) * time.Millisecond
	case 1:
		return time.Duration(rng.Intn(120)) * time.Second
	default:
		return time.Duration(rng.Intn(7200000)) * time.Millisecond
	}
}

func genStats(rng *rand.Rand, now time.Time, historySize int, weird bool) *iscc.PreviousExecutionStats {
	m := &iscc.PreviousExecutionStats{}
	if rng.Intn(8) == 0 {
		return m // empty message (NotFound)
	}
	m.SizeClasses = map[uint32]*iscc.PerSizeClassStats{}
	profile := rng.Intn(4) // 0 mixed, 1 mostly success, 2 fails on small, 3 sparse
	for _, s := range sizeClassUniverse {
		if rng.Intn(3) == 0 {
			continue
		}
		ps := &iscc.PerSizeClassStats{}
		n := rng.Intn(historySize + 1)
		if profile == 3 {
			n = rng.Intn(2)
		}
		base := genDuration(rng, weird)
		for i := 0; i < n; i++ {
			k := rng.Intn(10)
			if profile == 1 {
				k = 9
			}
			if profile == 2 && s <= 4 {
				k = rng.Intn(3)
			}
			e := &iscc.PreviousExecution{}
			switch {
			case k == 0:
				e.Outcome = &iscc.PreviousExecution_Failed{Failed: &emptypb.Empty{}}
			case k <= 2:
				e.Outcome = &iscc.PreviousExecution_TimedOut{TimedOut: durationpb.New(genDuration(rng, weird))}
			default:
				d := base + time.Duration(rng.Int63n(int64(time.Second)+1)) - time.Second/2
				if rng.Intn(4) == 0 {
					d = genDuration(rng, weird)
				}
				if !weird && d < 0 {
					d = 0
				}
				e.Outcome = &iscc.PreviousExecution_Succeeded{Succeeded: durationpb.New(d)}
			}
			ps.PreviousExecutions = append(ps.PreviousExecutions, e)
		}
		switch rng.Intn(6) {
		case 0:
			ps.InitialPageRankProbability = rng.Float64()
		case 1:
			ps.InitialPageRankProbability = 0.999
		case 2:
			if weird {
				ps.InitialPageRankProbability = []float64{-0.5, 1.5, math.NaN(), math.Inf(1), 1e-300}[rng.Intn(5)]
			}
		}
		m.SizeClasses[s] = ps
	}
	switch rng.Intn(5) {
	case 0:
		m.LastSeenFailure = timestamppb.New(now.Add(-time.Duration(rng.Intn(600)+1) * time.Second))
	case 1:
		m.LastSeenFailure = timestamppb.New(now.Add(-time.Duration(rng.Intn(1000)+100) * time.Hour))
	case 2:
		if weird {
			m.LastSeenFailure = &timestamppb.Timestamp{Seconds: 1, Nanos: -5} // invalid
		}
	}
	return m
}

// guard runs f and logs a panic of the real code as an event. The call
// runs in its own goroutine under a generous wall-clock watchdog: a call of
// the analyzer that does not return (the power iteration of the PageRank
// calculator has no iteration bound) would otherwise spin until the test
// binary's timeout. A hang is not judged: the driver says so and exits
// non-zero, which the check reports as inconclusive.
func guard(tr *common.Trace, call string, f func()) (ok bool) {
	done := make(chan bool, 1)
	go func() {
		defer func() {
			if r := recover(); r != nil {
				tr.Emit(common.Ev{"ev": "an_panic", "call": call, "msg": fmt.Sprint(r)})
				done <- false
			}
		}()
		f()
		done <- true
	}()
	select {
	case ok = <-done:
		return ok
	case <-time.After(time.Duration(common.EnvInt("VERIF_AN_WATCHDOG_S", 120)) * time.Second):
		tr.Emit(common.Ev{"ev": "an_hang", "call": call})
		tr.Close()
		fmt.Printf("HANG: %s of the real analyzer did not return within the watchdog period\n", call)
		os.Exit(3)
		return false
	}
}

// episode runs one request: Analyze, Select (or Abandoned), then outcomes
// until the learner chain ends.
func (w *anWorld) episode(az string, analyzer initialsizeclass.Analyzer, defaultTimeout, maximumTimeout, failureCacheDuration time.Duration, largest uint32) {
	rng, tr := w.rng, w.tr
	// The action and its timeout.
	action := &remoteexecution.Action{
		CommandDigest: &remoteexecution.Digest{Hash: strings.Repeat("ab", 32), SizeBytes: 123},
		Platform:      &remoteexecution.Platform{Properties: []*remoteexecution.Platform_Property{{Name: "os", Value: "linux"}}},
	}
	effective := defaultTimeout
	wantErr := false
	switch rng.Intn(12) {
	case 0: // no timeout: the default applies
	case 1:
		action.Timeout = durationpb.New(0)
		effective = 0
	case 2:
		action.Timeout = durationpb.New(maximumTimeout + time.Duration(rng.Intn(5000)+1)*time.Millisecond)
		wantErr = true
	case 3:
		action.Timeout = durationpb.New(-time.Duration(rng.Intn(5000)+1) * time.Millisecond)
		wantErr = true
	case 4:
		action.Timeout = durationpb.New(maximumTimeout)
		effective = maximumTimeout
	default:
		effective = time.Duration(rng.Int63n(int64(maximumTimeout/time.Millisecond))) * time.Millisecond
		if rng.Intn(3) == 0 {
			effective = time.Duration(rng.Intn(20000)) * time.Millisecond
			if effective > maximumTimeout {
				effective = maximumTimeout
			}
		}
		action.Timeout = durationpb.New(effective)
	}
	w.getErr = az == "fda" && rng.Intn(25) == 0
	var selector initialsizeclass.Selector
	var err error
	if !guard(tr, "Analyze", func() {
		selector, err = analyzer.Analyze(context.Background(), digest.MustNewFunction("iscc", remoteexecution.DigestFunction_SHA256), action)
	}) {
		return
	}
	tr.Emit(common.Ev{"ev": "an_analyze", "az": az, "T": ms(effective), "err": err != nil, "wantErr": wantErr || w.getErr})
	if err != nil {
		return
	}
	if rng.Intn(10) == 0 {
		if guard(tr, "Selector.Abandoned", func() { selector.Abandoned() }) {
			tr.Emit(common.Ev{"ev": "an_abandoned", "who": "selector"})
		}
		return
	}

	sizeClasses := genSizeClasses(rng, largest)
	recent := false
	if lsf := w.stats.LastSeenFailure; lsf.CheckValid() == nil && !lsf.AsTime().Before(w.clk.now.Add(-failureCacheDuration)) {
		recent = true
	}
	w.nstrat = 0
	w.lastStrat = nil
	var idx int
	var exp, to time.Duration
	var learner initialsizeclass.Learner
	if !guard(tr, "Select", func() { idx, exp, to, learner = selector.Select(sizeClasses) }) {
		return
	}
	tr.Emit(common.Ev{"ev": "an_select", "sc": intsOf(sizeClasses), "recent": recent, "nstrat": w.nstrat,
		"idx": idx, "exp": ms(exp), "to": ms(to), "kind": kindOf(learner)})

	for step := 0; learner != nil && step < 6; step++ {
		// Time passes while the action runs.
		w.clk.now = w.clk.now.Add(time.Duration(rng.Intn(100000)) * time.Millisecond)
		switch k := rng.Intn(10); {
		case k == 0:
			l := learner
			if guard(tr, "Learner.Abandoned", func() { l.Abandoned() }) {
				tr.Emit(common.Ev{"ev": "an_abandoned", "who": "learner"})
			}
			learner = nil
		case k <= 4:
			timedOut := rng.Intn(2) == 0
			l := learner
			var nl initialsizeclass.Learner
			if !guard(tr, "Learner.Failed", func() { exp, to, nl = l.Failed(timedOut) }) {
				return
			}
			tr.Emit(common.Ev{"ev": "an_failed", "timedOut": timedOut, "exp": ms(exp), "to": ms(to), "kind": kindOf(nl)})
			learner = nl
		default:
			// The size class list may have changed meanwhile; the
			// largest size class of a platform queue stays.
			sc2 := sizeClasses
			if rng.Intn(3) == 0 {
				sc2 = genSizeClasses(rng, largest)
			}
			dur := genDuration(rng, false)
			l := learner
			var nl initialsizeclass.Learner
			if !guard(tr, "Learner.Succeeded", func() { idx, exp, to, nl = l.Succeeded(dur, sc2) }) {
				return
			}
			tr.Emit(common.Ev{"ev": "an_succeeded", "dur": ms(dur), "sc": intsOf(sc2), "idx": idx, "exp": ms(exp), "to": ms(to), "kind": kindOf(nl)})
			learner = nl
			sizeClasses = sc2
		}
	}
	if learner != nil {
		// Chain did not end within the bound: leave it to the trace
		// specification to say so, and release what we hold.
		tr.Emit(common.Ev{"ev": "an_chain_too_long", "kind": kindOf(learner)})
		l := learner
		if guard(tr, "Learner.Abandoned", func() { l.Abandoned() }) {
			tr.Emit(common.Ev{"ev": "an_abandoned", "who": "learner"})
		}
	}
}

// TestAnalyzerRandom: seeded random worlds, several requests each.
func TestAnalyzerRandom(t *testing.T) {
	n := common.EnvInt("VERIF_N", 200)
	episodes := common.EnvInt("VERIF_EPISODES", 12)
	tr := common.NewTrace("trace.ndjson")
	defer tr.Close()
	calls := 0
	for i := 0; i < n; i++ {
		rng := common.Rand(int64(5000 + i))
		weird := rng.Intn(4) == 0
		w := &anWorld{tr: tr, rng: rng, clk: &anClock{now: time.Unix(1700000000+int64(rng.Intn(1000000)), 0)}}
		historySize := []int{1, 3, 8, 32}[rng.Intn(4)]
		w.stats = genStats(rng, w.clk.now, historySize, weird)
		defaultTimeout := time.Duration(1+rng.Intn(3600)) * time.Second
		maximumTimeout := defaultTimeout + time.Duration(rng.Intn(7200))*time.Second
		failureCacheDuration := []time.Duration{0, time.Minute, 24 * time.Hour}[rng.Intn(3)]
		extractor := initialsizeclass.NewActionTimeoutExtractor(defaultTimeout, maximumTimeout)
		largest := sizeClassUniverse[rng.Intn(len(sizeClassUniverse))]

		az, calc := "fda", "pagerank"
		var analyzer initialsizeclass.Analyzer
		switch rng.Intn(8) {
		case 0:
			az, calc = "fb", "none"
			analyzer = initialsizeclass.NewFallbackAnalyzer(extractor)
		case 1:
			calc = "smallest"
			analyzer = initialsizeclass.NewFeedbackDrivenAnalyzer(fakeStatsStore{w}, anRNG{w}, w.clk, extractor, failureCacheDuration,
				loggingCalculator{w, initialsizeclass.SmallestSizeClassStrategyCalculator}, historySize)
		default:
			minimumTimeout := []time.Duration{time.Second, 5 * time.Second, 30 * time.Second, 10 * time.Minute}[rng.Intn(4)]
			exponent := []float64{0.5, 1.0, 0.3, 0.0}[rng.Intn(4)]
			multiplier := []float64{1.5, 2.0, 3.0, 1.0}[rng.Intn(4)]
			convergence := []float64{0.001, 0.01, 0.0001}[rng.Intn(3)]
			analyzer = initialsizeclass.NewFeedbackDrivenAnalyzer(fakeStatsStore{w}, anRNG{w}, w.clk, extractor, failureCacheDuration,
				loggingCalculator{w, initialsizeclass.NewPageRankStrategyCalculator(minimumTimeout, exponent, multiplier, convergence)}, historySize)
		}
		tr.Emit(common.Ev{"ev": "reset", "part": "an", "trace": i, "az": az, "calc": calc, "weird": weird, "history": historySize})
		for e := 0; e < episodes; e++ {
			w.episode(az, analyzer, defaultTimeout, maximumTimeout, failureCacheDuration, largest)
			w.clk.now = w.clk.now.Add(time.Duration(rng.Intn(3600)) * time.Second)
			calls++
		}
	}
	common.WriteJSON("meta.json", map[string]any{"worlds": n, "requests": calls})
}
