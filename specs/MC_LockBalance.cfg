SPECIFICATION BSpec
CONSTANTS
  LockIds = {a, b, c}
INVARIANTS
  C14_Balance
CHECK_DEADLOCK FALSE
