"""Scheduler family (C01-C07): Sched.tla / SchedPreds.tla / SchedTrace.tla."""
import json
import os
import concurrent.futures

from lib import vlib

DEPS = ["SchedPreds.tla"]
TRACE = "SchedTrace.tla"
CFG = "Trace_Sched.cfg"


def split_file(path, chunks):
    """Split a concatenated trace file into `chunks` files at reset events."""
    lines = [ln for ln in vlib.read_lines(path) if ln.strip()]
    traces = vlib.split_traces(lines)
    per = max(1, (len(traces) + chunks - 1) // chunks)
    out = []
    for k in range(0, len(traces), per):
        s = traces[k][0]
        e = traces[min(k + per, len(traces)) - 1][1]
        p = "%s.part%d" % (path, len(out))
        with open(p, "w") as f:
            f.write("\n".join(lines[s:e + 1]) + "\n")
        out.append(p)
    return out


def validate_parallel(ctx, path, label, chunks=8, timeout=1800):
    parts = split_file(path, chunks)
    with concurrent.futures.ThreadPoolExecutor(max_workers=len(parts)) as ex:
        futs = [ex.submit(vlib.validate_traces, ctx, p, TRACE, CFG, DEPS, "%s_%d" % (label, i),
                          timeout, 6, vlib.classify_for(ctx.prop))
                for i, p in enumerate(parts)]
        for f in futs:
            f.result()


def run_parts(ctx):
    binary = vlib.go_build_test(ctx, "sched")
    n = 60 if ctx.quick() else 600
    steps = 70 if ctx.quick() else 90
    out = ctx.sub("rand")
    rc, o = vlib.run_driver(binary, "TestRandom", out, ctx.seed, env={"VERIF_N": n, "VERIF_STEPS": steps}, timeout=1500)
    if rc != 0:
        raise vlib.Infra("sched random driver failed:\n" + o[-3000:])
    validate_parallel(ctx, out + "/trace.ndjson", "random", chunks=12 if ctx.quick() else 16)
    out2 = ctx.sub("scen")
    rc, o = vlib.run_driver(binary, "TestScenarios", out2, ctx.seed, timeout=600)
    if rc != 0:
        raise vlib.Infra("sched scenario driver failed:\n" + o[-3000:])
    validate_parallel(ctx, out2 + "/trace.ndjson", "scenarios", chunks=3)
    ctx.cov["samples"] += [json.loads(ln) for ln in vlib.read_lines(out + "/trace.ndjson")[2:5]]
    for s in ctx.cov["samples"]:
        if isinstance(s, dict) and "s" in s:
            s["s"] = "(snapshot elided)"


def run(ctx):
    run_parts(ctx)
    return vlib.finish(
        ctx,
        rule="seeded random schedules of critical sections of the real InMemoryBuildQueue (gated enter/leave, fake clock, fake streams), every section's snapshot and every message/reply validated by TLC against SchedPreds/SchedTrace",
        explanation="scheduler family",
    )


def replay(ctx, path):
    vlib.validate_traces(ctx, path, TRACE, CFG, DEPS, "replay", classify=vlib.classify_for(ctx.prop))
    return vlib.finish(ctx, rule="replay of a saved trace", explanation="replay")
