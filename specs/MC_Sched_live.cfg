SPECIFICATION FairSpec
CONSTANTS
  Workers = {w1}
  Clients = {c1}
  Digests = {d1, d2}
  NoCache = {d2}
  Invs = {"i1"}
  MaxTasks = 1
  MaxOps = 1
  RetryLimit = 1
  Predeclared = TRUE
  AllowRequeue = FALSE
  Features = {"cancel"}
INVARIANTS
  TypeOK
PROPERTIES
  C02_Delivery
  C06_WorkerWoken
VIEW View
CHECK_DEADLOCK FALSE
