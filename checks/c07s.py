from checks.sched import run, replay  # noqa: F401
