SPECIFICATION StoreSpec
CONSTANTS
  Digests = {"d1", "d2"}
  Threads = {"t1", "t2", "t3"}
  NoDigest = "none"
  MaxGets = 4
  MaxUpd = 2
  WritesPerRead = 3
  VersionRules = {"wr+1"}
  WriteGuards = {0}
  ReuseSlots = TRUE
  EagerFinish = TRUE
  RecordHist = TRUE
  MaxN = 1
  MaxT = 0
VIEW StoreView
INVARIANTS
  CexNoLostUpdate
CHECK_DEADLOCK FALSE
