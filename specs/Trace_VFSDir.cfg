SPECIFICATION TraceSpec
CONSTANTS
  NameOrder <- NamesTrace
  HiddenNames = {"_h"}
  MaxDirs = 1
  MaxLeaves = 1
  SymLeaf = 0
  InitCI = FALSE
  InitHid = FALSE
  Ops = {}
  AllowSubtreeRename = TRUE
  Sids = {0, 1}
INVARIANTS
  VerdictOK
  C13_ObservedMapListAgreement
  C13_ObservedDeletedIsEmpty
  C13_ObservedLinkCounts
  NonconfReport
POSTCONDITION Accepted
CHECK_DEADLOCK FALSE
