---------------------------- MODULE FilePoolOps ----------------------------
(***************************************************************************)
(* Property C15, part 1: what pkg/filesystem/pool promises, written as     *)
(* pure operators on an *abstract file* -- a sparse byte array with a      *)
(* size, a hole source and the set of sector-sized blocks that hold data.  *)
(* FilePool.tla (the design, checked exhaustively by TLC) and              *)
(* FilePoolTrace.tla (the judge of traces of the real code) both use       *)
(* these operators, so the real code is held to exactly what the design    *)
(* was shown to satisfy.                                                   *)
(***************************************************************************)
EXTENDS Integers, Sequences, FiniteSets

Min(a, b) == IF a < b THEN a ELSE b
Max(a, b) == IF a < b THEN b ELSE a
MinSet(S) == CHOOSE x \in S : \A y \in S : x <= y

-----------------------------------------------------------------------------
(* The abstract file.                                                      *)
(*                                                                         *)
(*   size  current size                                                    *)
(*   cont  [0 .. mo-1 -> byte]: cont[o] is what a read of byte o returns   *)
(*         whenever o < size; for o >= size it is what byte o reads as     *)
(*         once the file has been grown over it (hole source contents)     *)
(*   pat, hlen   the hole source: byte o is pat[o] if o < hlen, else 0;    *)
(*         its data regions are its non-zero bytes                         *)
(*   asec  indices of the sector-sized blocks of the file that hold data   *)
(*         (a block holds data from the first write that touches it until  *)
(*         a truncation to or below its start)                             *)
(*   unk   offsets whose contents the statement leaves open (dropped by a  *)
(*         truncation that failed half way)                                *)

ZeroFn(mo) == [o \in 0 .. (mo - 1) |-> 0]

HSAt(pat, hlen, o) == IF o < hlen THEN pat[o] ELSE 0

ClosedFile(mo) ==
  [open |-> FALSE, size |-> 0, cont |-> ZeroFn(mo), pat |-> ZeroFn(mo),
   hlen |-> 0, asec |-> {}, unk |-> {}]

\* NewFile(holeSource, size).
FNew(pat, hlen, size, mo) ==
  [open |-> TRUE, size |-> size,
   cont |-> [o \in 0 .. (mo - 1) |-> HSAt(pat, hlen, o)],
   pat |-> pat, hlen |-> hlen, asec |-> {}, unk |-> {}]

\* Indices of the blocks of ss bytes that [off, off+n) touches.
SecsCovering(off, n, ss) ==
  IF n <= 0 THEN {} ELSE (off \div ss) .. ((off + n - 1) \div ss)

\* WriteAt(data, off) that reported n bytes written: exactly the first n
\* bytes of data are stored, the size grows to cover them, nothing else
\* changes.  (n = Len(data) unless the call failed.)
FWrite(fl, off, data, n, ss) ==
  [fl EXCEPT
     !.cont = [o \in DOMAIN fl.cont |->
                 IF off <= o /\ o < off + n THEN data[o - off + 1] ELSE fl.cont[o]],
     !.size = IF n > 0 THEN Max(fl.size, off + n) ELSE fl.size,
     !.asec = fl.asec \cup SecsCovering(off, n, ss),
     !.unk  = {o \in fl.unk : ~(off <= o /\ o < off + n)}]

\* Truncate(s) that succeeded.  Shrinking drops the bytes from s on, also
\* in the hole source: when the file is grown again they read as zero.
FTrunc(fl, s, ss) ==
  IF s >= fl.size THEN [fl EXCEPT !.size = s]
  ELSE LET hl == Min(fl.hlen, s) IN
       [fl EXCEPT
          !.size = s,
          !.hlen = hl,
          !.cont = [o \in DOMAIN fl.cont |-> IF o >= s THEN HSAt(fl.pat, hl, o) ELSE fl.cont[o]],
          !.asec = {i \in fl.asec : i * ss < s},
          !.unk  = {o \in fl.unk : o < s}]

\* Truncate(s) that failed: the size is unchanged; when shrinking, the
\* bytes from s on may or may not have been dropped already.
FTruncFailed(fl, s) ==
  IF s >= 0 /\ s < fl.size THEN [fl EXCEPT !.unk = fl.unk \cup (s .. (fl.size - 1))] ELSE fl

\* Number of bytes a successful ReadAt of cnt bytes at off returns.
ReadCount(fl, off, cnt) == IF off >= fl.size THEN 0 ELSE Min(cnt, fl.size - off)

\* Does a sequence of bytes read at off agree with the file?
ReadAgrees(fl, off, bytes) ==
  \A i \in 1 .. Len(bytes) :
    LET o == off + i - 1 IN
      o \in DOMAIN fl.cont /\ (o \in fl.unk \/ bytes[i] = fl.cont[o])

\* Region seeks (lseek SEEK_DATA / SEEK_HOLE at sector granularity).
IsData(fl, o, ss) == (o \div ss) \in fl.asec \/ (o < fl.hlen /\ fl.pat[o] # 0)

\* -1 stands for io.EOF ("no data from here on").
SeekData(fl, off, ss) ==
  LET c == {o \in off .. (fl.size - 1) : IsData(fl, o, ss)} IN
    IF c = {} THEN -1 ELSE MinSet(c)

SeekHole(fl, off, ss) ==
  LET c == {o \in off .. (fl.size - 1) : ~IsData(fl, o, ss)} IN
    IF c = {} THEN fl.size ELSE MinSet(c)

\* Number of sectors a file of this size can need.
SectorsFor(size, ss) == (size + ss - 1) \div ss

=============================================================================
