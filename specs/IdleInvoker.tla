----------------------------- MODULE IdleInvoker -----------------------------
(***************************************************************************)
(* Property C12: each action runs isolated and leaves nothing behind.      *)
(*                                                                         *)
(* Part 1 models pkg/cleaner/idle_invoker.go at the granularity of its     *)
(* critical sections (i.lock is released while the Cleaner runs and while  *)
(* an acquirer is parked on the wakeup channel):                           *)
(*                                                                         *)
(*   Acquire:  AcqStart (call) -> AcqLock (lock; wakeup # nil ? park :     *)
(*             useCount = 0 ? start cleaning : useCount++) ->              *)
(*             [CleanStart -> CleanEnd(ok|fail) -> AcqCleanDone (lock;     *)
(*             close(wakeup); ok ? useCount++)] -> AcqEnd (return)         *)
(*             parked: woken by the close of the channel it waits on       *)
(*             (AcqLock again) or by its context (AcqCancel).              *)
(*   Release:  RelStart -> RelLock (useCount--; 0 ? start cleaning) ->     *)
(*             [CleanStart -> CleanEnd -> RelCleanDone] -> RelEnd          *)
(*                                                                         *)
(* AcqStart/CleanStart/CleanEnd/AcqEnd/RelStart/RelEnd/Cancel are visible  *)
(* at the call boundary (they are the events the conformance drivers log); *)
(* AcqLock/AcqCancel/AcqCleanDone/RelLock/RelCleanDone happen inside.      *)
(* CleanRunner and CleanBuildDirectoryCreator are clients of the same      *)
(* protocol (Acquire; use; Release on every path).                         *)
(*                                                                         *)
(* Part 2 (WithDirs) is the Shared(Clean(Root(dir))) build directory       *)
(* creator chain: while a thread holds the invoker it creates a            *)
(* subdirectory (named after its digest or after a counter), enters it,    *)
(* and on Close removes it recursively before releasing; Mkdir, Enter and  *)
(* the removals may fail; a successful cleaning empties the root.          *)
(*                                                                         *)
(* All transitions are written as set-valued operators on a state record   *)
(* so that IdleInvokerTrace.tla can apply them to the set of states that   *)
(* are consistent with a recorded trace.                                   *)
(***************************************************************************)
EXTENDS Integers, FiniteSets, Sequences, TLC

CONSTANTS Threads,    \* set of strings
          WithDirs,   \* BOOLEAN: include part 2
          MaxCtr      \* bound on the directory name counter (part 2)

VARIABLE st
vars == <<st>>

None == ""            \* "no name"

\* program counters
AcqHidden == {"a0", "aw", "ac0"}                 \* in Acquire, before the cleaner (if any) was entered
AcqPCs    == {"a0", "aw", "ac0", "ac1", "ac2", "aok", "aerr", "acx"}
RelPCs    == {"r0", "rc0", "rc1", "rc2", "rok", "rerr"}
PCs       == {"idle", "using"} \cup AcqPCs \cup RelPCs
DirPhases == {"none", "mk", "enter", "undo", "live", "fail", "closed"}

S0 == [uc   |-> 0,                                   \* i.useCount
       cl   |-> FALSE,                               \* i.wakeup # nil
       pc   |-> [t \in Threads |-> "idle"],
       sig  |-> [t \in Threads |-> FALSE],           \* the channel t is parked on was closed
       cxl  |-> [t \in Threads |-> FALSE],           \* context of t's Acquire is cancelled
       res  |-> [t \in Threads |-> "ok"],            \* result of the cleaner call t made
       \* part 2
       root |-> {},                                  \* names present in the root build directory
       left |-> {},                                  \* names whose removal failed (fault)
       ctr  |-> 0,                                   \* nextParallelActionID
       d    |-> [t \in Threads |-> "none"],
       nm   |-> [t \in Threads |-> None]]

-----------------------------------------------------------------------------
(* Part 1: transitions.  Each operator returns the set of successor states *)
(* (empty = not enabled).                                                  *)

\* ---- visible at the call boundary
AcqStartS(s, t, c) ==
  IF s.pc[t] = "idle" THEN {[s EXCEPT !.pc[t] = "a0", !.cxl[t] = c]} ELSE {}

CancelS(s, t) ==
  IF s.pc[t] \in {"a0", "aw"} THEN {[s EXCEPT !.cxl[t] = TRUE]} ELSE {s}

CleanStartS(s, t) ==
  IF s.pc[t] = "ac0" THEN {[s EXCEPT !.pc[t] = "ac1"]}
  ELSE IF s.pc[t] = "rc0" THEN {[s EXCEPT !.pc[t] = "rc1"]}
  ELSE {}

\* A successful cleaning of the build directory empties it.
CleanEndS(s, t, r) ==
  LET s1 == IF WithDirs /\ r = "ok" THEN [s EXCEPT !.root = {}, !.left = {}] ELSE s IN
  IF s.pc[t] = "ac1" THEN {[s1 EXCEPT !.pc[t] = "ac2", !.res[t] = r]}
  ELSE IF s.pc[t] = "rc1" THEN {[s1 EXCEPT !.pc[t] = "rc2", !.res[t] = r]}
  ELSE {}

AcqEndS(s, t, r) ==
  IF r = "ok" /\ s.pc[t] = "aok"
    THEN {[s EXCEPT !.pc[t] = "using", !.cxl[t] = FALSE, !.d[t] = IF WithDirs THEN "mk" ELSE "none"]}
  ELSE IF r = "fail" /\ s.pc[t] = "aerr" THEN {[s EXCEPT !.pc[t] = "idle", !.cxl[t] = FALSE]}
  ELSE IF r = "cancelled" /\ s.pc[t] = "acx" THEN {[s EXCEPT !.pc[t] = "idle", !.cxl[t] = FALSE]}
  ELSE {}

RelStartS(s, t) ==
  IF s.pc[t] = "using" /\ (WithDirs => s.d[t] \in {"fail", "closed"})
    THEN {[s EXCEPT !.pc[t] = "r0", !.d[t] = "none", !.nm[t] = None]}
  ELSE {}

\* r = "any": the caller cannot see Release's result (it is masked by an
\* earlier error).
RelEndS(s, t, r) ==
  IF s.pc[t] = "rok" /\ r \in {"ok", "any"} THEN {[s EXCEPT !.pc[t] = "idle"]}
  ELSE IF s.pc[t] = "rerr" /\ r \in {"fail", "any"} THEN {[s EXCEPT !.pc[t] = "idle"]}
  ELSE {}

\* ---- inside (critical sections of i.lock, wake-ups)
Wake(s) == [s EXCEPT !.sig = [u \in Threads |-> IF s.pc[u] = "aw" THEN TRUE ELSE s.sig[u]]]

Decide(s, t) ==
  IF s.cl THEN [s EXCEPT !.pc[t] = "aw", !.sig[t] = FALSE]
  ELSE IF s.uc = 0 THEN [s EXCEPT !.cl = TRUE, !.pc[t] = "ac0", !.sig[t] = FALSE]
  ELSE [s EXCEPT !.uc = @ + 1, !.pc[t] = "aok", !.sig[t] = FALSE]

AcqLockS(s, t) ==
  IF s.pc[t] = "a0" \/ (s.pc[t] = "aw" /\ s.sig[t]) THEN {Decide(s, t)} ELSE {}

\* select{} may pick ctx.Done() also when the wakeup channel is closed.
AcqCancelS(s, t) ==
  IF s.pc[t] = "aw" /\ s.cxl[t] THEN {[s EXCEPT !.pc[t] = "acx", !.sig[t] = FALSE]} ELSE {}

AcqCleanDoneS(s, t) ==
  IF s.pc[t] = "ac2"
    THEN LET w == Wake(s) IN
         {[w EXCEPT !.cl = FALSE,
                    !.uc = IF s.res[t] = "ok" THEN @ + 1 ELSE @,
                    !.pc[t] = IF s.res[t] = "ok" THEN "aok" ELSE "aerr",
                    !.res[t] = "ok"]}
  ELSE {}

RelLockS(s, t) ==
  IF s.pc[t] = "r0" /\ s.uc > 0 /\ ~(s.uc = 1 /\ s.cl)
    THEN {IF s.uc = 1 THEN [s EXCEPT !.uc = 0, !.cl = TRUE, !.pc[t] = "rc0"]
                      ELSE [s EXCEPT !.uc = @ - 1, !.pc[t] = "rok"]}
  ELSE {}

RelCleanDoneS(s, t) ==
  IF s.pc[t] = "rc2"
    THEN LET w == Wake(s) IN
         {[w EXCEPT !.cl = FALSE,
                    !.pc[t] = IF s.res[t] = "ok" THEN "rok" ELSE "rerr",
                    !.res[t] = "ok"]}
  ELSE {}

InsideS(s, t) == AcqLockS(s, t) \cup AcqCancelS(s, t) \cup AcqCleanDoneS(s, t)
                   \cup RelLockS(s, t) \cup RelCleanDoneS(s, t)

\* every state reachable by steps inside the invoker
RECURSIVE Closure(_)
Closure(S) ==
  LET N == S \cup UNION {UNION {InsideS(s, t) : t \in Threads} : s \in S}
  IN IF N = S THEN S ELSE Closure(N)

\* nothing can happen without the environment (a new call, the cleaner
\* returning, a cancellation): what a quiescent implementation looks like
Stable(s) ==
  \A t \in Threads :
     \/ s.pc[t] \in {"idle", "using", "ac1", "rc1"}
     \/ s.pc[t] = "aw" /\ ~s.sig[t] /\ ~s.cxl[t]

-----------------------------------------------------------------------------
(* Part 2: the build directory creator chain (only with WithDirs).         *)

DigestName(t) == t                         \* thread t always asks for "its" digest
CtrName(n)    == ToString(n)

\* SharedBuildDirectoryCreator: name, then parentDirectory.Mkdir
MkdirS(s, t, byCtr, ok) ==
  IF s.pc[t] = "using" /\ s.d[t] = "mk" /\ (byCtr => s.ctr < MaxCtr)
    THEN LET c  == IF byCtr THEN s.ctr + 1 ELSE s.ctr
             n  == IF byCtr THEN CtrName(c) ELSE DigestName(t)
         IN IF ok /\ n \notin s.root
              THEN {[s EXCEPT !.ctr = c, !.root = @ \cup {n}, !.nm[t] = n, !.d[t] = "enter"]}
              ELSE {[s EXCEPT !.ctr = c, !.d[t] = "fail"]}     \* injected fault or EEXIST
  ELSE {}

EnterS(s, t, ok) ==
  IF s.pc[t] = "using" /\ s.d[t] = "enter"
    THEN {[s EXCEPT !.d[t] = IF ok THEN "live" ELSE "undo"]}
  ELSE {}

\* parentDirectory.Remove after a failed Enter
UndoS(s, t, ok) ==
  IF s.pc[t] = "using" /\ s.d[t] = "undo"
    THEN {IF ok THEN [s EXCEPT !.root = @ \ {s.nm[t]}, !.d[t] = "fail"]
                ELSE [s EXCEPT !.left = @ \cup {s.nm[t]}, !.d[t] = "fail"]}
  ELSE {}

\* sharedBuildDirectory.Close: parentDirectory.RemoveAll(child)
CloseS(s, t, ok) ==
  IF s.pc[t] = "using" /\ s.d[t] = "live"
    THEN {IF ok THEN [s EXCEPT !.root = @ \ {s.nm[t]}, !.d[t] = "closed"]
                ELSE [s EXCEPT !.left = @ \cup {s.nm[t]}, !.d[t] = "closed"]}
  ELSE {}

-----------------------------------------------------------------------------
(* The specification that TLC explores.                                    *)

Init == st = S0

Step(T) == st' \in T

AcqStart(t)     == \E c \in BOOLEAN : Step(AcqStartS(st, t, c))
Cancel(t)       == st.pc[t] \in {"a0", "aw"} /\ ~st.cxl[t] /\ Step(CancelS(st, t))
CleanStart(t)   == Step(CleanStartS(st, t))
CleanEnd(t)     == \E r \in {"ok", "fail"} : Step(CleanEndS(st, t, r))
AcqEnd(t)       == \E r \in {"ok", "fail", "cancelled"} : Step(AcqEndS(st, t, r))
RelStart(t)     == Step(RelStartS(st, t))
RelEnd(t)       == Step(RelEndS(st, t, "any"))
AcqLock(t)      == Step(AcqLockS(st, t))
AcqCancel(t)    == Step(AcqCancelS(st, t))
AcqCleanDone(t) == Step(AcqCleanDoneS(st, t))
RelLock(t)      == Step(RelLockS(st, t))
RelCleanDone(t) == Step(RelCleanDoneS(st, t))
Mkdir(t)        == WithDirs /\ \E b, ok \in BOOLEAN : Step(MkdirS(st, t, b, ok))
Enter(t)        == WithDirs /\ \E ok \in BOOLEAN : Step(EnterS(st, t, ok))
Undo(t)         == WithDirs /\ \E ok \in BOOLEAN : Step(UndoS(st, t, ok))
Close(t)        == WithDirs /\ \E ok \in BOOLEAN : Step(CloseS(st, t, ok))

\* what the implementation does by itself
System(t) == \/ AcqLock(t) \/ AcqCancel(t) \/ AcqCleanDone(t) \/ RelLock(t) \/ RelCleanDone(t)
             \/ CleanStart(t) \/ AcqEnd(t) \/ RelEnd(t)
\* what the callers and the cleaner do
Environment(t) == \/ AcqStart(t) \/ Cancel(t) \/ CleanEnd(t) \/ RelStart(t)
                  \/ Mkdir(t) \/ Enter(t) \/ Undo(t) \/ Close(t)

Next == \E t \in Threads : System(t) \/ Environment(t)

Spec == Init /\ [][Next]_vars

\* the implementation makes progress, cleaners return, holders release
FairSpec == /\ Spec
            /\ \A t \in Threads : WF_vars(System(t)) /\ WF_vars(CleanEnd(t))

-----------------------------------------------------------------------------
(* Properties.                                                             *)

\* threads that hold an acquisition: from the critical section that granted
\* it to the critical section that gives it up
Holders(s)  == {t \in Threads : s.pc[t] \in {"aok", "using", "r0"}}
\* threads on whose behalf a cleaning is in progress (wakeup # nil)
Cleaners(s) == {t \in Threads : s.pc[t] \in {"ac0", "ac1", "ac2", "rc0", "rc1", "rc2"}}
\* the same two notions restricted to what is visible at the call boundary:
\* the Cleaner function is executing / the action is running
Running(s)  == {t \in Threads : s.pc[t] \in {"ac1", "rc1"}}
Using(s)    == {t \in Threads : s.pc[t] = "using"}

TypeOKP(s) ==
  /\ s.uc \in 0 .. Cardinality(Threads)
  /\ s.cl \in BOOLEAN
  /\ s.pc \in [Threads -> PCs]
  /\ s.sig \in [Threads -> BOOLEAN] /\ s.cxl \in [Threads -> BOOLEAN]
  /\ s.res \in [Threads -> {"ok", "fail"}]
  /\ s.d \in [Threads -> DirPhases]
  /\ s.ctr \in 0 .. MaxCtr

\* cleaning excludes running actions and other cleaning
MutexP(s) ==
  /\ Cardinality(Cleaners(s)) <= 1
  /\ Cleaners(s) # {} => Holders(s) = {}
  /\ s.cl <=> Cleaners(s) # {}
\* ... the part of it that is visible at the call boundary
ObsMutexP(s) ==
  /\ Cardinality(Running(s)) <= 1
  /\ Running(s) # {} => Using(s) = {}

\* the counter is the number of holders
UseCountP(s) == s.uc = Cardinality(Holders(s))

\* nobody is parked unless a cleaning is in progress or its wake-up was sent
NoLostWakeupP(s) ==
  \A t \in Threads : (s.pc[t] = "aw" /\ ~s.sig[t]) => s.cl

\* the cleaner runs exactly at the edges:
\*  - whoever becomes the first holder has just run the cleaner successfully,
\*  - whoever joins other holders did not clean,
\*  - whoever stops being the last holder starts a cleaning in the same step,
\*  - whoever leaves other holders behind does not clean,
\*  - a cleaning only starts when there are no holders, by a thread that is
\*    acquiring or that was the last holder.
EdgesP(s, n) ==
  LET H == Holders(s)  Hn == Holders(n)  C == Cleaners(s)  Cn == Cleaners(n) IN
  /\ \A t \in Hn \ H :
        IF H = {} THEN s.pc[t] = "ac2" /\ s.res[t] = "ok"
                  ELSE s.pc[t] \in {"a0", "aw"}
  /\ \A t \in H \ Hn :
        IF Hn = {} THEN n.pc[t] = "rc0" ELSE n.pc[t] = "rok"
  /\ \A t \in Cn \ C :
        /\ Hn = {}
        /\ \/ s.pc[t] \in {"a0", "aw"} /\ n.pc[t] = "ac0"
           \/ s.pc[t] = "r0" /\ n.pc[t] = "rc0"

\* an action does not start if the cleaning before it failed
NoStartAfterFailedCleanP(s, n) ==
  \A t \in Threads :
    (s.pc[t] = "ac2" /\ s.res[t] = "fail") => (n.pc[t] \in {"ac2", "aerr"} /\ t \notin Holders(n))

\* part 2 ------------------------------------------------------------------
LiveDirs(s) == {t \in Threads : s.d[t] \in {"enter", "undo", "live"}}

\* concurrently live directories have pairwise distinct names and exist
DirsDistinctP(s) ==
  /\ \A t, u \in LiveDirs(s) : t # u => s.nm[t] # s.nm[u]
  /\ \A t \in LiveDirs(s) : s.nm[t] \in s.root
\* nothing but live directories is in the root, except where a removal failed
NothingLeftP(s) == s.root \subseteq ({s.nm[t] : t \in LiveDirs(s)} \cup s.left)
\* directories exist only while their owner holds the invoker
DirsOnlyWhileHeldP(s) == LiveDirs(s) \subseteq Using(s)
\* after a successful cleaning, until somebody acquires, the root is empty
CleanRootP(s) ==
  \A t \in Threads : (s.pc[t] \in {"ac2", "rc2"} /\ s.res[t] = "ok") => s.root = {}

TypeOK                    == TypeOKP(st)
C12_Mutex                 == MutexP(st) /\ ObsMutexP(st)
C12_UseCount              == UseCountP(st)
C12_NoLostWakeup          == NoLostWakeupP(st)
C12_Edges                 == [][EdgesP(st, st')]_vars
C12_NoStartAfterFailedClean == [][NoStartAfterFailedCleanP(st, st')]_vars
C12_DirsDistinct          == DirsDistinctP(st)
C12_NothingLeft           == NothingLeftP(st)
C12_DirsOnlyWhileHeld     == DirsOnlyWhileHeldP(st)
C12_CleanRoot             == CleanRootP(st)

\* liveness (under FairSpec)
C12_WaitersSignalled ==
  \A t \in Threads : (st.pc[t] = "aw" /\ ~st.sig[t]) ~> (st.pc[t] # "aw" \/ st.sig[t])
C12_CleaningTerminates == st.cl ~> ~st.cl
C12_CallsReturn ==
  \A t \in Threads : (st.pc[t] \in {"ac0", "ac1", "ac2", "aok", "aerr", "acx"} \cup RelPCs)
                        ~> (st.pc[t] \in {"idle", "using"})
=============================================================================
