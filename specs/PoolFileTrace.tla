--------------------------- MODULE PoolFileTrace ---------------------------
(***************************************************************************)
(* Validates traces recorded from the real pool-backed file               *)
(* (harness/poolfile) against the C16 clauses of PoolFileOps.tla /        *)
(* PoolFile.tla.  Every line is consumed.  The model kept here is the      *)
(* observable one: directory entries (links), open descriptors by share    *)
(* mask, frozen readers, uploads in progress and the contents the          *)
(* instrumented pool file holds; `verdict` says whether the status codes,  *)
(* the number of Close() calls on the pool file, the bytes the CAS         *)
(* received and the reported digests are what C16 allows.                  *)
(*                                                                         *)
(* The driver starts one operation per step and logs `quiesce` when all    *)
(* goroutines have returned or are parked, so operations that do not park  *)
(* are atomic in the trace; parked ones (call without ret) take effect     *)
(* when their `ret` arrives.  Pool file events are emitted inside the real *)
(* code's critical sections and give the true order of content changes.    *)
(* An upload holds a reference from somewhere between its call and         *)
(* `put_begin` (the real code opens its frozen view after the wait for     *)
(* writers): while it is in that "pre" phase both outcomes are accepted.   *)
(***************************************************************************)
EXTENDS PoolFileOps, Json, TLC, TLCExt

TraceLog == ndJsonDeserialize("trace.ndjson")

Files == {"f1", "f2"}
Idx(f) == IF f = "f1" THEN 1 ELSE 2

VARIABLES l,        \* next line of TraceLog
          verdict,  \* "ok" or why the last consumed line is not allowed
          nonconf,  \* lines where raw counters differ from the model (no verdict)
          links,    \* [Files -> Int] directory entries
          descr,    \* [Files -> bag of open descriptors]
          readers,  \* [Files -> Int] open frozen readers (ApplyOpenReadFrozen)
          content,  \* [Files -> Seq(Int)] what the pool file holds
          pend,     \* id -> call record of operations that have not returned
          upl,      \* id -> progress of pending uploads / frozen opens
          expired,  \* the maximum writable-file upload delay has fired
          made,     \* [Files -> BOOLEAN] the file has been created
          snap,     \* per file, at the last quiescent point: closes and references
          want,     \* [Files -> Seq(Int)] the contents the CALLERS gave the file (create size,
                    \* writes, truncations, allocations, O_TRUNC), accumulated from the
                    \* arguments of the calls - not from what the pool file was told
          views,    \* fopen id -> set of contents the frozen reader may be a view of (the
                    \* contents the file had while it was being opened), narrowed by every
                    \* frozen read: one reader always shows one and the same contents
          amb       \* [Files -> record] calls that change the contents overlapped (parked
                    \* behind a frozen view and resumed together): their order is not known;
                    \* the group is judged when its last member returns (any order allowed)

tvars == <<l, verdict, nonconf, links, descr, readers, content, pend, upl, expired, made, snap, want, amb, views>>

Line == TraceLog[l]
IsEvent(e) == l <= Len(TraceLog) /\ Line.ev = e /\ l' = l + 1

Cl(f) == Line.cl[Idx(f)]       \* Close() calls on f's pool file so far

FnPut(fn, k, v) == (k :> v) @@ fn
FnDel(fn, k) == [x \in (DOMAIN fn) \ {k} |-> fn[x]]
EmptyFn == [x \in {} |-> 0]

\* first non-empty reason, or "ok"
Pick(rs) ==
  IF \A i \in 1 .. Len(rs) : rs[i] = "" THEN "ok"
  ELSE rs[CHOOSE i \in 1 .. Len(rs) : rs[i] # "" /\ \A j \in 1 .. (i - 1) : rs[j] = ""]

-----------------------------------------------------------------------------
(* References.                                                             *)

InPhase(up, f, ph) == {i \in DOMAIN up : up[i].f = f /\ up[i].phase = ph}
FrozenNow(rd, up, f) == rd[f] + Cardinality(InPhase(up, f, "put"))

\* things that certainly keep f alive / that may keep it alive
RefsDefinite(f, lk, ds, rd, up) ==
  lk[f] > 0 \/ DescrOpen(ds[f]) > 0 \/ FrozenNow(rd, up, f) > 0
RefsPossible(f, lk, ds, rd, up) ==
  RefsDefinite(f, lk, ds, rd, up) \/ InPhase(up, f, "pre") # {}

\* C16_CloseOnce on an observation: c = Close() calls on the pool file.
CloseReason(f, c, lk, ds, rd, up) ==
  IF c > 1 THEN "C16:backing-file-closed-twice"
  ELSE IF RefsDefinite(f, lk, ds, rd, up)
       THEN IF CloseOnceOK(c, TRUE) THEN "" ELSE "C16:backing-file-closed-while-referenced"
  ELSE IF RefsPossible(f, lk, ds, rd, up) THEN ""
  ELSE IF CloseOnceOK(c, FALSE) THEN "" ELSE "C16:backing-file-not-closed-when-last-reference-dropped"

CloseCheck(md, lk, ds, rd, up) ==
  LET r1 == IF md["f1"] THEN CloseReason("f1", Cl("f1"), lk, ds, rd, up) ELSE ""
      r2 == IF md["f2"] THEN CloseReason("f2", Cl("f2"), lk, ds, rd, up) ELSE ""
  IN IF r1 # "" THEN r1 ELSE r2

Writers(f) == DescrWriters(descr[f])
\* writable descriptors, not counting those whose Close has been called
WritersMin(f) ==
  Writers(f) - Cardinality({i \in DOMAIN pend : pend[i].op = "close" /\ pend[i].f = f /\ HasW(pend[i].mask)})

Mutators == {"write", "setsize", "allocate"}

NewUpl(f, kind) ==
  [f |-> f, kind |-> kind, phase |-> "pre", seen |-> {content[f]}, hash |-> "", dsize |-> 0,
   got |-> <<>>, cashash |-> "", fail |-> FALSE, putdone |-> FALSE]

SnapOf(md, lk, ds, rd, up) ==
  [f \in Files |-> [closed |-> Cl(f),
                    definite |-> ~md[f] \/ RefsDefinite(f, lk, ds, rd, up),
                    possible |-> ~md[f] \/ RefsPossible(f, lk, ds, rd, up)]]

-----------------------------------------------------------------------------
(* The contents a file must have, from the callers' point of view.  The    *)
(* pool file below the real code only says what the real code did to it;   *)
(* what a file "keeps" is what was put into it through the calls.          *)

Zeros(n) == [i \in 1 .. n |-> 0]
Resize(w, n) == [i \in 1 .. n |-> IF i <= Len(w) THEN w[i] ELSE 0]
Overlay(w, off, d) ==
  IF d = <<>> THEN w
  ELSE [i \in 1 .. (IF Len(w) > off + Len(d) THEN Len(w) ELSE off + Len(d)) |->
          IF i > off /\ i <= off + Len(d) THEN d[i - off]
          ELSE IF i <= Len(w) THEN w[i] ELSE 0]

\* calls that change contents
IsMut(c) == c.op \in {"write", "setsize", "allocate"} \/ (c.op = "open" /\ c.trunc)
PendingMut(pd, f) == {i \in DOMAIN pd : pd[i].f = f /\ IsMut(pd[i])}

\* the contents after call c (arguments) returned OK with reply r, from w.
\* A set: an allocation of zero bytes beyond the end may or may not grow
\* the file (the statement does not say).
AfterMut(c, r, w) ==
  IF c.op = "write" THEN {Overlay(w, c.off, SubSeq(c.data, 1, Min(r.n, Len(c.data))))}
  ELSE IF c.op = "setsize" THEN {Resize(w, c.n)}
  ELSE IF c.op = "allocate"
       THEN (IF Len(w) < c.off + c.n THEN {Resize(w, c.off + c.n)} ELSE {w})
            \cup (IF c.n = 0 THEN {w} ELSE {})
  ELSE {<<>>}        \* open with O_TRUNC

\* Overlapping content-changing calls: [on, ops (those that returned OK, as
\* [c, r]), bad (one failed half-way: the group is not judged)].
NoGroup == [on |-> FALSE, ops |-> <<>>, bad |-> FALSE]
MaxGroup == 4
\* every contents that applying all of ops, in some order, can give
RECURSIVE PermRes(_, _, _)
PermRes(ops, W, S) ==
  IF S = {} THEN W
  ELSE UNION {PermRes(ops, UNION {AfterMut(ops[i].c, ops[i].r, w) : w \in W}, S \ {i}) : i \in S}

\* Contents of f at a point where no content-changing call on f is in
\* progress: what the pool file holds is what the callers put there.
ContentReason(md, pd, wt, am) ==
  IF \E f \in Files : /\ md[f] /\ Cl(f) = 0 /\ ~am[f].on /\ PendingMut(pd, f) = {}
                       /\ content[f] # wt[f]
  THEN "C16:file-contents-differ-from-what-was-written" ELSE ""

InitVals ==
  /\ want = [f \in Files |-> <<>>]
  /\ views = EmptyFn
  /\ amb = [f \in Files |-> NoGroup]
  /\ links = [f \in Files |-> 0]
  /\ descr = [f \in Files |-> NoDescr]
  /\ readers = [f \in Files |-> 0]
  /\ content = [f \in Files |-> <<>>]
  /\ pend = EmptyFn
  /\ upl = EmptyFn
  /\ expired = FALSE
  /\ made = [f \in Files |-> FALSE]
  /\ snap = [f \in Files |-> [closed |-> 0, definite |-> TRUE, possible |-> TRUE]]

TInit == InitVals /\ l = 1 /\ verdict = "ok" /\ nonconf = 0

TReset ==
  /\ IsEvent("reset")
  /\ links' = [f \in Files |-> 0]
  /\ descr' = [f \in Files |-> NoDescr]
  /\ readers' = [f \in Files |-> 0]
  /\ content' = [f \in Files |-> <<>>]
  /\ pend' = EmptyFn
  /\ upl' = EmptyFn
  /\ expired' = FALSE
  /\ made' = [f \in Files |-> FALSE]
  /\ snap' = [f \in Files |-> [closed |-> 0, definite |-> TRUE, possible |-> TRUE]]
  /\ want' = [f \in Files |-> <<>>]
  /\ views' = EmptyFn
  /\ amb' = [f \in Files |-> NoGroup]
  /\ verdict' = "ok"
  /\ UNCHANGED nonconf

-----------------------------------------------------------------------------
TCall ==
  /\ IsEvent("call")
  /\ pend' = FnPut(pend, Line.id, Line)
  /\ upl' = IF Line.op \in {"upload", "fopen"} THEN FnPut(upl, Line.id, NewUpl(Line.f, Line.op)) ELSE upl
  /\ verdict' = "ok"
  /\ UNCHANGED <<nonconf, links, descr, readers, content, expired, made, snap, want, amb, views>>

\* Status rules shared by the calls that can meet a released file.
\*   ok on a released file                     -> violation
\*   "gone" although something references it   -> violation
StaleReason(name, f, st, live) ==
  IF st = "OK" /\ ~StaleOK(Cl(f) >= 1, st) THEN "C16:" \o name \o "-succeeded-on-released-file"
  ELSE IF st \in StaleReplies /\ live THEN "C16:live-file-reported-stale"
  ELSE ""

TRet ==
  /\ IsEvent("ret")
  /\ IF Line.id \notin DOMAIN pend
     THEN /\ verdict' = "NC:return-without-call"
          /\ UNCHANGED <<links, descr, readers, pend, upl, made, want, amb, views>>
     ELSE
       LET c == pend[Line.id]
           f == c.f
           op == c.op
           st == Line.st
           \* "gone" is certainly wrong while a directory entry or a descriptor
           \* exists (a file held only by a frozen reader may be refused)
           live == links[f] > 0 \/ DescrOpen(descr[f]) > 0
           lk2 == IF op = "create" THEN [links EXCEPT ![f] = 1]
                  ELSE IF op = "link" /\ st = "OK" THEN [links EXCEPT ![f] = @ + 1]
                  ELSE IF op = "unlink" THEN [links EXCEPT ![f] = @ - 1]
                  ELSE links
           ds2 == IF op \in {"create", "open"} /\ st = "OK" THEN [descr EXCEPT ![f] = DescrAdd(@, c.mask)]
                  ELSE IF op = "close" THEN [descr EXCEPT ![f] = DescrDel(@, c.mask)]
                  ELSE descr
           rd2 == IF op = "fopen" /\ st = "OK" THEN [readers EXCEPT ![f] = @ + 1]
                  ELSE IF op = "fclose" THEN [readers EXCEPT ![f] = @ - 1]
                  ELSE readers
           up2 == IF Line.id \in DOMAIN upl THEN FnDel(upl, Line.id) ELSE upl
           md2 == IF op = "create" /\ st = "OK" THEN [made EXCEPT ![f] = TRUE] ELSE made
           pd2 == FnDel(pend, Line.id)
           \* what a frozen reader shows: fixed when it was opened
           vcands == IF op = "fread" /\ c.ref \in DOMAIN views
                     THEN {x \in views[c.ref] : Slice(x, c.off, c.n) = Line.data} ELSE {}
           vw2 == IF op = "fopen" /\ st = "OK" THEN FnPut(views, Line.id, upl[Line.id].seen \cup {content[f]})
                  ELSE IF op = "fread" /\ st = "OK" /\ c.ref \in DOMAIN views /\ vcands # {}
                       THEN [views EXCEPT ![c.ref] = vcands]
                  ELSE IF op = "fclose" /\ c.ref \in DOMAIN views THEN FnDel(views, c.ref)
                  ELSE views
           \* the callers' view of the contents
           others == PendingMut(pd2, f)
           gops == IF st = "OK" THEN Append(amb[f].ops, [c |-> c, r |-> Line]) ELSE amb[f].ops
           gbad == amb[f].bad \/ st \notin ({"OK"} \cup StaleReplies)
           exp == IF amb[f].on THEN PermRes(gops, {want[f]}, 1 .. Len(gops))    \* last of an overlapping group
                  ELSE AfterMut(c, Line, want[f])
           wt2 == IF op = "create" THEN [want EXCEPT ![f] = Zeros(c.n)]
                  ELSE IF ~IsMut(c) \/ others # {} THEN want
                  ELSE IF (amb[f].on /\ (gbad \/ Len(gops) > MaxGroup)) THEN [want EXCEPT ![f] = content[f]]   \* not judged
                  ELSE IF st = "OK" \/ amb[f].on
                       THEN [want EXCEPT ![f] = IF content[f] \in exp THEN content[f] ELSE CHOOSE x \in exp : TRUE]
                  ELSE IF st \in StaleReplies THEN want
                  ELSE [want EXCEPT ![f] = content[f]]                      \* failed half-way (I/O error): not judged
           am2 == IF op = "create" THEN [amb EXCEPT ![f] = NoGroup]
                  ELSE IF ~IsMut(c) THEN amb
                  ELSE IF others # {} THEN [amb EXCEPT ![f] = [on |-> TRUE, ops |-> gops, bad |-> gbad]]
                  ELSE [amb EXCEPT ![f] = NoGroup]
           u == upl[Line.id]      \* only evaluated for upload / fopen
           reason ==
             CASE op = "create" -> IF st = "OK" THEN "" ELSE "NC:create-failed"
               [] op = "open" -> StaleReason("open", f, st, live)
               [] op = "close" -> IF DescrHas(descr[f], c.mask) THEN "" ELSE "NC:close-of-unopened-mask"
               [] op = "link" ->
                    IF st = "OK" /\ Cl(f) >= 1 THEN "C16:link-succeeded-on-released-file"
                    ELSE IF st \in StaleReplies /\ links[f] > 0 THEN "C16:live-file-reported-stale"
                    ELSE ""
               [] op = "unlink" -> IF links[f] > 0 THEN "" ELSE "NC:unlink-without-link"
               [] op \in Mutators ->
                    IF st = "OK" /\ Cl(f) >= 1 THEN "C16:data-op-succeeded-on-released-file"
                    ELSE IF st \in StaleReplies /\ live THEN "C16:live-file-reported-stale"
                    ELSE ""
               [] op = "read" ->
                    IF st = "OK" /\ Line.data # Slice(content[f], c.off, c.n)
                    THEN "C16:read-returned-wrong-contents" ELSE ""
               [] op = "getattr" ->
                    IF Line.links # links[f] THEN "C16:link-count-wrong"
                    ELSE IF Line.size # Len(content[f]) THEN "C16:size-attribute-differs-from-contents"
                    ELSE ""
               [] op = "upload" ->
                    IF st = "OK" THEN
                      IF Cl(f) >= 1 /\ u.phase = "pre" THEN "C16:upload-succeeded-on-released-file"
                      ELSE IF ~u.putdone \/ u.fail THEN "C16:digest-reported-without-bytes-in-cas"
                      ELSE IF ~Line.dfok THEN "C16:digest-of-another-digest-function-reported"
                      ELSE IF ~(Line.hash = u.cashash /\ Line.dsize = Len(u.got) /\ Line.hash = u.hash)
                           THEN "C16:reported-digest-differs-from-cas-bytes"
                      ELSE ""
                    ELSE IF st \in StaleReplies /\ (live \/ u.phase # "pre") THEN "C16:live-file-reported-stale"
                    ELSE ""
               [] op = "fopen" ->
                    IF st = "OK" /\ UploadMayWait(WritersMin(f), expired)
                    THEN "C16:upload-did-not-wait-for-writers"
                    ELSE StaleReason("frozen-open", f, st, live)
               [] op = "fread" ->
                    IF st = "OK" /\ c.ref \in DOMAIN views /\ vcands = {}
                    THEN "C16:frozen-view-changed-while-open"
                    ELSE IF st = "OK" /\ Line.data # Slice(content[f], c.off, c.n)
                    THEN "C16:frozen-read-returned-wrong-contents" ELSE ""
               [] op = "fclose" -> IF readers[f] > 0 THEN "" ELSE "NC:fclose-without-reader"
               [] op = "stat" ->
                    IF st = "OK" /\ Line.hasdigest /\ ~Line.dfok
                    THEN "C16:digest-of-another-digest-function-reported"
                    ELSE IF st = "OK" /\ Line.hasdigest
                       /\ ~(Line.known /\ Line.pre = content[f] /\ Line.dsize = Len(content[f]))
                    THEN "C16:stale-digest-reported"
                    ELSE StaleReason("stat", f, st, live)
               [] OTHER -> ""
       IN /\ links' = lk2 /\ descr' = ds2 /\ readers' = rd2 /\ upl' = up2 /\ made' = md2
          /\ pend' = pd2 /\ want' = wt2 /\ amb' = am2 /\ views' = vw2
          /\ verdict' = Pick(<<reason, CloseCheck(md2, lk2, ds2, rd2, up2), ContentReason(md2, pd2, wt2, am2)>>)
  /\ UNCHANGED <<nonconf, content, expired, snap>>

-----------------------------------------------------------------------------
(* The fake CAS.                                                           *)

TPutBegin ==
  /\ IsEvent("put_begin")
  /\ IF Line.id \notin DOMAIN upl
     THEN verdict' = "NC:put-without-upload" /\ UNCHANGED upl
     ELSE LET u == upl[Line.id] IN
          /\ upl' = [upl EXCEPT ![Line.id].phase = "put", ![Line.id].hash = Line.hash, ![Line.id].dsize = Line.dsize]
          /\ verdict' =
               IF Cl(u.f) >= 1 THEN "C16:upload-proceeded-on-released-file"
               ELSE IF UploadMayWait(WritersMin(u.f), expired) THEN "C16:upload-did-not-wait-for-writers"
               ELSE "ok"
  /\ UNCHANGED <<nonconf, links, descr, readers, content, pend, expired, made, snap, want, amb, views>>

TPutHalf ==
  /\ IsEvent("put_half")
  /\ verdict' = "ok"
  /\ UNCHANGED <<nonconf, links, descr, readers, content, pend, upl, expired, made, snap, want, amb, views>>

TPutEnd ==
  /\ IsEvent("put_end")
  /\ IF Line.id \notin DOMAIN upl
     THEN verdict' = "NC:put-without-upload" /\ UNCHANGED upl
     ELSE LET u == upl[Line.id] IN
          /\ upl' = [upl EXCEPT ![Line.id].got = Line.data, ![Line.id].cashash = Line.cashash,
                                ![Line.id].fail = Line.fail, ![Line.id].putdone = TRUE]
          /\ verdict' =
               IF Line.fail THEN "ok"
               ELSE IF Line.data \notin u.seen THEN "C16:cas-bytes-never-were-file-contents"
               ELSE IF ~(u.hash = Line.cashash /\ u.dsize = Len(Line.data)) THEN "C16:put-digest-differs-from-cas-bytes"
               ELSE "ok"
  /\ UNCHANGED <<nonconf, links, descr, readers, content, pend, expired, made, snap, want, amb, views>>

TPutClosed ==
  /\ IsEvent("put_closed")
  /\ IF Line.id \notin DOMAIN upl
     THEN verdict' = "NC:put-without-upload" /\ UNCHANGED upl
     ELSE LET up2 == [upl EXCEPT ![Line.id].phase = "closed"] IN
          /\ upl' = up2
          /\ verdict' = Pick(<<CloseCheck(made, links, descr, readers, up2)>>)
  /\ UNCHANGED <<nonconf, links, descr, readers, content, pend, expired, made, snap, want, amb, views>>

-----------------------------------------------------------------------------
(* The instrumented pool file.                                             *)

TPoolData ==
  /\ l <= Len(TraceLog) /\ Line.ev \in {"pool_new", "pool_write", "pool_trunc"} /\ l' = l + 1
  /\ content' = [content EXCEPT ![Line.f] = Line.after]
  /\ upl' = [i \in DOMAIN upl |->
               IF upl[i].f = Line.f /\ upl[i].phase \in {"pre", "put"}
               THEN [upl[i] EXCEPT !.seen = @ \cup {Line.after}] ELSE upl[i]]
  /\ verdict' = "ok"
  /\ UNCHANGED <<nonconf, links, descr, readers, pend, expired, made, snap, want, amb, views>>

TPoolClose ==
  /\ IsEvent("pool_close")
  /\ verdict' = IF Cl(Line.f) > 1 THEN "C16:backing-file-closed-twice" ELSE "ok"
  /\ UNCHANGED <<nonconf, links, descr, readers, content, pend, upl, expired, made, snap, want, amb, views>>

TPoolUseAfterClose ==
  /\ IsEvent("pool_uac")
  /\ verdict' = "C16:released-storage-touched"
  /\ UNCHANGED <<nonconf, links, descr, readers, content, pend, upl, expired, made, snap, want, amb, views>>

-----------------------------------------------------------------------------
(* Harness events.                                                         *)

TDelayFire ==
  /\ IsEvent("delay_fire")
  /\ expired' = TRUE
  /\ verdict' = "ok"
  /\ UNCHANGED <<nonconf, links, descr, readers, content, pend, upl, made, snap, want, amb, views>>

TNote ==
  /\ l <= Len(TraceLog) /\ Line.ev \in {"release", "fault", "end"} /\ l' = l + 1
  /\ verdict' = "ok"
  /\ UNCHANGED <<nonconf, links, descr, readers, content, pend, upl, expired, made, snap, want, amb, views>>

DataOps == Mutators \cup {"read"}

\* The real code panicked inside a call.
TPanic ==
  /\ IsEvent("panic")
  /\ verdict' = IF Line.op \in DataOps /\ Cl(Line.f) >= 1
                THEN "C16:data-op-on-dead-file-panicked"
                ELSE "C16:real-code-panicked"
  /\ pend' = IF Line.id \in DOMAIN pend THEN FnDel(pend, Line.id) ELSE pend
  /\ upl' = IF Line.id \in DOMAIN upl THEN FnDel(upl, Line.id) ELSE upl
  /\ UNCHANGED <<nonconf, links, descr, readers, content, expired, made, snap, want, amb, views>>

\* After the driver gave up every reference, expired the delay and opened
\* every gate, this call still has not returned.
TStuck ==
  /\ IsEvent("stuck")
  /\ verdict' = IF Line.op \in {"upload", "fopen"} THEN "C16:upload-never-completed"
                ELSE IF Line.op \in Mutators \cup {"open"} THEN "C16:writer-never-resumed"
                ELSE "NC:operation-stuck"
  /\ UNCHANGED <<nonconf, links, descr, readers, content, pend, upl, expired, made, snap, want, amb, views>>

\* The driver's watchdog: a step never became quiescent (a call spins or
\* blocks on a lock inside the real code) and the run was abandoned.  If a
\* call is pending whose wait should be over, the hang is that wait.
THang ==
  /\ IsEvent("hang")
  /\ verdict' =
       IF \E i \in DOMAIN pend :
            /\ pend[i].op \in {"upload", "fopen"} /\ i \in DOMAIN upl /\ upl[i].phase = "pre"
            /\ ~UploadMayWait(Writers(pend[i].f), expired)
       THEN "C16:upload-wait-not-bounded"
       ELSE IF \E i \in DOMAIN pend :
            /\ (pend[i].op \in Mutators \/ (pend[i].op = "open" /\ pend[i].trunc))
            /\ ~WriterMayWait(FrozenNow(readers, upl, pend[i].f))
       THEN "C16:writer-never-resumed"
       ELSE "NC:step-did-not-become-quiescent"
  /\ UNCHANGED <<nonconf, links, descr, readers, content, pend, upl, expired, made, snap, want, amb, views>>

\* Is a call that is parked at a quiescent point allowed to be parked?
BlockReason(p) ==
  IF p.id \notin DOMAIN pend THEN "NC:unknown-pending-operation"
  ELSE IF p.gate THEN ""            \* blocked by the fake CAS' own gate
  ELSE LET c == pend[p.id] IN
    IF c.op \in {"upload", "fopen"} THEN
      IF p.id \in DOMAIN upl /\ upl[p.id].phase = "pre" /\ UploadMayWait(Writers(c.f), expired)
      THEN "" ELSE "C16:upload-blocked-without-writers-or-after-delay"
    ELSE IF c.op \in Mutators \/ (c.op = "open" /\ c.trunc) THEN
      IF WriterMayWait(FrozenNow(readers, upl, c.f)) THEN ""
      ELSE "C16:writer-blocked-although-nothing-is-frozen"
    ELSE "NC:unexpected-blocked-operation"

HookDiffers(h) ==
  LET f == h.f
      fr == FrozenNow(readers, upl, f)
  IN h.found /\ ~h.locked /\ InPhase(upl, f, "pre") = {} /\
     ~( /\ RefsOK(h.refs, links[f], DescrRefs(descr[f]), fr)
        /\ h.writers = Writers(f) /\ h.frozen = fr
        /\ h.size = Len(content[f])
        /\ h.released = (Cl(f) >= 1) )

TQuiesce ==
  /\ IsEvent("quiesce")
  /\ LET ps == Line.pending
         hs == Line.hook
         blocked == [i \in 1 .. Len(ps) |-> BlockReason(ps[i])]
         linkbad == \E i \in 1 .. Len(hs) : hs[i].found /\ ~hs[i].locked /\ hs[i].links # links[hs[i].f]
     IN /\ verdict' = Pick(<<CloseCheck(made, links, descr, readers, upl)>> \o blocked
                           \o <<IF linkbad THEN "C16:link-count-wrong" ELSE "",
                                 ContentReason(made, pend, want, amb)>>)
        /\ nonconf' = IF (\E i \in 1 .. Len(hs) : HookDiffers(hs[i]))
                         \/ {ps[i].id : i \in 1 .. Len(ps)} # DOMAIN pend
                      THEN nonconf + 1 ELSE nonconf
  /\ snap' = SnapOf(made, links, descr, readers, upl)
  /\ UNCHANGED <<links, descr, readers, content, pend, upl, expired, made, want, amb, views>>

TNext == TReset \/ TCall \/ TRet \/ TPutBegin \/ TPutHalf \/ TPutEnd \/ TPutClosed
         \/ TPoolData \/ TPoolClose \/ TPoolUseAfterClose
         \/ TDelayFire \/ TNote \/ TPanic \/ TStuck \/ THang \/ TQuiesce

TraceSpec == TInit /\ [][TNext]_tvars

-----------------------------------------------------------------------------
VerdictOK == verdict = "ok"

\* C16_CloseOnce on every quiescent observation of the real code.
C16_CloseOnce ==
  \A f \in Files :
    /\ snap[f].definite => CloseOnceOK(snap[f].closed, TRUE)
    /\ ~snap[f].possible => CloseOnceOK(snap[f].closed, FALSE)

Accepted ==
  /\ TLCGet("stats").diameter - 1 = Len(TraceLog)
  /\ PrintT(<<"TRACE_ACCEPTED", Len(TraceLog)>>)

NonconfReport == (l <= Len(TraceLog)) \/ PrintT(<<"NONCONF", nonconf>>)
=============================================================================
