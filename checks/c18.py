"""C18 — NFSv4 open and lock state accounting (temporary wrapper: NFSv4.1 part only;
the maintainer combines it with the NFSv4.0 server)."""
from lib import vlib
from checks import nfs41


def run(ctx):
    rule = nfs41.run_parts(ctx)
    return vlib.finish(ctx, rule=rule, explanation="reference-model conformance of the NFSv4.1 server", exhaustive=True)


def replay(ctx, path):
    return nfs41.replay(ctx, path)
