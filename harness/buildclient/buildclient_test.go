// Package buildclient drives the real builder.BuildClient (property C08)
// with a scripted scheduler, an instrumented executor and a fake clock
// inside testing/synctest, and records NDJSON traces that
// specs/BuildClientTrace.tla validates.
//
// Nothing is judged here: the drivers choose the environment's moves
// (scheduler replies, executor progress, readiness results, clock,
// shutdown instant), log what the real code did and leave the verdict
// to TLC.
package buildclient

import (
	"bufio"
	"context"
	"encoding/json"
	"fmt"
	"io"
	"log"
	"math/rand"
	"os"
	"path/filepath"
	"sort"
	"strings"
	"sync"
	"testing"
	"testing/synctest"
	"time"

	remoteexecution "github.com/bazelbuild/remote-apis/build/bazel/remote/execution/v2"
	"github.com/buildbarn/bb-remote-execution/pkg/builder"
	"github.com/buildbarn/bb-remote-execution/pkg/filesystem/access"
	"github.com/buildbarn/bb-remote-execution/pkg/filesystem/pool"
	"github.com/buildbarn/bb-remote-execution/pkg/proto/remoteworker"
	"github.com/buildbarn/bb-storage/pkg/clock"
	"github.com/buildbarn/bb-storage/pkg/digest"
	"github.com/buildbarn/bb-storage/pkg/program"

	"google.golang.org/grpc"
	"google.golang.org/grpc/codes"
	"google.golang.org/grpc/status"
	"google.golang.org/protobuf/types/known/emptypb"
	"google.golang.org/protobuf/types/known/timestamppb"

	"verif/harness/common"
)

// The harness clock counts whole seconds since this instant; the trace
// contains the count only (TLC integers are 32 bit).
const epoch = 1700000000

const maxUpdates = 3 // progress updates an executor sends at most

var digests = []string{"d1", "d2"}

// ---------------------------------------------------------------------------
// The world: shared state of the fakes, protected by mu.

type world struct {
	tr *common.Trace
	mu sync.Mutex

	now int64 // seconds since epoch

	// Where the worker thread is parked: "", "ready", "sync", "wait".
	wGate   string
	readyCh chan error
	syncCh  chan syncAnswer
	syncCtx context.Context
	timer   *fakeTimer

	execs  []*execState
	active int

	shutdown bool
	cancel   context.CancelFunc
	done     chan struct{}
	gates    int // gate visits, to detect a loop that never parks
	forced   int // epilogue: Synchronize calls that could only fail
}

type syncAnswer struct {
	resp *remoteworker.SynchronizeResponse
	err  error
}

func (w *world) emit(ev common.Ev) { w.tr.Emit(ev) }

// --- clock -----------------------------------------------------------------

type fakeClock struct{ w *world }

type fakeTimer struct {
	w        *world
	ch       chan time.Time
	deadline time.Duration // since epoch
	stopped  bool
	fired    bool
}

func (c fakeClock) Now() time.Time {
	c.w.mu.Lock()
	defer c.w.mu.Unlock()
	return time.Unix(epoch+c.w.now, 0)
}

func (c fakeClock) NewContextWithTimeout(parent context.Context, timeout time.Duration) (context.Context, context.CancelFunc) {
	panic("fakeClock.NewContextWithTimeout: not used by BuildClient")
}

func (c fakeClock) NewTicker(d time.Duration) (clock.Ticker, <-chan time.Time) {
	panic("fakeClock.NewTicker: not used by BuildClient")
}

func (c fakeClock) NewTimer(d time.Duration) (clock.Timer, <-chan time.Time) {
	w := c.w
	w.mu.Lock()
	defer w.mu.Unlock()
	t := &fakeTimer{w: w, ch: make(chan time.Time, 1), deadline: time.Duration(w.now)*time.Second + d}
	w.timer = t
	w.wGate = "wait"
	w.gates++
	w.emit(common.Ev{"ev": "timer_new", "d": int64(d / time.Second), "clock": w.now})
	return t, t.ch
}

func (t *fakeTimer) Stop() bool {
	t.w.mu.Lock()
	defer t.w.mu.Unlock()
	was := !t.stopped && !t.fired
	t.stopped = true
	return was
}

// --- scheduler ---------------------------------------------------------------

type fakeScheduler struct{ w *world }

func phaseOf(e *remoteworker.CurrentState_Executing) int {
	switch e.ExecutionState.(type) {
	case *remoteworker.CurrentState_Executing_Started:
		return 0
	case *remoteworker.CurrentState_Executing_FetchingInputs:
		return 1
	case *remoteworker.CurrentState_Executing_Running:
		return 2
	case *remoteworker.CurrentState_Executing_UploadingOutputs:
		return 3
	}
	return 99
}

func phaseState(d *remoteexecution.Digest, phase int) *remoteworker.CurrentState_Executing {
	e := &remoteworker.CurrentState_Executing{ActionDigest: d}
	switch phase {
	case 1:
		e.ExecutionState = &remoteworker.CurrentState_Executing_FetchingInputs{FetchingInputs: &emptypb.Empty{}}
	case 2:
		e.ExecutionState = &remoteworker.CurrentState_Executing_Running{Running: &emptypb.Empty{}}
	default:
		e.ExecutionState = &remoteworker.CurrentState_Executing_UploadingOutputs{UploadingOutputs: &emptypb.Empty{}}
	}
	return e
}

// describe projects a request onto the fields the specification reads.
func describe(in *remoteworker.SynchronizeRequest) common.Ev {
	ev := common.Ev{"ev": "sync_req", "kind": "other", "d": "", "phase": 0, "rid": 0, "ok": true,
		"prefer": in.GetPreferBeingIdle()}
	if in.GetCurrentState() == nil {
		return ev
	}
	switch s := in.CurrentState.WorkerState.(type) {
	case *remoteworker.CurrentState_Idle:
		ev["kind"] = "idle"
	case *remoteworker.CurrentState_Executing_:
		ev["d"] = s.Executing.GetActionDigest().GetHash()
		if c, ok := s.Executing.ExecutionState.(*remoteworker.CurrentState_Executing_Completed); ok {
			ev["kind"] = "completed"
			rid := 0
			fmt.Sscanf(c.Completed.GetMessage(), "exec-%d", &rid)
			ev["rid"] = rid
			ev["ok"] = status.ErrorProto(c.Completed.GetStatus()) == nil
		} else {
			ev["kind"] = "executing"
			ev["phase"] = phaseOf(s.Executing)
		}
	}
	return ev
}

func (s fakeScheduler) Synchronize(ctx context.Context, in *remoteworker.SynchronizeRequest, opts ...grpc.CallOption) (*remoteworker.SynchronizeResponse, error) {
	w := s.w
	w.mu.Lock()
	ev := describe(in)
	ev["ctx_cancelled"] = ctx.Err() != nil
	ev["shutdown"] = w.shutdown
	ev["clock"] = w.now
	w.emit(ev)
	w.wGate = "sync"
	w.gates++
	w.syncCtx = ctx
	w.mu.Unlock()
	a := <-w.syncCh
	return a.resp, a.err
}

// --- executor ----------------------------------------------------------------

type execCmd struct {
	kind string // "update", "cancelcheck", "finish"
	ok   bool
}

type execState struct {
	id    int
	d     string
	ctx   context.Context
	gate  chan execCmd
	alive bool // between entry and return of Execute
	sent  int
}

type fakeExecutor struct{ w *world }

func (e fakeExecutor) CheckReadiness(ctx context.Context) error {
	w := e.w
	w.mu.Lock()
	w.wGate = "ready"
	w.gates++
	w.mu.Unlock()
	return <-w.readyCh
}

func (e fakeExecutor) Execute(ctx context.Context, filePool pool.FilePool, monitor access.UnreadDirectoryMonitor, digestFunction digest.Function, request *remoteworker.DesiredState_Executing, updates chan<- *remoteworker.CurrentState_Executing) *remoteexecution.ExecuteResponse {
	w := e.w
	w.mu.Lock()
	x := &execState{id: len(w.execs) + 1, d: request.GetActionDigest().GetHash(), ctx: ctx, gate: make(chan execCmd), alive: true}
	w.execs = append(w.execs, x)
	w.active++
	w.emit(common.Ev{"ev": "exec_enter", "id": x.id, "d": x.d, "active": w.active, "cancelled": ctx.Err() != nil})
	w.mu.Unlock()
	for {
		cmd := <-x.gate
		switch cmd.kind {
		case "update":
			// Logged before the send: the worker may report the
			// update as soon as it is in the channel.
			w.mu.Lock()
			x.sent++
			phase := x.sent
			w.emit(common.Ev{"ev": "exec_update", "id": x.id, "phase": phase, "cancelled": ctx.Err() != nil})
			w.mu.Unlock()
			updates <- phaseState(request.ActionDigest, phase)
		case "cancelcheck":
			seen := false
			select {
			case <-ctx.Done():
				seen = true
			default:
			}
			w.mu.Lock()
			w.emit(common.Ev{"ev": "exec_cancel", "id": x.id, "cancelled": seen})
			w.mu.Unlock()
		case "finish":
			resp := &remoteexecution.ExecuteResponse{
				Result:  &remoteexecution.ActionResult{},
				Message: fmt.Sprintf("exec-%d", x.id),
			}
			if !cmd.ok {
				resp.Status = status.New(codes.Internal, "executor failed").Proto()
			}
			// Logged just before returning, for the same reason.
			w.mu.Lock()
			x.alive = false
			w.active--
			w.emit(common.Ev{"ev": "exec_exit", "id": x.id, "ok": cmd.ok, "active": w.active, "cancelled": ctx.Err() != nil})
			w.mu.Unlock()
			return resp
		}
	}
}

// ---------------------------------------------------------------------------
// Environment moves.

type move struct {
	kind  string // tick shutdown ready_ok ready_fail timer_fire reply exec_update exec_cancelcheck exec_finish sleep
	n     int64  // tick: seconds; reply: delta seconds
	rkind string // reply kind
	d     string // reply digest
	id    int    // executor
	ok    bool   // exec_finish
}

func (w *world) aliveExecs() []*execState {
	var out []*execState
	for _, x := range w.execs {
		if x.alive {
			out = append(out, x)
		}
	}
	return out
}

func (w *world) isDone() bool {
	select {
	case <-w.done:
		return true
	default:
		return false
	}
}

func (w *world) timerDue() bool {
	t := w.timer
	return w.wGate == "wait" && t != nil && !t.stopped && !t.fired && time.Duration(w.now)*time.Second >= t.deadline
}

// forcedErr: the context handed to Synchronize is cancelled, so a real gRPC
// call can only fail.
func (w *world) forcedErr() bool {
	return w.wGate == "sync" && w.syncCtx != nil && w.syncCtx.Err() != nil
}

// apply performs one move. It returns false if the move is not possible in
// the current situation (nothing happens then).
func (w *world) apply(m move) bool {
	w.mu.Lock()
	switch m.kind {
	case "tick":
		w.now += m.n
		w.emit(common.Ev{"ev": "tick", "clock": w.now})
		w.mu.Unlock()
		return true
	case "shutdown":
		if w.shutdown {
			w.mu.Unlock()
			return false
		}
		w.shutdown = true
		w.emit(common.Ev{"ev": "shutdown", "clock": w.now})
		w.mu.Unlock()
		w.cancel()
		return true
	case "ready_ok", "ready_fail":
		if w.wGate != "ready" {
			w.mu.Unlock()
			return false
		}
		w.wGate = ""
		w.emit(common.Ev{"ev": "ready", "ok": m.kind == "ready_ok"})
		w.mu.Unlock()
		if m.kind == "ready_ok" {
			w.readyCh <- nil
		} else {
			w.readyCh <- status.Error(codes.Unavailable, "runner not reachable")
		}
		return true
	case "timer_fire":
		if !w.timerDue() {
			w.mu.Unlock()
			return false
		}
		t := w.timer
		t.fired = true
		w.emit(common.Ev{"ev": "timer_fire", "clock": w.now})
		w.mu.Unlock()
		t.ch <- time.Unix(epoch+w.now, 0)
		return true
	case "reply":
		if w.wGate != "sync" {
			w.mu.Unlock()
			return false
		}
		rk := m.rkind
		if w.forcedErr() {
			rk = "err"
		}
		ns := w.now + m.n
		var a syncAnswer
		ts := timestamppb.New(time.Unix(epoch+ns, 0))
		execReq := func(d string) *remoteworker.DesiredState {
			return &remoteworker.DesiredState{WorkerState: &remoteworker.DesiredState_Executing_{
				Executing: &remoteworker.DesiredState_Executing{
					ActionDigest:   &remoteexecution.Digest{Hash: d, SizeBytes: 123},
					Action:         &remoteexecution.Action{},
					DigestFunction: remoteexecution.DigestFunction_SHA256,
				},
			}}
		}
		d := ""
		switch rk {
		case "err":
			if w.forcedErr() {
				a.err = status.Error(codes.Canceled, "context canceled")
			} else {
				a.err = status.Error(codes.Unavailable, "scheduler unreachable")
			}
			ns = 0
		case "badts":
			// The body is a perfectly good execute request; the
			// timestamp is missing or out of range.
			a.resp = &remoteworker.SynchronizeResponse{DesiredState: execReq(digests[0])}
			if m.n%2 == 0 {
				a.resp.NextSynchronizationAt = &timestamppb.Timestamp{Seconds: 1 << 60}
			}
			ns = 0
		case "nochange":
			a.resp = &remoteworker.SynchronizeResponse{NextSynchronizationAt: ts}
		case "idle":
			a.resp = &remoteworker.SynchronizeResponse{NextSynchronizationAt: ts,
				DesiredState: &remoteworker.DesiredState{WorkerState: &remoteworker.DesiredState_Idle{Idle: &emptypb.Empty{}}}}
		case "unknown":
			a.resp = &remoteworker.SynchronizeResponse{NextSynchronizationAt: ts, DesiredState: &remoteworker.DesiredState{}}
		case "exec":
			d = m.d
			a.resp = &remoteworker.SynchronizeResponse{NextSynchronizationAt: ts, DesiredState: execReq(d)}
		case "badexec":
			d = m.d
			ds := execReq(d)
			if m.n%2 == 0 {
				ds.GetExecuting().InstanceNameSuffix = "/redundant/slash"
			} else {
				ds.GetExecuting().DigestFunction = remoteexecution.DigestFunction_UNKNOWN
			}
			a.resp = &remoteworker.SynchronizeResponse{NextSynchronizationAt: ts, DesiredState: ds}
		default:
			panic("unknown reply kind " + rk)
		}
		w.wGate = ""
		w.emit(common.Ev{"ev": "sync_reply", "kind": rk, "d": d, "ns": ns, "clock": w.now})
		w.mu.Unlock()
		w.syncCh <- a
		return true
	case "exec_update", "exec_cancelcheck", "exec_finish":
		var x *execState
		if m.id >= 1 && m.id <= len(w.execs) {
			x = w.execs[m.id-1]
		}
		if x == nil || !x.alive || (m.kind == "exec_update" && x.sent >= maxUpdates) {
			w.mu.Unlock()
			return false
		}
		w.mu.Unlock()
		x.gate <- execCmd{kind: strings.TrimPrefix(m.kind, "exec_"), ok: m.ok}
		return true
	case "sleep":
		w.mu.Unlock()
		time.Sleep(6 * time.Second) // longer than LaunchWorkerThread's back-off
		return true
	}
	w.mu.Unlock()
	panic("unknown move " + m.kind)
}

// ---------------------------------------------------------------------------
// Choosers.

type chooser interface {
	// next returns the next move, or ok=false when the script is over.
	next(w *world) (move, bool)
}

var tickChoices = []int64{1, 1, 5, 20, 30, 31, 59, 60, 61, 90}
var deltaChoices = []int64{-10, 0, 0, 1, 1, 10, 30, 90}

type randomChooser struct {
	rng      *rand.Rand
	left     int
	realLoop bool
	// per-trace inclinations, so that traces differ in character
	pShutdown, pTick, pExec int
}

func newRandomChooser(rng *rand.Rand, steps int, realLoop bool) *randomChooser {
	return &randomChooser{rng: rng, left: steps, realLoop: realLoop,
		pShutdown: []int{0, 1, 3, 8}[rng.Intn(4)], pTick: []int{3, 10, 25}[rng.Intn(3)], pExec: []int{10, 30, 60}[rng.Intn(3)]}
}

func (c *randomChooser) reply() move {
	r := c.rng
	m := move{kind: "reply", n: deltaChoices[r.Intn(len(deltaChoices))]}
	switch x := r.Intn(100); {
	case x < 30:
		m.rkind, m.d = "exec", digests[r.Intn(len(digests))]
	case x < 48:
		m.rkind = "nochange"
	case x < 66:
		m.rkind = "idle"
	case x < 80:
		m.rkind = "err"
	case x < 88:
		m.rkind = "badts"
	case x < 94:
		m.rkind = "unknown"
	default:
		m.rkind, m.d = "badexec", digests[r.Intn(len(digests))]
	}
	return m
}

func (c *randomChooser) execMove(x *execState) move {
	r := c.rng
	switch v := r.Intn(100); {
	case v < 45 && x.sent < maxUpdates:
		return move{kind: "exec_update", id: x.id}
	case v < 60:
		return move{kind: "exec_cancelcheck", id: x.id}
	default:
		return move{kind: "exec_finish", id: x.id, ok: r.Intn(100) < 55}
	}
}

func (c *randomChooser) next(w *world) (move, bool) {
	if c.left <= 0 {
		return move{}, false
	}
	c.left--
	r := c.rng
	w.mu.Lock()
	gate := w.wGate
	alive := w.aliveExecs()
	due := w.timerDue()
	sd := w.shutdown
	var deadline time.Duration
	if w.timer != nil {
		deadline = w.timer.deadline
	}
	now := w.now
	w.mu.Unlock()

	if !sd && r.Intn(100) < c.pShutdown {
		return move{kind: "shutdown"}, true
	}
	if r.Intn(100) < c.pTick {
		return move{kind: "tick", n: tickChoices[r.Intn(len(tickChoices))]}, true
	}
	if len(alive) > 0 && r.Intn(100) < c.pExec {
		return c.execMove(alive[r.Intn(len(alive))]), true
	}
	switch gate {
	case "ready":
		if r.Intn(100) < 80 {
			return move{kind: "ready_ok"}, true
		}
		return move{kind: "ready_fail"}, true
	case "sync":
		return c.reply(), true
	case "wait":
		if due {
			return move{kind: "timer_fire"}, true
		}
		// Either let time pass until the timer is due, or let the
		// executor do something.
		if len(alive) > 0 && r.Intn(2) == 0 {
			return c.execMove(alive[r.Intn(len(alive))]), true
		}
		n := int64((deadline - time.Duration(now)*time.Second + time.Second - 1) / time.Second)
		if n < 1 {
			n = 1
		}
		return move{kind: "tick", n: n}, true
	default:
		// The worker thread is inside stopExecution (waiting for the
		// executor) or, with the real loop, in its back-off sleep.
		if len(alive) > 0 && (!c.realLoop || r.Intn(3) > 0) {
			return c.execMove(alive[r.Intn(len(alive))]), true
		}
		if c.realLoop {
			return move{kind: "sleep"}, true
		}
		return move{kind: "tick", n: 1}, true
	}
}

// scriptChooser replays the environment's moves of a behaviour generated by
// TLC from specs/BuildClient.tla. Moves that are not possible in the real
// system's current situation are skipped by the driver.
type scriptChooser struct {
	moves []move
	pos   int
}

// One model tick is 30 seconds, so that the model's Minute = 2 is a minute.
const tickSeconds = 30

func loadBehaviour(path string) ([]move, error) {
	f, err := os.Open(path)
	if err != nil {
		return nil, err
	}
	defer f.Close()
	var out []move
	sc := bufio.NewScanner(f)
	sc.Buffer(make([]byte, 1<<20), 1<<20)
	for sc.Scan() {
		line := strings.TrimSpace(sc.Text())
		if line == "" {
			continue
		}
		var a struct {
			A  string `json:"a"`
			D  string `json:"d"`
			K  string `json:"k"`
			N  int64  `json:"n"`
			Ok bool   `json:"ok"`
		}
		if err := json.Unmarshal([]byte(line), &a); err != nil {
			return nil, fmt.Errorf("%s: %v", path, err)
		}
		switch a.A {
		case "Tick":
			out = append(out, move{kind: "tick", n: tickSeconds})
		case "Shutdown":
			out = append(out, move{kind: "shutdown"})
		case "ReadyOk":
			out = append(out, move{kind: "ready_ok"})
		case "ReadyFail":
			out = append(out, move{kind: "ready_fail"})
		case "TimerFires":
			out = append(out, move{kind: "timer_fire"})
		case "SyncReply":
			out = append(out, move{kind: "reply", rkind: a.K, d: a.D, n: a.N * tickSeconds})
		case "ExecProgress":
			out = append(out, move{kind: "exec_update", id: int(a.N)})
		case "ExecObserveCancel":
			out = append(out, move{kind: "exec_cancelcheck", id: int(a.N)})
		case "ExecFinish":
			out = append(out, move{kind: "exec_finish", id: int(a.N), ok: a.Ok})
		}
	}
	return out, sc.Err()
}

func (c *scriptChooser) next(w *world) (move, bool) {
	if c.pos >= len(c.moves) {
		return move{}, false
	}
	m := c.moves[c.pos]
	c.pos++
	return m, true
}

// epilogue drives the worker to termination: shut down, answer "idle", let
// executors finish.
func epilogueMove(w *world, realLoop bool) (move, bool) {
	w.mu.Lock()
	defer w.mu.Unlock()
	if !w.shutdown {
		return move{kind: "shutdown"}, true
	}
	alive := w.aliveExecs()
	switch w.wGate {
	case "ready":
		return move{kind: "ready_ok"}, true
	case "sync":
		if w.forcedErr() {
			// The call can only fail. Should that keep happening,
			// only the passage of time lets the worker terminate.
			w.forced++
			if w.forced > 2 && w.forced%2 == 1 {
				return move{kind: "tick", n: 61}, true
			}
		}
		return move{kind: "reply", rkind: "idle", n: 0}, true
	case "wait":
		if w.timerDue() {
			return move{kind: "timer_fire"}, true
		}
		n := int64((w.timer.deadline - time.Duration(w.now)*time.Second + time.Second - 1) / time.Second)
		if n < 1 {
			n = 1
		}
		return move{kind: "tick", n: n}, true
	}
	if len(alive) > 0 {
		return move{kind: "exec_finish", id: alive[0].id, ok: true}, true
	}
	if realLoop {
		return move{kind: "sleep"}, true
	}
	return move{}, false // stuck
}

// ---------------------------------------------------------------------------
// One trace.

type traceOpts struct {
	realLoop bool
	label    string
}

// runTrace runs one history inside a synctest bubble.
func runTrace(t *testing.T, tr *common.Trace, idx int, ch chooser, opts traceOpts) {
	stuck := false
	func() {
		defer func() {
			// A worker thread that is wedged inside the real code
			// cannot be cleaned up; synctest reports the deadlock by
			// panicking when the bubble is left.
			if r := recover(); r != nil {
				if !stuck {
					panic(r)
				}
			}
		}()
		synctest.Test(t, func(t *testing.T) {
			stuck = driveTrace(tr, idx, ch, opts)
		})
	}()
}

func driveTrace(tr *common.Trace, idx int, ch chooser, opts traceOpts) (stuck bool) {
	w := &world{tr: tr, now: 100, readyCh: make(chan error), syncCh: make(chan syncAnswer), done: make(chan struct{})}
	ctx, cancel := context.WithCancel(context.Background())
	w.cancel = cancel
	w.emit(common.Ev{"ev": "reset", "trace": idx, "clock": w.now, "driver": opts.label, "real_loop": opts.realLoop})
	instanceName, err := digest.NewInstanceName("main")
	if err != nil {
		panic(err)
	}
	bc := builder.NewBuildClient(fakeScheduler{w}, fakeExecutor{w}, nil, fakeClock{w},
		map[string]string{"thread": "0"}, instanceName,
		&remoteexecution.Platform{}, 0)

	if opts.realLoop {
		// The real LaunchWorkerThread; only its termination is visible.
		go func() {
			defer close(w.done)
			program.RunLocal(ctx, func(ctx context.Context, siblingsGroup, dependenciesGroup program.Group) error {
				builder.LaunchWorkerThread(siblingsGroup, bc, "verif")
				return nil
			})
			w.mu.Lock()
			w.emit(common.Ev{"ev": "terminate", "clock": w.now})
			w.mu.Unlock()
		}()
	} else {
		// The loop of LaunchWorkerThread around the real Run(), with
		// the return values logged and without the back-off sleep.
		go func() {
			defer close(w.done)
			defer func() {
				if r := recover(); r != nil {
					w.mu.Lock()
					w.emit(common.Ev{"ev": "panic", "msg": fmt.Sprint(r)})
					w.mu.Unlock()
				}
			}()
			idle := 0
			for {
				w.mu.Lock()
				g0 := w.gates
				w.mu.Unlock()
				mayTerminate, err := bc.Run(ctx)
				msg := ""
				if err != nil {
					msg = err.Error()
				}
				w.mu.Lock()
				w.emit(common.Ev{"ev": "run_ret", "may": mayTerminate, "err": err != nil, "msg": msg,
					"shutdown": ctx.Err() != nil, "clock": w.now})
				spun := w.gates == g0
				w.mu.Unlock()
				if mayTerminate && ctx.Err() != nil {
					w.mu.Lock()
					w.emit(common.Ev{"ev": "terminate", "clock": w.now})
					w.mu.Unlock()
					return
				}
				// Run() that neither blocks nor terminates would spin.
				if spun {
					idle++
				} else {
					idle = 0
				}
				if idle > 50 {
					w.mu.Lock()
					w.emit(common.Ev{"ev": "spin"})
					w.mu.Unlock()
					return
				}
			}
		}()
	}

	inEpilogue := false
	skipped := 0
	for steps := 0; ; steps++ {
		synctest.Wait()
		if w.isDone() {
			break
		}
		if steps > 2000 {
			stuck = true
			break
		}
		var m move
		ok := false
		if !inEpilogue {
			m, ok = ch.next(w)
			if !ok {
				inEpilogue = true
			}
		}
		if inEpilogue {
			m, ok = epilogueMove(w, opts.realLoop)
			if !ok {
				stuck = true
				break
			}
		}
		if !w.apply(m) {
			skipped++
		}
	}
	if stuck {
		w.mu.Lock()
		alive := len(w.aliveExecs())
		w.emit(common.Ev{"ev": "hang", "gate": w.wGate, "alive": alive})
		w.mu.Unlock()
	}
	// Let executors that are still running finish, so that their goroutines
	// can leave the bubble.
	for {
		synctest.Wait()
		w.mu.Lock()
		alive := w.aliveExecs()
		w.mu.Unlock()
		if len(alive) == 0 {
			break
		}
		w.apply(move{kind: "exec_finish", id: alive[0].id, ok: true})
	}
	cancel()
	synctest.Wait()
	return stuck
}

// ---------------------------------------------------------------------------
// Drivers.

// TestRandom: seeded random environments around the harness loop.
func TestRandom(t *testing.T) {
	n := common.EnvInt("VERIF_N", 200)
	steps := common.EnvInt("VERIF_STEPS", 40)
	tr := common.NewTrace("trace.ndjson")
	defer tr.Close()
	for i := 0; i < n; i++ {
		rng := common.Rand(int64(i))
		runTrace(t, tr, i, newRandomChooser(rng, steps/2+rng.Intn(steps), false), traceOpts{label: "random"})
	}
	common.WriteJSON("meta.json", map[string]any{"traces": n, "driver": "random"})
}

// TestRealLoop: the same, around the real LaunchWorkerThread.
func TestRealLoop(t *testing.T) {
	log.SetOutput(io.Discard) // LaunchWorkerThread logs every error
	n := common.EnvInt("VERIF_N", 100)
	steps := common.EnvInt("VERIF_STEPS", 40)
	tr := common.NewTrace("trace.ndjson")
	defer tr.Close()
	for i := 0; i < n; i++ {
		rng := common.Rand(int64(1000000 + i))
		runTrace(t, tr, i, newRandomChooser(rng, steps/2+rng.Intn(steps), true), traceOpts{label: "realloop", realLoop: true})
	}
	common.WriteJSON("meta.json", map[string]any{"traces": n, "driver": "realloop"})
}

// TestReplay: behaviours of the specification (VERIF_BEHAVIOURS is a
// directory of beh_*.ndjson files written by TLC) replayed on the real code.
func TestReplay(t *testing.T) {
	dir := common.Env("VERIF_BEHAVIOURS", "")
	files, _ := filepath.Glob(filepath.Join(dir, "beh_*.ndjson"))
	sort.Strings(files)
	tr := common.NewTrace("trace.ndjson")
	defer tr.Close()
	replayed := 0
	for i, f := range files {
		moves, err := loadBehaviour(f)
		if err != nil {
			t.Fatal(err)
		}
		if len(moves) == 0 {
			continue
		}
		runTrace(t, tr, i, &scriptChooser{moves: moves}, traceOpts{label: "replay"})
		replayed++
	}
	common.WriteJSON("meta.json", map[string]any{"traces": replayed, "driver": "replay"})
	if replayed == 0 {
		t.Fatal("no behaviours to replay in " + dir)
	}
}
