SPECIFICATION Spec
CONSTANTS
  NameOrder <- NamesSmall
  HiddenNames = {"b"}
  MaxDirs = 3
  MaxLeaves = 2
  SymLeaf = 1
  InitCI = TRUE
  InitHid = TRUE
  Ops = {"mkdir", "mknod", "symlink", "link", "open", "vremove", "rename"}
  AllowSubtreeRename = FALSE
INVARIANTS
  C13_MapListAgreement
  C13_DeletedIsEmpty
  C13_DeletedAcceptsNothing
  C13_LinkCounts
  C13_Tree
  C13_Pagination
PROPERTIES
  C13_ChangeCounter
  C13_CookiesStable
  C13_DeletedForever
VIEW
  View
CHECK_DEADLOCK FALSE
