SPECIFICATION Spec
CONSTANTS
  Digests = {"d1", "d2"}
  MaxUpd = 2
  MaxExecs = 2
  MaxClock = 3
  Minute = 2
  Deltas = {0, 1}
  Cap = 1
INVARIANTS
  TypeOK
  C08_OneAtATime
  C08_CancelBeforeWait
  C08_Honest
  C08_GoesIdle
  C08_Shutdown
  C08_NoSolicit
  BeliefAgrees
  ExecBookkeeping
PROPERTIES
  C08_MonotoneReports
  C08_IdleAfterFailure
VIEW
  StateView
CHECK_DEADLOCK FALSE
