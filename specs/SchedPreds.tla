----------------------------- MODULE SchedPreds -----------------------------
(***************************************************************************)
(* Predicates of properties C01-C07 over a *snapshot* of the scheduler     *)
(* (pkg/scheduler/in_memory_build_queue.go).  A snapshot is a record in    *)
(* the shape exported by the verif hook and renamed by the harness:        *)
(*                                                                         *)
(*   s.now, s.queues, s.ops, s.tasks, s.dedup, s.cleanup, ...              *)
(*   queue : prefix, platform, size_class, may_be_removed, cleanup_at,     *)
(*           drains, workers, invs (preorder, root first), classes, limits *)
(*   worker: id, task (0 = none), terminating, has_last, last, parked,     *)
(*           cleanup_at (-1 = in a Synchronize call), stick, drained       *)
(*   inv   : path, qops (heap array), qch, isw, exec, idle, last_started   *)
(*   op    : name, task, prio, queue (0-based), inv, waiters, may_exist,   *)
(*           cleanup_at                                                    *)
(*   task  : id, digest, dnc, stage ("Q","E","C"), worker, worker_queue,   *)
(*           retry, ops, learner, resp (token), code, exit_code, ...       *)
(*                                                                         *)
(* The same operators are evaluated on states of the design model          *)
(* (Sched.tla builds a snapshot from its variables) and on snapshots       *)
(* recorded from the real code (SchedTrace.tla).                           *)
(***************************************************************************)
EXTENDS Integers, Sequences, FiniteSets, TLC

Rng(f) == {f[x] : x \in DOMAIN f}

Tasks(s) == Rng(s.tasks)
Ops(s) == Rng(s.ops)
TaskIds(s) == {t.id : t \in Tasks(s)}
OpNames(s) == {o.name : o \in Ops(s)}
TaskOf(s, id) == CHOOSE t \in Tasks(s) : t.id = id
OpOf(s, n) == CHOOSE o \in Ops(s) : o.name = n
HasTask(s, id) == \E t \in Tasks(s) : t.id = id
HasOp(s, n) == \E o \in Ops(s) : o.name = n

QIdx(s) == 1 .. Len(s.queues)
\* <<queue index (1-based), worker record>>
WorkersOf(s) == UNION {{<<qi, w>> : w \in Rng(s.queues[qi].workers)} : qi \in QIdx(s)}
WorkerIds(s) == {<<x[1], x[2].id>> : x \in WorkersOf(s)}

\* Every place an operation name is stored in some invocation's queue:
\* <<queue index, invocation path, position>>.
QueuedAt(s, n) ==
  UNION {UNION {{<<qi, s.queues[qi].invs[ii].path, k>> :
                    k \in {k \in DOMAIN s.queues[qi].invs[ii].qops : s.queues[qi].invs[ii].qops[k] = n}} :
                 ii \in DOMAIN s.queues[qi].invs} : qi \in QIdx(s)}

PathPrefix(p, q) == Len(p) <= Len(q) /\ \A i \in 1 .. Len(p) : p[i] = q[i]

Live(t) == t.stage # "C"

-----------------------------------------------------------------------------
(* C01: every task is held by exactly one queue or one worker.             *)

C01_TaskOK(s, t) ==
  LET places == UNION {QueuedAt(s, n) : n \in Rng(t.ops)}
      holders == {x \in WorkersOf(s) : x[2].task = t.id}
  IN
  CASE t.stage = "Q" ->
         /\ t.worker = ""
         /\ holders = {}
         /\ \A n \in Rng(t.ops) : Cardinality(QueuedAt(s, n)) = 1
         /\ Cardinality({p[1] : p \in places}) = 1      \* one platform/size-class queue
         /\ \A n \in Rng(t.ops) : HasOp(s, n) =>
              \A p \in QueuedAt(s, n) : p[1] = OpOf(s, n).queue + 1 /\ p[2] = OpOf(s, n).inv
    [] t.stage = "E" ->
         /\ places = {}
         /\ Cardinality(holders) = 1
         /\ \A x \in holders : x[2].id = t.worker /\ x[1] = t.worker_queue + 1
    [] OTHER ->
         /\ t.worker = "" /\ places = {} /\ holders = {}

C01_WorkerOK(s, x) ==
  x[2].task # 0 =>
    /\ HasTask(s, x[2].task)
    /\ TaskOf(s, x[2].task).stage = "E"
    /\ TaskOf(s, x[2].task).worker = x[2].id

\* Nothing is queued that is not an operation of a queued task.
C01_NoStrayQueued(s) ==
  \A qi \in QIdx(s) : \A ii \in DOMAIN s.queues[qi].invs :
    \A n \in Rng(s.queues[qi].invs[ii].qops) :
      HasOp(s, n) /\ HasTask(s, OpOf(s, n).task) /\ TaskOf(s, OpOf(s, n).task).stage = "Q"

C01_Inv(s) ==
  /\ \A t \in Tasks(s) : C01_TaskOK(s, t)
  /\ \A x \in WorkersOf(s) : C01_WorkerOK(s, x)
  /\ \A t1, t2 \in Tasks(s) :
       (t1.id # t2.id /\ t1.stage = "E" /\ t2.stage = "E") =>
         ~(t1.worker = t2.worker /\ t1.worker_queue = t2.worker_queue)
  /\ C01_NoStrayQueued(s)

-----------------------------------------------------------------------------
(* C03: identical cacheable actions in flight run once.                    *)

C03_Inv(s) ==
  \A t1, t2 \in Tasks(s) :
    (t1.id # t2.id /\ t1.digest = t2.digest /\ ~t1.dnc /\ ~t2.dnc) => ~(Live(t1) /\ Live(t2))

-----------------------------------------------------------------------------
(* C04: no task stays queued while an undrained worker of its queue is     *)
(* blocked waiting for work.                                                *)

QueueHasQueued(q) == \E ii \in DOMAIN q.invs : Len(q.invs[ii].qops) > 0

C04_NoIdleWhileQueued(s) ==
  \A qi \in QIdx(s) :
    QueueHasQueued(s.queues[qi]) =>
      \A w \in Rng(s.queues[qi].workers) : ~(w.parked /\ ~w.drained)

-----------------------------------------------------------------------------
(* C05: workers that are drained or terminating hold no *new* task: this   *)
(* part is a step property (see SchedTrace).  State part: a task is held   *)
(* by a worker of the queue its operations belong to.                      *)

C05_WorkerQueueMatches(s) ==
  \A t \in Tasks(s) : t.stage = "E" =>
    \A n \in Rng(t.ops) : HasOp(s, n) => OpOf(s, n).queue = t.worker_queue

-----------------------------------------------------------------------------
(* C06: nothing is retained once everybody is gone.                        *)

\* Only predeclared queues and their bounded backlog of queued background
\* learning operations may remain.
IsBacklog(s, o) == o.inv = <<"BG">> /\ o.may_exist /\ QueuedAt(s, o.name) # {}

C06_Empty(s) ==
  /\ \A o \in Ops(s) : IsBacklog(s, o)
  /\ \A t \in Tasks(s) : t.stage = "Q" /\ \A n \in Rng(t.ops) : HasOp(s, n)
  /\ Len(s.dedup) = 0
  /\ Len(s.cleanup) = 0
  /\ \A qi \in QIdx(s) :
       /\ ~s.queues[qi].may_be_removed
       /\ Len(s.queues[qi].workers) = 0
       /\ \A ii \in DOMAIN s.queues[qi].invs : s.queues[qi].invs[ii].path \in {<<>>, <<"BG">>}
       /\ Cardinality({o \in Ops(s) : o.queue + 1 = qi}) <= s.queues[qi].max_bg

\* All cleanups that are due have been run (cleanups run at the start of
\* every critical section).
C06_NoOverdue(s) == \A i \in DOMAIN s.cleanup : s.cleanup[i] > s.now

-----------------------------------------------------------------------------
(* Structure of the implementation (not part of any property statement:    *)
(* reported as non-conformance of the model, never as a violation).        *)

NC_Structure(s) ==
  /\ s.cleanup_ok
  /\ \A o \in Ops(s) : o.in_task_map /\ HasTask(s, o.task) /\ o.name \in Rng(TaskOf(s, o.task).ops)
  /\ \A t \in Tasks(s) : \A n \in Rng(t.ops) : HasOp(s, n) /\ OpOf(s, n).task = t.id
  /\ \A t \in Tasks(s) : (Live(t) /\ ~t.dnc) => t.in_dedup
  /\ \A qi \in QIdx(s) : \A ii \in DOMAIN s.queues[qi].invs :
       LET i == s.queues[qi].invs[ii] IN
         /\ i.parent_ok
         /\ \A k \in DOMAIN i.qidx : i.qidx[k] = k - 1
         /\ \A k \in DOMAIN i.qchidx : i.qchidx[k] = k - 1
         /\ \A k \in DOMAIN i.iswidx : i.iswidx[k] = k - 1
=============================================================================
