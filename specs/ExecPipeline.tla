---------------------------- MODULE ExecPipeline ----------------------------
(***************************************************************************)
(* Property C09: only complete, successful results reach the Action Cache. *)
(*                                                                         *)
(* Model of the worker's result pipeline in the decorator order of         *)
(* cmd/bb_worker/main.go:                                                  *)
(*                                                                         *)
(*   Caching( ... StorageFlushing( base, flush ) ... )                     *)
(*                                                                         *)
(* where `base` uploads its outputs through the batching layer             *)
(* pkg/blobstore/batched_store_blob_access.go (Put / flushLocked / the     *)
(* flush callback) that sits on top of the global CAS.  One action per     *)
(* storage call and per return of the real code; every storage call may    *)
(* succeed, fail, be cancelled (cancel = the call fails because the        *)
(* request context is cancelled, after which every later storage call      *)
(* fails), or succeed with the request context being cancelled right       *)
(* afterwards ("okcancel": a cancellation that no storage call reports;    *)
(* the code only notices it where it looks at the context itself), so TLC  *)
(* visits every fault position of every small scenario.                    *)
(*                                                                         *)
(* The base executor is the well-behaved one of local_build_executor.go:   *)
(* a digest is referenced by the response only if its Put returned nil; a  *)
(* Put error is attached to the response (first error wins).               *)
(***************************************************************************)
EXTENDS Integers, Sequences, FiniteSets, TLC

CONSTANTS Blobs,        \* digests the base may upload
          MaxPuts,      \* number of Put calls made by the base (duplicates allowed)
          BatchSizes,   \* set of batch sizes to explore
          Sems          \* set of upload-concurrency semaphore weights

VARIABLES
  batch, sem, dnc, reqGood,   \* scenario: batch size, semaphore, do_not_cache, request well-formed
  pc,          \* "base" | "flush" | "prune" | "decide" | "acput" | "hput" | "done"
  bufs,        \* i-th buffer handed to the batching layer: [d, st, n]
               \*   st: "new" | "pending" | "inflight" | "put" | "disc";  n = times consumed
  flushError,  \* batchedStoreBlobAccess.flushError # nil (sticky)
  fl,          \* flushLocked in progress: [phase, left, gerr, cont, cur]
  fret,        \* what the flush callback returned (TRUE = error)
  cas,         \* digests present in the Content Addressable Storage
  ac,          \* the Action Cache entry: [present, statusOK, exit, refs, snap]
  resp,        \* ExecuteResponse projection: [statusOK, exit, refs]
  acked,       \* digests whose Put returned nil to the base
  casFailed,   \* some CAS call of the batching layer failed, or flush returned an error
  otherFailed, \* the AC Put / the historical-response CAS Put failed
  cancelled    \* the request context has been cancelled

vars == <<batch, sem, dnc, reqGood, pc, bufs, flushError, fl, fret, cas, ac,
          resp, acked, casFailed, otherFailed, cancelled>>

-----------------------------------------------------------------------------
(* The property clauses as functions of plain data.  They return "ok" or   *)
(* the reason; the model's invariants and the trace specification both use *)
(* them, the latter on data observed from the real code.                   *)

\* C09_AC: an ActionResult may be written to the AC only for a well-formed,
\* cacheable action whose response is OK with exit code 0, and only when all
\* digests it references are in the CAS at that moment.
ACVerdict(good, doNotCache, statusOK, exit, refs, casNow) ==
  IF ~good THEN "C09:cached-without-valid-action"
  ELSE IF doNotCache THEN "C09:cached-do-not-cache-action"
  ELSE IF ~statusOK THEN "C09:cached-response-with-error-status"
  ELSE IF exit # 0 THEN "C09:cached-nonzero-exit-code"
  ELSE IF ~(refs \subseteq casNow) THEN "C09:cached-result-references-blob-not-in-cas"
  ELSE "ok"

\* C09_Error: after a failed storage write / flush the final response is an
\* error, nothing is cached and (for CAS failures) no digest is advertised.
ErrorVerdict(casF, otherF, statusOK, cached, advertised) ==
  IF (casF \/ otherF) /\ statusOK THEN "C09:storage-failure-but-response-ok"
  ELSE IF (casF \/ otherF) /\ cached THEN "C09:storage-failure-but-result-cached"
  ELSE IF casF /\ advertised # {} THEN "C09:storage-failure-but-digests-advertised"
  ELSE "ok"

\* C09_Ack: when flush returns nil every acknowledged write is stored.
AckVerdict(flushErr, ackedSet, casNow) ==
  IF ~flushErr /\ ~(ackedSet \subseteq casNow)
  THEN "C09:acknowledged-put-lost-but-flush-reported-success"
  ELSE "ok"

\* C09_Buffers: every buffer handed over is consumed exactly once.
BufferVerdict(counts) ==
  IF \E i \in DOMAIN counts : counts[i] = 0 THEN "C09:buffer-never-consumed"
  ELSE IF \E i \in DOMAIN counts : counts[i] > 1 THEN "C09:buffer-consumed-twice"
  ELSE "ok"

-----------------------------------------------------------------------------
NoAC   == [present |-> FALSE, statusOK |-> FALSE, exit |-> 0, refs |-> {}, snap |-> {}]
NoFlush == [phase |-> "none", left |-> {}, gerr |-> FALSE, cont |-> "none", cur |-> 0]

Idx      == DOMAIN bufs
Pending  == {i \in Idx : bufs[i].st = "pending"}
Inflight == {i \in Idx : bufs[i].st = "inflight"}
PendingDigests == {bufs[i].d : i \in Pending}

\* Results a storage call can have now.
AllResults == {"ok", "fail", "cancel", "okcancel"}
Results == IF cancelled THEN {"fail"} ELSE AllResults
Cancel(r) == cancelled' = (cancelled \/ r \in {"cancel", "okcancel"})
Succeeded(r) == r \in {"ok", "okcancel"}

Consume(b, S, state) ==
  [i \in DOMAIN b |-> IF i \in S THEN [b[i] EXCEPT !.st = state, !.n = @ + 1] ELSE b[i]]

Init ==
  /\ batch \in BatchSizes /\ sem \in Sems
  /\ dnc \in BOOLEAN /\ reqGood \in BOOLEAN
  /\ cas \in SUBSET Blobs                       \* blobs that already exist
  /\ resp \in {[statusOK |-> s, exit |-> e, refs |-> {}] : s \in BOOLEAN, e \in {0, 1}}
  /\ pc = "base" /\ bufs = <<>> /\ flushError = FALSE /\ fl = NoFlush
  /\ fret = FALSE /\ ac = NoAC /\ acked = {}
  /\ casFailed = FALSE /\ otherFailed = FALSE /\ cancelled = FALSE

\* Tail of batchedStoreBlobAccess.Put for buffer i of sequence b, given the
\* sticky error fe: refuse (discard, return the error; the base attaches it)
\* or enqueue (return nil; the base references the digest).
Accept(b, i, fe) ==
  IF fe
  THEN /\ bufs' = Consume(b, {i}, "disc")
       /\ resp' = [resp EXCEPT !.statusOK = FALSE]
       /\ acked' = acked
  ELSE /\ bufs' = [b EXCEPT ![i].st = "pending"]
       /\ resp' = [resp EXCEPT !.refs = @ \cup {b[i].d}]
       /\ acked' = acked \cup {b[i].d}

\* base: contentAddressableStorage.Put(d, buffer)
BasePut(d) ==
  /\ pc = "base" /\ Len(bufs) < MaxPuts
  /\ LET i == Len(bufs) + 1
         b == Append(bufs, [d |-> d, st |-> "new", n |-> 0])
     IN
       IF d \in PendingDigests
       THEN \* duplicate of a pending write: discard, acknowledge
            /\ bufs' = Consume(b, {i}, "disc")
            /\ acked' = acked \cup {d}
            /\ resp' = [resp EXCEPT !.refs = @ \cup {d}]
            /\ UNCHANGED <<pc, fl, flushError>>
       ELSE IF Cardinality(Pending) >= batch
       THEN \* batch full: flushLocked() first
            /\ bufs' = b
            /\ pc' = "flush"
            /\ fl' = [phase |-> "fm", left |-> {}, gerr |-> FALSE, cont |-> "put", cur |-> i]
            /\ UNCHANGED <<acked, resp, flushError>>
       ELSE /\ Accept(b, i, flushError)
            /\ UNCHANGED <<pc, fl, flushError>>
  /\ UNCHANGED <<batch, sem, dnc, reqGood, fret, cas, ac, casFailed, otherFailed, cancelled>>

\* base returns its response; StorageFlushing calls the flush callback.
BaseReturn ==
  /\ pc = "base"
  /\ pc' = "flush"
  /\ fl' = [phase |-> "fm", left |-> {}, gerr |-> FALSE, cont |-> "final", cur |-> 0]
  /\ UNCHANGED <<batch, sem, dnc, reqGood, bufs, flushError, fret, cas, ac, resp,
                 acked, casFailed, otherFailed, cancelled>>

\* flushLocked: FindMissing(all pending digests)
FlushFindMissing(r) ==
  /\ pc = "flush" /\ fl.phase = "fm" /\ r \in Results
  /\ Cancel(r)
  /\ IF Succeeded(r)
     THEN /\ fl' = [fl EXCEPT !.phase = "puts",
                              !.left = {i \in Pending : bufs[i].d \notin cas}]
          /\ UNCHANGED casFailed
     ELSE /\ fl' = [fl EXCEPT !.phase = "end", !.gerr = TRUE]
          /\ casFailed' = TRUE
  /\ UNCHANGED <<batch, sem, dnc, reqGood, pc, bufs, flushError, fret, cas, ac, resp,
                 acked, otherFailed>>

\* flushLocked: acquire the semaphore, take the buffer out of the pending
\* map and start its Put in a goroutine.  The semaphore is not acquired
\* once the request context is done.  (After a failed Put it still may be:
\* the failing goroutine releases the semaphore before the group context is
\* cancelled.)
FlushPutStart(i) ==
  /\ pc = "flush" /\ fl.phase = "puts" /\ i \in fl.left
  /\ Cardinality(Inflight) < sem
  /\ ~cancelled
  /\ bufs' = [bufs EXCEPT ![i].st = "inflight"]
  /\ fl' = [fl EXCEPT !.left = @ \ {i}]
  /\ UNCHANGED <<batch, sem, dnc, reqGood, pc, flushError, fret, cas, ac, resp,
                 acked, casFailed, otherFailed, cancelled>>

\* flushLocked: the loop over the missing digests stops because the group
\* context (an earlier Put failed) or the request context is done.
FlushAbort ==
  /\ pc = "flush" /\ fl.phase = "puts" /\ fl.left # {}
  /\ fl.gerr \/ cancelled
  /\ fl' = [fl EXCEPT !.left = {}, !.gerr = TRUE]
  /\ UNCHANGED <<batch, sem, dnc, reqGood, pc, bufs, flushError, fret, cas, ac, resp,
                 acked, casFailed, otherFailed, cancelled>>

\* the CAS Put of buffer i completes (the CAS consumes the buffer).
FlushPutEnd(i, r) ==
  /\ pc = "flush" /\ i \in Inflight /\ r \in Results
  /\ Cancel(r)
  /\ bufs' = Consume(bufs, {i}, "put")
  /\ IF Succeeded(r)
     THEN cas' = cas \cup {bufs[i].d} /\ UNCHANGED <<fl, casFailed>>
     ELSE cas' = cas /\ fl' = [fl EXCEPT !.gerr = TRUE] /\ casFailed' = TRUE
  /\ UNCHANGED <<batch, sem, dnc, reqGood, pc, flushError, fret, ac, resp,
                 acked, otherFailed>>

\* flushLocked returns: remaining buffers are discarded, the first error
\* becomes sticky; control returns to Put or to the flush callback.
FlushEnd ==
  /\ pc = "flush" /\ fl.phase \in {"puts", "end"}
  /\ fl.left = {} /\ Inflight = {}
  /\ LET b  == Consume(bufs, Pending, "disc")
         fe == flushError \/ fl.gerr
     IN IF fl.cont = "put"
        THEN /\ Accept(b, fl.cur, fe)
             /\ flushError' = fe
             /\ pc' = "base"
             /\ UNCHANGED <<fret, casFailed>>
        ELSE \* the flush callback returns flushError and resets it
             /\ bufs' = b
             /\ fret' = fe
             /\ flushError' = FALSE
             /\ casFailed' = (casFailed \/ fe)
             /\ pc' = "prune"
             /\ UNCHANGED <<resp, acked>>
  /\ fl' = NoFlush
  /\ UNCHANGED <<batch, sem, dnc, reqGood, cas, ac, otherFailed, cancelled>>

\* StorageFlushing: attach the error and prune all digests.
PruneOnError ==
  /\ pc = "prune"
  /\ resp' = IF fret THEN [resp EXCEPT !.statusOK = FALSE, !.refs = {}] ELSE resp
  /\ pc' = "decide"
  /\ UNCHANGED <<batch, sem, dnc, reqGood, bufs, flushError, fl, fret, cas, ac,
                 acked, casFailed, otherFailed, cancelled>>

\* Caching: which store is written?
CachingDecide ==
  /\ pc = "decide"
  /\ IF ~reqGood
     THEN pc' = "done" /\ resp' = [resp EXCEPT !.statusOK = FALSE]
     ELSE /\ pc' = IF ~dnc /\ resp.statusOK /\ resp.exit = 0 THEN "acput" ELSE "hput"
          /\ UNCHANGED resp
  /\ UNCHANGED <<batch, sem, dnc, reqGood, bufs, flushError, fl, fret, cas, ac,
                 acked, casFailed, otherFailed, cancelled>>

ACPut(r) ==
  /\ pc = "acput" /\ r \in Results
  /\ Cancel(r)
  /\ IF Succeeded(r)
     THEN /\ ac' = [present |-> TRUE, statusOK |-> resp.statusOK, exit |-> resp.exit,
                    refs |-> resp.refs, snap |-> cas]
          /\ UNCHANGED <<resp, otherFailed>>
     ELSE /\ resp' = [resp EXCEPT !.statusOK = FALSE]
          /\ otherFailed' = TRUE
          /\ UNCHANGED ac
  /\ pc' = "done"
  /\ UNCHANGED <<batch, sem, dnc, reqGood, bufs, flushError, fl, fret, cas,
                 acked, casFailed>>

\* Caching: HistoricalExecuteResponse into the CAS (its digest is not one
\* of Blobs and nothing refers to it, so cas is left alone).
HistoricalPut(r) ==
  /\ pc = "hput" /\ r \in Results
  /\ Cancel(r)
  /\ IF Succeeded(r)
     THEN UNCHANGED <<resp, otherFailed>>
     ELSE resp' = [resp EXCEPT !.statusOK = FALSE] /\ otherFailed' = TRUE
  /\ pc' = "done"
  /\ UNCHANGED <<batch, sem, dnc, reqGood, bufs, flushError, fl, fret, cas, ac,
                 acked, casFailed>>

Next ==
  \/ \E d \in Blobs : BasePut(d)
  \/ BaseReturn
  \/ \E r \in AllResults : FlushFindMissing(r)
  \/ \E i \in Idx : FlushPutStart(i)
  \/ FlushAbort
  \/ \E i \in Idx : \E r \in AllResults : FlushPutEnd(i, r)
  \/ FlushEnd
  \/ PruneOnError
  \/ CachingDecide
  \/ \E r \in AllResults : ACPut(r)
  \/ \E r \in AllResults : HistoricalPut(r)

Spec == Init /\ [][Next]_vars

-----------------------------------------------------------------------------
(* Predicates.                                                             *)

Phases == {"base", "flush", "prune", "decide", "acput", "hput", "done"}
AfterFlush == {"prune", "decide", "acput", "hput", "done"}

TypeOK ==
  /\ batch \in BatchSizes /\ sem \in Sems /\ dnc \in BOOLEAN /\ reqGood \in BOOLEAN
  /\ pc \in Phases
  /\ \A i \in Idx : /\ bufs[i].d \in Blobs
                    /\ bufs[i].st \in {"new", "pending", "inflight", "put", "disc"}
                    /\ bufs[i].n \in 0 .. 2
  /\ flushError \in BOOLEAN /\ fret \in BOOLEAN
  /\ cas \subseteq Blobs /\ acked \subseteq Blobs /\ resp.refs \subseteq Blobs
  /\ casFailed \in BOOLEAN /\ otherFailed \in BOOLEAN /\ cancelled \in BOOLEAN

Counts == [i \in Idx |-> bufs[i].n]

C09_AC ==
  ac.present => ACVerdict(reqGood, dnc, ac.statusOK, ac.exit, ac.refs, ac.snap) = "ok"

C09_Error ==
  pc = "done" => ErrorVerdict(casFailed, otherFailed, resp.statusOK, ac.present, resp.refs) = "ok"

C09_Ack ==
  pc = "prune" => AckVerdict(fret, acked, cas) = "ok"

C09_Buffers ==
  /\ \A i \in Idx : bufs[i].n <= 1
  /\ pc \in AfterFlush => BufferVerdict(Counts) = "ok"

\* Consequences that follow from the clauses above (the CAS only grows).
C09_ACComplete == ac.present => ac.refs \subseteq cas
C09_StickyUntilFlush ==
  \* between a failed CAS call and the return of the flush callback the
  \* batching layer remembers the failure
  (pc \in {"base", "flush"} /\ casFailed) => (flushError \/ fl.gerr)
C09_NothingPendingAfterFlush == pc \in AfterFlush => Pending = {} /\ Inflight = {}

\* The outcome that the property exists for is reachable (checked with the
\* negation as an invariant in a separate sanity configuration).
CachedSomething == ac.present /\ ac.refs # {}

BlobSymmetry == Permutations(Blobs)
=============================================================================
