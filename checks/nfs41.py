"""NFSv4.1 server (nfs41_program.go + opened_files_pool.go): the 4.1 part of
C18 (open/lock state accounting), C19 (exactly-once / replay cache) and the
NFS level of C20 (byte-range locks through LOCK/LOCKT/LOCKU/CLOSE/expiry).

run_parts(ctx) does everything except vlib.finish; only verdicts whose
property prefix equals ctx.prop count as violations (vlib.classify_for), the
others are reported as notes.  The wrappers c18.py / c19.py / c20.py combine
this with the NFSv4.0 server and the lock table.
"""
import json
import os

from lib import vlib

SPEC = "NFS41.tla"
TRACE = "NFS41Trace.tla"
TRACE_CFG = "Trace_NFS41.cfg"

# design-check configurations per property (quick tier, added in the thorough tier)
MC = {
    "C18": (["MC_NFS41_C18.cfg"], ["MC_NFS41_C18_lease.cfg", "MC_NFS41_C20_owners.cfg"]),
    "C19": (["MC_NFS41_C19.cfg"], []),
    "C20": (["MC_NFS41_C20.cfg", "MC_NFS41_C20_owners.cfg"], ["MC_NFS41_C20_full.cfg"]),
}

RULE = ("TLC explores NFS41.tla exhaustively for small constants (2 clients, open-/lock-owners, files, "
        "share in {R,W,RW}, slots with duplicates in flight) and checks the C18/C19/C20 predicates on the "
        "design; the real NewNFS41Program over a real in-memory directory, NFS handle allocator and "
        "OpenedFilesPool with instrumented leaves is driven by scripted special cases (incl. I/O and "
        "duplicate requests held in flight inside a synctest bubble), seeded random multi-client "
        "histories (clients that vanish while the others stay active, retransmitted / out-of-order "
        "SEQUENCE and CREATE_SESSION requests) and seeded random histories with READ/WRITE requests held "
        "inside the leaf and duplicates of them (same and different content, cached and uncached) while "
        "everything else goes on; every request, reply, state snapshot (verif hook: client, owner, "
        "session, slot and reply-cache records, open/lock state, lock table, pool) and leaf open/close "
        "counter is validated by TLC against the reference model, the property predicates being evaluated "
        "on the observed data (a request that must not execute must leave all of that unchanged); each "
        "history ends with all leases expiring and the retained state being checked. STATS = how often "
        "the antecedent of each predicate was true.")


def _validate(ctx, out, label, timeout=1500, max_failures=12):
    path = os.path.join(out, "trace.ndjson")
    if not os.path.exists(path) or os.path.getsize(path) == 0:
        raise vlib.Infra("nfs41 driver %s produced no trace" % label)
    # A trace is dropped at its first step that the reference cannot explain
    # and validation stops after max_failures dropped traces: the bound must
    # not be so small that later traces are never looked at.
    n = vlib.validate_traces(ctx, path, TRACE, TRACE_CFG, [SPEC], "nfs41_" + label,
                             classify=vlib.classify_for(ctx.prop), timeout=timeout, max_failures=max_failures)
    if not ctx.cov["samples"] or len(ctx.cov["samples"]) < 12:
        lines = [ln for ln in vlib.read_lines(path) if '"ev":"snap"' not in ln]
        for ln in lines[3:9]:
            try:
                ctx.cov["samples"].append(json.loads(ln))
            except Exception:
                pass
    return n


def _driver(ctx, binary, test, label, env=None, timeout=1200, hang_ok=False):
    out = ctx.sub("nfs41_" + label)
    rc, o = vlib.run_driver(binary, test, out, ctx.seed, env=env, timeout=timeout)
    if rc != 0:
        trace = os.path.join(out, "trace.ndjson")
        txt = open(trace).read() if os.path.exists(trace) else ""
        # (a duplicate that never returns, or requests parked in a leaf that cannot finish because a
        # server lock was left held, keep goroutines blocked: the trace says so, TLC judges)
        hung = hang_ok and ('"ev":"duphang"' in txt or '"lockleak":true' in txt)
        if not hung:
            raise vlib.Infra("nfs41 driver %s failed:\n%s" % (test, o[-3000:]))
        vlib.log("nfs41 %s: a duplicate request never returned or a server lock was left held (logged; the runtime reported the blocked goroutines)" % test)
    return out


def run_parts(ctx, design=True):
    """Design check + conformance of the real NFSv4.1 server. Appends to
    ctx.violations / ctx.cov; the caller calls vlib.finish."""
    if design:
        q, t = MC.get(ctx.prop, ([], []))
        for cfg in q + ([] if ctx.quick() else t):
            vlib.design_check(ctx, SPEC, cfg, [], timeout=3000, workers=2, heap="3g")
    binary = vlib.go_build_test(ctx, "nfs41")
    quick = ctx.quick()
    # VERIF_NFS41_ONLY=scen,inflight,rinflight,random restricts the drivers (for iterating).
    only = [x for x in os.environ.get("VERIF_NFS41_ONLY", "").split(",") if x]
    # 1. scripted special cases
    if not only or "scen" in only:
        out = _driver(ctx, binary, "TestScenarios", "scen")
        _validate(ctx, out, "scen")
    # 2. I/O in flight, duplicates of requests in flight
    if not only or "inflight" in only:
        out = _driver(ctx, binary, "TestInFlight", "inflight", hang_ok=True)
        _validate(ctx, out, "inflight")
    # 2b. seeded random histories with READ/WRITE requests held inside the leaf
    # and duplicates of them, while everything else goes on
    if not only or "rinflight" in only:
        out = _driver(ctx, binary, "TestRandomInFlight", "rinflight",
                      env={"VERIF_N": 20 if quick else 80, "VERIF_STEPS": 80}, hang_ok=True)
        _validate(ctx, out, "rinflight", max_failures=25)
    # 3. seeded random multi-client histories
    if not only or "random" in only:
        n = 40 if quick else 150
        steps = 70 if quick else 90
        out = _driver(ctx, binary, "TestRandom", "random", env={"VERIF_N": n, "VERIF_STEPS": steps})
        _validate(ctx, out, "random", timeout=3000, max_failures=min(n + 2, 45))
    ctx.assumptions.append(
        "NFSv4.1: byte contents of READ/WRITE, attribute encoding, READDIR/LINK/CREATE and backchannel operations are "
        "not modelled; a request 'differs in content' when its sequence of operation types differs (a request with the "
        "same slot, sequence ID and operation types but other arguments may get the cached reply or be rejected, and "
        "must have no side effects); the same lock-owner locking one file through two different open-owners is only "
        "exercised by the scripted histories; the lockable offsets are 0 .. 2^64-2: with exclusive end "
        "offsets [x, 2^64-1) and 'x through end of file' are the same table entry, so 'through end of file' means through "
        "offset 2^64-2; the byte at offset 2^64-1 is addressed only by a request that starts there, which a server may "
        "refuse with any error; if such requests are granted, who holds that byte is kept as ghost state and two owners "
        "must not both be granted it unless both locks are shared (and LOCKT must not report 'no conflict' against it)")
    return RULE


def run(ctx):
    rule = run_parts(ctx)
    return vlib.finish(ctx, rule=rule, explanation="reference-model conformance of the NFSv4.1 server", exhaustive=True)


def replay(ctx, path):
    vlib.validate_traces(ctx, path, TRACE, TRACE_CFG, [SPEC], "replay", classify=vlib.classify_for(ctx.prop))
    return vlib.finish(ctx, rule="replay of a saved trace", explanation="replay")
