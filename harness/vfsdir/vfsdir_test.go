package vfsdir

import (
	"bufio"
	"encoding/json"
	"os"
	"path/filepath"
	"sort"
	"testing"

	"verif/harness/common"
)

type config struct {
	alloc   string
	ci, hid bool
	shuffle bool
}

func configOf(i int) config {
	return config{
		alloc:   []string{"fuse", "nfs"}[i%2],
		ci:      (i/2)%2 == 1,
		hid:     (i/4)%4 != 3,
		shuffle: (i/16)%2 == 1,
	}
}

// TestRandom: seeded random histories mixing kernel-facing and
// worker-facing calls over a handful of names and directories, with
// paginated listings interleaved with the mutations.
func TestRandom(t *testing.T) {
	traces := common.EnvInt("VERIF_N", 20)
	steps := common.EnvInt("VERIF_STEPS", 60)
	first := common.EnvInt("VERIF_FIRST", 0) // batches: traces first .. first+N-1
	tr := common.NewTrace("trace.ndjson")
	defer tr.Close()
	for i := first; i < first+traces; i++ {
		cfg := configOf(i)
		w := newWorld(tr, cfg.alloc, cfg.ci, cfg.hid, cfg.shuffle)
		g := &gen{w: w, rng: common.Rand(int64(i))}
		w.reset(i)
		for j := 0; j < steps && !w.broken; j++ {
			o := g.next()
			c := w.do(o)
			g.after(o, c)
		}
		if !w.broken && g.rng.Intn(3) == 0 {
			// Last call of the trace: try to move a directory
			// into its own subtree.
			live := w.liveDirs()
			for try := 0; try < 50 && len(live) > 0; try++ {
				d, d2 := live[g.rng.Intn(len(live))], live[g.rng.Intn(len(live))]
				n := g.name()
				if w.cyclic(d, n, d2) {
					w.do(op{Op: "rename", D: d, N: n, D2: d2, N2: g.name()})
					break
				}
			}
		}
	}
	common.WriteJSON("meta.json", map[string]any{"traces": traces, "steps": steps})
}

// ---------------------------------------------------------------------
// Exhaustive enumeration of short sequences from several seed states.

type seedState struct {
	name string
	cfg  config
	ops  []op
}

func tmpl(n, k string, sub ...child) child {
	t := ""
	if k == "symlink" {
		t = "t0"
	}
	return child{N: n, K: k, C: -1, T: t, Sub: append([]child{}, sub...)}
}

var seedStates = []seedState{
	{"empty", config{alloc: "fuse", hid: true}, nil},
	{"mixed", config{alloc: "nfs", hid: true}, []op{
		{Op: "mkdir", D: 0, N: "a"},         // dir 1
		{Op: "open", D: 0, N: "b", A: true}, // leaf 0
		{Op: "link", D: 0, N: "c", C: 0},    // second name of leaf 0
		{Op: "open", D: 1, N: "a", A: true}, // leaf 1
		{Op: "mknod", D: 0, N: "_h", K: "symlink", T: "t0"},
		{Op: "mkdir", D: 1, N: "b"}, // dir 2, empty
	}},
	{"ci-hidden", config{alloc: "fuse", ci: true, hid: true}, []op{
		{Op: "mkdir", D: 0, N: "A"},          // dir 1
		{Op: "open", D: 0, N: "b", A: true},  // leaf 0
		{Op: "open", D: 1, N: "_h", A: true}, // leaf 1: dir 1 holds a hidden file only
		{Op: "link", D: 1, N: "B", C: 0},
		{Op: "vremove", D: 1, N: "b", B: true}, // dir 1 again only hidden
	}},
	{"lazy-and-removed", config{alloc: "nfs", hid: true}, []op{
		{Op: "create", D: 0, Ch: []child{tmpl("a", "d", tmpl("a", "file"), tmpl("b", "d")), tmpl("c", "file")}},
		{Op: "mkdir", D: 0, N: "b"},
		{Op: "vremove", D: 0, N: "b", A: true}, // a removed directory the driver keeps using
		{Op: "lookup", D: 0, N: "c"},
	}},
}

// menu lists the calls that are tried from the current state.
func menu(w *world, names []string, full bool) []op {
	out := []op{}
	dirs := w.active()
	leaves := w.leafIDs()
	if len(leaves) > 2 {
		leaves = leaves[:2]
	}
	for _, d := range dirs {
		for _, n := range names {
			out = append(out,
				op{Op: "mkdir", D: d, N: n},
				op{Op: "open", D: d, N: n, A: true},
				op{Op: "vremove", D: d, N: n, A: true, B: true},
				op{Op: "removeall", D: d, N: n},
				op{Op: "enter", D: d, N: n},
				op{Op: "create", D: d, A: true, Ch: []child{tmpl(n, "file")}},
			)
			for _, l := range leaves {
				out = append(out, op{Op: "link", D: d, N: n, C: l})
			}
			for _, d2 := range dirs {
				for _, n2 := range names {
					if !w.cyclic(d, n, d2) {
						out = append(out, op{Op: "rename", D: d, N: n, D2: d2, N2: n2})
					}
				}
			}
			if full {
				out = append(out,
					op{Op: "lookup", D: d, N: n},
					op{Op: "lookup", D: d, N: n, A: true}, // change id requested: the child directory is locked
					op{Op: "lookupchild", D: d, N: n},
					op{Op: "mknod", D: d, N: n, K: "fifo"},
					op{Op: "mknod", D: d, N: n, K: "symlink", T: "t0"},
					op{Op: "mknod", D: d, N: n, K: "chr"},
					op{Op: "open", D: d, N: n, B: true},
					op{Op: "open", D: d, N: n, A: true, B: true},
					op{Op: "vremove", D: d, N: n, A: true},
					op{Op: "vremove", D: d, N: n, B: true},
					op{Op: "remove", D: d, N: n},
					op{Op: "create", D: d, Ch: []child{tmpl(n, "d", tmpl("a", "file")), tmpl("c", "symlink")}},
					op{Op: "create", D: d, A: true, Ch: []child{tmpl(n, "d", tmpl("_h", "file"))}},
				)
			}
		}
		if full {
			// the hidden name resolves, whichever attributes are asked for
			out = append(out, op{Op: "lookup", D: d, N: "_h"}, op{Op: "lookup", D: d, N: "_h", A: true})
		}
		out = append(out,
			op{Op: "clear", D: d},
			op{Op: "filter", D: d, Rm: map[int]bool{1: true, 2: true, 3: true, 4: true, 5: true}})
		if full {
			out = append(out,
				op{Op: "clear", D: d, A: true},
				op{Op: "listall", D: d}, op{Op: "readdirbulk", D: d},
				op{Op: "filter", D: d},
				op{Op: "filter", D: d, Rm: map[int]bool{1: true}, StopAt: 1},
				op{Op: "setattr", D: d, K: "size"}, op{Op: "setattr", D: d, K: "other"},
				op{Op: "readdir", D: d, Page: 1, Sid: -1}, op{Op: "readdir", D: d, Page: 2, Sid: -1},
				op{Op: "readdir", D: d, Page: 3, Sid: -1, A: true}, // change ids of the child directories requested
			)
			for _, e := range w.state(d).ListEntries {
				out = append(out, op{Op: "readdir", D: d, Ck: e.Cookie + 1, Page: 1, Sid: -1})
			}
		}
	}
	return out
}

type enumerator struct {
	tr        *common.Trace
	seed      seedState
	names     []string
	sequences int
	stride    int // inner levels continue from every stride-th call only
	offset    int
}

func (e *enumerator) build(prefix []op) *world {
	w := newWorld(nil, e.seed.cfg.alloc, e.seed.cfg.ci, e.seed.cfg.hid, false)
	for _, o := range e.seed.ops {
		w.do(o)
	}
	for _, o := range prefix {
		w.do(o)
	}
	return w
}

// run tries every call of the menu after the prefix; full menus at the
// last level, mutating calls only at the inner levels.
func (e *enumerator) run(prefix []op, depth int) {
	w := e.build(prefix)
	if w.broken {
		return
	}
	for i, o := range menu(w, e.names, depth == 1) {
		if depth > 1 && i%e.stride != e.offset%e.stride {
			continue
		}
		w2 := e.build(prefix)
		w2.tr = e.tr
		w2.jump()
		w2.do(o)
		e.sequences++
		if depth > 1 && !w2.broken {
			e.run(append(append([]op{}, prefix...), o), depth-1)
		}
	}
}

// TestEnumerate: all sequences of calls up to VERIF_DEPTH from each seed
// state; each last call is logged as jump(state) + call.
func TestEnumerate(t *testing.T) {
	depth := common.EnvInt("VERIF_DEPTH", 2)
	wide := common.EnvInt("VERIF_WIDE", 0) == 1
	tr := common.NewTrace("trace.ndjson")
	defer tr.Close()
	meta := map[string]any{}
	for i, s := range seedStates {
		// the seed itself is validated as an ordinary trace
		w := newWorld(tr, s.cfg.alloc, s.cfg.ci, s.cfg.hid, false)
		w.reset(i)
		for _, o := range s.ops {
			w.do(o)
		}
		names := []string{"a", "b"}
		if s.cfg.ci {
			names = []string{"A", "b"}
		}
		if wide {
			names = append(names, "_h")
		}
		stride := common.EnvInt("VERIF_STRIDE", 1)
		e := &enumerator{tr: tr, seed: s, names: names, stride: stride, offset: int(common.Seed())}
		d := depth
		if !wide && stride > 1 && i != 1 && i != 3 && d > 1 {
			d = 1 // quick: longer sequences from the "mixed" and the "lazy" seed only
		}
		if i == 3 && stride > 1 {
			e.stride = 2 * stride
		}
		if d > 1 {
			// all single calls first, then the longer sequences
			e1 := &enumerator{tr: tr, seed: s, names: names, stride: 1}
			e1.run(nil, 1)
			meta[s.name+"/1"] = e1.sequences
		}
		e.run(nil, d)
		meta[s.name] = e.sequences
	}
	common.WriteJSON("meta.json", map[string]any{"sequences": meta, "depth": depth, "exhaustive": true})
}

// ---------------------------------------------------------------------
// Replay of behaviours of the specification (tlc -simulate of VFSDirSim).

type histRec struct {
	Op  string  `json:"op"`
	D   int     `json:"d"`
	N   string  `json:"n"`
	D2  int     `json:"d2"`
	N2  string  `json:"n2"`
	A   bool    `json:"a"`
	B   bool    `json:"b"`
	C   int     `json:"c"`
	New int     `json:"new"`
	Ch  []child `json:"ch"`
}

type replayer struct {
	w     *world
	mdir  map[int]int
	mleaf map[int]int
	sess  session
}

// the specification's hidden name "b" is the driver's "_h"
func specName(n string) string {
	if n == "b" {
		return "_h"
	}
	return n
}

func (r *replayer) children(ch []child) []child {
	out := []child{}
	for _, c := range ch {
		x := child{N: specName(c.N), K: c.K, T: c.T}
		switch c.K {
		case "d":
			x.C = r.w.reserveDir()
			r.mdir[c.C] = x.C
		case "symlink":
			x.C = r.w.symLeaf(c.T)
			r.mleaf[c.C] = x.C
		default:
			x.C = r.w.reserveLeaf()
			r.mleaf[c.C] = x.C
		}
		x.Sub = r.children(c.Sub)
		out = append(out, x)
	}
	return out
}

// step replays one call of the specification; it returns false if the
// call could not be driven (its objects never came into existence).
func (r *replayer) step(h histRec) bool {
	w := r.w
	d, ok := r.mdir[h.D]
	if !ok || d >= len(w.dirs) || w.dirs[d] == nil {
		return false
	}
	o := op{Op: h.Op, D: d, N: specName(h.N), A: h.A, B: h.B}
	switch h.Op {
	case "mknod":
		o.K = h.N2
		if o.K == "symlink" {
			o.T = "t0"
		}
	case "link":
		l, ok := r.mleaf[h.C]
		if !ok || w.leafObj[l] == nil {
			return false
		}
		o.C = l
	case "rename":
		d2, ok := r.mdir[h.D2]
		if !ok || d2 >= len(w.dirs) || w.dirs[d2] == nil {
			return false
		}
		o.D2, o.N2 = d2, specName(h.N2)
	case "setattr":
		o.K, o.N = h.N, ""
	case "create":
		o.Ch = r.children(h.Ch)
	case "filter":
		o.Rm = map[int]bool{}
		for i := 1; i <= h.C && h.A; i++ {
			o.Rm[i] = true
		}
		o.StopAt = h.C
		if h.C == 0 {
			o.StopAt = 1
		}
	case "readdir":
		o.Page, o.Sid = h.New, 0
		if !h.A || !r.sess.on || r.sess.d != d {
			r.sess = session{on: true, d: d, page: h.New}
			o.First = true
		}
		o.Ck = r.sess.ck
	}
	c := w.do(o)
	switch h.Op {
	case "mkdir", "enter":
		if c.New >= 0 {
			r.mdir[h.New] = c.New
		} else if c.Ret.K == "d" {
			r.mdir[h.New] = c.Ret.C
		}
	case "mknod", "open":
		if c.New >= 0 {
			r.mleaf[h.New] = c.New
		}
	case "readdir":
		if c.More && len(c.List) > 0 {
			r.sess.ck = c.List[len(c.List)-1].Ck
		} else {
			r.sess.on = false
		}
	}
	return true
}

// TestReplay: spec -> code. Every behaviour file in VERIF_BEH_DIR is
// replayed on a fresh hierarchy of the configuration the behaviours were
// generated for (VERIF_BEH_CI, VERIF_BEH_HID), alternating allocators.
func TestReplay(t *testing.T) {
	dir := common.Env("VERIF_BEH_DIR", "")
	files, _ := filepath.Glob(filepath.Join(dir, "beh_*.ndjson"))
	sort.Strings(files)
	tr := common.NewTrace("trace.ndjson")
	defer tr.Close()
	ci := common.EnvInt("VERIF_BEH_CI", 1) == 1
	hid := common.EnvInt("VERIF_BEH_HID", 1) == 1
	driven, skipped := 0, 0
	for i, f := range files {
		fh, err := os.Open(f)
		if err != nil {
			t.Fatal(err)
		}
		w := newWorld(tr, []string{"fuse", "nfs"}[i%2], ci, hid, false)
		w.reset(i)
		r := &replayer{w: w, mdir: map[int]int{0: 0}, mleaf: map[int]int{}}
		sc := bufio.NewScanner(fh)
		sc.Buffer(make([]byte, 1<<20), 1<<24)
		for sc.Scan() && !w.broken {
			var h histRec
			if err := json.Unmarshal(sc.Bytes(), &h); err != nil {
				t.Fatalf("%s: %v", f, err)
			}
			if r.step(h) {
				driven++
			} else {
				skipped++
			}
		}
		fh.Close()
	}
	common.WriteJSON("meta.json", map[string]any{"behaviours": len(files), "calls_driven": driven, "calls_skipped": skipped})
}
