------------------------------ MODULE FilePool ------------------------------
(***************************************************************************)
(* Reference model of pkg/filesystem/pool (property C15):                  *)
(*   block_device_backed_file_pool.go, bitmap_sector_allocator.go,         *)
(*   quota_enforcing_file_pool.go, hole_source.go.                         *)
(*                                                                         *)
(* FilePoolOps.tla defines what the property promises as pure operators on *)
(* an *abstract file*: a sparse byte array with a size, a hole source and  *)
(* the set of sector-sized blocks that hold data.  FilePoolTrace.tla uses  *)
(* these operators to judge what the real code replied.                    *)
(*                                                                         *)
(* This module is the design of the real code: a device made of sectors    *)
(* with contents that survive being freed, a free set, per file a map     *)
(* from sector index to device sector, quota counters, a fault budget; one *)
(* action per public call (NewFile, WriteAt, Truncate, Close).  TLC checks *)
(* that what the sector maps *denote* is the abstract file, that no sector *)
(* has two owners and that sectors and quota are conserved, also after     *)
(* failed calls.                                                           *)
(*                                                                         *)
(* Assumption (contract of NewFile as used by copy-on-write callers): the  *)
(* hole source is not longer than the size the file is created with.       *)
(***************************************************************************)
EXTENDS FilePoolOps

-----------------------------------------------------------------------------
(* The design.                                                             *)

CONSTANTS Files,      \* file handles, e.g. {1, 2}; also used as byte values
          MO,         \* offsets are 0 .. MO-1
          SS,         \* sector size
          NSec,       \* device sectors are 1 .. NSec
          MaxFilesQ,  \* file count quota
          MaxBytesQ,  \* byte quota
          MaxFaults,  \* how many injected failures a behaviour may contain
          PatLen,     \* the non-trivial hole source: bytes 0 .. PatLen-1 ...
          PatByte     \* ... have this value at even offsets, 0 at odd ones

Offsets == 0 .. (MO - 1)
Sectors == 1 .. NSec
Idx     == 0 .. (SectorsFor(MO, SS) - 1)

ThePat == [o \in Offsets |-> IF o < PatLen /\ o % 2 = 0 THEN PatByte ELSE 0]

VARIABLES fl,      \* [Files -> abstract file]
          smap,    \* [Files -> [Idx -> 0 .. NSec]]: device sector of a block, 0 = hole
          dev,     \* [Sectors -> [0 .. SS-1 -> byte]]: device contents
          free,    \* free device sectors
          fr, br,  \* quota counters: files / bytes remaining
          faults,  \* injected failures so far
          reply    \* outcome of the last call

vars == <<fl, smap, dev, free, fr, br, faults, reply>>

NoMap == [i \in Idx |-> 0]

\* Contents of a sector that is given back are of no interest until somebody
\* sees them, in which case it does not matter whose they were: they are
\* represented by the value 9 ("stale").  This keeps the state space small.
Stale == [j \in 0 .. (SS - 1) |-> 9]
Scrub(d, S) == [s \in Sectors |-> IF s \in S THEN Stale ELSE d[s]]
Owned(f) == {smap[f][i] : i \in Idx} \ {0}
Mapped(f) == {i \in Idx : smap[f][i] # 0}

\* What file f denotes at offset o: the device if the block is mapped,
\* else the hole source.
Den(f, o) ==
  IF smap[f][o \div SS] # 0 THEN dev[smap[f][o \div SS]][o % SS]
  ELSE HSAt(fl[f].pat, fl[f].hlen, o)

Init ==
  /\ fl = [f \in Files |-> ClosedFile(MO)]
  /\ smap = [f \in Files |-> NoMap]
  \* whatever was on the device before must never be seen
  /\ dev = [s \in Sectors |-> Stale]
  /\ free = Sectors
  /\ fr = MaxFilesQ /\ br = MaxBytesQ
  /\ faults = 0
  /\ reply = "init"

\* quotaEnforcingFilePool.NewFile over a base pool that may fail.
NewFile(f, usePat, size) ==
  /\ ~fl[f].open
  /\ \/ /\ fr > 0 /\ size <= br
        /\ fl' = [fl EXCEPT ![f] = IF usePat THEN FNew(ThePat, Min(PatLen, size), size, MO)
                                   ELSE FNew(ZeroFn(MO), 0, size, MO)]
        /\ smap' = [smap EXCEPT ![f] = NoMap]
        /\ fr' = fr - 1 /\ br' = br - size
        /\ reply' = "ok"
        /\ UNCHANGED faults
     \/ /\ ~(fr > 0 /\ size <= br)
        /\ reply' = "quota"
        /\ UNCHANGED <<fl, smap, fr, br, faults>>
     \/ \* the base pool fails: both quota counters are given back
        /\ fr > 0 /\ size <= br /\ faults < MaxFaults
        /\ faults' = faults + 1
        /\ reply' = "fault"
        /\ UNCHANGED <<fl, smap, fr, br>>
  /\ UNCHANGED <<dev, free>>

\* WriteAt(f, off, cnt bytes of value v) storing n bytes.  `asg` maps the
\* blocks that become data to the free device sectors they get.  A new
\* sector is written in full: the data padded with hole source contents.
DoWrite(f, off, cnt, v, n, asg) ==
  LET data == [i \in 1 .. cnt |-> v]
      new  == DOMAIN asg
      inRange(o) == off <= o /\ o < off + n
  IN
    /\ fl' = [fl EXCEPT ![f] = FWrite(fl[f], off, data, n, SS)]
    /\ smap' = [smap EXCEPT ![f] = [i \in Idx |-> IF i \in new THEN asg[i] ELSE smap[f][i]]]
    /\ free' = free \ {asg[i] : i \in new}
    /\ dev' = [s \in Sectors |->
                 IF \E i \in new : asg[i] = s
                 THEN LET i == CHOOSE i \in new : asg[i] = s IN
                        [j \in 0 .. (SS - 1) |->
                           IF inRange(i * SS + j) THEN v
                           ELSE HSAt(fl[f].pat, fl[f].hlen, i * SS + j)]
                 ELSE IF \E i \in Idx : smap[f][i] = s
                 THEN LET i == CHOOSE i \in Idx : smap[f][i] = s IN
                        [j \in 0 .. (SS - 1) |->
                           IF inRange(i * SS + j) THEN v ELSE dev[s][j]]
                 ELSE dev[s]]
    /\ br' = br - (fl'[f].size - fl[f].size)

NewIdx(f, off, n) == {i \in SecsCovering(off, n, SS) : smap[f][i] = 0}

\* The call stops early at byte off+n because the block holding that byte
\* needs a new sector (it is a hole and no earlier byte of this call is in
\* it).
StopsAtNewSector(f, off, n) ==
  LET j == (off + n) \div SS IN
    smap[f][j] = 0 /\ (n = 0 \/ (off + n) % SS = 0)

WriteAt(f, off, cnt, v) ==
  /\ fl[f].open
  /\ off + cnt <= MO
  /\ UNCHANGED fr
  /\ IF off + cnt > fl[f].size /\ off + cnt - fl[f].size > br
     THEN \* quota refused, nothing happens
          /\ reply' = "quota"
          /\ UNCHANGED <<fl, smap, dev, free, br, faults>>
     ELSE \E n \in 0 .. cnt :
          \E asg \in UNION {[NewIdx(f, off, n) -> S] : S \in SUBSET free} :
            /\ \A i1, i2 \in DOMAIN asg : i1 # i2 => asg[i1] # asg[i2]
            /\ \/ /\ n = cnt /\ reply' = "ok" /\ UNCHANGED faults
               \/ \* the allocator has nothing left for the next block
                  /\ n < cnt /\ StopsAtNewSector(f, off, n)
                  /\ free \ {asg[i] : i \in DOMAIN asg} = {}
                  /\ reply' = "exhausted" /\ UNCHANGED faults
               \/ \* device write / hole source read failed while storing a
                  \* run of new sectors (they are given back), or the
                  \* device failed while overwriting
                  /\ n < cnt /\ faults < MaxFaults
                  /\ (n = 0 \/ (off + n) % SS = 0)
                  /\ faults' = faults + 1 /\ reply' = "fault"
            /\ DoWrite(f, off, cnt, v, n, asg)

\* Truncate(f, s).
Truncate(f, s) ==
  /\ fl[f].open
  /\ UNCHANGED fr
  /\ LET old == fl[f].size
         keep == SectorsFor(s, SS)         \* blocks 0 .. keep-1 survive
         gone == {i \in Idx : i >= keep /\ smap[f][i] # 0}
         last == s \div SS
         zeroTail == s < old /\ s % SS # 0 /\ smap[f][last] # 0
         \* the real code clears from s to the old size or the sector end
         zeroed(j) == s % SS <= j /\ j < Min(SS, (s % SS) + (old - s))
         devZ == IF zeroTail
                 THEN [dev EXCEPT ![smap[f][last]] = [j \in 0 .. (SS - 1) |-> IF zeroed(j) THEN 0 ELSE @[j]]]
                 ELSE dev
         smapT == [smap EXCEPT ![f] = [i \in Idx |-> IF i >= keep THEN 0 ELSE smap[f][i]]]
     IN
       IF s > old /\ s - old > br
       THEN /\ reply' = "quota"
            /\ UNCHANGED <<fl, smap, dev, free, br, faults>>
       ELSE \/ /\ fl' = [fl EXCEPT ![f] = FTrunc(fl[f], s, SS)]
               /\ dev' = Scrub(devZ, {smap[f][i] : i \in gone}) /\ smap' = smapT
               /\ free' = free \cup {smap[f][i] : i \in gone}
               /\ br' = br + old - s
               /\ reply' = "ok" /\ UNCHANGED faults
            \/ \* clearing the tail of the last sector failed: nothing changed
               /\ zeroTail /\ faults < MaxFaults
               /\ faults' = faults + 1 /\ reply' = "fault"
               /\ fl' = [fl EXCEPT ![f] = FTruncFailed(fl[f], s)]
               /\ UNCHANGED <<smap, dev, free, br>>
            \/ \* the hole source refused to shrink: sectors are gone,
               \* size and quota are unchanged
               /\ s < old /\ fl[f].hlen > 0 /\ faults < MaxFaults
               /\ faults' = faults + 1 /\ reply' = "fault"
               /\ fl' = [fl EXCEPT ![f] = [FTruncFailed(fl[f], s) EXCEPT !.asec = {i \in @ : i < keep}]]
               /\ dev' = Scrub(devZ, {smap[f][i] : i \in gone}) /\ smap' = smapT
               /\ free' = free \cup {smap[f][i] : i \in gone}
               /\ UNCHANGED br

\* Close(f) releases everything, also when closing the hole source fails.
Close(f) ==
  /\ fl[f].open
  /\ fl' = [fl EXCEPT ![f] = ClosedFile(MO)]
  /\ free' = free \cup Owned(f)
  /\ smap' = [smap EXCEPT ![f] = NoMap]
  /\ fr' = fr + 1 /\ br' = br + fl[f].size
  /\ \/ reply' = "ok" /\ UNCHANGED faults
     \/ faults < MaxFaults /\ faults' = faults + 1 /\ reply' = "fault"
  /\ dev' = Scrub(dev, Owned(f))

Next ==
  \E f \in Files :
    \/ \E usePat \in BOOLEAN : \E size \in 0 .. MO : NewFile(f, usePat, size)
    \/ \E off \in Offsets : \E cnt \in 1 .. MO : WriteAt(f, off, cnt, f)
    \/ \E s \in 0 .. MO : Truncate(f, s)
    \/ Close(f)

Spec == Init /\ [][Next]_vars

\* the reply does not influence the future
View == <<fl, smap, dev, free, fr, br, faults>>

-----------------------------------------------------------------------------
(* The clauses of C15, on the design.                                      *)

TypeOK ==
  /\ free \subseteq Sectors
  /\ \A f \in Files : smap[f] \in [Idx -> 0 .. NSec]
  /\ fr \in 0 .. MaxFilesQ /\ br \in 0 .. MaxBytesQ
  /\ \A f \in Files : fl[f].size \in 0 .. MO /\ fl[f].hlen <= fl[f].size

\* No device sector has two owners (two files, two blocks of one file, or
\* a file and the free set).
C15_NoSectorOwnedTwice ==
  /\ \A f \in Files : \A i1, i2 \in Idx :
       (i1 # i2 /\ smap[f][i1] # 0) => smap[f][i1] # smap[f][i2]
  /\ \A f1, f2 \in Files : f1 # f2 => Owned(f1) \cap Owned(f2) = {}
  /\ \A f \in Files : Owned(f) \cap free = {}

\* Reads return the last written bytes, else the hole source's contents;
\* beyond the size the stored bytes are what a later grow must show.
C15_ReadsDenoteFile ==
  \A f \in Files : fl[f].open =>
    \A o \in Offsets : o \in fl[f].unk \/ Den(f, o) = fl[f].cont[o]

\* No byte of another file or of the device's past is visible.
C15_Isolation ==
  \A f \in Files : fl[f].open =>
    \A o \in Offsets : o \in fl[f].unk \/ Den(f, o) \in {0, f, PatByte}

\* Blocks with data are exactly the mapped ones, and only within the size.
C15_SectorsMatchData ==
  \A f \in Files :
    /\ fl[f].open /\ fl[f].unk = {} => Mapped(f) = fl[f].asec
    /\ \A i \in Mapped(f) : i < SectorsFor(fl[f].size, SS)
    /\ ~fl[f].open => Mapped(f) = {}

RECURSIVE SumSizes(_)
SumSizes(T) ==
  IF T = {} THEN 0 ELSE LET x == CHOOSE x \in T : TRUE IN fl[x].size + SumSizes(T \ {x})

\* Sectors and quota are conserved at every moment, hence in particular
\* everything is available again when all files are closed.
C15_Conservation ==
  /\ free \cup UNION {Owned(f) : f \in Files} = Sectors
  /\ br = MaxBytesQ - SumSizes({f \in Files : fl[f].open})
  /\ fr = MaxFilesQ - Cardinality({f \in Files : fl[f].open})
  /\ (\A f \in Files : ~fl[f].open) => (free = Sectors /\ fr = MaxFilesQ /\ br = MaxBytesQ)
=============================================================================
