SPECIFICATION Spec
CONSTANTS
  Owners = {"A"}
  Vers = {1}
  OOs = {"o1"}
  LOs = {"l1"}
  Names = {"a"}
  MaxFile = 1
  N = 1
  NSlots = 1
  MaxOps = 3
  Lease = 1
  SessIds = {1}
  Ctxs = {1, 2, 3}
  Deferred = FALSE
  InitFH <- NoFH
  MaxOther = 3
  MaxSeq = 2
  MaxClock = 0
  MaxAcc = 3
  Family = "C19"
CONSTRAINT Bound
INVARIANTS
  C18_Balance
  C18_StateIds
  C19_Once
  C19_InFlight
PROPERTIES
  C19_NoEffect
  C19_Same
VIEW MCView
CHECK_DEADLOCK FALSE
