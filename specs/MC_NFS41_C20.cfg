SPECIFICATION Spec
CONSTANTS
  Owners = {"A", "B"}
  Vers = {1}
  OOs = {"o1"}
  LOs = {"l1"}
  Names = {"a"}
  MaxFile = 1
  N = 2
  NSlots = 1
  MaxOps = 4
  Lease = 1
  SessIds = {1, 2}
  Ctxs = {"A", "B"}
  Deferred = FALSE
  InitFH = 1
  MaxOther = 4
  MaxSeq = 2
  MaxClock = 0
  MaxAcc = 2
  Family = "C20q"
CONSTRAINT Bound
INVARIANTS
  C18_Balance
  C18_StateIds
  C18_Final
  C20_Exclusion
  C20_Accounted
VIEW MCView
CHECK_DEADLOCK FALSE
