------------------------ MODULE OutputHierarchyTrace ------------------------
(***************************************************************************)
(* Validates what the real OutputHierarchy did (harness/outputs) against   *)
(* the reference model OutputHierarchy.tla (property C10).                 *)
(*                                                                         *)
(* One trace = one case:                                                   *)
(*   reset    the command (working directory, output paths) and the input  *)
(*            root as given                                                *)
(*   new      NewOutputHierarchy returned (err)                            *)
(*   parents  CreateParentDirectories returned (err) + the tree that       *)
(*            exists afterwards, before the command runs                   *)
(*   prerun   (executor mode, instead of new + parents) the real executor  *)
(*            invoked the runner or not + the tree at that point           *)
(*   upload   UploadOutputs returned (err) + the tree that exists + the    *)
(*            decoded ActionResult with every Tree blob decoded            *)
(*   panic    the real code panicked                                       *)
(* Every line is consumed; `verdict` names the first clause of C10 that    *)
(* the observation breaks ("C10:<reason>"), or "NC:<reason>" for things    *)
(* the model does not expect but the statement does not forbid.            *)
(***************************************************************************)
EXTENDS OutputHierarchy, Json, TLCExt

TraceLog == ndJsonDeserialize("trace.ndjson")

VARIABLES l,        \* next line of TraceLog
          verdict   \* "ok" or why the last consumed line is wrong

tvars == <<phase, cmd, pre, fs, result, l, verdict>>

Line == TraceLog[l]
IsEvent(e) == l <= Len(TraceLog) /\ Line.ev = e /\ l' = l + 1

TreeOf(es) ==
  {[path |-> e.path, kind |-> e.kind, exec |-> e.exec, target |-> e.target, cid |-> e.cid] :
     e \in Range(es)}

ResultOf(L) ==
  [err      |-> L.err,
   files    |-> L.files,
   symlinks |-> L.symlinks,
   legacy   |-> L.legacy,
   dirs     |-> [i \in DOMAIN L.dirs |->
                   [path |-> L.dirs[i].path, found |-> L.dirs[i].found,
                    rootset |-> L.dirs[i].rootdid # "", rootdid |-> L.dirs[i].rootdid,
                    rootstored |-> L.dirs[i].rootstored, junk |-> L.dirs[i].junk,
                    tree |-> L.dirs[i].tree]]]

NoCommand == [wd |-> [s |-> "", c |-> <<>>], paths |-> <<>>]

\* The harness itself must hand over a well-formed observation.
Observed(t) ==
  IF TreeOK(t) THEN TRUE ELSE Assert(FALSE, <<"harness: observed tree is ill-formed", t>>)

-----------------------------------------------------------------------------
(* Why an upload is wrong: the first clause of the statement it breaks.    *)

TreeVerdict(c, t, d) ==
  IF ~d.found THEN "C10:tree-blob-missing-or-undecodable"
  ELSE IF ~TreeRootFirst(d.tree) THEN "C10:tree-root-not-first"
  ELSE IF ~TreeChildrenOnce(d.tree) THEN "C10:tree-child-not-present-exactly-once"
  ELSE IF ~TreeParentsFirst(d.tree) THEN "C10:tree-child-before-parent"
  ELSE IF ~TreeNoUnreferenced(d.tree) THEN "C10:tree-unreferenced-entry"
  ELSE IF ~TreeUniqueNames(d.tree) THEN "C10:tree-does-not-denote-directory"
  ELSE IF Denotes(d.tree) # ExpectedDirTree(c, t, d.path) THEN "C10:tree-does-not-denote-directory"
  ELSE IF d.rootset /\ d.rootdid # d.tree[1].did THEN "C10:wrong-root-directory-digest"
  ELSE "ok"

UploadVerdict(c, t, r) ==
  LET U  == UnspecifiedStrings(c, t)
      RF == {f \in ReportedFiles(r) : f.path \notin U}
      EF == {f \in ExpectedFiles(c, t) : f.path \notin U}
      RS == {s \in ReportedSymlinks(r) : s.path \notin U}
      RL == {s \in ReportedLegacy(r) : s.path \notin U}
      ES == {s \in ExpectedSymlinks(c, t) : s.path \notin U}
      RD == ReportedDirs(r) \ U
      ED == ExpectedDirs(c, t) \ U
      \* <<declared path, kind>>
      RK == {<<f.path, "file">> : f \in RF} \cup {<<s.path, "symlink">> : s \in RS}
            \cup {<<d, "dir">> : d \in RD}
      LK == {<<s.path, "symlink">> : s \in RL}
      EK == {<<x[1], x[2]>> : x \in {y \in Expected(c, t) : y[1] \notin U}}
      judged == {d \in Range(r.dirs) : d.path \in ED}
      badTrees == {d \in judged : TreeVerdict(c, t, d) # "ok"}
  IN
  IF ~(ReportedPaths(r) \subseteq Declared(c)) THEN "C10:reported-path-was-not-declared"
  ELSE IF \E k \in RK \cup LK : k[1] \notin {e[1] : e \in EK} THEN "C10:missing-output-reported"
  ELSE IF \E k \in RK \cup LK : k \notin EK THEN "C10:wrong-kind-reported"
  ELSE IF \E e \in EK : e \notin RK THEN "C10:existing-output-not-reported"
  ELSE IF \E f \in RF : f \notin EF /\ (\E g \in EF : g.path = f.path /\ g.cid = f.cid)
       THEN "C10:wrong-executable-bit"
  ELSE IF RF # EF THEN "C10:wrong-content-digest"
  ELSE IF RS # ES \/ ~(RL \subseteq ES) THEN "C10:wrong-symlink-target"
  ELSE IF \E s \in Declared(c) : TimesReported(r, s) > DeclCount(c, s)
       THEN "C10:output-reported-more-often-than-declared"
  ELSE IF badTrees # {} THEN TreeVerdict(c, t, CHOOSE d \in badTrees : TRUE)
  ELSE IF \E f \in Range(r.files) : ~f.stored THEN "NC:output-file-blob-not-in-cas"
  ELSE IF \E d \in judged : d.rootset /\ ~d.rootstored THEN "NC:directory-blobs-not-in-cas"
  ELSE IF \E d \in judged : d.junk # 0 THEN "NC:tree-blob-has-unknown-fields"
  ELSE IF \E d \in judged : \E i \in DOMAIN d.tree : ~d.tree[i].sorted
       THEN "NC:directory-entries-not-sorted-by-name"
  ELSE "ok"

-----------------------------------------------------------------------------
TInit ==
  /\ phase = "declared" /\ cmd = NoCommand /\ pre = {} /\ fs = {} /\ result = NoResult
  /\ l = 1 /\ verdict = "ok"

\* A new case.
TReset ==
  /\ IsEvent("reset")
  /\ cmd' = [wd |-> Line.wd, paths |-> Line.paths]
  /\ LET t == TreeOf(Line.pre) IN Observed(t) /\ pre' = t /\ fs' = t
  /\ phase' = "declared"
  /\ result' = NoResult
  /\ verdict' = "ok"

\* NewOutputHierarchy returned.
TNew ==
  /\ IsEvent("new")
  /\ phase' = IF Line.err THEN "rejected" ELSE "accepted"
  /\ result' = [err |-> Line.err]
  /\ verdict' = IF Line.err /\ Valid(cmd) THEN "C10:valid-command-rejected"
                ELSE IF ~Line.err /\ ~Valid(cmd) THEN "C10:escaping-path-accepted"
                ELSE "ok"
  /\ UNCHANGED <<cmd, pre, fs>>

\* CreateParentDirectories returned.  An input root that has something
\* other than a directory where a parent directory must be is outside the
\* statement: anything goes.
TParents ==
  /\ IsEvent("parents")
  /\ LET t == TreeOf(Line.tree) IN
       /\ Observed(t)
       /\ fs' = t
       /\ phase' = IF ~Compatible(pre, cmd) THEN "unspecified"
                   ELSE IF Line.err THEN "failed" ELSE "prepared"
       /\ verdict' =
            IF ~Compatible(pre, cmd) THEN "ok"
            ELSE IF Line.err THEN "C10:parent-directories-not-created"
            ELSE IF ~C10_ParentsExist(cmd, t) THEN "C10:parent-directory-missing"
            ELSE IF ~C10_OutputsNotPrecreated(cmd, pre, t) THEN "C10:worker-created-an-output-itself"
            ELSE IF t # pre \cup {DirEntry(d) : d \in ParentDirs(cmd)}
                 THEN "NC:more-than-the-parent-directories-changed"
            ELSE "ok"
  /\ result' = [err |-> Line.err]
  /\ UNCHANGED <<cmd, pre>>

\* Executor mode: the real localBuildExecutor either invoked the runner
\* (ran; the tree is what the runner found) or returned without doing so
\* (the tree is what the input root looks like afterwards).
TPrerun ==
  /\ IsEvent("prerun")
  /\ LET t == TreeOf(Line.tree) IN
       /\ Observed(t)
       /\ fs' = t
       /\ phase' = IF ~Valid(cmd) THEN (IF Line.ran THEN "accepted" ELSE "rejected")
                   ELSE IF ~Compatible(pre, cmd) THEN "unspecified"
                   ELSE IF Line.ran THEN "prepared" ELSE "failed"
       /\ verdict' =
            IF ~Valid(cmd) THEN
              IF Line.ran THEN "C10:escaping-path-accepted"
              ELSE IF t # pre THEN "C10:rejected-command-touched-the-input-root"
              ELSE "ok"
            ELSE IF ~Compatible(pre, cmd) THEN "ok"
            ELSE IF ~Line.ran THEN "C10:valid-command-not-run"
            ELSE IF ~C10_ParentsExist(cmd, t) THEN "C10:parent-directory-missing"
            ELSE IF ~C10_OutputsNotPrecreated(cmd, pre, t) THEN "C10:worker-created-an-output-itself"
            ELSE IF t # pre \cup {DirEntry(d) : d \in ParentDirs(cmd)}
                 THEN "NC:more-than-the-parent-directories-changed"
            ELSE "ok"
  /\ result' = [err |-> Line.err]
  /\ UNCHANGED <<cmd, pre>>

\* UploadOutputs returned.
TUpload ==
  /\ IsEvent("upload")
  /\ LET t == TreeOf(Line.tree)  r == ResultOf(Line) IN
       /\ Observed(t)
       /\ fs' = t
       /\ result' = r
       /\ verdict' = UploadVerdict(cmd, t, r)
  /\ phase' = "done"
  /\ UNCHANGED <<cmd, pre>>

\* The real code panicked: nothing was reported.
TPanic ==
  /\ IsEvent("panic")
  /\ verdict' = "C10:real-code-panicked"
  /\ phase' = "panicked"
  /\ UNCHANGED <<cmd, pre, fs, result>>

TNext == TReset \/ TNew \/ TParents \/ TPrerun \/ TUpload \/ TPanic

TraceSpec == TInit /\ [][TNext]_tvars

-----------------------------------------------------------------------------
VerdictOK == verdict = "ok"

\* The clauses of C10, evaluated on the observed state (the invariants
\* C10_EscapesRejected, C10_ParentsExistBeforeRun, C10_Reported and
\* C10_Trees of the reference module are checked as they are).

Accepted ==
  /\ TLCGet("stats").diameter - 1 = Len(TraceLog)
  /\ PrintT(<<"TRACE_ACCEPTED", Len(TraceLog)>>)
=============================================================================
