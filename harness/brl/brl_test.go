// Package brl drives the real ByteRangeLockSet and records traces that
// specs/ByteRangeLocksTrace.tla validates (property C20, table level).
package brl

import (
	"fmt"
	"math"
	"os"
	"sort"
	"testing"

	"github.com/buildbarn/bb-remote-execution/pkg/filesystem/virtual"

	"verif/harness/common"
)

const nPos = 6 // must match N in Trace_ByteRangeLocks.cfg

var owners = []string{"o1", "o2", "o3"}

// pos maps a model position to a real offset; position N is the maximum
// offset so that ranges "to the end of the file" are exercised.
func pos(p int, n int) uint64 {
	if p == n {
		return math.MaxUint64
	}
	// Spread positions out so that off-by-one mistakes on real
	// offsets (e.g. End-1) are not masked by adjacency.
	return uint64(p) * 10
}

func unpos(v uint64, n int) int {
	if v == math.MaxUint64 {
		return n
	}
	if v%10 != 0 || int(v/10) > n {
		return -1
	}
	return int(v / 10)
}

func typeName(t virtual.ByteRangeLockType) string {
	switch t {
	case virtual.ByteRangeLockTypeLockedShared:
		return "S"
	case virtual.ByteRangeLockTypeLockedExclusive:
		return "X"
	case virtual.ByteRangeLockTypeUnlocked:
		return "U"
	}
	return fmt.Sprintf("?%d", int(t))
}

func goType(t string) virtual.ByteRangeLockType {
	switch t {
	case "S":
		return virtual.ByteRangeLockTypeLockedShared
	case "X":
		return virtual.ByteRangeLockTypeLockedExclusive
	}
	return virtual.ByteRangeLockTypeUnlocked
}

type entry struct {
	Start int    `json:"start"`
	End   int    `json:"end"`
	Owner string `json:"owner"`
	Type  string `json:"type"`
}

func entriesOf(ls *virtual.ByteRangeLockSet[string], n int) []entry {
	out := []entry{}
	for _, l := range ls.VerifEntries() {
		out = append(out, entry{unpos(l.Start, n), unpos(l.End, n), l.Owner, typeName(l.Type)})
	}
	return out
}

type op struct {
	kind string // "set" | "test"
	o    string
	s, e int
	t    string
}

// apply runs one operation on the real object and logs it. It returns
// false if the real code panicked.
func apply(tr *common.Trace, ls *virtual.ByteRangeLockSet[string], n int, o op) (ok bool) {
	defer func() {
		if r := recover(); r != nil {
			tr.Emit(common.Ev{"ev": "panic", "msg": fmt.Sprint(r), "op": fmt.Sprint(o)})
			ok = false
		}
	}()
	l := &virtual.ByteRangeLock[string]{Start: pos(o.s, n), End: pos(o.e, n), Owner: o.o, Type: goType(o.t)}
	switch o.kind {
	case "set":
		before := len(ls.VerifEntries())
		delta := ls.Set(l)
		tr.Emit(common.Ev{"ev": "set", "o": o.o, "s": o.s, "e": o.e, "t": o.t, "before": before, "delta": delta, "entries": entriesOf(ls, n)})
	case "test":
		r := ls.Test(l)
		by := entry{0, 0, "", ""}
		if r != nil {
			by = entry{unpos(r.Start, n), unpos(r.End, n), r.Owner, typeName(r.Type)}
		}
		tr.Emit(common.Ev{"ev": "test", "o": o.o, "s": o.s, "e": o.e, "t": o.t, "denied": r != nil, "by": by})
	}
	return true
}

// TestRandom: seeded random histories following the calling convention
// of the NFS servers (Set for a lock only after Test granted it).
func TestRandom(t *testing.T) {
	traces := common.EnvInt("VERIF_N", 200)
	steps := common.EnvInt("VERIF_STEPS", 40)
	tr := common.NewTrace("trace.ndjson")
	defer tr.Close()
	meta := []map[string]any{}
	for i := 0; i < traces; i++ {
		rng := common.Rand(int64(i))
		var ls virtual.ByteRangeLockSet[string]
		ls.Initialize()
		first := tr.Len() + 1
		tr.Emit(common.Ev{"ev": "reset", "trace": i})
		no := 1 + rng.Intn(len(owners))
		for j := 0; j < steps; j++ {
			s := rng.Intn(nPos)
			e := s + 1 + rng.Intn(nPos-s)
			if rng.Intn(4) == 0 {
				e = nPos // to the maximum offset
			}
			o := op{o: owners[rng.Intn(no)], s: s, e: e}
			switch rng.Intn(10) {
			case 0, 1, 2:
				o.kind, o.t = "set", "U"
			case 3, 4:
				o.kind, o.t = "test", []string{"S", "X"}[rng.Intn(2)]
			default:
				// lock: test first, set if granted
				o.kind, o.t = "test", []string{"S", "X"}[rng.Intn(2)]
				l := &virtual.ByteRangeLock[string]{Start: pos(o.s, nPos), End: pos(o.e, nPos), Owner: o.o, Type: goType(o.t)}
				granted := ls.Test(l) == nil
				if !apply(tr, &ls, nPos, o) {
					break
				}
				if !granted {
					continue
				}
				o.kind = "set"
			}
			if !apply(tr, &ls, nPos, o) {
				break
			}
		}
		meta = append(meta, map[string]any{"trace": i, "first_line": first, "last_line": tr.Len()})
	}
	common.WriteJSON("meta.json", map[string]any{"traces": meta, "n": nPos})
}

// key is the canonical identity of an implementation state.
func key(es []entry) string {
	c := append([]entry(nil), es...)
	sort.Slice(c, func(i, j int) bool {
		if c[i].Start != c[j].Start {
			return c[i].Start < c[j].Start
		}
		return c[i].Owner < c[j].Owner
	})
	return fmt.Sprint(c)
}

// TestEnumerate: every operation from every state reachable over a small
// byte domain (breadth-first over the real object's states). Each
// transition is logged as jump(state) + op, so TLC validates each one.
func TestEnumerate(t *testing.T) {
	n := common.EnvInt("VERIF_BRL_N", 3)
	nOwners := common.EnvInt("VERIF_BRL_OWNERS", 3)
	tr := common.NewTrace("trace.ndjson")
	defer tr.Close()
	var ops []op
	for _, o := range owners[:nOwners] {
		for s := 0; s < n; s++ {
			for e := s + 1; e <= n; e++ {
				for _, ty := range []string{"S", "X"} {
					ops = append(ops, op{"test", o, s, e, ty})
				}
				for _, ty := range []string{"S", "X", "U"} {
					ops = append(ops, op{"set", o, s, e, ty})
				}
			}
		}
	}
	rebuild := func(es []entry) *virtual.ByteRangeLockSet[string] {
		ls := &virtual.ByteRangeLockSet[string]{}
		ls.Initialize()
		for _, e := range es {
			ls.Set(&virtual.ByteRangeLock[string]{Start: pos(e.Start, n), End: pos(e.End, n), Owner: e.Owner, Type: goType(e.Type)})
		}
		return ls
	}
	seen := map[string]bool{key(nil): true}
	queue := [][]entry{{}}
	transitions := 0
	tr.Emit(common.Ev{"ev": "reset", "trace": 0})
	for len(queue) > 0 {
		st := queue[0]
		queue = queue[1:]
		for _, o := range ops {
			ls := rebuild(st)
			if k := key(entriesOf(ls, n)); k != key(st) {
				// Rebuilding by re-inserting the entries did not
				// reproduce the list; log it so TLC sees the mismatch.
				fmt.Fprintf(os.Stderr, "rebuild mismatch: %s vs %s\n", k, key(st))
			}
			if o.kind == "set" && o.t != "U" {
				l := &virtual.ByteRangeLock[string]{Start: pos(o.s, n), End: pos(o.e, n), Owner: o.o, Type: goType(o.t)}
				if ls.Test(l) != nil {
					continue // calling convention: never Set a denied lock
				}
			}
			tr.Emit(common.Ev{"ev": "jump", "entries": entriesOf(ls, n)})
			transitions++
			if !apply(tr, ls, n, o) {
				continue
			}
			es := entriesOf(ls, n)
			if k := key(es); !seen[k] {
				seen[k] = true
				queue = append(queue, es)
			}
		}
	}
	common.WriteJSON("meta.json", map[string]any{"states": len(seen), "transitions": transitions, "n": n, "exhaustive": true})
}
