// Package suspclock drives the real SuspendableClock (and the suspending
// storage wrappers built on its Suspendable interface) over a harness-owned
// base clock and records traces that specs/SuspClockTrace.tla validates
// (property C11).
//
// Time is a variable of the harness, in milliseconds since the start of the
// trace ("1 tick" = 1000 ms). Base timers and base context deadlines fire
// only when the driver fires them; after every driver step the harness waits
// (testing/synctest) until every goroutine of the real code is durably
// blocked and then logs what can be observed on every context / timer. The
// Go side logs; it never judges.
package suspclock

import (
	"bytes"
	"context"
	"crypto/sha256"
	"encoding/hex"
	"errors"
	"fmt"
	"io"
	"sort"
	"strings"
	"sync"
	"testing"
	"testing/synctest"
	"time"

	remoteexecution "github.com/bazelbuild/remote-apis/build/bazel/remote/execution/v2"
	re_blobstore "github.com/buildbarn/bb-remote-execution/pkg/blobstore"
	"github.com/buildbarn/bb-remote-execution/pkg/cas"
	re_clock "github.com/buildbarn/bb-remote-execution/pkg/clock"
	"github.com/buildbarn/bb-storage/pkg/blobstore"
	"github.com/buildbarn/bb-storage/pkg/blobstore/buffer"
	"github.com/buildbarn/bb-storage/pkg/blobstore/slicing"
	"github.com/buildbarn/bb-storage/pkg/clock"
	"github.com/buildbarn/bb-storage/pkg/digest"
	"google.golang.org/grpc/codes"
	"google.golang.org/grpc/status"

	"verif/harness/common"
)

const tickMs = 1000

// ---------------------------------------------------------------------------
// The harness-owned base clock.

type fakeClock struct {
	mu     sync.Mutex
	tr     *common.Trace
	epoch  time.Time
	now    int64 // ms since the start of the trace
	nextID int
	armed  map[int]*baseTimer
	owner  int // label put on arm events: object whose step is being run
}

type baseTimer struct {
	fc    *fakeClock
	id    int
	due   int64
	kind  string // "timer" | "deadline"
	owner int
	ch    chan time.Time
	ctx   *baseCtx
}

var _ clock.Clock = (*fakeClock)(nil)

func ceilMs(d time.Duration) int64 {
	ms := int64(d / time.Millisecond)
	if d%time.Millisecond > 0 {
		ms++
	}
	return clampMs(ms)
}

// clampMs keeps logged numbers inside TLC's 32-bit integers; values of
// that size are wrong whatever they are exactly.
func clampMs(ms int64) int64 {
	const lim = 1000000000
	if ms > lim {
		return lim
	}
	if ms < -lim {
		return -lim
	}
	return ms
}

func (fc *fakeClock) timeAt(ms int64) time.Time {
	return fc.epoch.Add(time.Duration(ms) * time.Millisecond)
}

func (fc *fakeClock) Now() time.Time {
	fc.mu.Lock()
	defer fc.mu.Unlock()
	return fc.timeAt(fc.now)
}

func (fc *fakeClock) arm(kind string, d time.Duration) *baseTimer {
	// caller holds fc.mu
	fc.nextID++
	t := &baseTimer{fc: fc, id: fc.nextID, due: fc.now + ceilMs(d), kind: kind, owner: fc.owner, ch: make(chan time.Time, 1)}
	fc.armed[t.id] = t
	fc.tr.Emit(common.Ev{"ev": "arm", "tid": t.id, "kind": kind, "d": ceilMs(d), "owner": t.owner})
	return t
}

func (fc *fakeClock) NewTimer(d time.Duration) (clock.Timer, <-chan time.Time) {
	fc.mu.Lock()
	defer fc.mu.Unlock()
	t := fc.arm("timer", d)
	return t, t.ch
}

// Stop implements clock.Timer.
func (t *baseTimer) Stop() bool {
	t.fc.mu.Lock()
	defer t.fc.mu.Unlock()
	if _, ok := t.fc.armed[t.id]; ok {
		delete(t.fc.armed, t.id)
		t.fc.tr.Emit(common.Ev{"ev": "stop", "tid": t.id})
		return true
	}
	return false
}

func (fc *fakeClock) NewTicker(d time.Duration) (clock.Ticker, <-chan time.Time) {
	panic("fakeClock.NewTicker: SuspendableClock never creates base tickers")
}

// baseCtx is what the base clock's NewContextWithTimeout returns: a
// cancellable child of the parent whose deadline is a base timer.
type baseCtx struct {
	context.Context
	cancelInner context.CancelFunc
	fc          *fakeClock
	deadline    int64
	hit         bool // guarded by fc.mu
}

func (c *baseCtx) Err() error {
	err := c.Context.Err()
	if err == nil {
		return nil
	}
	c.fc.mu.Lock()
	defer c.fc.mu.Unlock()
	if c.hit {
		return context.DeadlineExceeded
	}
	return err
}

func (c *baseCtx) Deadline() (time.Time, bool) {
	return c.fc.timeAt(c.deadline), true
}

func (fc *fakeClock) NewContextWithTimeout(parent context.Context, d time.Duration) (context.Context, context.CancelFunc) {
	inner, cancelInner := context.WithCancel(parent)
	fc.mu.Lock()
	defer fc.mu.Unlock()
	t := fc.arm("deadline", d)
	c := &baseCtx{Context: inner, cancelInner: cancelInner, fc: fc, deadline: t.due}
	t.ctx = c
	return c, func() {
		t.Stop()
		cancelInner()
	}
}

// ---------------------------------------------------------------------------
// Logging proxy in front of the real clock's Suspend/Resume.

type loggingSuspendable struct {
	tr   *common.Trace
	who  string
	base re_clock.Suspendable
}

func (s *loggingSuspendable) Suspend() {
	s.tr.Emit(common.Ev{"ev": "suspend", "who": s.who})
	s.base.Suspend()
}

func (s *loggingSuspendable) Resume() {
	s.tr.Emit(common.Ev{"ev": "resume", "who": s.who})
	s.base.Resume()
}

// ---------------------------------------------------------------------------
// Deadline objects made by the real clock.

type object struct {
	id           int
	kind         string // "ctx" | "timer"
	ctx          context.Context
	cancel       context.CancelFunc
	parentCancel context.CancelFunc
	timer        clock.Timer
	ch           <-chan time.Time
	fired        bool
	cancelled    bool
}

type obsRec struct {
	ID     int    `json:"id"`
	Kind   string `json:"kind"`
	Done   bool   `json:"done"`
	Err    string `json:"err"`
	Unsusp int64  `json:"unsusp"` // ms
	Rem    int64  `json:"rem"`    // ns that do not fit in whole ms
}

func errName(err error) string {
	switch {
	case err == nil:
		return "none"
	case errors.Is(err, context.DeadlineExceeded):
		return "deadline"
	case errors.Is(err, context.Canceled):
		return "canceled"
	}
	return "other"
}

func (o *object) observe() obsRec {
	r := obsRec{ID: o.id, Kind: o.kind, Err: "none"}
	if o.kind == "ctx" {
		select {
		case <-o.ctx.Done():
			r.Done = true
		default:
		}
		r.Err = errName(o.ctx.Err())
		if v, ok := o.ctx.Value(re_clock.UnsuspendedDurationKey{}).(time.Duration); ok {
			r.Unsusp = clampMs(int64(v / time.Millisecond))
			r.Rem = int64(v % time.Millisecond)
		} else {
			r.Unsusp = -1
		}
		return r
	}
	if !o.fired {
		select {
		case <-o.ch:
			o.fired = true
		default:
		}
	}
	r.Done = o.fired
	return r
}

// ---------------------------------------------------------------------------
// Storage operations through the suspending wrappers over gated fakes.

var blobData = []byte("verifc11")

func blobDigest() digest.Digest {
	h := sha256.Sum256(blobData)
	return digest.MustNewDigest("c11", remoteexecution.DigestFunction_SHA256, hex.EncodeToString(h[:]), int64(len(blobData)))
}

type opState struct {
	d        *driver
	id       int
	who      string
	method   string
	backend  string
	consume  string
	gate     chan struct{}
	mu       sync.Mutex
	finished bool
	outcome  string
}

func (o *opState) isFinished() bool {
	o.mu.Lock()
	defer o.mu.Unlock()
	return o.finished
}

// gatePoint is called by the fake backends whenever the real code enters
// storage: it logs the entry and blocks until the driver lets it continue.
func (o *opState) gatePoint(what string) {
	o.d.tr.Emit(common.Ev{"ev": "opbase", "op": o.id, "who": o.who, "what": what})
	<-o.gate
}

var errBackend = status.Error(codes.Unavailable, "backend unavailable")

type gatedReader struct {
	o    *opState
	data []byte
	fail bool // I/O error after the first piece
	n    int
}

func (r *gatedReader) Read(p []byte) (int, error) {
	r.o.gatePoint("read")
	if r.fail && r.n > 0 {
		return 0, errBackend
	}
	r.n++
	if len(r.data) == 0 {
		return 0, io.EOF
	}
	n := copy(p, r.data[:min(3, len(r.data))])
	r.data = r.data[n:]
	return n, nil
}

func (r *gatedReader) Close() error { return nil }

type gatedChunkReader struct {
	o    *opState
	data []byte
	fail bool
	n    int
}

func (r *gatedChunkReader) Read() ([]byte, error) {
	r.o.gatePoint("read")
	if r.fail && r.n > 0 {
		return nil, errBackend
	}
	r.n++
	if len(r.data) == 0 {
		return nil, io.EOF
	}
	c := r.data[:min(3, len(r.data))]
	r.data = r.data[len(c):]
	return c, nil
}

func (r *gatedChunkReader) Close() {}

func (o *opState) makeBuffer() buffer.Buffer {
	src := buffer.BackendProvided(func(bool) {})
	data := append([]byte(nil), blobData...)
	bad := append([]byte(nil), blobData...)
	bad[0] ^= 0xff
	switch o.backend {
	case "bytes":
		return buffer.NewValidatedBufferFromByteSlice(data)
	case "casbytes":
		return buffer.NewCASBufferFromByteSlice(blobDigest(), data, src)
	case "error":
		return buffer.NewBufferFromError(errBackend)
	case "reader":
		return buffer.NewCASBufferFromReader(blobDigest(), &gatedReader{o: o, data: data}, src)
	case "reader-ioerr":
		return buffer.NewCASBufferFromReader(blobDigest(), &gatedReader{o: o, data: data, fail: true}, src)
	case "reader-corrupt":
		return buffer.NewCASBufferFromReader(blobDigest(), &gatedReader{o: o, data: bad}, src)
	case "chunks":
		return buffer.NewCASBufferFromChunkReader(blobDigest(), &gatedChunkReader{o: o, data: data}, src)
	case "chunks-ioerr":
		return buffer.NewCASBufferFromChunkReader(blobDigest(), &gatedChunkReader{o: o, data: data, fail: true}, src)
	}
	panic("unknown backend " + o.backend)
}

var bufferBackends = []string{"bytes", "casbytes", "error", "reader", "reader-ioerr", "reader-corrupt", "chunks", "chunks-ioerr"}

type fakeBlobAccess struct{ o *opState }

func (f fakeBlobAccess) Get(ctx context.Context, d digest.Digest) buffer.Buffer {
	f.o.gatePoint("get")
	return f.o.makeBuffer()
}

func (f fakeBlobAccess) GetFromComposite(ctx context.Context, parent, child digest.Digest, slicer slicing.BlobSlicer) buffer.Buffer {
	f.o.gatePoint("getfromcomposite")
	return f.o.makeBuffer()
}

func (f fakeBlobAccess) outcome() error {
	if f.o.backend == "fail" {
		return errBackend
	}
	return nil
}

func (f fakeBlobAccess) Put(ctx context.Context, d digest.Digest, b buffer.Buffer) error {
	f.o.gatePoint("put")
	b.Discard()
	return f.outcome()
}

func (f fakeBlobAccess) FindMissing(ctx context.Context, digests digest.Set) (digest.Set, error) {
	f.o.gatePoint("findmissing")
	return digest.EmptySet, f.outcome()
}

func (f fakeBlobAccess) GetCapabilities(ctx context.Context, instanceName digest.InstanceName) (*remoteexecution.ServerCapabilities, error) {
	f.o.gatePoint("getcapabilities")
	if err := f.outcome(); err != nil {
		return nil, err
	}
	return &remoteexecution.ServerCapabilities{}, nil
}

var _ blobstore.BlobAccess = fakeBlobAccess{}

type fakeDirectoryFetcher struct{ o *opState }

func (f fakeDirectoryFetcher) result(what string) (*remoteexecution.Directory, error) {
	f.o.gatePoint(what)
	if f.o.backend == "fail" {
		return nil, errBackend
	}
	return &remoteexecution.Directory{}, nil
}

func (f fakeDirectoryFetcher) GetDirectory(ctx context.Context, d digest.Digest) (*remoteexecution.Directory, error) {
	return f.result("getdirectory")
}

func (f fakeDirectoryFetcher) GetTreeRootDirectory(ctx context.Context, d digest.Digest) (*remoteexecution.Directory, error) {
	return f.result("gettreerootdirectory")
}

func (f fakeDirectoryFetcher) GetTreeChildDirectory(ctx context.Context, t, c digest.Digest) (*remoteexecution.Directory, error) {
	return f.result("gettreechilddirectory")
}

var _ cas.DirectoryFetcher = fakeDirectoryFetcher{}

type failingWriter struct{}

func (failingWriter) Write(p []byte) (int, error) { return 0, errors.New("disk full") }

func errText(err error) string {
	if err == nil {
		return "ok"
	}
	if err == io.EOF {
		return "eof"
	}
	return "error:" + status.Code(err).String()
}

var consumers = []string{
	"ToByteSlice", "ToByteSliceSmall", "Discard", "IntoWriter", "IntoWriterFail", "ReadAt",
	"ToReaderAll", "ToReaderClose", "ToChunkReaderAll", "ToChunkReaderClose",
	"ToChunkReaderBadOffset", "ToProto", "CloneCopy", "SizeThenDiscard",
}

// consumeBuffer uses the buffer the way callers of BlobAccess.Get() do;
// every path ends the buffer's life exactly once as the Buffer contract
// demands.
func consumeBuffer(b buffer.Buffer, how string) string {
	switch how {
	case "ToByteSlice":
		_, err := b.ToByteSlice(100)
		return errText(err)
	case "ToByteSliceSmall":
		_, err := b.ToByteSlice(2)
		return errText(err)
	case "Discard":
		b.Discard()
		return "ok"
	case "IntoWriter":
		return errText(b.IntoWriter(&bytes.Buffer{}))
	case "IntoWriterFail":
		return errText(b.IntoWriter(failingWriter{}))
	case "ReadAt":
		_, err := b.ReadAt(make([]byte, 4), 2)
		return errText(err)
	case "ToReaderAll":
		r := b.ToReader()
		_, err := io.ReadAll(r)
		r.Close()
		return errText(err)
	case "ToReaderClose":
		r := b.ToReader()
		_, err := r.Read(make([]byte, 1))
		r.Close()
		return errText(err)
	case "ToChunkReaderAll":
		r := b.ToChunkReader(0, 4)
		var err error
		for err == nil {
			_, err = r.Read()
		}
		r.Close()
		return errText(err)
	case "ToChunkReaderClose":
		r := b.ToChunkReader(2, 4)
		_, err := r.Read()
		r.Close()
		return errText(err)
	case "ToChunkReaderBadOffset":
		r := b.ToChunkReader(1000, 4)
		_, err := r.Read()
		r.Close()
		return errText(err)
	case "ToProto":
		_, err := b.ToProto(&remoteexecution.Digest{}, 100)
		return errText(err)
	case "CloneCopy":
		b1, b2 := b.CloneCopy(100)
		_, err := b1.ToByteSlice(100)
		b2.Discard()
		return errText(err)
	case "SizeThenDiscard":
		_, err := b.GetSizeBytes()
		b.Discard()
		return errText(err)
	}
	panic("unknown consumer " + how)
}

var plainMethods = []string{"Put", "FindMissing", "GetCapabilities", "GetDirectory", "GetTreeRootDirectory", "GetTreeChildDirectory"}

// run performs the operation through the real wrapper.
func (o *opState) run(s re_clock.Suspendable) string {
	ctx := context.Background()
	dg := blobDigest()
	ba := re_blobstore.NewSuspendingBlobAccess(fakeBlobAccess{o}, s)
	df := cas.NewSuspendingDirectoryFetcher(fakeDirectoryFetcher{o}, s)
	switch o.method {
	case "Get":
		return consumeBuffer(ba.Get(ctx, dg), o.consume)
	case "GetFromComposite":
		return consumeBuffer(ba.GetFromComposite(ctx, dg, dg, nil), o.consume)
	case "Put":
		return errText(ba.Put(ctx, dg, buffer.NewValidatedBufferFromByteSlice(blobData)))
	case "FindMissing":
		_, err := ba.FindMissing(ctx, dg.ToSingletonSet())
		return errText(err)
	case "GetCapabilities":
		_, err := ba.GetCapabilities(ctx, dg.GetInstanceName())
		return errText(err)
	case "GetDirectory":
		_, err := df.GetDirectory(ctx, dg)
		return errText(err)
	case "GetTreeRootDirectory":
		_, err := df.GetTreeRootDirectory(ctx, dg)
		return errText(err)
	case "GetTreeChildDirectory":
		_, err := df.GetTreeChildDirectory(ctx, dg, dg)
		return errText(err)
	}
	panic("unknown method " + o.method)
}

// ---------------------------------------------------------------------------
// The driver: one instance per trace, used inside a synctest bubble.

type driver struct {
	tr     *common.Trace
	fc     *fakeClock
	sc     *re_clock.SuspendableClock
	objs   []*object
	ops    []*opState
	direct map[string]int
	exec   *execution // executor level (exec_test.go), nil otherwise
}

func newDriver(tr *common.Trace, trace int, thrMs, maxSuspMs int64, epoch time.Time, label string) *driver {
	fc := &fakeClock{tr: tr, epoch: epoch, armed: map[int]*baseTimer{}}
	tr.Emit(common.Ev{"ev": "reset", "trace": trace, "thr": thrMs, "ms": maxSuspMs, "label": label})
	return &driver{
		tr:     tr,
		fc:     fc,
		sc:     re_clock.NewSuspendableClock(fc, time.Duration(maxSuspMs)*time.Millisecond, time.Duration(thrMs)*time.Millisecond),
		direct: map[string]int{},
	}
}

// settle waits until the real code is quiescent and logs what is visible.
func (d *driver) settle() {
	synctest.Wait()
	recs := []obsRec{}
	for _, o := range d.objs {
		recs = append(recs, o.observe())
	}
	d.tr.Emit(common.Ev{"ev": "obs", "objs": recs})
	d.reportExec()
}

func (d *driver) setOwner(id int) {
	d.fc.mu.Lock()
	d.fc.owner = id
	d.fc.mu.Unlock()
}

func (d *driver) nowMs() int64 {
	d.fc.mu.Lock()
	defer d.fc.mu.Unlock()
	return d.fc.now
}

// dueTimers returns the ids of armed base timers that are due.
func (d *driver) dueTimers() []int {
	d.fc.mu.Lock()
	defer d.fc.mu.Unlock()
	ids := []int{}
	for id, t := range d.fc.armed {
		if t.due <= d.fc.now {
			ids = append(ids, id)
		}
	}
	sort.Ints(ids)
	return ids
}

// tick advances the base clock by at most step ms, never past the next
// instant at which a base timer is due. Returns false if a timer is due now.
func (d *driver) tick(step int64) bool {
	d.fc.mu.Lock()
	to := d.fc.now + step
	for _, t := range d.fc.armed {
		if t.due <= d.fc.now {
			d.fc.mu.Unlock()
			return false
		}
		if t.due < to {
			to = t.due
		}
	}
	d.fc.now = to
	d.fc.mu.Unlock()
	d.tr.Emit(common.Ev{"ev": "tick", "to": to})
	d.settle()
	return true
}

// fire delivers one due base timer / base deadline.
func (d *driver) fire(id int) {
	d.fc.mu.Lock()
	t := d.fc.armed[id]
	delete(d.fc.armed, id)
	d.fc.owner = t.owner
	at := d.fc.timeAt(d.fc.now)
	d.tr.Emit(common.Ev{"ev": "fire", "tid": id})
	if t.kind == "deadline" {
		if t.ctx.Context.Err() == nil {
			t.ctx.hit = true
		}
	}
	d.fc.mu.Unlock()
	if t.kind == "deadline" {
		t.ctx.cancelInner()
	} else {
		t.ch <- at
	}
	d.settle()
	d.setOwner(0)
}

func (d *driver) fireAllDue() {
	for {
		due := d.dueTimers()
		if len(due) == 0 {
			return
		}
		d.fire(due[0])
	}
}

func (d *driver) directSuspendable(who string) *loggingSuspendable {
	return &loggingSuspendable{tr: d.tr, who: who, base: d.sc}
}

func (d *driver) suspend(who string) {
	d.directSuspendable(who).Suspend()
	d.direct[who]++
	d.settle()
}

func (d *driver) resume(who string) {
	d.direct[who]--
	d.directSuspendable(who).Resume()
	d.settle()
}

func (d *driver) newObj(kind string, timeoutMs int64) *object {
	o := &object{id: len(d.objs) + 1, kind: kind}
	d.tr.Emit(common.Ev{"ev": "new", "id": o.id, "kind": kind, "d": timeoutMs})
	d.setOwner(o.id)
	dur := time.Duration(timeoutMs) * time.Millisecond
	if kind == "ctx" {
		parent, parentCancel := context.WithCancel(context.Background())
		o.parentCancel = parentCancel
		o.ctx, o.cancel = d.sc.NewContextWithTimeout(parent, dur)
	} else {
		o.timer, o.ch = d.sc.NewTimer(dur)
	}
	d.objs = append(d.objs, o)
	d.settle()
	d.setOwner(0)
	return o
}

// cancel: the command finished ("own": the CancelFunc / Timer.Stop) or the
// parent context was cancelled ("parent").
func (d *driver) cancel(o *object, via string) {
	d.tr.Emit(common.Ev{"ev": "cancel", "id": o.id, "via": via})
	switch {
	case o.kind == "timer":
		o.timer.Stop()
	case via == "parent":
		o.parentCancel()
	default:
		o.cancel()
	}
	o.cancelled = true
	d.settle()
}

func (d *driver) opStart(method, backend, consume string) *opState {
	o := &opState{d: d, id: len(d.ops) + 1, method: method, backend: backend, consume: consume, gate: make(chan struct{})}
	o.who = fmt.Sprintf("op%d", o.id)
	d.ops = append(d.ops, o)
	d.tr.Emit(common.Ev{"ev": "opbegin", "op": o.id, "who": o.who, "method": method, "backend": backend, "consume": consume})
	s := d.directSuspendable(o.who)
	go func() {
		defer func() {
			if r := recover(); r != nil {
				d.tr.Emit(common.Ev{"ev": "panic", "msg": fmt.Sprint(r), "who": o.who})
				o.outcome = "panic"
			}
			d.tr.Emit(common.Ev{"ev": "opend", "op": o.id, "who": o.who, "outcome": o.outcome})
			o.mu.Lock()
			o.finished = true
			o.mu.Unlock()
		}()
		o.outcome = o.run(s)
	}()
	d.settle()
	return o
}

// opRelease lets a storage operation that waits at a gate continue.
func (d *driver) opRelease(o *opState) {
	d.tr.Emit(common.Ev{"ev": "oprelease", "op": o.id})
	o.gate <- struct{}{}
	d.settle()
}

func (d *driver) activeOps() []*opState {
	out := []*opState{}
	for _, o := range d.ops {
		if !o.isFinished() {
			out = append(out, o)
		}
	}
	return out
}

// finish brings the trace to an end: storage operations complete, direct
// suspensions are released, every object is cancelled.
func (d *driver) finish() {
	for _, o := range d.ops {
		for n := 0; !o.isFinished() && n < 64; n++ {
			d.opRelease(o)
		}
	}
	for _, who := range []string{"d1", "d2"} {
		for d.direct[who] > 0 {
			d.resume(who)
		}
	}
	for _, o := range d.objs {
		if !o.cancelled {
			d.cancel(o, "own")
		}
	}
	d.tr.Emit(common.Ev{"ev": "end"})
}

// bubble runs one trace in its own synctest bubble. If the real code leaves
// goroutines behind that can never finish, the bubble ends with a deadlock
// panic, which is logged as an event.
func bubble(t *testing.T, tr *common.Trace, name string, f func()) {
	t.Run(name, func(t *testing.T) {
		defer func() {
			if r := recover(); r != nil {
				tr.Emit(common.Ev{"ev": "leak", "msg": fmt.Sprint(r)})
			}
		}()
		synctest.Test(t, func(t *testing.T) {
			defer func() {
				if r := recover(); r != nil {
					tr.Emit(common.Ev{"ev": "panic", "msg": fmt.Sprint(r), "who": "driver"})
				}
			}()
			f()
		})
	})
}

func epochOf(i int) time.Time {
	// An arbitrary, trace dependent time of day (whole milliseconds).
	return time.Unix(1700000000+int64(i)*977, int64(i%1000)*int64(time.Millisecond))
}

// ---------------------------------------------------------------------------
// TestRandom: seeded random timelines with several contexts / timers,
// nested direct suspensions, storage operations through the wrappers and
// every order of events at one instant.

func TestRandom(t *testing.T) {
	traces := common.EnvInt("VERIF_N", 100)
	steps := common.EnvInt("VERIF_STEPS", 45)
	tr := common.NewTrace("trace.ndjson")
	defer tr.Close()
	for i := 0; i < traces; i++ {
		rng := common.Rand(int64(i))
		bubble(t, tr, fmt.Sprintf("t%d", i), func() {
			thr := []int64{1, 500, 1000, 1000, 2000, 3000}[rng.Intn(6)]
			ms := []int64{0, 1000, 2000, 3000, 5000, 20000}[rng.Intn(6)]
			d := newDriver(tr, i, thr, ms, epochOf(i), "random")
			stepSizes := []int64{500, 1000, 1000, 1000, 2000, 3000}
			for s := 0; s < steps; s++ {
				due := d.dueTimers()
				act := d.activeOps()
				running := []*object{}
				for _, o := range d.objs {
					if !o.cancelled {
						running = append(running, o)
					}
				}
				type choice struct {
					w int
					f func()
				}
				cs := []choice{}
				if len(due) > 0 {
					cs = append(cs, choice{8, func() { d.fire(due[rng.Intn(len(due))]) }})
				} else {
					cs = append(cs, choice{7, func() { d.tick(stepSizes[rng.Intn(len(stepSizes))]) }})
				}
				for _, who := range []string{"d1", "d2"} {
					if d.direct[who] < 2 {
						cs = append(cs, choice{1, func() { d.suspend(who) }})
					}
					if d.direct[who] > 0 {
						cs = append(cs, choice{2, func() { d.resume(who) }})
					}
				}
				if len(d.objs) < 3 {
					w := 2
					if len(d.objs) == 0 {
						w = 8
					}
					cs = append(cs, choice{w, func() {
						kind := "ctx"
						if rng.Intn(4) == 0 {
							kind = "timer"
						}
						d.newObj(kind, int64(rng.Intn(9))*tickMs)
					}})
				}
				if len(running) > 0 {
					cs = append(cs, choice{1, func() {
						o := running[rng.Intn(len(running))]
						via := "own"
						if o.kind == "ctx" && rng.Intn(3) == 0 {
							via = "parent"
						}
						d.cancel(o, via)
					}})
				}
				if len(act) < 2 {
					cs = append(cs, choice{2, func() {
						if rng.Intn(3) == 0 {
							b := []string{"ok", "fail"}[rng.Intn(2)]
							d.opStart(plainMethods[rng.Intn(len(plainMethods))], b, "")
						} else {
							m := []string{"Get", "GetFromComposite"}[rng.Intn(2)]
							d.opStart(m, bufferBackends[rng.Intn(len(bufferBackends))], consumers[rng.Intn(len(consumers))])
						}
					}})
				}
				if len(act) > 0 {
					cs = append(cs, choice{3, func() { d.opRelease(act[rng.Intn(len(act))]) }})
				}
				total := 0
				for _, c := range cs {
					total += c.w
				}
				r := rng.Intn(total)
				for _, c := range cs {
					if r < c.w {
						c.f()
						break
					}
					r -= c.w
				}
			}
			d.finish()
		})
	}
}

// ---------------------------------------------------------------------------
// TestEnumerate: one context (or timer); every pattern of suspension levels
// over H unit intervals, both orders of "deliver due timers" and "change the
// suspension" at every instant. This is every position of suspensions
// relative to every re-arm at tick granularity.

func TestEnumerate(t *testing.T) {
	// Plan: comma separated "timeout:threshold:maximum:H:levels" (ticks);
	// levels 2 = running/suspended, 3 = also nested suspension.
	plan := common.Env("VERIF_ENUM_PLAN", "3:1:2:7:2,4:2:3:5:3")
	tr := common.NewTrace("trace.ndjson")
	defer tr.Close()
	n := 0
	plans := []map[string]any{}
	for ci, item := range strings.Split(plan, ",") {
		var timeout, thr, ms int64
		var h, levels int
		if _, err := fmt.Sscanf(item, "%d:%d:%d:%d:%d", &timeout, &thr, &ms, &h, &levels); err != nil {
			t.Fatalf("bad VERIF_ENUM_PLAN item %q: %v", item, err)
		}
		total := 1
		for i := 0; i < h; i++ {
			total *= levels
		}
		plans = append(plans, map[string]any{"timeout": timeout, "threshold": thr, "maximum": ms, "h": h, "levels": levels, "patterns": total})
		for pat := 0; pat < total; pat++ {
			for order := 0; order < 2; order++ {
				kind := "ctx"
				if (pat+order+ci)%5 == 4 {
					kind = "timer"
				}
				label := fmt.Sprintf("enum plan=%s pat=%d order=%d", item, pat, order)
				bubble(t, tr, fmt.Sprintf("e%d", n), func() {
					d := newDriver(tr, n, thr*tickMs, ms*tickMs, epochOf(n), label)
					level := 0
					setLevel := func(want int) {
						for level < want {
							level++
							d.suspend(fmt.Sprintf("d%d", level))
						}
						for level > want {
							d.resume(fmt.Sprintf("d%d", level))
							level--
						}
					}
					p := pat
					// After the pattern the last level is kept until both
					// bounds of the object have certainly passed.
					for i := 0; i < max(h, int(timeout+ms)+1); i++ {
						want := level
						if i < h {
							want = p % levels
							p /= levels
						}
						if i == 0 {
							// The object is created at instant 0, before
							// or after the first suspension starts.
							if order == 0 {
								d.newObj(kind, timeout*tickMs)
								setLevel(want)
							} else {
								setLevel(want)
								d.newObj(kind, timeout*tickMs)
							}
							d.fireAllDue()
						} else if order == 0 {
							d.fireAllDue()
							setLevel(want)
							d.fireAllDue()
						} else {
							setLevel(want)
							d.fireAllDue()
						}
						// One unit of time; timers due in between are
						// delivered at their instant.
						target := d.nowMs() + tickMs
						for d.nowMs() < target {
							if !d.tick(target - d.nowMs()) {
								d.fireAllDue()
							}
						}
					}
					d.fireAllDue()
					d.finish()
				})
				n++
			}
		}
	}
	common.WriteJSON("meta.json", map[string]any{"traces": n, "plans": plans, "exhaustive": true})
}

// ---------------------------------------------------------------------------
// TestWrappers: every method of the suspending wrappers, every kind of
// backend reply, every way of using the returned buffer; storage is slow
// (time passes at every gate) while a context of the real clock runs.

func TestWrappers(t *testing.T) {
	tr := common.NewTrace("trace.ndjson")
	defer tr.Close()
	type sc struct{ method, backend, consume string }
	scs := []sc{}
	for _, m := range []string{"Get", "GetFromComposite"} {
		for _, b := range bufferBackends {
			for _, c := range consumers {
				scs = append(scs, sc{m, b, c})
			}
		}
	}
	for _, m := range plainMethods {
		scs = append(scs, sc{m, "ok", ""}, sc{m, "fail", ""})
	}
	for i, s := range scs {
		label := fmt.Sprintf("wrappers %s/%s/%s", s.method, s.backend, s.consume)
		bubble(t, tr, fmt.Sprintf("w%d", i), func() {
			d := newDriver(tr, i, 1*tickMs, 30*tickMs, epochOf(i), label)
			d.newObj("ctx", 4*tickMs)
			d.tick(tickMs)
			d.fireAllDue()
			o := d.opStart(s.method, s.backend, s.consume)
			for n := 0; !o.isFinished() && n < 64; n++ {
				// storage is slow: one tick per entry into the backend
				for !d.tick(tickMs) {
					d.fireAllDue()
				}
				d.fireAllDue()
				d.opRelease(o)
			}
			// run the context to its end (or a bounded number of ticks)
			for n := 0; n < 8; n++ {
				d.fireAllDue()
				d.tick(tickMs)
			}
			d.fireAllDue()
			d.finish()
		})
	}
	common.WriteJSON("meta.json", map[string]any{"scenarios": len(scs)})
}
