SPECIFICATION Spec
CONSTANTS
  Threads = {t1, t2, t3}
  Locks = {l1, l2, l3}
  None = None
  MaxReq = 2
  MaxRec = 1
  Budget = 2
  Multi = {t1, t2, t3}
SYMMETRY Sym
INVARIANTS
  TypeOK
  C14_MutualExclusion
  C14_NoLeak
  C14_PileIsHeld
  C14_NoHoldAndWait
  C14_NoWaitCycle
  C14_ReturnValue
CHECK_DEADLOCK TRUE
