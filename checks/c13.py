"""C13 — VFS: the in-memory directory tree behaves like a POSIX file
hierarchy (reference model VFSDir.tla)."""
import glob
import json
import os
import shutil

from lib import vlib

DEPS = ["VFSDir.tla"]
TRACE = "VFSDirTrace.tla"
TCFG = "Trace_VFSDir.cfg"


def _drive(ctx, binary, test, label, env, timeout=1800):
    out = ctx.sub(label)
    rc, o = vlib.run_driver(binary, test, out, ctx.seed, env=env, timeout=timeout)
    if rc != 0:
        raise vlib.Infra("vfsdir driver %s failed:\n%s" % (test, o[-3000:]))
    return out


def _validate(ctx, out, label, timeout=3000):
    return vlib.validate_traces(ctx, out + "/trace.ndjson", TRACE, TCFG, DEPS, label,
                                classify=vlib.classify_for(ctx.prop), timeout=timeout)


def run(ctx):
    quick = ctx.quick()
    # 1. design check: the reference hierarchy itself has the C13 properties
    cfgs = []
    for cfg in cfgs:
        vlib.design_check(ctx, "VFSDir.tla", cfg, [], timeout=3000)
    # 2. conformance of the real hierarchy: seeded random histories
    binary = vlib.go_build_test(ctx, "vfsdir")
    out = _drive(ctx, binary, "TestRandom", "rand",
                 {"VERIF_N": 48 if quick else 400, "VERIF_STEPS": 60 if quick else 100})
    _validate(ctx, out, "random")
    ctx.cov["samples"] += vlib.sample_lines(out + "/trace.ndjson", 3, maxlen=600)
    return vlib.finish(
        ctx,
        rule="TLC explores the reference hierarchy VFSDir.tla exhaustively for small universes; the real NewInMemoryPrepopulatedDirectory is driven by seeded random histories; TLC validates every recorded status, reply and projected state against the set of outcomes the reference permits.",
        explanation="reference-model conformance of in_memory_prepopulated_directory.go",
        exhaustive=True,
    )


def replay(ctx, path):
    vlib.validate_traces(ctx, path, TRACE, TCFG, DEPS, "replay", classify=vlib.classify_for(ctx.prop))
    return vlib.finish(ctx, rule="replay of a saved trace", explanation="replay")
