package inputroot

// In-memory Content Addressable Storage fake with fault injection, and the
// reference description of what is stored (the "raw" Directory messages
// that specs/InputRootOps.tla reasons about).

import (
	"context"
	"crypto/sha256"
	"encoding/hex"
	"fmt"
	"sort"

	remoteexecution "github.com/bazelbuild/remote-apis/build/bazel/remote/execution/v2"
	re_cas "github.com/buildbarn/bb-remote-execution/pkg/cas"
	"github.com/buildbarn/bb-storage/pkg/blobstore/buffer"
	"github.com/buildbarn/bb-storage/pkg/blobstore/slicing"
	"github.com/buildbarn/bb-storage/pkg/digest"

	"google.golang.org/grpc/codes"
	"google.golang.org/grpc/status"
	"google.golang.org/protobuf/encoding/protowire"
	"google.golang.org/protobuf/proto"
)

// idTable gives every digest a short stable name used in traces.
type idTable struct {
	ids  map[string]string
	list []digest.Digest
}

func newIDTable() *idTable { return &idTable{ids: map[string]string{}} }

func key(d digest.Digest) string { return d.GetKey(digest.KeyWithoutInstance) }

func (t *idTable) id(d digest.Digest) string {
	k := key(d)
	if v, ok := t.ids[k]; ok {
		return v
	}
	v := fmt.Sprintf("x%d", len(t.ids))
	t.ids[k] = v
	t.list = append(t.list, d)
	return v
}

// lookup never assigns a new id; a digest that cannot even be keyed (the
// zero Digest) is reported as "?bad".
func (t *idTable) lookup(d digest.Digest) (id string) {
	defer func() {
		if recover() != nil {
			id = "?bad"
		}
	}()
	if v, ok := t.ids[key(d)]; ok {
		return v
	}
	return "?"
}

// fakeCAS implements blobstore.BlobAccess.
type fakeCAS struct {
	blobs map[string][]byte
	ids   *idTable

	// Fault injection: when armed >= 0, that many Gets are let
	// through and the next one fails.
	armed    int
	faults   []string
	gets     int
	puts     int
	injected int
}

func newFakeCAS(ids *idTable) *fakeCAS {
	return &fakeCAS{blobs: map[string][]byte{}, ids: ids, armed: -1}
}

func (c *fakeCAS) store(d digest.Digest, data []byte) {
	c.ids.id(d)
	c.blobs[key(d)] = data
}

func (c *fakeCAS) arm(k int) { c.armed = k; c.faults = nil }

// disarm returns the ids whose Get was failed since arm().
func (c *fakeCAS) disarm() []string {
	c.armed = -1
	f := c.faults
	c.faults = nil
	if f == nil {
		f = []string{}
	}
	return f
}

func (c *fakeCAS) inject(d digest.Digest) bool {
	c.gets++
	if c.armed < 0 {
		return false
	}
	if c.armed > 0 {
		c.armed--
		return false
	}
	c.armed = -1
	c.injected++
	c.faults = append(c.faults, c.ids.id(d))
	return true
}

func (c *fakeCAS) Get(ctx context.Context, d digest.Digest) buffer.Buffer {
	if c.inject(d) {
		return buffer.NewBufferFromError(status.Error(codes.Unavailable, "injected storage error"))
	}
	data, ok := c.blobs[key(d)]
	if !ok {
		return buffer.NewBufferFromError(status.Errorf(codes.NotFound, "Blob %s not found", d))
	}
	return buffer.NewCASBufferFromByteSlice(d, data, buffer.UserProvided)
}

func (c *fakeCAS) GetFromComposite(ctx context.Context, parentDigest, childDigest digest.Digest, slicer slicing.BlobSlicer) buffer.Buffer {
	b, _ := slicer.Slice(c.Get(ctx, parentDigest), childDigest)
	return b
}

func (c *fakeCAS) Put(ctx context.Context, d digest.Digest, b buffer.Buffer) error {
	c.puts++
	data, err := b.ToByteSlice(1 << 20)
	if err != nil {
		return err
	}
	// Deliberately unvalidated: a bad writer would change what
	// every other reader of the digest sees, and the final scan
	// would show it.
	c.blobs[key(d)] = data
	return nil
}

func (c *fakeCAS) FindMissing(ctx context.Context, digests digest.Set) (digest.Set, error) {
	missing := digest.NewSetBuilder(0)
	for _, d := range digests.Items() {
		if _, ok := c.blobs[key(d)]; !ok {
			missing.Add(d)
		}
	}
	return missing.Build(), nil
}

func (c *fakeCAS) GetCapabilities(ctx context.Context, instanceName digest.InstanceName) (*remoteexecution.ServerCapabilities, error) {
	return nil, status.Error(codes.Unimplemented, "not needed")
}

func (c *fakeCAS) hashOf(d digest.Digest) string {
	data, ok := c.blobs[key(d)]
	if !ok {
		return "absent"
	}
	s := sha256.Sum256(data)
	return hex.EncodeToString(s[:])
}

// ---------------------------------------------------------------------
// Reference description of stored Directory / Tree messages.

type rawDirEntry struct {
	Name   string `json:"name"`
	Digest string `json:"digest"`
}
type rawFileEntry struct {
	Name string `json:"name"`
	Blob string `json:"blob"`
	Size int64  `json:"size"`
	Exec bool   `json:"exec"`
}
type rawSymlinkEntry struct {
	Name   string `json:"name"`
	Target string `json:"target"`
}
type rawDir struct {
	State    string            `json:"state"`
	Dirs     []rawDirEntry     `json:"dirs"`
	Files    []rawFileEntry    `json:"files"`
	Symlinks []rawSymlinkEntry `json:"symlinks"`

	dirDigests []digest.Digest
}
type rawTree struct {
	Root rawDir            `json:"root"`
	Kids map[string]rawDir `json:"kids"`
}

func emptyRaw(state string) rawDir {
	return rawDir{State: state, Dirs: []rawDirEntry{}, Files: []rawFileEntry{}, Symlinks: []rawSymlinkEntry{}}
}

// disp makes a name safe for the trace: printable ASCII is kept, anything
// else is hex encoded. The set of invalid names in Trace_InputRoot.cfg is
// written in this form.
func disp(s string) string {
	for i := 0; i < len(s); i++ {
		if s[i] < 0x20 || s[i] > 0x7e {
			return "bin:" + hex.EncodeToString([]byte(s))
		}
	}
	return s
}

// describeDirectory parses bytes the way any REv2 client would and
// describes the message; digests that cannot be parsed become "BAD".
func describeDirectory(ids *idTable, df digest.Function, data []byte) rawDir {
	var m remoteexecution.Directory
	if err := proto.Unmarshal(data, &m); err != nil {
		return emptyRaw("bad")
	}
	r := emptyRaw("ok")
	for _, e := range m.Directories {
		d, err := df.NewDigestFromProto(e.Digest)
		if err != nil {
			r.Dirs = append(r.Dirs, rawDirEntry{Name: disp(e.Name), Digest: "BAD"})
			continue
		}
		r.Dirs = append(r.Dirs, rawDirEntry{Name: disp(e.Name), Digest: ids.id(d)})
		r.dirDigests = append(r.dirDigests, d)
	}
	for _, e := range m.Files {
		d, err := df.NewDigestFromProto(e.Digest)
		if err != nil {
			r.Files = append(r.Files, rawFileEntry{Name: disp(e.Name), Blob: "BAD", Size: 0, Exec: e.IsExecutable})
			continue
		}
		r.Files = append(r.Files, rawFileEntry{Name: disp(e.Name), Blob: ids.id(d), Size: d.GetSizeBytes(), Exec: e.IsExecutable})
	}
	for _, e := range m.Symlinks {
		r.Symlinks = append(r.Symlinks, rawSymlinkEntry{Name: disp(e.Name), Target: e.Target})
	}
	return r
}

func digestOf(df digest.Function, data []byte) digest.Digest {
	g := df.NewGenerator(int64(len(data)))
	g.Write(data)
	return g.Sum()
}

// buildTree serialises a Tree message field by field so that the bytes of
// every embedded Directory are exactly the given ones.
func buildTree(root []byte, children [][]byte, extraRoots int) []byte {
	var b []byte
	for i := 0; i <= extraRoots; i++ {
		b = protowire.AppendTag(b, 1, protowire.BytesType)
		b = protowire.AppendBytes(b, root)
	}
	for _, c := range children {
		b = protowire.AppendTag(b, 2, protowire.BytesType)
		b = protowire.AppendBytes(b, c)
	}
	return b
}

// describeTree describes a stored blob read as a Tree message.
func describeTree(ids *idTable, df digest.Function, data []byte) rawTree {
	t := rawTree{Root: emptyRaw("missing"), Kids: map[string]rawDir{}}
	roots := 0
	b := data
	for len(b) > 0 {
		num, typ, n := protowire.ConsumeTag(b)
		if n < 0 {
			return rawTree{Root: emptyRaw("bad"), Kids: map[string]rawDir{}}
		}
		b = b[n:]
		if typ != protowire.BytesType {
			m := protowire.ConsumeFieldValue(num, typ, b)
			if m < 0 {
				return rawTree{Root: emptyRaw("bad"), Kids: map[string]rawDir{}}
			}
			b = b[m:]
			continue
		}
		v, m := protowire.ConsumeBytes(b)
		if m < 0 {
			return rawTree{Root: emptyRaw("bad"), Kids: map[string]rawDir{}}
		}
		b = b[m:]
		switch num {
		case 1:
			roots++
			t.Root = describeDirectory(ids, df, v)
			// the root is also addressable by its digest
			t.Kids[ids.id(digestOf(df, v))] = describeDirectory(ids, df, v)
		case 2:
			t.Kids[ids.id(digestOf(df, v))] = describeDirectory(ids, df, v)
		}
	}
	if roots > 1 {
		t.Root = emptyRaw("bad")
	}
	return t
}

// treeWalker is a cas.DirectoryWalker over a Tree object, the counterpart
// of cas.NewDecomposedDirectoryWalker for directories stored inside a
// Tree (bb_clientd has the same type; this repository only ships the
// fetcher side).
type treeWalker struct {
	fetcher re_cas.DirectoryFetcher
	tree    digest.Digest
	child   *digest.Digest
}

func (w *treeWalker) GetDirectory(ctx context.Context) (*remoteexecution.Directory, error) {
	if w.child == nil {
		return w.fetcher.GetTreeRootDirectory(ctx, w.tree)
	}
	return w.fetcher.GetTreeChildDirectory(ctx, w.tree, *w.child)
}

func (w *treeWalker) GetChild(d digest.Digest) re_cas.DirectoryWalker {
	return &treeWalker{fetcher: w.fetcher, tree: w.tree, child: &d}
}

func (w *treeWalker) GetDescription() string {
	if w.child == nil {
		return fmt.Sprintf("Tree %#v root directory", w.tree.String())
	}
	return fmt.Sprintf("Tree %#v child directory %#v", w.tree.String(), w.child.String())
}

func (w *treeWalker) GetContainingDigest() digest.Digest { return w.tree }

func sortedKeys[V any](m map[string]V) []string {
	ks := make([]string, 0, len(m))
	for k := range m {
		ks = append(ks, k)
	}
	sort.Strings(ks)
	return ks
}
