package nfs41

import (
	"testing"
	"testing/synctest"

	"github.com/buildbarn/go-xdr/pkg/protocols/nfsv4"

	"verif/harness/common"
)

// Concurrency: a COMPOUND [PUTFH, READ|WRITE] is held inside the leaf's
// VirtualRead/VirtualWrite while other requests run. Everything happens
// inside a testing/synctest bubble, so "every goroutine is durably
// blocked" is decided by the runtime, not by timeouts.

type callResult struct {
	res *nfsv4.Compound4res
	pan string
}

type heldCall struct {
	c     *clientC
	x     int
	sess  [16]byte
	slot  uint32
	seq   uint32
	cache bool
	ops   []*Op
	gate  *heldIO
	done  chan callResult
	held  bool
}

// hold starts [PUTFH fh, READ/WRITE sid] and returns once the request
// is either blocked inside the leaf or has completed.
func (s *script) hold(c *clientC, slot int, leaf int, kind string, fh []byte, id sid) *heldCall {
	if s.dead {
		return nil
	}
	ss := c.sess[0]
	sl := &ss.slots[slot]
	io := read(id)
	if kind == "WRITE" {
		io = write(id, "HH")
	}
	hc := &heldCall{c: c, x: s.e.newCtx(), sess: ss.id, slot: uint32(slot), seq: sl.next, cache: true,
		ops: []*Op{putfh(fh), io}, done: make(chan callResult, 1)}
	hc.gate = s.e.armGate(kind, leaf)
	args := seqArgs(hc.sess, hc.slot, hc.seq, hc.cache, hc.ops)
	go func() {
		res, pan := s.e.call(args)
		hc.done <- callResult{res, pan}
	}()
	synctest.Wait()
	select {
	case <-hc.gate.arrived:
		hc.held = true
		sl.next = hc.seq + 1
		sl.last = &sentReq{seq: hc.seq, cache: hc.cache, ops: hc.ops}
		s.e.tr.Emit(s.e.seqEvent(hc.x, hc.sess, hc.slot, hc.seq, hc.cache, hc.ops, "OK"))
		s.e.tr.Emit(common.Ev{"ev": "PUTFH", "x": hc.x, "st": "OK", "rop": "PUTFH", "fh": s.e.fhNum(fh)})
		s.e.tr.Emit(common.Ev{"ev": "iostart", "x": hc.x, "op": kind, "sid": s.e.sidEv(id), "f": leaf})
		s.e.snapshot("h")
	default:
		// The request never reached the leaf: it completed.
		s.e.disarmGate()
		s.finishHeld(hc, 0)
	}
	return hc
}

// finishHeld collects the result of a held call and logs what has not
// been logged yet.
func (s *script) finishHeld(hc *heldCall, from int) {
	r := <-hc.done
	defer s.e.freeCtx(hc.x)
	if r.pan != "" {
		if from == 0 {
			s.e.tr.Emit(s.e.seqEvent(hc.x, hc.sess, hc.slot, hc.seq, hc.cache, hc.ops, "PANIC"))
		}
		s.e.panicEvent(hc.x, hc.ops, r.pan, true)
		s.dead = true
		return
	}
	res := r.res
	if from > 0 && (len(res.Resarray) < 3 || resopStatus(res.Resarray[0]) != nfsv4.NFS4_OK || resopStatus(res.Resarray[1]) != nfsv4.NFS4_OK) {
		s.e.tr.Emit(common.Ev{"ev": "anomaly", "what": "held request reached the leaf but its reply says otherwise"})
	}
	if from == 0 && len(res.Resarray) > 0 && resopStatus(res.Resarray[0]) == nfsv4.NFS4_OK {
		sl := &hc.c.sess[0].slots[hc.slot]
		sl.next = hc.seq + 1
		sl.last = &sentReq{seq: hc.seq, cache: hc.cache, ops: hc.ops}
	}
	s.e.logSeqResult(hc.x, hc.sess, hc.slot, hc.seq, hc.cache, hc.ops, true, res, from)
}

// release lets a held request continue and waits for its completion.
func (s *script) release(hc *heldCall) {
	if hc == nil || !hc.held || s.dead {
		return
	}
	hc.held = false
	close(hc.gate.release)
	synctest.Wait()
	s.finishHeld(hc, 1)
}

type dupCall struct {
	x       int
	done    chan callResult
	waiting bool
}

// duplicate sends a request with the slot and sequence ID of a request
// that is in flight.
func (s *script) duplicate(hc *heldCall, cache bool, ops []*Op) *dupCall {
	if s.dead {
		return nil
	}
	d := &dupCall{x: s.e.newCtx(), done: make(chan callResult, 1)}
	args := seqArgs(hc.sess, hc.slot, hc.seq, cache, ops)
	go func() {
		res, pan := s.e.call(args)
		d.done <- callResult{res, pan}
	}()
	synctest.Wait()
	select {
	case r := <-d.done:
		// It did not wait.
		defer s.e.freeCtx(d.x)
		if r.pan != "" {
			s.e.tr.Emit(s.e.seqEvent(d.x, hc.sess, hc.slot, hc.seq, cache, ops, "PANIC"))
			s.e.panicEvent(d.x, ops, r.pan, false)
			s.dead = true
			return d
		}
		s.e.logSeqResult(d.x, hc.sess, hc.slot, hc.seq, cache, ops, false, r.res, 0)
	default:
		d.waiting = true
		ev := s.e.seqEvent(d.x, hc.sess, hc.slot, hc.seq, cache, ops, "WAIT")
		ev["ev"] = "dupstart"
		s.e.tr.Emit(ev)
		s.e.snapshot("h")
	}
	return d
}

// collect logs how a waiting duplicate ended. It must be called after
// the original has been released. It returns false if the duplicate
// never returned.
func (s *script) collect(d *dupCall) bool {
	if d == nil || !d.waiting {
		return true
	}
	synctest.Wait()
	select {
	case r := <-d.done:
		defer s.e.freeCtx(d.x)
		if r.pan != "" {
			s.e.panicEvent(d.x, nil, r.pan, false)
			s.dead = true
			return true
		}
		ev := s.e.endEvent(d.x, r.res)
		ev["ev"] = "dupend"
		s.e.tr.Emit(ev)
		s.e.snapshot("c")
		return true
	default:
		s.e.tr.Emit(common.Ev{"ev": "duphang", "x": d.x})
		s.dead = true
		return false
	}
}

var concScenarios = []scenario{
	{"io-in-flight-close", func(s *script) {
		a := s.client("A", 1)
		b := s.client("B", 1)
		s.do(a, putroot(), openName("o1", "a", shRW, "NOCREATE"), getfh())
		oa := a.open("o1", s.fh(1)).sid
		s.do(a, putfh(s.fh(1)), lockNew(oa, "l1", "W", 0, 4))
		h := s.hold(a, 0, 1, "READ", s.fh(1), oa)
		s.doOn(a, 0, 1, true, putfh(s.fh(1)), closeOp(oa))
		s.doOn(b, 0, 0, true, putfh(s.fh(1)), lockt("l1", "W", 0, 4))
		s.doOn(a, 0, 1, true, putroot(), openName("o1", "a", shR, "NOCREATE"), getfh())
		s.doOn(a, 0, 1, true, putfh(s.fh(1)), read(oa))
		s.release(h)
		s.doOn(a, 0, 1, true, putfh(s.fh(1)), closeOp(a.open("o1", s.fh(1)).sid))
	}},
	{"io-in-flight-downgrade", func(s *script) {
		a := s.client("A", 1)
		s.do(a, putroot(), openName("o1", "a", shRW, "NOCREATE"), getfh())
		oa := a.open("o1", s.fh(1))
		h := s.hold(a, 0, 1, "WRITE", s.fh(1), oa.sid)
		s.doOn(a, 0, 1, true, putfh(s.fh(1)), downgrade(oa.sid, shR))
		s.doOn(a, 0, 1, true, putfh(s.fh(1)), write(oa.sid, "no"))
		s.doOn(a, 0, 1, true, putroot(), remove("a"))
		s.release(h)
		s.doOn(a, 0, 1, true, putfh(s.fh(1)), closeOp(oa.sid))
		s.doOn(a, 0, 1, true, putfh(s.fh(1)))
	}},
	{"downgrade-during-io-then-upgrade", func(s *script) {
		// An in-flight WRITE alone keeps the write share after the
		// downgrade; the upgrade must treat its leaf open as redundant.
		a := s.client("A", 1)
		s.do(a, putroot(), openName("o1", "a", shRW, "NOCREATE"), getfh())
		oa := a.open("o1", s.fh(1))
		h := s.hold(a, 0, 1, "WRITE", s.fh(1), oa.sid)
		s.doOn(a, 0, 1, true, putfh(s.fh(1)), downgrade(oa.sid, shR))
		s.doOn(a, 0, 1, true, putfh(s.fh(1)), openFH("o1", shW, "FH"))
		s.release(h)
		s.doOn(a, 0, 1, true, putfh(s.fh(1)), closeOp(oa.sid))
	}},
	{"io-in-flight-lease", func(s *script) {
		a := s.client("A", 1)
		b := s.client("B", 1)
		s.do(a, putroot(), openName("o1", "a", shRW, "NOCREATE"), getfh())
		oa := a.open("o1", s.fh(1))
		h := s.hold(a, 0, 1, "READ", s.fh(1), oa.sid)
		s.e.advance(leaseTicks + 3)
		s.do(b, putroot(), openName("o1", "a", shR, "NOCREATE"), getfh()) // B re-registers below if needed
		a2 := newClient("A", 2)
		s.clients = append(s.clients, a2)
		s.register(a2, true) // CREATE_SESSION must be delayed: A's incarnation is busy
		s.e.destroyClientID(a.cid, true)
		s.e.destroySession(a.sess[0].id, true)
		s.release(h)
		s.newSession(a2, a2.csNext)
		s.do(a2, putfh(s.fh(1)), read(oa.sid))
	}},
	{"io-in-flight-anonymous", func(s *script) {
		a := s.client("A", 1)
		b := s.client("B", 1)
		h := s.hold(a, 0, 1, "READ", s.fh(1), anonSid)
		s.do(b, putroot(), remove("a"))
		s.do(b, putfh(s.fh(1)), read(anonSid))
		s.release(h)
		h2 := s.hold(a, 0, 2, "WRITE", s.fh(2), bypassSid)
		s.do(b, putroot(), openName("o1", "b", shRW, "NOCREATE"), getfh())
		s.release(h2)
	}},
	{"duplicate-in-flight-same", func(s *script) {
		a := s.client("A", 1)
		s.do(a, putroot(), openName("o1", "a", shRW, "NOCREATE"), getfh())
		oa := a.open("o1", s.fh(1))
		h := s.hold(a, 0, 1, "READ", s.fh(1), oa.sid)
		d1 := s.duplicate(h, true, h.ops)
		d2 := s.duplicate(h, true, h.ops)
		s.release(h)
		if s.collect(d1) {
			s.collect(d2)
		}
		s.resend(a, 0, 0, h.seq, true, h.ops...) // and once more from the cache
	}},
	{"duplicate-in-flight-different", func(s *script) {
		a := s.client("A", 1)
		s.do(a, putroot(), openName("o1", "a", shRW, "NOCREATE"), getfh())
		oa := a.open("o1", s.fh(1))
		h := s.hold(a, 0, 1, "READ", s.fh(1), oa.sid)
		d := s.duplicate(h, true, []*Op{putroot(), getfh(), getfh()})
		s.release(h)
		s.collect(d)
	}},
}

// TestInFlight runs the scenarios with I/O in flight and duplicates of
// requests in flight. If a duplicate never returns, the trace says so
// and the test binary ends with synctest's deadlock report.
func TestInFlight(t *testing.T) {
	tr := common.NewTrace("trace.ndjson")
	only := common.Env("VERIF_SCEN", "")
	for i, sc := range concScenarios {
		if only != "" && only != sc.name {
			continue
		}
		hung := false
		synctest.Test(t, func(t *testing.T) {
			s := newScript(tr, 100+i, sc.name, []string{"a", "b"})
			runGuarded(s, sc)
			if s.dead {
				hung = true
				tr.Close()
				return
			}
			s.finish()
		})
		if hung {
			return
		}
	}
	tr.Close()
}
