SPECIFICATION Spec
CONSTANTS
  Threads = {"t1", "t2"}
  WithDirs = TRUE
  MaxCtr = 2
INVARIANTS
  TypeOK
  C12_Mutex
  C12_UseCount
  C12_NoLostWakeup
  C12_DirsDistinct
  C12_NothingLeft
  C12_DirsOnlyWhileHeld
  C12_CleanRoot
PROPERTIES
  C12_Edges
  C12_NoStartAfterFailedClean
CHECK_DEADLOCK TRUE
