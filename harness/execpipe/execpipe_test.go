// Package execpipe drives the worker's real result pipeline
//
//	NewCachingBuildExecutor(
//	  NewMetricsBuildExecutor(NewFilePoolStatsBuildExecutor(NewTimestampedBuildExecutor(
//	    NewStorageFlushingBuildExecutor(base, flush)))),
//	  cas, ac, browserURL)
//
// (the order of cmd/bb_worker/main.go) with the real
// blobstore.NewBatchedStoreBlobAccess on top of an instrumented in-memory
// CAS, and records NDJSON traces that specs/ExecPipelineTrace.tla judges
// (property C09). `base` is a scripted BuildExecutor that behaves like
// localBuildExecutor during its upload phase: it Puts the blobs the
// scenario lists through the batching layer, references a digest only if
// the Put returned nil and attaches a Put error to the response.
//
// Nothing is judged here: the fakes log every storage call with its
// digests and result, the returns of Put and flush, the response as it
// travels up the stack, and the final contents of CAS and AC.
package execpipe

import (
	"bytes"
	"context"
	"fmt"
	"math/rand"
	"net/url"
	"runtime"
	"sort"
	"strings"
	"sync"
	"sync/atomic"
	"testing"
	"time"

	remoteexecution "github.com/bazelbuild/remote-apis/build/bazel/remote/execution/v2"
	re_blobstore "github.com/buildbarn/bb-remote-execution/pkg/blobstore"
	"github.com/buildbarn/bb-remote-execution/pkg/builder"
	"github.com/buildbarn/bb-remote-execution/pkg/filesystem/access"
	"github.com/buildbarn/bb-remote-execution/pkg/filesystem/pool"
	"github.com/buildbarn/bb-remote-execution/pkg/proto/remoteworker"
	"github.com/buildbarn/bb-storage/pkg/blobstore"
	"github.com/buildbarn/bb-storage/pkg/blobstore/buffer"
	"github.com/buildbarn/bb-storage/pkg/blobstore/slicing"
	"github.com/buildbarn/bb-storage/pkg/clock"
	"github.com/buildbarn/bb-storage/pkg/digest"
	"golang.org/x/sync/semaphore"
	"google.golang.org/grpc/codes"
	"google.golang.org/grpc/status"
	"google.golang.org/protobuf/types/known/emptypb"

	"verif/harness/common"
)

// ---------------------------------------------------------------------
// Scenarios

type put struct {
	D    string `json:"d"`    // blob name
	Role string `json:"role"` // file | dir | stdout | stderr | log
}

type scenario struct {
	Batch  int
	Sem    int
	DNC    bool
	Req    string // good | noaction | baddigest
	BaseOK bool   // status of the base executor's own outcome
	Exit   int
	Pre    []string // blobs that exist in the CAS beforehand
	Puts   []put
	Yield  int64 // != 0: the CAS fake yields the processor pseudo-randomly
}

// fault makes the K-th call of a kind fail, fail while cancelling the
// request context ("cancel"), or succeed with the request context being
// cancelled before the call returns ("okcancel": a cancellation that no
// storage call reports).
type fault struct {
	Kind string // batch.fm | batch.put | caching.put | ac.put
	K    int
	What string // fail | cancel | okcancel
}

var faultKinds = []string{"fail", "cancel", "okcancel"}

// succeeded: the storage call itself did what it was asked to do.
func succeeded(res string) bool { return res == "ok" || res == "okcancel" }

type call struct {
	Kind string
	K    int
	Res  string
}

var (
	digestFunction = digest.MustNewFunction("verif", remoteexecution.DigestFunction_SHA256)
	blobNames      = []string{"b1", "b2", "b3", "b4", "b5", "b6"}
	blobData       = map[string][]byte{}
	blobDigest     = map[string]digest.Digest{}
	nameByHash     = map[string]string{}
	roles          = []string{"file", "dir", "stdout", "stderr", "log"}
)

func init() {
	for i, n := range blobNames {
		data := []byte(fmt.Sprintf("contents of blob %s %s", n, strings.Repeat("x", i*7)))
		g := digestFunction.NewGenerator(int64(len(data)))
		g.Write(data)
		d := g.Sum()
		blobData[n] = data
		blobDigest[n] = d
		nameByHash[d.GetHashString()] = n
	}
}

// ---------------------------------------------------------------------
// The world: CAS, AC, fault script, log.

type world struct {
	mu     sync.Mutex
	tr     *common.Trace
	cas    map[string]bool
	ac     []common.Ev
	faults map[string]map[int]string
	counts map[string]int
	calls  []call
	cancel context.CancelFunc
	yield  int64
	ycount atomic.Int64
}

func newWorld(tr *common.Trace, sc *scenario, script []fault, cancel context.CancelFunc) *world {
	w := &world{tr: tr, cas: map[string]bool{}, faults: map[string]map[int]string{}, counts: map[string]int{}, cancel: cancel, yield: sc.Yield}
	for _, n := range sc.Pre {
		w.cas[n] = true
	}
	for _, f := range script {
		if w.faults[f.Kind] == nil {
			w.faults[f.Kind] = map[int]string{}
		}
		w.faults[f.Kind][f.K] = f.What
	}
	return w
}

func (w *world) maybeYield() {
	if w.yield == 0 {
		return
	}
	// A cheap deterministic-per-call-number mixing function; it only
	// perturbs goroutine scheduling.
	n := w.ycount.Add(1)
	x := uint64(w.yield)*0x9E3779B97F4A7C15 + uint64(n)*0xBF58476D1CE4E5B9
	x ^= x >> 29
	for i := uint64(0); i < x%4; i++ {
		runtime.Gosched()
	}
}

// outcome decides the result of one storage call. Must hold w.mu.
func (w *world) outcome(ctx context.Context, kind string) (string, int) {
	w.counts[kind]++
	k := w.counts[kind]
	res := "ok"
	if ctx.Err() != nil {
		res = "ctxdone"
	} else if f, ok := w.faults[kind][k]; ok {
		res = f
		if f == "cancel" {
			w.cancel()
		}
	}
	w.calls = append(w.calls, call{kind, k, res})
	return res, k
}

// after is called (w.mu held) when a storage call has done its work: an
// "okcancel" call cancels the request context now, so that the caller
// finds it cancelled when the call returns.
func (w *world) after(res string) {
	if res == "okcancel" {
		w.cancel()
	}
}

func errorFor(res string) error {
	switch res {
	case "fail":
		return status.Error(codes.Unavailable, "injected storage failure")
	case "cancel", "ctxdone":
		return status.Error(codes.Canceled, "context canceled")
	}
	return nil
}

func nameOf(d digest.Digest, unknown string) string {
	if n, ok := nameByHash[d.GetHashString()]; ok && blobDigest[n].GetSizeBytes() == d.GetSizeBytes() {
		return n
	}
	return unknown
}

func protoName(d *remoteexecution.Digest) string {
	if n, ok := nameByHash[d.GetHash()]; ok && blobDigest[n].GetSizeBytes() == d.GetSizeBytes() {
		return n
	}
	return "x"
}

func (w *world) emit(ev common.Ev) {
	w.mu.Lock()
	w.tr.Emit(ev)
	w.mu.Unlock()
}

// casView is the CAS as seen by one user (the batching layer, or the
// caching executor); both views share the same contents.
type casView struct {
	w   *world
	via string
}

func (v *casView) GetCapabilities(ctx context.Context, instanceName digest.InstanceName) (*remoteexecution.ServerCapabilities, error) {
	return nil, status.Error(codes.Unimplemented, "not needed")
}

func (v *casView) Get(ctx context.Context, d digest.Digest) buffer.Buffer {
	w := v.w
	w.mu.Lock()
	defer w.mu.Unlock()
	res, k := w.outcome(ctx, v.via+".get")
	n := nameOf(d, "hist")
	if succeeded(res) && !w.cas[n] {
		res = "notfound"
	}
	w.tr.Emit(common.Ev{"ev": "cas", "via": v.via, "op": "get", "ds": []string{n}, "res": res, "missing": []string{}, "k": k})
	w.after(res)
	if succeeded(res) {
		if data, ok := blobData[n]; ok {
			return buffer.NewValidatedBufferFromByteSlice(data)
		}
	}
	if res == "notfound" || succeeded(res) {
		return buffer.NewBufferFromError(status.Error(codes.NotFound, "blob not found"))
	}
	return buffer.NewBufferFromError(errorFor(res))
}

func (v *casView) GetFromComposite(ctx context.Context, parentDigest, childDigest digest.Digest, slicer slicing.BlobSlicer) buffer.Buffer {
	return v.Get(ctx, childDigest)
}

func (v *casView) Put(ctx context.Context, d digest.Digest, b buffer.Buffer) error {
	w := v.w
	w.maybeYield()
	w.mu.Lock()
	defer w.mu.Unlock()
	res, k := w.outcome(ctx, v.via+".put")
	n := nameOf(d, "hist")
	if succeeded(res) {
		// Consuming the buffer validates the contents against the digest.
		if _, err := b.ToByteSlice(1 << 20); err != nil {
			res = "baddata"
		} else {
			w.cas[n] = true
		}
	} else {
		b.Discard()
	}
	w.tr.Emit(common.Ev{"ev": "cas", "via": v.via, "op": "put", "ds": []string{n}, "res": res, "missing": []string{}, "k": k})
	w.after(res)
	if res == "baddata" {
		return status.Error(codes.InvalidArgument, "contents do not match digest")
	}
	return errorFor(res)
}

func (v *casView) FindMissing(ctx context.Context, digests digest.Set) (digest.Set, error) {
	w := v.w
	w.maybeYield()
	w.mu.Lock()
	defer w.mu.Unlock()
	res, k := w.outcome(ctx, v.via+".fm")
	ds := []string{}
	missing := []string{}
	mb := digest.NewSetBuilder(0)
	for _, d := range digests.Items() {
		n := nameOf(d, "hist")
		ds = append(ds, n)
		if succeeded(res) && !w.cas[n] {
			missing = append(missing, n)
			mb.Add(d)
		}
	}
	w.tr.Emit(common.Ev{"ev": "cas", "via": v.via, "op": "fm", "ds": ds, "res": res, "missing": missing, "k": k})
	w.after(res)
	if !succeeded(res) {
		return digest.EmptySet, errorFor(res)
	}
	return mb.Build(), nil
}

// acFake is the Action Cache.
type acFake struct{ w *world }

func (a *acFake) GetCapabilities(ctx context.Context, instanceName digest.InstanceName) (*remoteexecution.ServerCapabilities, error) {
	return nil, status.Error(codes.Unimplemented, "not needed")
}

func emptyResult() common.Ev {
	return common.Ev{"exit": 0, "files": []string{}, "dirs": []string{}, "stdout": []string{}, "stderr": []string{}, "decoded": false}
}

func (a *acFake) other(ctx context.Context, op string) string {
	w := a.w
	w.mu.Lock()
	defer w.mu.Unlock()
	res, k := w.outcome(ctx, "ac."+op)
	w.tr.Emit(common.Ev{"ev": "ac", "op": op, "res": res, "result": emptyResult(), "k": k})
	w.after(res)
	return res
}

func (a *acFake) Get(ctx context.Context, d digest.Digest) buffer.Buffer {
	a.other(ctx, "get")
	return buffer.NewBufferFromError(status.Error(codes.NotFound, "no such action result"))
}

func (a *acFake) GetFromComposite(ctx context.Context, parentDigest, childDigest digest.Digest, slicer slicing.BlobSlicer) buffer.Buffer {
	return a.Get(ctx, childDigest)
}

func (a *acFake) FindMissing(ctx context.Context, digests digest.Set) (digest.Set, error) {
	a.other(ctx, "fm")
	return digests, nil
}

func projectResult(r *remoteexecution.ActionResult) common.Ev {
	p := emptyResult()
	if r == nil {
		return p
	}
	p["decoded"] = true
	p["exit"] = int(r.ExitCode)
	files, dirs := []string{}, []string{}
	for _, f := range r.OutputFiles {
		if f.Digest != nil {
			files = append(files, protoName(f.Digest))
		}
	}
	for _, d := range r.OutputDirectories {
		if d.TreeDigest != nil {
			dirs = append(dirs, protoName(d.TreeDigest))
		}
		if d.RootDirectoryDigest != nil {
			dirs = append(dirs, protoName(d.RootDirectoryDigest))
		}
	}
	p["files"], p["dirs"] = files, dirs
	if r.StdoutDigest != nil {
		p["stdout"] = []string{protoName(r.StdoutDigest)}
	}
	if r.StderrDigest != nil {
		p["stderr"] = []string{protoName(r.StderrDigest)}
	}
	return p
}

func (a *acFake) Put(ctx context.Context, d digest.Digest, b buffer.Buffer) error {
	w := a.w
	w.mu.Lock()
	defer w.mu.Unlock()
	res, k := w.outcome(ctx, "ac.put")
	// Decode what the caller wants to store, whatever the outcome is.
	p := emptyResult()
	if m, err := b.ToProto(&remoteexecution.ActionResult{}, 1<<20); err == nil {
		p = projectResult(m.(*remoteexecution.ActionResult))
	} else if succeeded(res) {
		res = "baddata"
	}
	if succeeded(res) {
		w.ac = append(w.ac, p)
	}
	w.tr.Emit(common.Ev{"ev": "ac", "op": "put", "res": res, "result": p, "k": k})
	w.after(res)
	if res == "baddata" {
		return status.Error(codes.InvalidArgument, "not an ActionResult")
	}
	return errorFor(res)
}

var (
	_ blobstore.BlobAccess = (*casView)(nil)
	_ blobstore.BlobAccess = (*acFake)(nil)
)

// ---------------------------------------------------------------------
// Buffers whose consumption can be observed.

type countingReader struct {
	r      *bytes.Reader
	closes *atomic.Int32
}

func (c *countingReader) Read(p []byte) (int, error) { return c.r.Read(p) }
func (c *countingReader) Close() error               { c.closes.Add(1); return nil }

// ---------------------------------------------------------------------
// The response as the trace specification sees it.

func projectResponse(r *remoteexecution.ExecuteResponse) common.Ev {
	p := projectResult(r.GetResult())
	p["hasresult"] = r.GetResult() != nil
	delete(p, "decoded")
	p["code"] = int(r.GetStatus().GetCode())
	logs := []string{}
	for _, l := range r.GetServerLogs() {
		if l.GetDigest() != nil {
			logs = append(logs, protoName(l.Digest))
		}
	}
	sort.Strings(logs)
	p["logs"] = logs
	msg := ""
	switch {
	case strings.HasPrefix(r.GetMessage(), "Action details (cached result)"):
		msg = "cached"
	case strings.HasPrefix(r.GetMessage(), "Action details (uncached result)"):
		msg = "uncached"
	case r.GetMessage() != "":
		msg = "other"
	}
	p["msg"] = msg
	return p
}

// ---------------------------------------------------------------------
// The scripted base executor and the observer.

type baseExecutor struct {
	w      *world
	sc     *scenario
	writer blobstore.BlobAccess
	closes []*atomic.Int32
}

func (be *baseExecutor) CheckReadiness(ctx context.Context) error { return nil }

func attach(response *remoteexecution.ExecuteResponse, err error) {
	if status.ErrorProto(response.Status) == nil {
		response.Status = status.Convert(err).Proto()
	}
}

func (be *baseExecutor) Execute(ctx context.Context, filePool pool.FilePool, monitor access.UnreadDirectoryMonitor, digestFunction digest.Function, request *remoteworker.DesiredState_Executing, executionStateUpdates chan<- *remoteworker.CurrentState_Executing) *remoteexecution.ExecuteResponse {
	response := builder.NewDefaultExecuteResponse(request)
	executionStateUpdates <- &remoteworker.CurrentState_Executing{
		ActionDigest:   request.ActionDigest,
		ExecutionState: &remoteworker.CurrentState_Executing_Running{Running: &emptypb.Empty{}},
	}
	if !be.sc.BaseOK {
		attach(response, status.Error(codes.Internal, "Failed to run command: scripted failure"))
	}
	response.Result.ExitCode = int32(be.sc.Exit)
	executionStateUpdates <- &remoteworker.CurrentState_Executing{
		ActionDigest:   request.ActionDigest,
		ExecutionState: &remoteworker.CurrentState_Executing_UploadingOutputs{UploadingOutputs: &emptypb.Empty{}},
	}
	for i, p := range be.sc.Puts {
		d := blobDigest[p.D]
		closes := &atomic.Int32{}
		be.closes = append(be.closes, closes)
		b := buffer.NewCASBufferFromReader(d, &countingReader{r: bytes.NewReader(blobData[p.D]), closes: closes}, buffer.UserProvided)
		err := be.writer.Put(ctx, d, b)
		be.w.emit(common.Ev{"ev": "bput", "i": i + 1, "d": p.D, "role": p.Role, "err": err != nil, "code": int(status.Code(err))})
		if err != nil {
			attach(response, err)
			continue
		}
		switch p.Role {
		case "file":
			response.Result.OutputFiles = append(response.Result.OutputFiles, &remoteexecution.OutputFile{Path: fmt.Sprintf("out/f%d", i), Digest: d.GetProto()})
		case "dir":
			response.Result.OutputDirectories = append(response.Result.OutputDirectories, &remoteexecution.OutputDirectory{Path: fmt.Sprintf("out/d%d", i), TreeDigest: d.GetProto()})
		case "stdout":
			response.Result.StdoutDigest = d.GetProto()
		case "stderr":
			response.Result.StderrDigest = d.GetProto()
		case "log":
			response.ServerLogs[fmt.Sprintf("log%d", i)] = &remoteexecution.LogFile{Digest: d.GetProto()}
		}
	}
	be.w.emit(common.Ev{"ev": "bret", "resp": projectResponse(response)})
	return response
}

// observer logs the response that enters the caching executor.
type observer struct {
	builder.BuildExecutor
	w *world
}

func (o *observer) Execute(ctx context.Context, filePool pool.FilePool, monitor access.UnreadDirectoryMonitor, digestFunction digest.Function, request *remoteworker.DesiredState_Executing, executionStateUpdates chan<- *remoteworker.CurrentState_Executing) *remoteexecution.ExecuteResponse {
	response := o.BuildExecutor.Execute(ctx, filePool, monitor, digestFunction, request, executionStateUpdates)
	o.w.emit(common.Ev{"ev": "mid", "resp": projectResponse(response)})
	return response
}

// ---------------------------------------------------------------------
// One run.

var browserURL = &url.URL{Scheme: "http", Host: "browser.example.com"}

func describe(script []fault) string {
	parts := []string{}
	for _, f := range script {
		parts = append(parts, fmt.Sprintf("%s#%d=%s", f.Kind, f.K, f.What))
	}
	return strings.Join(parts, ",")
}

var runCounter int

// executeWatchdog bounds one Execute call in real time (VERIF_EXEC_WATCHDOG_S
// seconds, default 900). Exceeding it is an infrastructure failure.
var executeWatchdog = time.Duration(common.EnvInt("VERIF_EXEC_WATCHDOG_S", 900)) * time.Second

// runOne executes one scenario under one fault script on the real stack
// and logs it as one trace. It returns the storage calls that were made.
func runOne(t *testing.T, tr *common.Trace, sc *scenario, script []fault) []call {
	runCounter++
	ctx, cancel := context.WithCancel(context.Background())
	defer cancel()
	w := newWorld(tr, sc, script, cancel)
	pre := append([]string{}, sc.Pre...)
	sort.Strings(pre)
	puts := sc.Puts
	if puts == nil {
		puts = []put{}
	}
	w.emit(common.Ev{
		"ev": "reset", "trace": runCounter, "batch": sc.Batch, "sem": sc.Sem, "dnc": sc.DNC, "req": sc.Req,
		"baseok": sc.BaseOK, "exit": sc.Exit, "pre": pre, "puts": puts, "script": describe(script),
	})

	writer, flusher := re_blobstore.NewBatchedStoreBlobAccess(
		&casView{w: w, via: "batch"}, digest.KeyWithoutInstance, sc.Batch, semaphore.NewWeighted(int64(sc.Sem)))
	base := &baseExecutor{w: w, sc: sc, writer: writer}
	loggedFlusher := func(ctx context.Context) error {
		err := flusher(ctx)
		w.emit(common.Ev{"ev": "flush", "err": err != nil, "code": int(status.Code(err))})
		return err
	}
	var executor builder.BuildExecutor = builder.NewMetricsBuildExecutor(
		builder.NewFilePoolStatsBuildExecutor(
			builder.NewTimestampedBuildExecutor(
				builder.NewStorageFlushingBuildExecutor(base, loggedFlusher),
				clock.SystemClock, "verif-worker")))
	executor = builder.NewCachingBuildExecutor(
		&observer{BuildExecutor: executor, w: w},
		&casView{w: w, via: "caching"}, &acFake{w: w}, browserURL)

	actionData := []byte("an action")
	g := digestFunction.NewGenerator(int64(len(actionData)))
	g.Write(actionData)
	request := &remoteworker.DesiredState_Executing{
		ActionDigest: g.Sum().GetProto(),
		Action:       &remoteexecution.Action{DoNotCache: sc.DNC},
	}
	switch sc.Req {
	case "noaction":
		request.Action = nil
	case "baddigest":
		request.ActionDigest = &remoteexecution.Digest{Hash: "not a hash", SizeBytes: 1}
	}

	updates := make(chan *remoteworker.CurrentState_Executing)
	updatesDone := make(chan struct{})
	go func() {
		for range updates {
		}
		close(updatesDone)
	}()
	type outcome struct {
		response *remoteexecution.ExecuteResponse
		panicked any
	}
	done := make(chan outcome, 1)
	go func() {
		var o outcome
		defer func() {
			if r := recover(); r != nil {
				o.panicked = r
			}
			done <- o
		}()
		o.response = executor.Execute(ctx, pool.EmptyFilePool, nil, digestFunction, request, updates)
	}()
	var o outcome
	select {
	case o = <-done:
	case <-time.After(executeWatchdog):
		// Real time, so this is never a verdict: the driver fails, which
		// the check reports as inconclusive (exit 2). One run takes
		// milliseconds; the limit only ends a genuinely wedged process.
		tr.Close()
		t.Fatalf("INFRASTRUCTURE: Execute did not return within %s (scenario %+v, script %s)", executeWatchdog, *sc, describe(script))
	}
	close(updates)
	<-updatesDone

	if o.panicked != nil {
		w.emit(common.Ev{"ev": "panic", "msg": fmt.Sprint(o.panicked)})
	} else if o.response == nil {
		w.emit(common.Ev{"ev": "panic", "msg": "Execute returned a nil response"})
	} else {
		w.emit(common.Ev{"ev": "resp", "resp": projectResponse(o.response)})
	}

	w.mu.Lock()
	casNow := []string{}
	for n := range w.cas {
		if n != "hist" {
			casNow = append(casNow, n)
		}
	}
	sort.Strings(casNow)
	bufs := []common.Ev{}
	for i, c := range base.closes {
		bufs = append(bufs, common.Ev{"i": i + 1, "d": sc.Puts[i].D, "closes": int(c.Load())})
	}
	acNow := append([]common.Ev{}, w.ac...)
	calls := append([]call{}, w.calls...)
	tr.Emit(common.Ev{"ev": "end", "cas": casNow, "ac": acNow, "bufs": bufs, "calls": len(calls)})
	w.mu.Unlock()
	return calls
}

// explore runs the scenario without faults and then, depth-first, with a
// fault (fail, cancel and okcancel) at every storage call that a run made after
// its last injected fault, up to `depth` faults per run.
func explore(t *testing.T, tr *rotatingTrace, sc *scenario, depth int, runs *int) {
	var rec func(script []fault)
	rec = func(script []fault) {
		calls := runOne(t, tr.current(), sc, script)
		*runs++
		if len(script) >= depth {
			return
		}
		start := 0
		if len(script) > 0 {
			last := script[len(script)-1]
			start = -1
			for i, c := range calls {
				if c.Kind == last.Kind && c.K == last.K {
					start = i + 1
				}
			}
			if start < 0 {
				return
			}
		}
		for _, c := range calls[start:] {
			if c.Res == "ctxdone" {
				continue
			}
			for _, what := range faultKinds {
				next := append(append([]fault{}, script...), fault{c.Kind, c.K, what})
				rec(next)
			}
		}
	}
	rec(nil)
}

// rotatingTrace splits the log into files of bounded size (one TLC run
// each); a file always ends at the end of a run.
type rotatingTrace struct {
	limit int
	n     int
	tr    *common.Trace
	files []string
}

func (r *rotatingTrace) current() *common.Trace {
	if r.tr != nil && r.tr.Len() >= r.limit {
		r.tr.Close()
		r.tr = nil
	}
	if r.tr == nil {
		name := fmt.Sprintf("trace_%03d.ndjson", r.n)
		r.n++
		r.tr = common.NewTrace(name)
		r.files = append(r.files, name)
	}
	return r.tr
}

func (r *rotatingTrace) close() {
	if r.tr != nil {
		r.tr.Close()
	}
}

// canonicalSequences returns every sequence of blob indices of length
// 0..maxLen over at most maxBlobs blobs, up to renaming of blobs.
func canonicalSequences(maxLen, maxBlobs int) [][]int {
	out := [][]int{{}}
	var rec func(seq []int, used int)
	rec = func(seq []int, used int) {
		if len(seq) == maxLen {
			return
		}
		for b := 0; b <= used && b < maxBlobs; b++ {
			next := append(append([]int{}, seq...), b)
			out = append(out, next)
			u := used
			if b == used {
				u++
			}
			rec(next, u)
		}
	}
	rec(nil, 0)
	return out
}

func parseInts(s string) []int {
	out := []int{}
	for _, f := range strings.Split(s, ",") {
		var v int
		if _, err := fmt.Sscanf(strings.TrimSpace(f), "%d", &v); err == nil {
			out = append(out, v)
		}
	}
	return out
}

// TestEnumerate: every small scenario (put sequences with duplicates over
// at most three blobs, every subset already present in the CAS, batch
// sizes 1..3, every base outcome, do_not_cache or not) under every
// position of up to VERIF_EP_DEPTH faults.
func TestEnumerate(t *testing.T) {
	maxLen := common.EnvInt("VERIF_EP_MAXLEN", 3)
	depth := common.EnvInt("VERIF_EP_DEPTH", 1)
	deepLen := common.EnvInt("VERIF_EP_DEEPLEN", maxLen) // longest sequence explored at full depth
	sems := parseInts(common.Env("VERIF_EP_SEMS", "1"))
	rt := &rotatingTrace{limit: common.EnvInt("VERIF_EP_CHUNK", 150000)}
	defer rt.close()
	type outcomeT struct {
		ok   bool
		exit int
	}
	outcomes := []outcomeT{{true, 0}, {true, 1}, {false, 0}}
	scenarios, runs := 0, 0
	for _, seq := range canonicalSequences(maxLen, 3) {
		distinct := 0
		for _, b := range seq {
			if b+1 > distinct {
				distinct = b + 1
			}
		}
		d := depth
		if len(seq) > deepLen && d > 1 {
			d = 1
		}
		for preMask := 0; preMask < 1<<distinct; preMask++ {
			pre := []string{}
			for b := 0; b < distinct; b++ {
				if preMask&(1<<b) != 0 {
					pre = append(pre, blobNames[b])
				}
			}
			for batch := 1; batch <= 3; batch++ {
				for _, sem := range sems {
					if sem > 1 && (len(seq) < 2 || batch < 2) {
						continue // no two uploads can be in flight
					}
					type variant struct {
						o   outcomeT
						dnc bool
						req string
					}
					variants := []variant{}
					if sem == 1 {
						for _, o := range outcomes {
							for _, dnc := range []bool{false, true} {
								variants = append(variants, variant{o, dnc, "good"})
							}
						}
					} else {
						// Concurrency only concerns the batching
						// layer; the full outcome cross product is
						// explored with sem == 1.
						variants = append(variants, variant{outcomes[0], false, "good"}, variant{outcomes[2], true, "good"})
					}
					if batch == 1 && sem == 1 {
						variants = append(variants, variant{outcomes[0], false, "noaction"}, variant{outcomes[0], false, "baddigest"})
					}
					for _, v := range variants {
						puts := []put{}
						for i, b := range seq {
							puts = append(puts, put{blobNames[b], roles[(i+scenarios)%len(roles)]})
						}
						sc := &scenario{Batch: batch, Sem: sem, DNC: v.dnc, Req: v.req, BaseOK: v.o.ok, Exit: v.o.exit, Pre: pre, Puts: puts}
						if sem > 1 {
							sc.Yield = int64(scenarios + 1)
						}
						explore(t, rt, sc, d, &runs)
						scenarios++
					}
				}
			}
		}
	}
	common.WriteJSON("meta.json", map[string]any{
		"scenarios": scenarios, "runs": runs, "files": rt.files, "maxlen": maxLen, "depth": depth,
		"deeplen": deepLen, "sems": sems, "exhaustive": true,
	})
}

// TestRandom: seeded random scenarios (more blobs, longer put sequences,
// larger batches, concurrency) under random multi-fault scripts.
func TestRandom(t *testing.T) {
	n := common.EnvInt("VERIF_N", 300)
	rt := &rotatingTrace{limit: common.EnvInt("VERIF_EP_CHUNK", 150000)}
	defer rt.close()
	kinds := []string{"batch.fm", "batch.put", "caching.put", "ac.put"}
	for i := 0; i < n; i++ {
		rng := common.Rand(int64(i))
		sc := randomScenario(rng, int64(i))
		script := []fault{}
		if rng.Intn(10) >= 3 {
			for f := 1 + rng.Intn(3); f > 0; f-- {
				kind := kinds[rng.Intn(len(kinds))]
				maxK := 2
				if strings.HasPrefix(kind, "batch") {
					maxK = 1 + len(sc.Puts)
				}
				what := "fail"
				switch rng.Intn(6) {
				case 0, 1:
					what = "cancel"
				case 2:
					what = "okcancel"
				}
				script = append(script, fault{kind, 1 + rng.Intn(maxK), what})
			}
		}
		runOne(t, rt.current(), sc, script)
	}
	common.WriteJSON("meta.json", map[string]any{"runs": n, "files": rt.files})
}

func randomScenario(rng *rand.Rand, stream int64) *scenario {
	nBlobs := 1 + rng.Intn(len(blobNames))
	sc := &scenario{
		Batch:  1 + rng.Intn(4),
		Sem:    1 + rng.Intn(3),
		Req:    "good",
		BaseOK: true,
		Yield:  stream + 1,
	}
	// Bias towards the cacheable outcome: that is where most is at stake.
	switch rng.Intn(10) {
	case 0, 1:
		sc.Exit = 1 + rng.Intn(3)
	case 2:
		sc.BaseOK = false
	case 3:
		sc.BaseOK = false
		sc.Exit = 1
	}
	sc.DNC = rng.Intn(4) == 0
	switch rng.Intn(25) {
	case 0:
		sc.Req = "noaction"
	case 1:
		sc.Req = "baddigest"
	}
	for b := 0; b < nBlobs; b++ {
		if rng.Intn(3) == 0 {
			sc.Pre = append(sc.Pre, blobNames[b])
		}
	}
	single := map[string]bool{}
	for k := rng.Intn(9); k > 0; k-- {
		role := roles[rng.Intn(len(roles))]
		if (role == "stdout" || role == "stderr") && single[role] {
			role = "file"
		}
		single[role] = true
		sc.Puts = append(sc.Puts, put{blobNames[rng.Intn(nBlobs)], role})
	}
	return sc
}
