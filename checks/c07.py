"""C07 — size-class selection: (1) linear Selector/Learner protocol in the
scheduler (Sched family, SchedTrace.tla), (2) well-formed analyzer choices and
(3) persistence of statistics (ISCC.tla, checks/c07_iscc.py)."""
from lib import vlib
from checks import sched

try:
    from checks import c07_iscc
except Exception:  # module not present yet
    c07_iscc = None


def run(ctx):
    sched.run_parts(ctx)
    if c07_iscc is not None and hasattr(c07_iscc, "run_parts"):
        c07_iscc.run_parts(ctx)
    return vlib.finish(
        ctx,
        rule="scheduler traces (linear selector/learner protocol, retry on largest class, background runs) plus analyzer and mutable-proto-store traces, all validated by TLC",
        explanation="C07 = scheduler part + ISCC part",
    )


def replay(ctx, path):
    if "iscc" in path and c07_iscc is not None:
        return c07_iscc.replay(ctx, path)
    return sched.replay(ctx, path)
