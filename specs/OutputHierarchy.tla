--------------------------- MODULE OutputHierarchy ---------------------------
(***************************************************************************)
(* Reference model for property C10: "the ActionResult lists precisely the *)
(* declared output paths that exist afterwards, under the path strings the *)
(* client declared, with the correct kind, executable bit, symlink target  *)
(* and content digest; every output directory is described by a            *)
(* well-formed Tree; parent directories of declared outputs exist before   *)
(* the command runs; escaping working directories / output paths are       *)
(* rejected" (pkg/builder/output_hierarchy.go).                            *)
(*                                                                         *)
(* The model is a pure function of (command, produced tree).  Its          *)
(* operators are used twice: by the small state machine below (one action  *)
(* per public call of the real code; TLC checks internal consistency       *)
(* lemmas on every reachable state) and by OutputHierarchyTrace.tla, which *)
(* evaluates the same predicates on what the real code reported.           *)
(*                                                                         *)
(* Data                                                                    *)
(*   path component   a name, "." or ".."                                  *)
(*   declared path    [s |-> identity as declared, c |-> components]       *)
(*                    (traces: s is the string; model checking: s = c)     *)
(*   command          [wd |-> declared path, paths |-> Seq(declared path)] *)
(*   tree (flat)      set of [path, kind, exec, target, cid], path a       *)
(*                    non-empty sequence of names relative to the root,    *)
(*                    kind \in {"file","dir","symlink","special"}          *)
(*   Tree message     Seq([did, root, files, dirs, symlinks]) in wire      *)
(*                    order; did = identity of the digest of the entry;    *)
(*                    files: Seq([name, exec, cid]); dirs: Seq([name,      *)
(*                    did]); symlinks: Seq([name, target])                 *)
(*   result           [err, files: Seq([path, exec, cid]), symlinks:       *)
(*                    Seq([path, target]), legacy: Seq([path, target]),    *)
(*                    dirs: Seq([path, found, rootset, rootdid, tree])]    *)
(***************************************************************************)
EXTENDS Integers, Sequences, FiniteSets, TLC

Range(s) == {s[i] : i \in DOMAIN s}

-----------------------------------------------------------------------------
(* Path resolution.                                                        *)

Escape == [ok |-> FALSE, loc |-> <<>>]

\* Walk the components of p starting at location `stack` (a sequence of
\* names below the input root).  ".." at the root escapes, at any point.
RECURSIVE Walk(_, _)
Walk(stack, p) ==
  IF p = <<>> THEN [ok |-> TRUE, loc |-> stack]
  ELSE LET c == Head(p) IN
       IF c = "." THEN Walk(stack, Tail(p))
       ELSE IF c = ".."
            THEN IF stack = <<>> THEN Escape
                 ELSE Walk(SubSeq(stack, 1, Len(stack) - 1), Tail(p))
            ELSE Walk(Append(stack, c), Tail(p))

ResolveWD(cmd) == Walk(<<>>, cmd.wd.c)

\* Output paths are relative to the working directory.
Resolve(cmd, p) ==
  LET w == ResolveWD(cmd) IN IF w.ok THEN Walk(w.loc, p.c) ELSE Escape

Loc(cmd, p) == Resolve(cmd, p).loc

\* The command stays inside the input root.
Valid(cmd) ==
  /\ ResolveWD(cmd).ok
  /\ \A i \in DOMAIN cmd.paths : Resolve(cmd, cmd.paths[i]).ok

IsPrefix(a, b) == Len(a) <= Len(b) /\ SubSeq(b, 1, Len(a)) = a

\* Non-empty proper prefixes of a location.
Prefixes(loc) == {SubSeq(loc, 1, k) : k \in 1 .. (Len(loc) - 1)}

\* Directories that must exist before the command runs.
ParentDirs(cmd) ==
  UNION {Prefixes(Loc(cmd, cmd.paths[i])) : i \in DOMAIN cmd.paths}

Declared(cmd) == {cmd.paths[i].s : i \in DOMAIN cmd.paths}
DeclCount(cmd, s) == Cardinality({i \in DOMAIN cmd.paths : cmd.paths[i].s = s})

-----------------------------------------------------------------------------
(* Flat trees.                                                             *)

DirEntry(p) == [path |-> p, kind |-> "dir", exec |-> FALSE, target |-> "", cid |-> ""]

DirLocs(t)    == {<<>>} \cup {e.path : e \in {x \in t : x.kind = "dir"}}
EntriesAt(t, loc) == {e \in t : e.path = loc}

\* Paths are unique, and every entry lives in a directory of the tree.
TreeOK(t) ==
  /\ \A e \in t : Len(e.path) >= 1
                  /\ SubSeq(e.path, 1, Len(e.path) - 1) \in DirLocs(t)
  /\ \A e1, e2 \in t : e1.path = e2.path => e1 = e2

Subtree(t, loc) ==
  LET n == Len(loc) IN
  {[e EXCEPT !.path = SubSeq(e.path, n + 1, Len(e.path))] :
     e \in {x \in t : Len(x.path) > n /\ SubSeq(x.path, 1, n) = loc}}

\* What REv2 Directory messages can express.
Representable(t) == {e \in t : e.kind \in {"file", "dir", "symlink"}}

\* The pre-existing tree does not put a non-directory where a parent
\* directory of an output has to be.
Compatible(t, cmd) ==
  \A d \in ParentDirs(cmd) : \A e \in EntriesAt(t, d) : e.kind = "dir"

\* An output location below a symbolic link: the statement does not say
\* whether "exists" follows links, so such a declared path is not judged.
Unspecified(cmd, t, p) ==
  \E q \in Prefixes(Loc(cmd, p)) : \E e \in EntriesAt(t, q) : e.kind = "symlink"

UnspecifiedStrings(cmd, t) ==
  {cmd.paths[i].s : i \in {j \in DOMAIN cmd.paths : Unspecified(cmd, t, cmd.paths[j])}}

-----------------------------------------------------------------------------
(* Expected(command, produced tree): the outputs that must be reported.    *)

PathsAndEntries(cmd, t) ==
  {pe \in Range(cmd.paths) \X t : pe[2].path = Loc(cmd, pe[1])}

ExpectedFiles(cmd, t) ==
  {[path |-> pe[1].s, exec |-> pe[2].exec, cid |-> pe[2].cid] :
     pe \in {x \in PathsAndEntries(cmd, t) : x[2].kind = "file"}}

ExpectedSymlinks(cmd, t) ==
  {[path |-> pe[1].s, target |-> pe[2].target] :
     pe \in {x \in PathsAndEntries(cmd, t) : x[2].kind = "symlink"}}

\* Declared paths at which a directory exists (the root always does).
ExpectedDirPaths(cmd, t) ==
  {p \in Range(cmd.paths) : Loc(cmd, p) \in DirLocs(t)}
ExpectedDirs(cmd, t) == {p.s : p \in ExpectedDirPaths(cmd, t)}

\* What the Tree of the output directory declared as s must denote.
ExpectedDirTree(cmd, t, s) ==
  LET p == CHOOSE q \in Range(cmd.paths) : q.s = s IN
  Representable(Subtree(t, Loc(cmd, p)))

\* Everything, as one set of <<declared path, kind, exec, target, cid>>
\* (directories carry their denotation separately).
Expected(cmd, t) ==
  {<<f.path, "file", f.exec, "", f.cid>> : f \in ExpectedFiles(cmd, t)}
  \cup {<<s.path, "symlink", FALSE, s.target, "">> : s \in ExpectedSymlinks(cmd, t)}
  \cup {<<d, "dir", FALSE, "", "">> : d \in ExpectedDirs(cmd, t)}

-----------------------------------------------------------------------------
(* Tree messages: well-formedness and denotation.                          *)

Refs(T, i)  == {T[i].dirs[k].did : k \in DOMAIN T[i].dirs}
Idx(T, d)   == {j \in DOMAIN T : T[j].did = d}

TreeRootFirst(T) ==
  /\ Len(T) >= 1 /\ T[1].root
  /\ \A i \in 2 .. Len(T) : ~T[i].root

\* Every referenced child is present exactly once, and no entry twice.
TreeChildrenOnce(T) ==
  /\ \A i \in DOMAIN T : \A d \in Refs(T, i) : Cardinality(Idx(T, d)) = 1
  /\ \A i, j \in DOMAIN T : i # j => T[i].did # T[j].did

TreeParentsFirst(T) ==
  \A i \in DOMAIN T : \A d \in Refs(T, i) : \A j \in Idx(T, d) : i < j

TreeNoUnreferenced(T) ==
  \A j \in 2 .. Len(T) : \E i \in DOMAIN T : T[j].did \in Refs(T, i)

TreeUniqueNames(T) ==
  \A i \in DOMAIN T :
    LET D == T[i] IN
    Cardinality({D.files[k].name : k \in DOMAIN D.files}
                \cup {D.dirs[k].name : k \in DOMAIN D.dirs}
                \cup {D.symlinks[k].name : k \in DOMAIN D.symlinks})
      = Len(D.files) + Len(D.dirs) + Len(D.symlinks)

WellFormedTree(T) ==
  /\ TreeRootFirst(T) /\ TreeChildrenOnce(T) /\ TreeParentsFirst(T)
  /\ TreeNoUnreferenced(T) /\ TreeUniqueNames(T)

\* The flat tree that entry i of a well-formed Tree describes.  Terminates
\* because children come strictly later than their parents.
RECURSIVE Den(_, _)
Den(T, i) ==
  LET D == T[i] IN
    {[path |-> <<f.name>>, kind |-> "file", exec |-> f.exec, target |-> "", cid |-> f.cid] :
        f \in Range(D.files)}
    \cup {[path |-> <<s.name>>, kind |-> "symlink", exec |-> FALSE, target |-> s.target, cid |-> ""] :
        s \in Range(D.symlinks)}
    \cup {DirEntry(<<d.name>>) : d \in Range(D.dirs)}
    \cup UNION {{[e EXCEPT !.path = <<d.name>> \o e.path] :
                   e \in Den(T, CHOOSE j \in Idx(T, d.did) : TRUE)} :
                d \in Range(D.dirs)}

Denotes(T) == Den(T, 1)

-----------------------------------------------------------------------------
(* The predicates of C10 over (command, tree afterwards, result).          *)

ReportedFiles(r)    == {[path |-> f.path, exec |-> f.exec, cid |-> f.cid] : f \in Range(r.files)}
ReportedSymlinks(r) == {[path |-> s.path, target |-> s.target] : s \in Range(r.symlinks)}
ReportedLegacy(r)   == {[path |-> s.path, target |-> s.target] : s \in Range(r.legacy)}
ReportedDirs(r)     == {d.path : d \in Range(r.dirs)}
ReportedPaths(r) ==
  {f.path : f \in Range(r.files)} \cup {s.path : s \in Range(r.symlinks)}
  \cup {s.path : s \in Range(r.legacy)} \cup ReportedDirs(r)

TimesReported(r, s) ==
  Cardinality({i \in DOMAIN r.files : r.files[i].path = s})
  + Cardinality({i \in DOMAIN r.symlinks : r.symlinks[i].path = s})
  + Cardinality({i \in DOMAIN r.dirs : r.dirs[i].path = s})

\* Exactly the declared outputs that exist, as what they are.
C10_ReportedExactly(cmd, t, r) ==
  LET U == UnspecifiedStrings(cmd, t) IN
  /\ ReportedPaths(r) \subseteq Declared(cmd)
  /\ {f \in ReportedFiles(r) : f.path \notin U} = {f \in ExpectedFiles(cmd, t) : f.path \notin U}
  /\ {s \in ReportedSymlinks(r) : s.path \notin U} = {s \in ExpectedSymlinks(cmd, t) : s.path \notin U}
  /\ {s \in ReportedLegacy(r) : s.path \notin U} \subseteq ExpectedSymlinks(cmd, t)
  /\ ReportedDirs(r) \ U = ExpectedDirs(cmd, t) \ U
  /\ \A s \in Declared(cmd) : TimesReported(r, s) <= DeclCount(cmd, s)

\* Every reported output directory comes with a well-formed Tree that
\* denotes exactly the directory's contents.
TreeDescribes(cmd, t, d) ==
  /\ d.found
  /\ WellFormedTree(d.tree)
  /\ Denotes(d.tree) = ExpectedDirTree(cmd, t, d.path)
  /\ d.rootset => d.rootdid = d.tree[1].did

C10_TreesWellFormed(cmd, t, r) ==
  \A d \in Range(r.dirs) :
    (d.path \in ExpectedDirs(cmd, t) \ UnspecifiedStrings(cmd, t)) => TreeDescribes(cmd, t, d)

C10_ParentsExist(cmd, t) == ParentDirs(cmd) \subseteq DirLocs(t)

\* Before the command runs the worker has put nothing at or below a
\* declared output location, except parent directories of further outputs:
\* whatever is reported there later was produced by the action.  (p0: the
\* input root as given, t: the tree when the command starts.)
CreatedByWorker(cmd, p0, t) ==
  {e \in t \ p0 : e.kind # "dir" \/ e.path \notin ParentDirs(cmd)}

C10_OutputsNotPrecreated(cmd, p0, t) ==
  \A e \in CreatedByWorker(cmd, p0, t) :
    \A i \in DOMAIN cmd.paths : ~IsPrefix(Loc(cmd, cmd.paths[i]), e.path)

-----------------------------------------------------------------------------
(* The reference implementation of the result (used for model checking     *)
(* the operators above against each other).                                *)

RECURSIVE SetToSeq(_)
SetToSeq(S) ==
  IF S = {} THEN <<>>
  ELSE LET x == CHOOSE y \in S : TRUE IN <<x>> \o SetToSeq(S \ {x})

\* One Directory message per distinct directory content of t (t itself is
\* the root), the digest identity being the content itself.  A directory
\* has strictly more descendants than any directory inside it, so sorting
\* by size puts parents first.
CanonTree(t) ==
  LET contents == {t} \cup {Subtree(t, l) : l \in DirLocs(t) \ {<<>>}}
      msg(s) == [did  |-> s,
                 root |-> s = t,
                 files |-> SetToSeq({[name |-> e.path[1], exec |-> e.exec, cid |-> e.cid] :
                             e \in {x \in s : Len(x.path) = 1 /\ x.kind = "file"}}),
                 dirs  |-> SetToSeq({[name |-> e.path[1], did |-> Subtree(s, e.path)] :
                             e \in {x \in s : Len(x.path) = 1 /\ x.kind = "dir"}}),
                 symlinks |-> SetToSeq({[name |-> e.path[1], target |-> e.target] :
                             e \in {x \in s : Len(x.path) = 1 /\ x.kind = "symlink"}})]
      ordered == SortSeq(SetToSeq(contents), LAMBDA x, y : Cardinality(x) > Cardinality(y))
  IN [i \in DOMAIN ordered |-> msg(ordered[i])]

ModelResult(cmd, t) ==
  [err   |-> FALSE,
   files |-> SetToSeq(ExpectedFiles(cmd, t)),
   symlinks |-> SetToSeq(ExpectedSymlinks(cmd, t)),
   legacy |-> <<>>,
   dirs  |-> SetToSeq({[path |-> s, found |-> TRUE, rootset |-> TRUE,
                        rootdid |-> ExpectedDirTree(cmd, t, s),
                        tree |-> CanonTree(ExpectedDirTree(cmd, t, s))] :
                       s \in ExpectedDirs(cmd, t)})]

-----------------------------------------------------------------------------
(* State machine: one action per public call of the real code.             *)

CONSTANTS Names,      \* names that may appear in paths and trees
          MaxWD,      \* components of the working directory
          MaxPaths,   \* number of output paths
          MaxLen,     \* components per output path
          K1Kinds,    \* what may be produced at depth 1 / depth 2:
          K2Kinds,    \* "none","fx","f-","l","s","d" (d: directory)
          PickedOnly, \* TRUE: only the hand-picked trees below
          PreAll      \* TRUE: several input roots, FALSE: only the empty one

VARIABLES phase,   \* "declared" | "rejected" | "accepted" | "prepared" | "failed" | "ran" | "done"
          cmd,     \* the command
          pre,     \* the input root as it was given
          fs,      \* the tree in the build directory
          result   \* reply of the last call

vars == <<phase, cmd, pre, fs, result>>

Comps == Names \cup {".", ".."}
SeqsUpTo(S, n) == UNION {[1 .. k -> S] : k \in 0 .. n}
DeclaredPath(c) == [s |-> c, c |-> c]

Commands ==
  {[wd |-> DeclaredPath(w), paths |-> ps] :
     w \in SeqsUpTo(Comps, MaxWD),
     ps \in SeqsUpTo({DeclaredPath(c) : c \in SeqsUpTo(Comps, MaxLen)}, MaxPaths)}

EntryOf(p, k) ==
  CASE k = "fx" -> [path |-> p, kind |-> "file", exec |-> TRUE, target |-> "", cid |-> "c1"]
    [] k = "f-" -> [path |-> p, kind |-> "file", exec |-> FALSE, target |-> "", cid |-> "c1"]
    [] k = "l"  -> [path |-> p, kind |-> "symlink", exec |-> FALSE, target |-> "../a", cid |-> ""]
    [] k = "s"  -> [path |-> p, kind |-> "special", exec |-> FALSE, target |-> "", cid |-> ""]
    [] k = "d"  -> DirEntry(p)

\* All trees of depth <= 2 over Names.
AllTrees ==
  {{EntryOf(<<n>>, k1[n]) : n \in {m \in Names : k1[m] # "none"}}
   \cup {EntryOf(<<nm[1], nm[2]>>, k2[nm]) : nm \in {x \in Names \X Names : k2[x] # "none"}} :
     <<k1, k2>> \in {kk \in [Names -> K1Kinds] \X [Names \X Names -> K2Kinds] :
                      \A nm \in Names \X Names : kk[2][nm] # "none" => kk[1][nm[1]] = "d"}}

\* Nothing; a file and a symlink; identical repeated subdirectories; an
\* empty directory below a directory and a special file; a symlink where a
\* parent directory was and a non-executable file.
PickedTrees ==
  {{},
   {EntryOf(<<"a">>, "fx"), EntryOf(<<"b">>, "l")},
   {EntryOf(<<"a">>, "d"), EntryOf(<<"a", "a">>, "fx"), EntryOf(<<"a", "b">>, "l"),
    EntryOf(<<"b">>, "d"), EntryOf(<<"b", "a">>, "fx"), EntryOf(<<"b", "b">>, "l")},
   {EntryOf(<<"a">>, "d"), EntryOf(<<"a", "a">>, "d"), EntryOf(<<"b">>, "s")},
   {EntryOf(<<"a">>, "l"), EntryOf(<<"b">>, "d"), EntryOf(<<"b", "a">>, "f-")}}

Trees == IF PickedOnly THEN PickedTrees ELSE AllTrees

\* Input roots: empty; a directory where a parent directory will be needed;
\* a file in the way of one.
PreTrees ==
  IF PreAll THEN {{}, {DirEntry(<<"a">>)}, {EntryOf(<<"a">>, "f-")}} ELSE {{}}

NoResult == [err |-> FALSE]

Init ==
  /\ phase = "declared"
  /\ cmd \in Commands
  /\ pre \in PreTrees
  /\ fs = pre
  /\ result = NoResult

\* NewOutputHierarchy
New ==
  /\ phase = "declared"
  /\ phase' = IF Valid(cmd) THEN "accepted" ELSE "rejected"
  /\ result' = [err |-> ~Valid(cmd)]
  /\ UNCHANGED <<cmd, pre, fs>>

\* CreateParentDirectories
CreateParents ==
  /\ phase = "accepted"
  /\ IF Compatible(fs, cmd)
     THEN /\ fs' = fs \cup {DirEntry(d) : d \in ParentDirs(cmd)}
          /\ phase' = "prepared" /\ result' = [err |-> FALSE]
     ELSE /\ fs' = fs /\ phase' = "failed" /\ result' = [err |-> TRUE]
  /\ UNCHANGED <<cmd, pre>>

\* The command runs: it may leave anything behind.
Run ==
  /\ phase = "prepared"
  /\ fs' \in Trees \cup {fs}
  /\ phase' = "ran"
  /\ result' = NoResult
  /\ UNCHANGED <<cmd, pre>>

\* UploadOutputs
Upload ==
  /\ phase = "ran"
  /\ result' = ModelResult(cmd, fs)
  /\ phase' = "done"
  /\ UNCHANGED <<cmd, pre, fs>>

Next == New \/ CreateParents \/ Run \/ Upload

Spec == Init /\ [][Next]_vars

CaseView == <<phase, cmd, pre, fs>>

-----------------------------------------------------------------------------
(* Properties of the model (design check).                                 *)

C10_EscapesRejected ==
  /\ phase \in {"accepted", "prepared", "failed", "ran", "done"} => Valid(cmd)
  /\ phase = "rejected" => ~Valid(cmd) /\ fs = pre

C10_ParentsExistBeforeRun ==
  phase = "prepared" => C10_ParentsExist(cmd, fs) /\ C10_OutputsNotPrecreated(cmd, pre, fs)

C10_Reported == phase = "done" => C10_ReportedExactly(cmd, fs, result)

C10_Trees == phase = "done" => C10_TreesWellFormed(cmd, fs, result)

\* --- internal consistency lemmas of the reference ---

IsLocation(loc) == \A k \in DOMAIN loc : loc[k] \notin {".", ".."}

\* Resolution yields normalised locations, is idempotent on them, and
\* resolving relative to the working directory is resolving the
\* concatenation.
L_Resolve ==
  \A i \in DOMAIN cmd.paths :
    LET p == cmd.paths[i]  r == Resolve(cmd, p) IN
      /\ r.ok => IsLocation(r.loc) /\ Walk(<<>>, r.loc) = r
      /\ r = Walk(<<>>, cmd.wd.c \o p.c)

\* Whatever escapes keeps escaping when more components follow.
L_EscapeIsFinal ==
  \A i \in DOMAIN cmd.paths :
    ~Resolve(cmd, cmd.paths[i]).ok =>
      \A c \in Comps : ~Walk(<<>>, cmd.wd.c \o cmd.paths[i].c \o <<c>>).ok

\* Parent directories are non-empty proper prefixes of output locations,
\* and closed under taking prefixes.
L_ParentDirs ==
  Valid(cmd) =>
    \A d \in ParentDirs(cmd) :
      /\ d # <<>> /\ IsLocation(d)
      /\ \E i \in DOMAIN cmd.paths : IsPrefix(d, Loc(cmd, cmd.paths[i])) /\ d # Loc(cmd, cmd.paths[i])
      /\ Prefixes(d) \subseteq ParentDirs(cmd)

L_TreesOK == TreeOK(fs)

\* Expected outputs are declared paths, at most one kind per path, and
\* nothing is expected where nothing exists.
L_Expected ==
  phase \in {"ran", "done"} =>
    /\ \A x \in Expected(cmd, fs) : x[1] \in Declared(cmd)
    /\ \A x, y \in Expected(cmd, fs) : x[1] = y[1] => x = y
    /\ \A i \in DOMAIN cmd.paths :
         LET p == cmd.paths[i] IN
         (\E x \in Expected(cmd, fs) : x[1] = p.s)
           <=> (Loc(cmd, p) = <<>> \/ \E e \in fs : e.path = Loc(cmd, p) /\ e.kind # "special")

\* The canonical Tree of any tree is well-formed and denotes it; damaging
\* it in the ways the statement names is noticed.
SwapEntries(T, i, j) ==
  [k \in DOMAIN T |-> IF k = i THEN T[j] ELSE IF k = j THEN T[i] ELSE T[k]]

Orphan == [did |-> {DirEntry(<<"-", "-", "-", "-">>)}, root |-> FALSE,
           files |-> <<>>, dirs |-> <<>>, symlinks |-> <<>>]

L_CanonTree ==
  phase = "ran" =>
    LET t == Representable(fs)  T == CanonTree(t)  n == Len(T) IN
      /\ WellFormedTree(T)
      /\ Denotes(T) = t
      /\ ~TreeNoUnreferenced(Append(T, Orphan))
      /\ ~TreeChildrenOnce(Append(T, T[n]))
      /\ n >= 2 =>
           /\ ~TreeRootFirst(SwapEntries(T, 1, 2))
           /\ ~TreeChildrenOnce(SubSeq(T, 1, n - 1))
           /\ \A i, j \in DOMAIN T :
                (i < j /\ T[j].did \in Refs(T, i)) => ~TreeParentsFirst(SwapEntries(T, i, j))

TypeOK == phase \in {"declared", "rejected", "accepted", "prepared", "failed", "ran", "done"}
=============================================================================
