------------------------------- MODULE NFS40 -------------------------------
(***************************************************************************)
(* Reference model of the NFSv4.0 server in                                *)
(* pkg/filesystem/virtual/nfsv4/nfs40_program.go (+ opened_files_pool.go)  *)
(* for properties C18 (open/lock state accounted for and reclaimed), C19   *)
(* (retransmissions execute once, same reply) and the NFS level of C20     *)
(* (byte-range locks).                                                     *)
(*                                                                         *)
(* The whole server state is one record `s`; every request is a pure       *)
(* function  Do(s, req) = [s |-> next state, rep |-> reply, ctx |-> how    *)
(* the owner sequence number of the request was classified].  The actions  *)
(* have the granularity of the real code's lock sections: an I/O operation *)
(* that is held inside the leaf is two steps (IOStart, IOEnd), so is an    *)
(* OPEN (OpenStart, OpenEnd: the server lock is dropped while the file is  *)
(* opened; requests of the same open-owner, among them retransmissions of  *)
(* the OPEN, wait for it: Blocked), expiry of leases and of unused         *)
(* open-owners happens inside enter() (Expire), CLOSE is two-phase         *)
(* (RemoveStart now, RemoveFinalize at the owner's next transaction).      *)
(* Where the properties leave the outcome of a request open, the request   *)
(* record carries the choice (fields lax, rej, twin of Blank).  The same   *)
(* operators are used by the exhaustive design check (MC_NFS40_*.cfg) and  *)
(* by trace validation (NFS40Trace.tla).                                   *)
(*                                                                         *)
(* Identifiers are tokens: client confirmations, state ids and files are   *)
(* numbered 1,2,3.. in the order in which the server reveals them.         *)
(***************************************************************************)
EXTENDS Integers, Sequences, FiniteSets, TLC

CONSTANTS Lease,     \* enforced lease time in clock ticks
          NB         \* byte positions 0..NB; position NB = offset 2^64-1 (the last byte)

\* Byte b < NB stands for the offsets [10b, 10b + 10); byte NB is the single
\* offset 2^64-1.  The server's range of lockable offsets is 0 .. 2^64-2:
\* an explicit range cannot end beyond 2^64-2 (offset + length > 2^64-1 is
\* NFS4ERR_INVAL, RFC 7530 section 16.10.4) and a range that starts at 2^64-1
\* is refused (NFS4ERR_BAD_RANGE: not appropriate to the allowable range of
\* offsets for the server).  So no accepted request can name byte 2^64-1 by
\* itself: "through end of file" (length all ones) and [x, 2^64-1) are the
\* same set of lockable bytes, and the model identifies the two (both cover
\* byte NB, about which nothing is demanded by itself).  Byte NB matters only
\* for requests that START at it: refusing them is fine (any error); a server
\* that accepts them must treat the byte like any other (two owners are not
\* both granted it unless both shared, LOCKT reports the conflict).
Bytes == 0 .. NB

-----------------------------------------------------------------------------
(* Generic helpers on finite maps.                                         *)

Put(f, k, v) == [x \in (DOMAIN f) \cup {k} |-> IF x = k THEN v ELSE f[x]]
Del(f, K)    == [x \in (DOMAIN f) \ K |-> f[x]]
EmptyMap     == << >>
Max(a, b)    == IF a >= b THEN a ELSE b

\* Owner sequence numbers are 32 bit on the wire and wrap from 2^32-1 to 1
\* (nextSeqID, RFC 7530 section 9.1.3).  Wire values >= 2^31 are written as
\* negative numbers here (2^32-1 = -1, 2^32-2 = -2) because TLC integers
\* are 32 bit.
Nxt(q) == IF q = -1 THEN 1 ELSE q + 1

RECURSIVE FoldSet(_, _, _)
\* FoldSet(Op, acc, S): apply Op(acc, x) for every x in S (order irrelevant
\* for the operators it is used with).
FoldSet(Op(_, _), acc, S) ==
  IF S = {} THEN acc
  ELSE LET x == CHOOSE y \in S : TRUE IN FoldSet(Op, Op(acc, x), S \ {x})

-----------------------------------------------------------------------------
(* Replies.                                                                *)

BlankRep == [pre |-> "OK", st |-> "NONE", t |-> 0, q |-> 0, conf |-> FALSE,
             cid |-> 0, verf |-> 0, fh |-> 0]
Err(e)        == [BlankRep EXCEPT !.st = e]
PreErr(e)     == [BlankRep EXCEPT !.pre = e]
OkRep         == Err("OK")
SidRep(t, q)  == [BlankRep EXCEPT !.st = "OK", !.t = t, !.q = q]

\* An abstract request (one COMPOUND: PUTFH/PUTROOTFH, the operation, GETFH).
Blank(op) ==
  [op |-> op, fh |-> -1, cid |-> 0, verf |-> 0, cl |-> 0, cv |-> 0, ok |-> "", lk |-> "",
   seq |-> 0, lseq |-> 0, sk |-> "none", st |-> 0, sq |-> 0, share |-> 0, deny |-> 0,
   how |-> "NOCREATE", claim |-> "NULL", name |-> "", name2 |-> "", lt |-> "R",
   s |-> 0, e |-> 0, lenk |-> "norm", newlo |-> FALSE, gate |-> FALSE,
   \* not content, but which of the outcomes that the properties leave open
   \* the server chose (the trace specification fills them in from the reply):
   \* lax: "cache" / "reject" for a request with the seqid and operation type
   \*      of the cached response but other arguments;
   \* rej: the error with which a range that consists of the last byte only
   \*      is refused ("" = it is accepted)
   \* twin: LOCK with open_to_lock_owner for a lock-owner that already has lock
   \*      state on the file through another open-owner of its client: FALSE =
   \*      refused with BAD_SEQID (RFC 7530 section 16.10.5: the existing lock
   \*      state id must be used; what the server does), TRUE = a second lock
   \*      state for the same owner and file is created (see Ambiguous in
   \*      NFS40Trace.tla)
   lax |-> "cache", rej |-> "", twin |-> FALSE]

\* The content of a request: everything but the driver's instruction to hold
\* it inside the leaf.
Content(a) == [a EXCEPT !.gate = FALSE, !.lax = "cache", !.rej = "", !.twin = FALSE]
SameReq(a, b) == Content(a) = Content(b)

\* Cached response of an owner; req = the request that produced it.
NoResp == [op |-> "none", rep |-> BlankRep, closed |-> 0, req |-> Blank("NONE")]

\* RFC 7530 section 9.1.7: errors that do not advance the owner's seqid
\* (transactionShouldComplete in the code).
Completes(st) ==
  st \notin {"STALE_CLIENTID", "STALE_STATEID", "BAD_STATEID", "BAD_SEQID",
             "BADXDR", "RESOURCE", "NOFILEHANDLE", "MOVED"}

ShareSet(n) == CASE n = 1 -> {"R"} [] n = 2 -> {"W"} [] n = 3 -> {"R", "W"} [] OTHER -> {}
ShareWire(S) == (IF "R" \in S THEN 1 ELSE 0) + (IF "W" \in S THEN 2 ELSE 0)

-----------------------------------------------------------------------------
(* Initial state.                                                          *)

InitState(names) ==
  [now   |-> 0, clock |-> 0,
   nconf |-> 0, nsid |-> 0, nfile |-> 0, nio |-> 0,
   conf  |-> EmptyMap,   \* token -> [cl, cv, seen, hold, confirmed]
   oo    |-> EmptyMap,   \* <<conf, okey>> -> [confirmed, lastseq, resp, unused]
   oofs  |-> EmptyMap,   \* sid -> [c, ok, f, share, q, r, w, st]
   lo    |-> EmptyMap,   \* <<conf, lkey>> -> [lastseq, resp]
   lofs  |-> EmptyMap,   \* sid -> [c, lk, ot, share, q, lc]
   held  |-> EmptyMap,   \* file in the opened-files pool -> lock table
   dir   |-> [n \in names |-> 0],
   leaf  |-> EmptyMap,   \* file -> [R, W] net number of opens of the leaf
   io    |-> EmptyMap]   \* id -> in-flight I/O

NoLocks == [b \in Bytes |-> EmptyMap]

-----------------------------------------------------------------------------
(* Byte-range lock table of one file (restated from ByteRangeLocks.tla     *)
(* with a dynamic owner set): h[b] maps the owners holding byte b to "R"   *)
(* (shared) or "W" (exclusive).                                            *)

Conflicts(h, o, s, e, t) ==
  \E b \in Bytes : /\ s <= b /\ b < e
                   /\ \E o2 \in (DOMAIN h[b]) \ {o} : h[b][o2] = "W" \/ t = "W"

ApplyLock(h, o, s, e, t) ==
  [b \in Bytes |-> IF s <= b /\ b < e
                   THEN (IF t = "U" THEN Del(h[b], {o}) ELSE Put(h[b], o, t))
                   ELSE h[b]]

\* Number of entries the implementation's list has for owner o: maximal
\* runs of bytes of equal type.
Entries(h, o) ==
  Cardinality({b \in Bytes : /\ o \in DOMAIN h[b]
                             /\ (b = 0 \/ o \notin DOMAIN h[b - 1] \/ h[b - 1][o] # h[b][o])})

HoldsAny(h, o) == \E b \in Bytes : o \in DOMAIN h[b]

\* (offset, length) -> [start, end) as offsetLengthToStartEnd does.
\* lenk: "norm" [s, e) with e <= NB (e = NB: offset + length = 2^64-1, the
\* same lockable bytes as "eof"), "eof" length all ones, "one" length 1
\* (only used with s = NB: INVAL), "zero" length 0, "ovf" offset + length
\* exceeds 2^64-1.
RangeOK(req) == \/ req.lenk = "norm" /\ req.s < req.e /\ req.e <= NB
                \/ req.lenk = "eof" /\ req.s <= NB
RangeEnd(req) == IF req.lenk = "eof" \/ req.e = NB THEN NB + 1 ELSE req.e
\* The range starts at the last byte (and so consists of it alone).
LastByteOnly(req) == req.lenk = "eof" /\ req.s = NB
TableType(lt) == IF lt \in {"R", "RW"} THEN "R" ELSE "W"
LockTypeOK(lt) == lt \in {"R", "W", "RW", "WW"}

-----------------------------------------------------------------------------
(* Leaves: what the server did to the underlying files.                    *)

LeafAdj(s, f, bits, d) ==
  [s EXCEPT !.leaf[f] = [b \in {"R", "W"} |-> IF b \in bits THEN @[b] + d ELSE @[b]]]
LeafOpen(s, f, bits)  == LeafAdj(s, f, bits, 1)
LeafClose(s, f, bits) == LeafAdj(s, f, bits, -1)

Linked(s, f) == \E n \in DOMAIN s.dir : s.dir[n] = f
\* References the real leaf has: links + opens; with none it is gone.
LeafAlive(s, f) == Linked(s, f) \/ s.leaf[f]["R"] + s.leaf[f]["W"] > 0

\* OpenedFilesPool.Resolve + handle allocator: PUTFH succeeds.
Resolves(s, f) == f \in DOMAIN s.held \/ Linked(s, f)

UseCount(s, f) == Cardinality({t \in DOMAIN s.oofs : s.oofs[t].f = f /\ s.oofs[t].st # "gone"})

-----------------------------------------------------------------------------
(* Share reservation counts of an open-owner file.                         *)

\* A finalized open-owner file stays as a "gone" record only while in-flight
\* I/O still holds clones of its share reservation.
GC(s, t) ==
  IF s.oofs[t].st = "gone" /\ s.oofs[t].r = 0 /\ s.oofs[t].w = 0
  THEN [s EXCEPT !.oofs = Del(@, {t})] ELSE s

IncCounts(s, t, bits) ==
  [s EXCEPT !.oofs[t].r = IF "R" \in bits THEN @ + 1 ELSE @,
            !.oofs[t].w = IF "W" \in bits THEN @ + 1 ELSE @]

\* shareCount.downgrade + leavesToClose: bits whose count drops to zero
\* are closed on the leaf.
DecCounts(s, t, bits) ==
  LET o  == s.oofs[t]
      r2 == IF "R" \in bits THEN o.r - 1 ELSE o.r
      w2 == IF "W" \in bits THEN o.w - 1 ELSE o.w
      cl == (IF "R" \in bits /\ r2 = 0 THEN {"R"} ELSE {}) \cup
            (IF "W" \in bits /\ w2 = 0 THEN {"W"} ELSE {})
      s1 == [s EXCEPT !.oofs[t].r = r2, !.oofs[t].w = w2]
  IN GC(LeafClose(s1, o.f, cl), t)

-----------------------------------------------------------------------------
(* Removal of lock-owner files, open-owner files, open-owners, clients.    *)

LofsOf(s, c, lk) == {lt \in DOMAIN s.lofs : s.lofs[lt].c = c /\ s.lofs[lt].lk = lk}
LofsOn(s, t)     == {lt \in DOMAIN s.lofs : s.lofs[lt].ot = t}
OofsOf(s, k)     == {t \in DOMAIN s.oofs : s.oofs[t].st # "gone" /\ s.oofs[t].c = k[1] /\ s.oofs[t].ok = k[2]}

\* nfs40LockOwnerFileState.remove
RemoveLofs(s, lt) ==
  LET l  == s.lofs[lt]
      f  == s.oofs[l.ot].f
      o  == <<l.c, l.lk>>
      s1 == IF l.lc > 0 THEN [s EXCEPT !.held[f] = ApplyLock(@, o, 0, NB + 1, "U")] ELSE s
      s2 == [s1 EXCEPT !.lofs = Del(@, {lt})]
      s3 == DecCounts(s2, l.ot, l.share)
  IN IF LofsOf(s3, l.c, l.lk) = {} THEN [s3 EXCEPT !.lo = Del(@, {o})] ELSE s3

\* nfs40OpenOwnerFileState.removeStart (first phase of CLOSE)
RemoveStart(s, t) ==
  LET s1 == FoldSet(RemoveLofs, s, LofsOn(s, t))
      s2 == DecCounts(s1, t, s1.oofs[t].share)
  IN [s2 EXCEPT !.oofs[t].share = {}, !.oofs[t].st = "closed"]

\* removeFinalize (second phase): the state id stops being resolvable and
\* the opened-files pool entry is released.
RemoveFinalize(s, t) ==
  LET f  == s.oofs[t].f
      s1 == GC([s EXCEPT !.oofs[t].st = "gone"], t)
  IN IF UseCount(s1, f) = 0 THEN [s1 EXCEPT !.held = Del(@, {f})] ELSE s1

ForgetResp(s, k) ==
  LET r  == s.oo[k].resp
      s1 == [s EXCEPT !.oo[k].resp = NoResp]
  IN IF r.op # "none" /\ r.closed # 0 THEN RemoveFinalize(s1, r.closed) ELSE s1

CloseFully(s, t) == RemoveFinalize(RemoveStart(s, t), t)

\* nfs40OpenOwnerState.reinitialize
Reinit(s, k) ==
  LET s1 == ForgetResp(s, k) IN FoldSet(CloseFully, s1, OofsOf(s1, k))

RemoveOO(s, k) == [Reinit(s, k) EXCEPT !.oo = Del(@, {k})]

OwnersOf(s, c) == {k \in DOMAIN s.oo : k[1] = c}

\* clientConfirmationState.remove
RemoveConf(s, c) ==
  LET s1 == IF s.conf[c].confirmed THEN FoldSet(RemoveOO, s, OwnersOf(s, c)) ELSE s
  IN [s1 EXCEPT !.conf = Del(@, {c})]

\* enter(): advance now, drop expired idle clients, then unused open-owners.
Expire(s0) ==
  LET s  == [s0 EXCEPT !.now = Max(@, s0.clock)]
      C  == {c \in DOMAIN s.conf : s.conf[c].hold = 0 /\ s.conf[c].seen + Lease < s.now}
      s1 == FoldSet(RemoveConf, s, C)
      U  == {k \in DOMAIN s1.oo : s1.oo[k].unused >= 0 /\ s1.oo[k].unused + Lease < s1.now}
  IN FoldSet(RemoveOO, s1, U)

Hold(s, c)    == [s EXCEPT !.conf[c].hold = @ + 1]
Release(s, c) == [s EXCEPT !.conf[c].hold = @ - 1,
                           !.conf[c].seen = IF s.conf[c].hold = 1 THEN s.now ELSE @]

ConfirmedConf(s, c) == c \in DOMAIN s.conf /\ s.conf[c].confirmed

-----------------------------------------------------------------------------
(* Results of one request.                                                 *)
(* ctx: "none"       no owner sequence number was looked at                *)
(*      "new"        seqid = last + 1 (or an OPEN on an unconfirmed owner) *)
(*      "replay"     same seqid, same content: the cached response         *)
(*      "falseretry" same seqid, another type of operation                 *)
(*      "laxretry"   same seqid and type of operation, other arguments     *)
(*      "misordered" any other seqid                                       *)

Res(s, rep, ctx) == [s |-> s, rep |-> rep, ctx |-> ctx]

-----------------------------------------------------------------------------
(* State id look-ups.                                                      *)

SeqCmp(client, server) ==
  IF client = server THEN "OK" ELSE IF client > server THEN "BAD_STATEID" ELSE "OLD_STATEID"

\* getOpenOwnerFileByStateID
GetOOFS(s, req, allowUnconfirmed) ==
  LET t == req.st IN
  IF t \notin DOMAIN s.oofs \/ s.oofs[t].st = "gone" THEN "BAD_STATEID"
  ELSE IF req.fh = -1 THEN "NOFILEHANDLE"
  ELSE IF s.oofs[t].share = {} THEN "BAD_STATEID"
  ELSE IF req.fh # s.oofs[t].f THEN "BAD_STATEID"
  ELSE IF ~s.oo[<<s.oofs[t].c, s.oofs[t].ok>>].confirmed /\ ~allowUnconfirmed THEN "BAD_STATEID"
  ELSE SeqCmp(req.sq, s.oofs[t].q)

\* getLockOwnerFileByStateID
GetLOFS(s, req) ==
  LET t == req.st IN
  IF t \notin DOMAIN s.lofs THEN "BAD_STATEID"
  ELSE IF req.fh = -1 THEN "NOFILEHANDLE"
  ELSE IF req.fh # s.oofs[s.lofs[t].ot].f THEN "BAD_STATEID"
  ELSE SeqCmp(req.sq, s.lofs[t].q)

\* internalizeRegularStateID
RegularSid(req) ==
  CASE req.sk = "reg" -> "OK"
    [] req.sk = "stale" -> "STALE_STATEID"
    [] OTHER -> "BAD_STATEID"

-----------------------------------------------------------------------------
(* Owner transactions (startTransaction / complete).                       *)

\* A request with the seqid of the owner's cached response is
\*   "replay"      if its content equals the request that produced the cached
\*                 response: it must get that response;
\*   "falseretry"  if it is another type of operation: never the cached
\*                 response (BAD_SEQID);
\*   "laxretry"    if it is the same type of operation with other arguments:
\*                 RFC 7530 section 9.1.9 lets the server answer from the cache
\*                 without comparing, or reject; both are accepted (the pinned
\*                 code compares the state id of CLOSE, OPEN_CONFIRM,
\*                 OPEN_DOWNGRADE, LOCK, LOCKU when the cached response is OK,
\*                 and nothing for OPEN and LOCK with open_to_lock_owner).
\* None of them has any effect.
RetryKind(resp, op, req) ==
  IF SameReq(resp.req, req) THEN "replay"
  ELSE IF resp.op # op THEN "falseretry"
  ELSE "laxretry"

\* Outcome of a request that carries the seqid of the owner's cached response.
Retry(s, resp, op, req) ==
  LET kd == RetryKind(resp, op, req) IN
  IF kd = "replay" \/ (kd = "laxretry" /\ req.lax = "cache")
  THEN [kind |-> "fail", ctx |-> kd, rep |-> resp.rep, s |-> s]
  ELSE [kind |-> "fail", ctx |-> kd, rep |-> Err("BAD_SEQID"), s |-> s]

\* An open-owner is unused (and forgotten when it stays so for the lease time,
\* after which its next OPEN has to be confirmed again) exactly when it has no
\* open file: an open-owner with a file that the client has not closed is never
\* unused, whatever its last request was.  (A file that was closed by the last
\* request is still recorded, for a retransmission of the CLOSE, but it is not
\* open.)  An open-owner that was never confirmed has no usable state id.
OpenFilesOf(s, k) == {t \in OofsOf(s, k) : s.oofs[t].st = "open"}
IsUnused(s, k) == OpenFilesOf(s, k) = {} \/ ~s.oo[k].confirmed

\* Returns [kind, s, rep]: kind "go" = transaction started.
StartOO(s, k, seq, policy, op, req) ==
  LET o  == s.oo[k]
      go(s1) == [kind |-> "go", ctx |-> "new", rep |-> BlankRep,
                 s |-> Hold([ForgetResp(s1, k) EXCEPT !.oo[k].unused = -1], k[1])]
      bad(ctx) == [kind |-> "fail", ctx |-> ctx, rep |-> Err("BAD_SEQID"), s |-> s]
  IN
  IF o.resp.op # "none" /\ seq = o.lastseq THEN Retry(s, o.resp, op, req)
  ELSE IF o.confirmed \/ policy = "allow" THEN
       IF seq = Nxt(o.lastseq) THEN go(s) ELSE bad("misordered")
  ELSE IF policy = "deny" THEN bad("misordered")
  ELSE go(Reinit(s, k))

CompleteOO(s, k, req, op, rep, closed) ==
  LET seq == req.seq
      s1 == IF Completes(rep.st)
            THEN [s EXCEPT !.oo[k].lastseq = seq,
                           !.oo[k].resp = [op |-> op, rep |-> rep, closed |-> closed, req |-> req]]
            ELSE s
      s2 == IF IsUnused(s1, k) THEN [s1 EXCEPT !.oo[k].unused = s1.now] ELSE s1
  IN Release(s2, k[1])

StartLO(s, lk, lseq, initial, op, req) ==
  LET l == s.lo[lk]
      bad(ctx) == [kind |-> "fail", ctx |-> ctx, rep |-> Err("BAD_SEQID"), s |-> s]
  IN
  IF l.resp.op # "none" /\ lseq = l.lastseq THEN Retry(s, l.resp, op, req)
  ELSE IF ~initial /\ lseq # Nxt(l.lastseq) THEN bad("misordered")
  ELSE [kind |-> "go", ctx |-> "new", rep |-> BlankRep,
        s |-> Hold([s EXCEPT !.lo[lk].resp = NoResp], lk[1])]

\* complete() of a lock-owner transaction; the lock-owner may already have
\* been removed together with its last file.
CompleteLO(s, lk, req, op, rep) ==
  LET lseq == req.lseq
      s1 == IF Completes(rep.st) /\ lk \in DOMAIN s.lo
            THEN [s EXCEPT !.lo[lk].lastseq = lseq,
                           !.lo[lk].resp = [op |-> op, rep |-> rep, closed |-> 0, req |-> req]]
            ELSE s
  IN Release(s1, lk[1])

-----------------------------------------------------------------------------
(* SETCLIENTID, SETCLIENTID_CONFIRM, RENEW.                                *)

DoSetclientid(s0, req) ==
  LET s == Expire(s0)
      E == {c \in DOMAIN s.conf : s.conf[c].cl = req.cl /\ s.conf[c].cv = req.cv}
  IN IF E # {}
     THEN LET c == CHOOSE c \in E : TRUE
          IN Res(s, [OkRep EXCEPT !.cid = c, !.verf = c], "none")
     ELSE LET c == s.nconf + 1
              s1 == [s EXCEPT !.nconf = c,
                              !.conf = Put(@, c, [cl |-> req.cl, cv |-> req.cv, seen |-> s.now,
                                                  hold |-> 0, confirmed |-> FALSE])]
          IN Res(s1, [OkRep EXCEPT !.cid = c, !.verf = c], "none")

DoSetclientidConfirm(s0, req) ==
  LET s == Expire(s0)
      c == req.cid
  IN IF c # req.verf \/ c \notin DOMAIN s.conf THEN Res(s, Err("STALE_CLIENTID"), "none")
     ELSE IF s.conf[c].confirmed THEN Res(s, OkRep, "none")
     ELSE LET Old == {d \in DOMAIN s.conf : s.conf[d].cl = s.conf[c].cl /\ s.conf[d].confirmed}
              s1  == Hold(s, c)
          IN IF Old # {} /\ s.conf[CHOOSE d \in Old : TRUE].hold > 0
             THEN Res(Release(s1, c), Err("DELAY"), "none")
             ELSE LET s2 == FoldSet(RemoveConf, s1, Old)
                      s3 == [s2 EXCEPT !.conf[c].confirmed = TRUE]
                  IN Res(Release(s3, c), OkRep, "none")

DoRenew(s0, req) ==
  LET s == Expire(s0) IN
  IF ~ConfirmedConf(s, req.cid) THEN Res(s, Err("STALE_CLIENTID"), "none")
  ELSE Res(Release(Hold(s, req.cid), req.cid), OkRep, "none")

-----------------------------------------------------------------------------
(* OPEN.                                                                   *)

\* nfs40OpenOwnerFileState.upgrade
Upgrade(s, t, f, bits) ==
  LET o  == s.oofs[t]
      ov == {b \in bits : (b = "R" /\ o.r > 0) \/ (b = "W" /\ o.w > 0)}
      s1 == LeafClose(s, f, ov)
      s2 == IncCounts(s1, t, bits \ o.share)
  IN [s2 EXCEPT !.oofs[t].share = o.share \cup bits, !.oofs[t].q = @ + 1]

\* The part of OPEN inside the open-owner transaction.  Returns [s, rep].
TxOpen(s, req, k) ==
  LET bits == ShareSet(req.share)
      fail(e) == [s |-> s, rep |-> Err(e)]
      merge(s1, f) ==
        \* s1: leaf f has been opened with bits
        LET Ex == {t \in OofsOf(s1, k) : s1.oofs[t].f = f} IN
        IF Ex # {}
        THEN LET t  == CHOOSE t \in Ex : TRUE
                 s2 == Upgrade(s1, t, f, bits)
             IN [s |-> s2, t |-> t]
        ELSE LET t  == s1.nsid + 1
                 s2 == [s1 EXCEPT !.nsid = t,
                                  !.oofs = Put(@, t, [c |-> k[1], ok |-> k[2], f |-> f, share |-> bits, q |-> 1,
                                                      r |-> IF "R" \in bits THEN 1 ELSE 0,
                                                      w |-> IF "W" \in bits THEN 1 ELSE 0,
                                                      st |-> "open"]),
                                  !.held = IF f \in DOMAIN @ THEN @ ELSE Put(@, f, NoLocks)]
             IN [s |-> s2, t |-> t]
  IN
  IF bits = {} THEN fail("INVAL")
  ELSE IF req.deny \in 1 .. 3 THEN fail("SHARE_DENIED")
  ELSE IF req.deny # 0 THEN fail("INVAL")
  ELSE CASE req.claim = "NULL" ->
              IF req.fh = -1 THEN fail("NOFILEHANDLE")
              ELSE IF req.fh # 0 THEN fail("NOTDIR")
              ELSE IF req.name \notin DOMAIN s.dir THEN fail("NOENT")
              ELSE LET f0 == s.dir[req.name] IN
                   IF f0 # 0 THEN
                      IF req.how \in {"GUARDED", "EXCLUSIVE"} THEN fail("EXIST")
                      ELSE LET m == merge(LeafOpen(s, f0, bits), f0)
                           IN [s |-> m.s,
                               rep |-> [SidRep(m.t, m.s.oofs[m.t].q) EXCEPT !.conf = ~s.oo[k].confirmed, !.fh = f0]]
                   ELSE IF req.how = "NOCREATE" THEN fail("NOENT")
                   ELSE LET f  == s.nfile + 1
                            s1 == [s EXCEPT !.nfile = f, !.dir[req.name] = f,
                                            !.leaf = Put(@, f, [b \in {"R", "W"} |-> IF b \in bits THEN 1 ELSE 0])]
                            m  == merge(s1, f)
                        IN [s |-> m.s,
                            rep |-> [SidRep(m.t, m.s.oofs[m.t].q) EXCEPT !.conf = ~s.oo[k].confirmed, !.fh = f]]
         [] req.claim \in {"PREV", "PREVDELEG"} ->
              IF req.fh = -1 THEN fail("NOFILEHANDLE")
              ELSE IF req.fh = 0 THEN fail("ISDIR")
              ELSE LET Ex == {t \in OofsOf(s, k) : s.oofs[t].f = req.fh} IN
                   IF Ex = {} \/ req.claim = "PREVDELEG" THEN fail("RECLAIM_BAD")
                   ELSE IF req.how \in {"GUARDED", "EXCLUSIVE"} THEN fail("EXIST")
                   ELSE LET t  == CHOOSE t \in Ex : TRUE
                            s1 == Upgrade(LeafOpen(s, req.fh, bits), t, req.fh, bits)
                        IN [s |-> s1, rep |-> [SidRep(t, s1.oofs[t].q) EXCEPT !.fh = req.fh]]
         [] req.claim = "DCUR" -> fail("RECLAIM_BAD")
         [] OTHER -> fail("NOTSUPP")

\* OPEN drops the server lock while the file is opened (VirtualOpenChild /
\* VirtualOpenSelf may block), so it is two steps: OpenStart starts the
\* open-owner transaction (which holds the client and makes every other
\* request for the open-owner wait), OpenEnd re-enters, does the bookkeeping
\* of the opened file and completes the transaction.  OpenStart returns
\* [s, rep, ctx, io]: io = the in-flight record, or [kind |-> "fail"] if the
\* request completed in the first step with the reply rep.
OpenStart(s0, req) ==
  LET s == Expire(s0)
      c == req.cid
      k == <<c, req.ok>>
      fail(st, rep, ctx) == [s |-> st, rep |-> rep, ctx |-> ctx, io |-> [kind |-> "fail"]]
  IN IF ~ConfirmedConf(s, c) THEN fail(s, Err("STALE_CLIENTID"), "none")
     ELSE LET s1 == IF k \in DOMAIN s.oo THEN s
                    ELSE [s EXCEPT !.oo = Put(@, k, [confirmed |-> FALSE, lastseq |-> 0,
                                                     resp |-> NoResp, unused |-> -1])]
              tx == StartOO(s1, k, req.seq, "reinit", "OPEN", req)
          IN IF tx.kind # "go" THEN fail(tx.s, tx.rep, tx.ctx)
             ELSE [s |-> tx.s, rep |-> BlankRep, ctx |-> "new",
                   io |-> [kind |-> "open", t |-> 0, c |-> c, bits |-> {}, f |-> 0, k |-> k, req |-> req]]

OpenEnd(s0, io) ==
  LET s == Expire(s0)
      r == TxOpen(s, io.req, io.k)
  IN [s |-> CompleteOO(r.s, io.k, io.req, "OPEN", r.rep, 0), rep |-> r.rep]

DoOpen(s0, req) ==
  LET a == OpenStart(s0, req) IN
  IF a.io.kind = "fail" THEN Res(a.s, a.rep, a.ctx)
  ELSE LET b == OpenEnd(a.s, a.io) IN Res(b.s, b.rep, "new")

\* The open-owner has a transaction in progress (an OPEN is in flight).
OpenOwnerBusy(s, k) == \E i \in DOMAIN s.io : s.io[i].kind = "open" /\ s.io[i].k = k

-----------------------------------------------------------------------------
(* OPEN_CONFIRM, OPEN_DOWNGRADE, CLOSE.                                    *)

\* Common frame of the operations that address an open-owner by an open
\* state id.  Tx(s, k) returns [s, rep, closed].
OpenSidOp(s0, req, op, policy, Tx(_, _)) ==
  IF RegularSid(req) # "OK" THEN Res(s0, Err(RegularSid(req)), "none")
  ELSE LET s == Expire(s0) IN
       IF req.st \notin DOMAIN s.oofs \/ s.oofs[req.st].st = "gone" THEN Res(s, Err("BAD_STATEID"), "none")
       ELSE LET k  == <<s.oofs[req.st].c, s.oofs[req.st].ok>>
                tx == StartOO(s, k, req.seq, policy, op, req)
            IN IF tx.kind # "go" THEN Res(tx.s, tx.rep, tx.ctx)
               ELSE LET r == Tx(tx.s, k)
                    IN Res(CompleteOO(r.s, k, req, op, r.rep, r.closed), r.rep, "new")

DoOpenConfirm(s0, req) ==
  LET Tx(s, k) ==
        LET st == GetOOFS(s, req, TRUE) IN
        IF st # "OK" THEN [s |-> s, rep |-> Err(st), closed |-> 0]
        ELSE LET s1 == [s EXCEPT !.oo[k].confirmed = TRUE, !.oofs[req.st].q = @ + 1]
             IN [s |-> s1, rep |-> SidRep(req.st, s1.oofs[req.st].q), closed |-> 0]
  IN OpenSidOp(s0, req, "OPEN_CONFIRM", "allow", Tx)

DoOpenDowngrade(s0, req) ==
  LET Tx(s, k) ==
        LET st   == GetOOFS(s, req, FALSE)
            bits == ShareSet(req.share)
        IN IF st # "OK" THEN [s |-> s, rep |-> Err(st), closed |-> 0]
           ELSE IF bits = {} \/ ~(bits \subseteq s.oofs[req.st].share) \/ req.deny # 0
                THEN [s |-> s, rep |-> Err("INVAL"), closed |-> 0]
           ELSE LET s1 == DecCounts(s, req.st, s.oofs[req.st].share \ bits)
                    s2 == [s1 EXCEPT !.oofs[req.st].share = bits, !.oofs[req.st].q = @ + 1]
                IN [s |-> s2, rep |-> SidRep(req.st, s2.oofs[req.st].q), closed |-> 0]
  IN OpenSidOp(s0, req, "OPEN_DOWNGRADE", "deny", Tx)

DoClose(s0, req) ==
  LET Tx(s, k) ==
        LET st == GetOOFS(s, req, FALSE) IN
        IF st # "OK" THEN [s |-> s, rep |-> Err(st), closed |-> 0]
        ELSE LET s1 == RemoveStart(s, req.st)
                 s2 == [s1 EXCEPT !.oofs[req.st].q = @ + 1]
             IN [s |-> s2, rep |-> SidRep(req.st, s2.oofs[req.st].q), closed |-> req.st]
  IN OpenSidOp(s0, req, "CLOSE", "deny", Tx)

-----------------------------------------------------------------------------
(* LOCK, LOCKU, LOCKT, RELEASE_LOCKOWNER.                                  *)

\* OpenedFile.Lock on the table of file f for owner o: "INVAL", "DENIED" or "OK".
LockOutcome(s, f, o, req) ==
  IF ~RangeOK(req) THEN "INVAL"
  ELSE IF LastByteOnly(req) /\ req.rej # "" THEN req.rej
  ELSE IF ~LockTypeOK(req.lt) THEN "INVAL"
  ELSE IF Conflicts(s.held[f], o, req.s, RangeEnd(req), TableType(req.lt)) THEN "DENIED"
  ELSE "OK"

\* txLockCommon on an existing lock-owner file.
LockCommon(s, lt, req) ==
  LET l   == s.lofs[lt]
      f   == s.oofs[l.ot].f
      o   == <<l.c, l.lk>>
      out == LockOutcome(s, f, o, req)
  IN IF out # "OK" THEN [s |-> s, rep |-> Err(out)]
     ELSE LET h2 == ApplyLock(s.held[f], o, req.s, RangeEnd(req), TableType(req.lt))
              d  == Entries(h2, o) - Entries(s.held[f], o)
              s1 == [s EXCEPT !.held[f] = h2, !.lofs[lt].lc = @ + d, !.lofs[lt].q = @ + 1]
          IN [s |-> s1, rep |-> SidRep(lt, s1.lofs[lt].q)]

\* txLockInitial: LOCK with open_to_lock_owner.  Returns [s, rep].
TxLockInitial(s, req, k) ==
  LET st == GetOOFS(s, req, FALSE)
      t  == req.st
      lk == <<k[1], req.lk>>
  IN
  IF st # "OK" THEN [s |-> s, rep |-> Err(st), ctx |-> "new"]
  ELSE IF req.cid # k[1] THEN [s |-> s, rep |-> Err("INVAL"), ctx |-> "new"]
  \* the lock-owner already has lock state on this file (through this open-owner
  \* or another one of the client): byte-range locks are owned by the lock-owner,
  \* so one lock state accounts for them and must be used (LOCK without
  \* open_to_lock_owner)
  ELSE IF lk \in DOMAIN s.lo /\ \E x \in LofsOf(s, k[1], req.lk) :
                                    /\ s.oofs[s.lofs[x].ot].f = s.oofs[t].f
                                    /\ (s.lofs[x].ot = t \/ ~req.twin)
       THEN [s |-> s, rep |-> Err("BAD_SEQID"), ctx |-> "misordered"]
  ELSE LET initial == lk \notin DOMAIN s.lo
           s1 == IF initial THEN [s EXCEPT !.lo = Put(@, lk, [lastseq |-> 0, resp |-> NoResp])] ELSE s
           tx == StartLO(s1, lk, req.lseq, initial, "LOCK", req)
       IN IF tx.kind # "go" THEN [s |-> tx.s, rep |-> tx.rep, ctx |-> tx.ctx]
          ELSE LET f   == s.oofs[t].f
                   out == LockOutcome(tx.s, f, lk, req)
               IN IF out # "OK"
                  THEN \* the new lock-owner file is removed again; a lock-owner
                       \* without files is removed with it
                       LET s2 == CompleteLO(tx.s, lk, req, "LOCK", Err(out))
                       IN [s |-> IF initial THEN [s2 EXCEPT !.lo = Del(@, {lk})] ELSE s2, rep |-> Err(out), ctx |-> "new"]
                  ELSE LET lt == tx.s.nsid + 1
                           s2 == IncCounts(tx.s, t, s.oofs[t].share)
                           s3 == [s2 EXCEPT !.nsid = lt,
                                            !.lofs = Put(@, lt, [c |-> k[1], lk |-> req.lk, ot |-> t,
                                                                 share |-> s.oofs[t].share, q |-> 0, lc |-> 0])]
                           r  == LockCommon(s3, lt, req)
                       IN [s |-> CompleteLO(r.s, lk, req, "LOCK", r.rep), rep |-> r.rep, ctx |-> "new"]

DoLock(s0, req) ==
  LET s == Expire(s0) IN
  IF RegularSid(req) # "OK" THEN Res(s, Err(RegularSid(req)), "none")
  ELSE IF req.newlo THEN
       IF req.st \notin DOMAIN s.oofs \/ s.oofs[req.st].st = "gone" THEN Res(s, Err("BAD_STATEID"), "none")
       ELSE LET k  == <<s.oofs[req.st].c, s.oofs[req.st].ok>>
                tx == StartOO(s, k, req.seq, "deny", "LOCK", req)
            IN IF tx.kind # "go" THEN Res(tx.s, tx.rep, tx.ctx)
               ELSE LET r == TxLockInitial(tx.s, req, k)
                    IN Res(CompleteOO(r.s, k, req, "LOCK", r.rep, 0), r.rep, r.ctx)
  ELSE IF req.st \notin DOMAIN s.lofs THEN Res(s, Err("BAD_STATEID"), "none")
       ELSE LET lk == <<s.lofs[req.st].c, s.lofs[req.st].lk>>
                tx == StartLO(s, lk, req.lseq, FALSE, "LOCK", req)
            IN IF tx.kind # "go" THEN Res(tx.s, tx.rep, tx.ctx)
               ELSE LET st == GetLOFS(tx.s, req)
                        r  == IF st # "OK" THEN [s |-> tx.s, rep |-> Err(st)] ELSE LockCommon(tx.s, req.st, req)
                    IN Res(CompleteLO(r.s, lk, req, "LOCK", r.rep), r.rep, "new")

DoLocku(s0, req) ==
  LET s == Expire(s0) IN
  IF RegularSid(req) # "OK" THEN Res(s, Err(RegularSid(req)), "none")
  ELSE IF req.st \notin DOMAIN s.lofs THEN Res(s, Err("BAD_STATEID"), "none")
  ELSE LET lk == <<s.lofs[req.st].c, s.lofs[req.st].lk>>
           tx == StartLO(s, lk, req.lseq, FALSE, "LOCKU", req)
       IN IF tx.kind # "go" THEN Res(tx.s, tx.rep, tx.ctx)
          ELSE LET st == GetLOFS(tx.s, req)
                   lt == req.st
                   r  == IF st # "OK" THEN [s |-> tx.s, rep |-> Err(st)]
                         ELSE IF ~RangeOK(req) THEN [s |-> tx.s, rep |-> Err("INVAL")]
                         ELSE IF LastByteOnly(req) /\ req.rej # "" THEN [s |-> tx.s, rep |-> Err(req.rej)]
                         ELSE LET f  == tx.s.oofs[tx.s.lofs[lt].ot].f
                                  h2 == ApplyLock(tx.s.held[f], lk, req.s, RangeEnd(req), "U")
                                  d  == Entries(h2, lk) - Entries(tx.s.held[f], lk)
                                  s1 == [tx.s EXCEPT !.held[f] = h2, !.lofs[lt].lc = @ + d, !.lofs[lt].q = @ + 1]
                              IN [s |-> s1, rep |-> SidRep(lt, s1.lofs[lt].q)]
               IN Res(CompleteLO(r.s, lk, req, "LOCKU", r.rep), r.rep, "new")

DoLockt(s0, req) ==
  IF req.fh = -1 THEN Res(s0, Err("NOFILEHANDLE"), "none")
  ELSE IF req.fh = 0 THEN Res(s0, Err("ISDIR"), "none")
  ELSE LET s == Expire(s0) IN
       IF ~ConfirmedConf(s, req.cid) THEN Res(s, Err("STALE_CLIENTID"), "none")
       ELSE LET s1 == Release(Hold(s, req.cid), req.cid)
                o  == <<req.cid, req.lk>>
            IN IF ~RangeOK(req) THEN Res(s1, Err("INVAL"), "none")
               ELSE IF LastByteOnly(req) /\ req.rej # "" THEN Res(s1, Err(req.rej), "none")
               ELSE IF ~LockTypeOK(req.lt) THEN Res(s1, Err("INVAL"), "none")
               ELSE IF req.fh \in DOMAIN s1.held
                       /\ Conflicts(s1.held[req.fh], o, req.s, RangeEnd(req), TableType(req.lt))
                    THEN Res(s1, Err("DENIED"), "none")
               ELSE Res(s1, OkRep, "none")

DoReleaseLockowner(s0, req) ==
  LET s == Expire(s0) IN
  IF ~ConfirmedConf(s, req.cid) THEN Res(s, Err("STALE_CLIENTID"), "none")
  ELSE LET s1 == Hold(s, req.cid)
           L  == LofsOf(s1, req.cid, req.lk)
       IN IF \E lt \in L : s1.lofs[lt].lc > 0 THEN Res(Release(s1, req.cid), Err("LOCKS_HELD"), "none")
          ELSE Res(Release(FoldSet(RemoveLofs, s1, L), req.cid), OkRep, "none")

-----------------------------------------------------------------------------
(* READ / WRITE / SETATTR(size): two steps, so that I/O can be in flight.  *)

IOBits(op) == IF op = "READ" THEN {"R"} ELSE {"W"}

\* First step.  Returns [s, rep, ctx, io]: io = the in-flight record, or
\* [kind |-> "fail"] if the request completed with the error in rep.
IOStart(s0, req) ==
  LET bits == IOBits(req.op)
      fail(s, e) == [s |-> s, rep |-> Err(e), io |-> [kind |-> "fail", t |-> 0, c |-> 0, bits |-> {}, f |-> 0]]
  IN
  CASE req.sk \in {"anonbad", "bypbad"} -> fail(s0, "BAD_STATEID")
    [] req.sk = "stale" -> fail(s0, "STALE_STATEID")
    [] req.sk \in {"anon", "byp"} ->
         IF req.fh = -1 THEN fail(s0, "NOFILEHANDLE")
         ELSE IF req.op = "SETATTR" /\ req.fh > 0 /\ ~LeafAlive(s0, req.fh) THEN fail(s0, "STALE")
         ELSE IF req.op = "SETATTR"
              THEN [s |-> s0, rep |-> OkRep, io |-> [kind |-> "plain", t |-> 0, c |-> 0, bits |-> {}, f |-> req.fh]]
         ELSE IF req.fh = 0 THEN fail(s0, "ISDIR")
         ELSE IF ~LeafAlive(s0, req.fh) THEN fail(s0, "STALE")
         ELSE [s |-> LeafOpen(s0, req.fh, bits), rep |-> OkRep,
               io |-> [kind |-> "anon", t |-> 0, c |-> 0, bits |-> bits, f |-> req.fh]]
    [] OTHER ->
         LET s  == Expire(s0)
             st == GetOOFS(s, req, FALSE)
             viaOpen == st = "OK"
             st2 == IF st = "BAD_STATEID" THEN GetLOFS(s, req) ELSE st
         IN IF st2 # "OK" THEN fail(s, st2)
            ELSE LET t     == IF viaOpen THEN req.st ELSE s.lofs[req.st].ot
                     share == IF viaOpen THEN s.oofs[req.st].share ELSE s.lofs[req.st].share
                     c     == s.oofs[t].c
                 IN IF ~(bits \subseteq share) THEN fail(s, "OPENMODE")
                    ELSE [s |-> IncCounts(Hold(s, c), t, bits), rep |-> OkRep,
                          io |-> [kind |-> "reg", t |-> t, c |-> c, bits |-> bits, f |-> s.oofs[t].f]]

\* Second step: the cleanup function returned by getOpenedLeaf.
IOEnd(s0, io) ==
  CASE io.kind = "anon" -> LeafClose(s0, io.f, io.bits)
    [] io.kind = "reg"  -> LET s == Expire(s0) IN Release(DecCounts(s, io.t, io.bits), io.c)
    [] OTHER -> s0

DoIO(s0, req) ==
  LET a == IOStart(s0, req) IN
  IF a.io.kind = "fail" THEN Res(a.s, a.rep, "none") ELSE Res(IOEnd(a.s, a.io), a.rep, "none")

-----------------------------------------------------------------------------
(* Name space: REMOVE, RENAME, PUTFH.                                      *)

DoRemove(s, req) ==
  IF req.name \notin DOMAIN s.dir \/ s.dir[req.name] = 0 THEN Res(s, Err("NOENT"), "none")
  ELSE Res([s EXCEPT !.dir[req.name] = 0], OkRep, "none")

DoRename(s, req) ==
  IF req.name \notin DOMAIN s.dir \/ s.dir[req.name] = 0 THEN Res(s, Err("NOENT"), "none")
  ELSE IF req.name = req.name2 THEN Res(s, OkRep, "none")
  ELSE Res([s EXCEPT !.dir[req.name2] = s.dir[req.name], !.dir[req.name] = 0], OkRep, "none")

DoPutfh(s, req) == Res(s, [OkRep EXCEPT !.fh = req.fh], "none")

-----------------------------------------------------------------------------
(* One COMPOUND: [PUTFH fh | PUTROOTFH], operation, (GETFH).               *)

Do(s, req) ==
  IF req.fh > 0 /\ ~(req.fh \in DOMAIN s.leaf /\ Resolves(s, req.fh)) THEN Res(s, PreErr("STALE"), "none")
  ELSE CASE req.op = "SETCLIENTID"         -> DoSetclientid(s, req)
         [] req.op = "SETCLIENTID_CONFIRM" -> DoSetclientidConfirm(s, req)
         [] req.op = "RENEW"               -> DoRenew(s, req)
         [] req.op = "OPEN"                -> DoOpen(s, req)
         [] req.op = "OPEN_CONFIRM"        -> DoOpenConfirm(s, req)
         [] req.op = "OPEN_DOWNGRADE"      -> DoOpenDowngrade(s, req)
         [] req.op = "CLOSE"               -> DoClose(s, req)
         [] req.op = "LOCK"                -> DoLock(s, req)
         [] req.op = "LOCKU"               -> DoLocku(s, req)
         [] req.op = "LOCKT"               -> DoLockt(s, req)
         [] req.op = "RELEASE_LOCKOWNER"   -> DoReleaseLockowner(s, req)
         [] req.op \in {"READ", "WRITE", "SETATTR"} -> DoIO(s, req)
         [] req.op = "REMOVE"              -> DoRemove(s, req)
         [] req.op = "RENAME"              -> DoRename(s, req)
         [] req.op = "PUTFH"               -> DoPutfh(s, req)

Tick(s, d) == [s EXCEPT !.clock = @ + d]

-----------------------------------------------------------------------------
(* Property predicates on a state.                                         *)

Card(S) == Cardinality(S)
HasBit(o, b) == (b = "R" /\ o.r > 0) \/ (b = "W" /\ o.w > 0)

\* What the issued state ids and the in-flight I/O entitle to, per leaf and
\* access bit: one underlying open per open-owner file that still counts
\* holders of the bit (its own share reservation, lock-owner clones, I/O
\* clones), plus temporary opens of anonymous I/O.
Entitled(s, f, b) ==
  Card({t \in DOMAIN s.oofs : s.oofs[t].f = f /\ HasBit(s.oofs[t], b)})
  + Card({i \in DOMAIN s.io : s.io[i].kind = "anon" /\ s.io[i].f = f /\ b \in s.io[i].bits})

C18_Balance(s) ==
  \A f \in DOMAIN s.leaf : \A b \in {"R", "W"} :
    s.leaf[f][b] >= 0 /\ s.leaf[f][b] = Entitled(s, f, b)

\* readers/writers = own share bit + lock-owner file clones + in-flight I/O clones
C18_Counts(s) ==
  \A t \in DOMAIN s.oofs :
    LET o == s.oofs[t]
        n(b) == (IF b \in o.share THEN 1 ELSE 0)
                + Card({x \in LofsOn(s, t) : b \in s.lofs[x].share})
                + Card({i \in DOMAIN s.io : s.io[i].kind = "reg" /\ s.io[i].t = t /\ b \in s.io[i].bits})
    IN o.r = n("R") /\ o.w = n("W") /\ (o.st = "gone" => o.r + o.w > 0)

\* An open file stays reachable by handle; the pool holds exactly the files
\* that have open-owner files.
C18_Reach(s) ==
  /\ \A t \in DOMAIN s.oofs : s.oofs[t].st # "gone" => Resolves(s, s.oofs[t].f)
  /\ DOMAIN s.held = {s.oofs[t].f : t \in {x \in DOMAIN s.oofs : s.oofs[x].st # "gone"}}

\* Records hang together: no state of a client survives the client.
C18_Struct(s) ==
  /\ \A k \in DOMAIN s.oo : ConfirmedConf(s, k[1])
  /\ \A k \in DOMAIN s.lo : ConfirmedConf(s, k[1]) /\ LofsOf(s, k[1], k[2]) # {}
  /\ \A t \in DOMAIN s.oofs : s.oofs[t].st # "gone" => <<s.oofs[t].c, s.oofs[t].ok>> \in DOMAIN s.oo
  /\ \A t \in DOMAIN s.oofs : s.oofs[t].st = "closed" =>
         s.oo[<<s.oofs[t].c, s.oofs[t].ok>>].resp.closed = t
  /\ \A x \in DOMAIN s.lofs : /\ s.lofs[x].ot \in DOMAIN s.oofs
                              /\ s.oofs[s.lofs[x].ot].st = "open"
                              /\ s.oofs[s.lofs[x].ot].c = s.lofs[x].c
                              /\ <<s.lofs[x].c, s.lofs[x].lk>> \in DOMAIN s.lo
  /\ \A i \in DOMAIN s.io : s.io[i].kind = "reg" => s.io[i].t \in DOMAIN s.oofs /\ s.conf[s.io[i].c].hold > 0
  \* an OPEN in flight keeps its client and its open-owner; one transaction per open-owner
  /\ \A i \in DOMAIN s.io : s.io[i].kind = "open" =>
        /\ s.io[i].k \in DOMAIN s.oo /\ s.oo[s.io[i].k].unused = -1
        /\ ConfirmedConf(s, s.io[i].c) /\ s.conf[s.io[i].c].hold > 0
        /\ \A j \in DOMAIN s.io : (s.io[j].kind = "open" /\ s.io[j].k = s.io[i].k) => j = i
  /\ \A c \in DOMAIN s.conf : s.conf[c].hold >= 0
  /\ \A c, d \in DOMAIN s.conf : (c # d /\ s.conf[c].cl = s.conf[d].cl) => ~(s.conf[c].confirmed /\ s.conf[d].confirmed)

\* After every lease has expired nothing is retained.
Empty(s) ==
  /\ DOMAIN s.conf = {} /\ DOMAIN s.oo = {} /\ DOMAIN s.oofs = {}
  /\ DOMAIN s.lo = {} /\ DOMAIN s.lofs = {} /\ DOMAIN s.held = {}
  /\ \A f \in DOMAIN s.leaf : s.leaf[f]["R"] = 0 /\ s.leaf[f]["W"] = 0
C18_Final(s) == (DOMAIN s.conf = {} /\ DOMAIN s.io = {}) => Empty(s)

RECURSIVE SumLc(_, _)
SumLc(s, L) == IF L = {} THEN 0 ELSE LET x == CHOOSE y \in L : TRUE IN s.lofs[x].lc + SumLc(s, L \ {x})

TableOwners(h) == UNION {DOMAIN h[b] : b \in Bytes}

\* NFS level of C20: one protocol lock-owner is one table owner on every
\* file it locks, its lock counts add up to its table entries, different
\* owners exclude each other unless both locks are shared.
C20_LockCount(s) ==
  /\ \A x \in DOMAIN s.lofs : s.lofs[x].lc >= 0
  /\ \A k \in DOMAIN s.lo : \A f \in DOMAIN s.held :
       SumLc(s, {x \in LofsOf(s, k[1], k[2]) : s.oofs[s.lofs[x].ot].f = f}) = Entries(s.held[f], k)
  /\ \A f \in DOMAIN s.held : \A o \in TableOwners(s.held[f]) :
       o \in DOMAIN s.lo /\ \E x \in LofsOf(s, o[1], o[2]) : s.oofs[s.lofs[x].ot].f = f
C20_Exclusion(s) ==
  \A f \in DOMAIN s.held : \A b \in Bytes : \A o1, o2 \in DOMAIN s.held[f][b] :
    o1 # o2 => (s.held[f][b][o1] = "R" /\ s.held[f][b][o2] = "R")

-----------------------------------------------------------------------------
(* Property predicates on a step  s --req/rep/ctx--> t.                    *)

Locks(s) == {<<f, b, o, s.held[f][b][o]>> : <<f, b, o>> \in
               {x \in (DOMAIN s.held) \X Bytes \X (DOMAIN s.lo) : x[3] \in DOMAIN s.held[x[1]][x[2]]}}
\* The client-visible effects of requests: open state, lock state, leaves.
Visible(s) ==
  [oofs |-> [t \in {x \in DOMAIN s.oofs : s.oofs[x].st = "open"} |-> s.oofs[t]],
   lofs |-> s.lofs, locks |-> Locks(s), leaf |-> s.leaf, dir |-> s.dir]

CachedReps(s, req) ==
  {s.oo[k].resp.rep : k \in {x \in DOMAIN s.oo : s.oo[x].resp.op # "none"}}
  \cup {s.lo[k].resp.rep : k \in {x \in DOMAIN s.lo : s.lo[x].resp.op # "none"}}

\* effects of a request with the same owner + seqid happen at most once
C19_Once(s, req, rep, ctx, t) == ctx = "replay" => Visible(t) = Visible(Expire(s))
\* a retransmission gets the reply of the first execution
C19_Same(s, req, rep, ctx, t) == ctx = "replay" => rep \in CachedReps(Expire(s), req)
\* any other seqid: BAD_SEQID, no effect
C19_Misordered(s, req, rep, ctx, t) ==
  ctx = "misordered" => rep.st = "BAD_SEQID" /\ Visible(t) = Visible(Expire(s))
\* same seqid, other type of operation: never the cached reply
C19_FalseRetry(s, req, rep, ctx, t) ==
  ctx = "falseretry" => rep.st = "BAD_SEQID" /\ Visible(t) = Visible(Expire(s))
\* same seqid and type, other arguments: cached reply or rejection, no effect
C19_LaxRetry(s, req, rep, ctx, t) ==
  ctx = "laxretry" => /\ (rep.st = "BAD_SEQID" \/ rep \in CachedReps(Expire(s), req))
                      /\ Visible(t) = Visible(Expire(s))

UsesOpenSid(req) == req.op \in {"CLOSE", "OPEN_DOWNGRADE", "OPEN_CONFIRM"} \/ (req.op = "LOCK" /\ req.newlo)
UsesLockSid(req) == req.op = "LOCKU" \/ (req.op = "LOCK" /\ ~req.newlo)

\* The request has to wait for the transaction of an open-owner that has an
\* OPEN in flight (waitForCurrentTransactionCompletion): it completes after
\* that OPEN, as if it had been sent then.
Blocked(s0, req) ==
  LET s == Expire(s0) IN
  /\ ~(req.fh > 0 /\ ~(req.fh \in DOMAIN s0.leaf /\ Resolves(s0, req.fh)))
  /\ \/ req.op = "OPEN" /\ ConfirmedConf(s, req.cid) /\ OpenOwnerBusy(s, <<req.cid, req.ok>>)
     \/ /\ UsesOpenSid(req) /\ RegularSid(req) = "OK"
        /\ req.st \in DOMAIN s.oofs /\ s.oofs[req.st].st # "gone"
        /\ OpenOwnerBusy(s, <<s.oofs[req.st].c, s.oofs[req.st].ok>>)

\* The request is a retransmission of an OPEN that is still in flight.
DupOfInFlight(s, req) == \E i \in DOMAIN s.io : s.io[i].kind = "open" /\ SameReq(s.io[i].req, req)
OpenSidValid(s, req) ==
  /\ req.sk = "reg" /\ req.st \in DOMAIN s.oofs /\ s.oofs[req.st].st = "open"
  /\ req.fh = s.oofs[req.st].f /\ req.sq = s.oofs[req.st].q
LockSidValid(s, req) ==
  /\ req.sk = "reg" /\ req.st \in DOMAIN s.lofs
  /\ req.fh = s.oofs[s.lofs[req.st].ot].f /\ req.sq = s.lofs[req.st].q
\* a state id is honoured only with its file handle, its client and its seqid
C18_StateIds(s, req, rep, ctx, t) ==
  (rep.st = "OK" /\ ctx \notin {"replay", "laxretry"}) =>
    /\ UsesOpenSid(req) => OpenSidValid(s, req)
    /\ UsesLockSid(req) => LockSidValid(s, req)
    /\ (req.op = "LOCK" /\ req.newlo) => req.cid = s.oofs[req.st].c
    /\ (req.op \in {"READ", "WRITE", "SETATTR"} /\ req.sk \notin {"anon", "byp"}) =>
          \/ OpenSidValid(s, req) /\ IOBits(req.op) \subseteq s.oofs[req.st].share
                                  /\ s.oo[<<s.oofs[req.st].c, s.oofs[req.st].ok>>].confirmed
          \/ LockSidValid(s, req) /\ IOBits(req.op) \subseteq s.lofs[req.st].share

\* LOCK/LOCKT/LOCKU/RELEASE_LOCKOWNER replies agree with the table.
C20_Replies(s, req, rep, ctx, t) ==
  LET e == Expire(s) IN
  /\ (req.op \in {"LOCK", "LOCKU", "LOCKT"} /\ rep.st = "OK" /\ ctx \notin {"replay", "laxretry"}) => RangeOK(req)
  /\ (req.op \in {"LOCK", "LOCKT"} /\ rep.st = "DENIED" /\ ctx \notin {"replay", "laxretry"}) =>
        \E f \in DOMAIN e.held : \E o \in (DOMAIN e.lo) \cup {<<req.cid, req.lk>>} :
          Conflicts(e.held[f], o, req.s, RangeEnd(req), TableType(req.lt))
  /\ (req.op = "RELEASE_LOCKOWNER" /\ rep.st = "OK") =>
        \A f \in DOMAIN t.held : ~HoldsAny(t.held[f], <<req.cid, req.lk>>)
  /\ (req.op = "RELEASE_LOCKOWNER" /\ rep.st = "LOCKS_HELD") =>
        \E f \in DOMAIN e.held : HoldsAny(e.held[f], <<req.cid, req.lk>>)
  /\ C20_Exclusion(t)

-----------------------------------------------------------------------------
(* The bounded model that TLC explores exhaustively (MC_NFS40_*.cfg) and   *)
(* from which behaviours are generated for replay on the real server.      *)

CONSTANTS Clients, Verifs,   \* client long ids / client verifiers (integers)
          OKeys, LKeys,      \* open-owner / lock-owner names
          Names,             \* file names in the root directory
          Ops,               \* enabled operations
          Shares, Hows,      \* share_access values and create modes of OPEN
          SeqDev,            \* deviations of the owner seqid from "last + 1"
          SidDev,            \* deviations of the state id seqid from the current one
          WrongFh,           \* also send state ids with another file handle
          RangeSet,          \* <<start, end, lenk>> triples of LOCK/LOCKT/LOCKU
          LockTypes,
          TickSet,           \* clock advances
          AnonOps,           \* I/O operations also sent with the anonymous state id
          GateOpen,          \* OPEN requests that may be held in flight (two steps): "none",
                             \* "prev" (reclaims by confirmed open-owners), "all"
          LaxSet, RejSet,    \* outcomes left open that are explored (fields lax, rej of a request)
          FirstSeqs,         \* owner seqids used for the first request of a new open-owner
          PreClients,        \* clients that are registered and confirmed initially
          MaxConf, MaxSid, MaxFile, MaxSeq, MaxLSeq, MaxClock, MaxIO

VARIABLES s,      \* the server state
          last    \* the last step: [kind, req, rep, ctx]

vars == <<s, last>>

NoStep == [kind |-> "init", req |-> Blank("NONE"), rep |-> BlankRep, ctx |-> "none"]

ConfTokens(st) == (DOMAIN st.conf) \cup {0}
Seqs(lastseq) == {q \in {Nxt(lastseq) + d : d \in SeqDev} : q >= -3}
SidSeqs(q) == {x \in {q + d : d \in SidDev} : x >= 0}
FhsFor(st, f) == IF WrongFh THEN {f, -1} \cup {g \in DOMAIN st.leaf : g # f /\ Resolves(st, g)} ELSE {f}
\* Deviations are applied one at a time: <<owner seqid, state id seqid, file handle>>.
Variants(st, lastseq, q, f) ==
  {<<x, q, f>> : x \in Seqs(lastseq)} \cup {<<Nxt(lastseq), y, f>> : y \in SidSeqs(q)}
  \cup {<<Nxt(lastseq), q, g>> : g \in FhsFor(st, f)}
OpenSids(st) == {t \in DOMAIN st.oofs : st.oofs[t].st # "gone"}
OOLast(st, c, ok) == IF <<c, ok>> \in DOMAIN st.oo THEN st.oo[<<c, ok>>].lastseq ELSE 0

ReqSetclientid(st) == {[Blank("SETCLIENTID") EXCEPT !.cl = c, !.cv = v] : c \in Clients, v \in Verifs}
ReqConfirm(st) == {[Blank("SETCLIENTID_CONFIRM") EXCEPT !.cid = c, !.verf = c] : c \in ConfTokens(st)}
ReqRenew(st) == {[Blank("RENEW") EXCEPT !.cid = c] : c \in ConfTokens(st)}
ReqOpen(st) ==
  UNION {{[Blank("OPEN") EXCEPT !.fh = 0, !.cid = c, !.ok = ok, !.seq = q, !.name = n, !.share = sh, !.how = h]
            : q \in (IF <<c, ok>> \in DOMAIN st.oo THEN Seqs(OOLast(st, c, ok)) ELSE FirstSeqs),
              n \in Names, sh \in Shares, h \in Hows}
         : c \in DOMAIN st.conf, ok \in OKeys}
ReqOpenPrev(st) ==
  UNION {{[Blank("OPEN") EXCEPT !.fh = st.oofs[t].f, !.cid = st.oofs[t].c, !.ok = st.oofs[t].ok, !.claim = "PREV",
                                !.seq = q, !.share = sh]
            : q \in Seqs(OOLast(st, st.oofs[t].c, st.oofs[t].ok)), sh \in Shares}
         : t \in OpenSids(st)}
ReqOpenSid(st, op) ==
  UNION {{[Blank(op) EXCEPT !.fh = v[3], !.sk = "reg", !.st = t, !.sq = v[2], !.seq = v[1]]
            : v \in Variants(st, OOLast(st, st.oofs[t].c, st.oofs[t].ok), st.oofs[t].q, st.oofs[t].f)}
         : t \in OpenSids(st)}
ReqDowngrade(st) == {[r EXCEPT !.share = sh] : r \in ReqOpenSid(st, "OPEN_DOWNGRADE"), sh \in Shares}
ReqLockNew(st) ==
  UNION {UNION {{[r EXCEPT !.newlo = TRUE, !.cid = st.oofs[r.st].c, !.lk = lk, !.lseq = lq, !.lt = lt,
                           !.s = rg[1], !.e = rg[2], !.lenk = rg[3]]
                   : lt \in LockTypes, rg \in RangeSet,
                     lq \in IF <<st.oofs[r.st].c, lk>> \in DOMAIN st.lo
                            THEN Seqs(st.lo[<<st.oofs[r.st].c, lk>>].lastseq) ELSE {1}}
                : lk \in LKeys}
         : r \in ReqOpenSid(st, "LOCK")}
ReqLockSid(st, op) ==
  UNION {{[Blank(op) EXCEPT !.fh = v[3], !.sk = "reg", !.st = t, !.sq = v[2], !.lseq = v[1], !.lt = lt,
                            !.s = rg[1], !.e = rg[2], !.lenk = rg[3]]
            : v \in Variants(st, st.lo[<<st.lofs[t].c, st.lofs[t].lk>>].lastseq, st.lofs[t].q, st.oofs[st.lofs[t].ot].f),
              lt \in (IF op = "LOCK" THEN LockTypes ELSE {"R"}), rg \in RangeSet}
         : t \in DOMAIN st.lofs}
ReqLockt(st) ==
  {[Blank("LOCKT") EXCEPT !.fh = f, !.cid = c, !.lk = lk, !.lt = lt, !.s = rg[1], !.e = rg[2], !.lenk = rg[3]]
     : f \in {g \in DOMAIN st.leaf : Resolves(st, g)}, c \in DOMAIN st.conf, lk \in LKeys,
       lt \in LockTypes, rg \in RangeSet}
ReqRelease(st) == {[Blank("RELEASE_LOCKOWNER") EXCEPT !.cid = c, !.lk = lk] : c \in DOMAIN st.conf, lk \in LKeys}
SidF(st, t) == IF t \in DOMAIN st.oofs THEN st.oofs[t].f ELSE st.oofs[st.lofs[t].ot].f
SidQ(st, t) == IF t \in DOMAIN st.oofs THEN st.oofs[t].q ELSE st.lofs[t].q
ReqIO(st) ==
  UNION {{[Blank(op) EXCEPT !.fh = v[3], !.sk = "reg", !.st = t, !.sq = v[2]]
            : op \in Ops \cap {"READ", "WRITE"}, v \in {w \in Variants(st, 0, SidQ(st, t), SidF(st, t)) : w[1] = 1}}
         : t \in OpenSids(st) \cup DOMAIN st.lofs}
  \cup {[Blank(op) EXCEPT !.fh = f, !.sk = "anon"]
          : op \in Ops \cap {"READ", "WRITE"} \cap AnonOps, f \in {g \in DOMAIN st.leaf : Resolves(st, g)}}
ReqRemove(st) == {[Blank("REMOVE") EXCEPT !.fh = 0, !.name = n] : n \in Names}
ReqRename(st) == {[Blank("RENAME") EXCEPT !.fh = 0, !.name = x[1], !.name2 = x[2]] : x \in {y \in Names \X Names : y[1] # y[2]}}
ReqPutfh(st)  == {[Blank("PUTFH") EXCEPT !.fh = f] : f \in DOMAIN st.leaf}

On(op, S) == IF op \in Ops THEN S ELSE {}
Requests(st) ==
  On("SETCLIENTID", ReqSetclientid(st)) \cup On("SETCLIENTID_CONFIRM", ReqConfirm(st))
  \cup On("RENEW", ReqRenew(st)) \cup On("OPEN", ReqOpen(st)) \cup On("OPEN_PREV", ReqOpenPrev(st))
  \cup On("OPEN_CONFIRM", ReqOpenSid(st, "OPEN_CONFIRM")) \cup On("OPEN_DOWNGRADE", ReqDowngrade(st))
  \cup On("CLOSE", ReqOpenSid(st, "CLOSE")) \cup On("LOCK", ReqLockNew(st) \cup ReqLockSid(st, "LOCK"))
  \cup On("LOCKU", ReqLockSid(st, "LOCKU")) \cup On("LOCKT", ReqLockt(st))
  \cup On("RELEASE_LOCKOWNER", ReqRelease(st)) \cup ReqIO(st)
  \cup On("REMOVE", ReqRemove(st)) \cup On("RENAME", ReqRename(st)) \cup On("PUTFH", ReqPutfh(st))

\* Initial state with the clients of PreClients already confirmed (client
\* c has confirmation token c; PreClients must be 1 .. n).
PreState ==
  [InitState(Names) EXCEPT
     !.nconf = Card(PreClients),
     !.conf = [c \in PreClients |-> [cl |-> c, cv |-> 1, seen |-> 0, hold |-> 0, confirmed |-> TRUE]]]

Init == s = PreState /\ last = NoStep

StepWith(r) ==
  LET o == Do(s, r) IN
  /\ s' = o.s
  /\ last' = [kind |-> "op", req |-> r, rep |-> o.rep, ctx |-> o.ctx]

\* A request together with the choice among the outcomes left open.
Alts(r) == {[r EXCEPT !.lax = lx, !.rej = rj] : lx \in LaxSet, rj \in RejSet}

Step == \E r \in Requests(s) : ~Blocked(s, r) /\ \E a \in Alts(r) : StepWith(a)

\* An I/O request that is held inside the leaf.
GatedWith(r) ==
  LET g == [r EXCEPT !.gate = TRUE]
      a == IF g.fh > 0 /\ ~Resolves(s, g.fh)
           THEN [s |-> s, rep |-> PreErr("STALE"), ctx |-> "none", io |-> [kind |-> "fail"]]
           ELSE IF g.op = "OPEN" THEN OpenStart(s, g)
           ELSE LET x == IOStart(s, g) IN [s |-> x.s, rep |-> x.rep, ctx |-> "none", io |-> x.io]
  IN IF a.io.kind = "fail"
     THEN /\ s' = a.s
          /\ last' = [kind |-> "op", req |-> g, rep |-> a.rep, ctx |-> a.ctx]
     ELSE /\ s' = [a.s EXCEPT !.nio = @ + 1, !.io = Put(@, a.s.nio + 1, a.io)]
          /\ last' = [kind |-> "iostart", req |-> g, rep |-> BlankRep, ctx |-> "none"]

\* OPEN requests that the behaviour generator / the exhaustive model may hold in flight.
ReqOpenGate(st) ==
  CASE GateOpen = "all"  -> On("OPEN", ReqOpen(st)) \cup On("OPEN_PREV", ReqOpenPrev(st))
    [] GateOpen = "prev" -> {r \in On("OPEN_PREV", ReqOpenPrev(st)) : st.oo[<<r.cid, r.ok>>].confirmed}
    [] OTHER -> {}

GatedStart == Card(DOMAIN s.io) < MaxIO /\ \E r \in ReqIO(s) \cup ReqOpenGate(s) : ~Blocked(s, r) /\ GatedWith(r)

GatedEnd ==
  \E i \in DOMAIN s.io :
    IF s.io[i].kind = "open"
    THEN LET b == OpenEnd(s, s.io[i]) IN
         /\ s' = [b.s EXCEPT !.io = Del(@, {i})]
         /\ last' = [kind |-> "ioend", req |-> [Blank("IOEND") EXCEPT !.st = i], rep |-> b.rep, ctx |-> "none"]
    ELSE /\ s' = [IOEnd(s, s.io[i]) EXCEPT !.io = Del(@, {i})]
         /\ last' = [kind |-> "ioend", req |-> [Blank("IOEND") EXCEPT !.st = i], rep |-> OkRep, ctx |-> "none"]

ClockTick ==
  \E d \in TickSet :
    /\ s' = Tick(s, d)
    /\ last' = [kind |-> "tick", req |-> [Blank("TICK") EXCEPT !.seq = d], rep |-> BlankRep, ctx |-> "none"]

Next == Step \/ GatedStart \/ GatedEnd \/ ClockTick

Spec == Init /\ [][Next]_vars

\* Bounds that keep the exhaustive exploration finite.
Bounded ==
  /\ s.nconf <= MaxConf /\ s.nsid <= MaxSid /\ s.nfile <= MaxFile /\ s.clock <= MaxClock
  /\ s.nio <= MaxIO + 2
  /\ \A k \in DOMAIN s.oo : s.oo[k].lastseq <= MaxSeq
  /\ \A k \in DOMAIN s.lo : s.lo[k].lastseq <= MaxLSeq
  /\ \A t \in DOMAIN s.oofs : s.oofs[t].q <= MaxSeq + 2
  /\ \A t \in DOMAIN s.lofs : s.lofs[t].q <= MaxLSeq + 2

StateView == s

-----------------------------------------------------------------------------
(* The properties as TLC checks them on the model.                         *)

Inv_C18_Balance == C18_Balance(s)
Inv_C18_Counts  == C18_Counts(s)
Inv_C18_Reach   == C18_Reach(s)
Inv_C18_Struct  == C18_Struct(s)
Inv_C18_Final   == C18_Final(s)
Inv_C20_LockCount == C20_LockCount(s)
Inv_C20_Exclusion == C20_Exclusion(s)

StepProp(P(_, _, _, _, _)) == last'.kind = "op" => P(s, last'.req, last'.rep, last'.ctx, s')
Act_C19_Once       == [][StepProp(C19_Once)]_vars
Act_C19_Same       == [][StepProp(C19_Same)]_vars
Act_C19_Misordered == [][StepProp(C19_Misordered)]_vars
Act_C19_FalseRetry == [][StepProp(C19_FalseRetry)]_vars
Act_C19_LaxRetry   == [][StepProp(C19_LaxRetry)]_vars
Act_C18_StateIds   == [][StepProp(C18_StateIds)]_vars
Act_C20_Replies    == [][StepProp(C20_Replies)]_vars
=============================================================================
