SPECIFICATION Spec
CONSTANTS
  NameOrder <- NamesCI
  HiddenNames = {}
  MaxDirs = 3
  MaxLeaves = 2
  SymLeaf = 1
  InitCI = TRUE
  InitHid = FALSE
  Ops = {"lookup", "mkdir", "symlink", "link", "open", "vremove", "rename", "create", "enter", "removeall"}
  AllowSubtreeRename = TRUE
INVARIANTS
  C13_MapListAgreement
  C13_DeletedIsEmpty
  C13_DeletedAcceptsNothing
  C13_LinkCounts
  C13_Pagination
PROPERTIES
  C13_ChangeCounter
  C13_CookiesStable
  C13_DeletedForever
VIEW
  View
CHECK_DEADLOCK FALSE
