"""C16 — writable build-directory files live exactly as long as referenced;
uploads match (design model PoolFile.tla, trace validation PoolFileTrace.tla)."""
import json
import os

from lib import vlib

OPS = "PoolFileOps.tla"
MODEL = "PoolFile.tla"
TRACE = "PoolFileTrace.tla"
TCFG = "Trace_PoolFile.cfg"
DEPS = [OPS]
HANG = 3  # exit code of a driver whose watchdog fired


class _Stop(Exception):
    """VERIF_C16_STOPFIRST=1 (mutation runs): a violation was found, skip the rest."""


def _drive(ctx, binary, test, label, env=None, timeout=1800, tlc_timeout=2400):
    if label in os.environ.get("VERIF_C16_SKIP", "").split(","):
        return {"skipped": True}  # mutation runs: show what the other drivers catch
    out = ctx.sub(label)
    rc, o = vlib.run_driver(binary, test, out, ctx.seed, env=env or {}, timeout=timeout)
    # exit code 3: the driver's watchdog abandoned a step that never became
    # quiescent and logged a "hang" event; the trace specification decides
    # whether that hang is a wait C16 bounds (else it is infrastructure).
    if rc not in (0, HANG):
        raise vlib.Infra("poolfile driver %s failed:\n%s" % (test, o[-3000:]))
    before = len(ctx.violations) + len(ctx.known_hits)
    vlib.validate_traces(ctx, out + "/trace.ndjson", TRACE, TCFG, DEPS, label,
                         classify=vlib.classify_for(ctx.prop), timeout=tlc_timeout,
                         max_failures=int(os.environ.get("VERIF_C16_MAXFAIL", "8")))
    if rc == HANG and len(ctx.violations) + len(ctx.known_hits) == before:
        raise vlib.Infra("poolfile driver %s: a step never became quiescent and the trace does not explain it:\n%s" % (test, o[-2000:]))
    ctx.cov["samples"] += vlib.sample_lines(out + "/trace.ndjson", 3)
    if ctx.violations and os.environ.get("VERIF_C16_STOPFIRST", "") == "1":
        raise _Stop()
    try:
        return json.load(open(out + "/meta.json"))
    except Exception:
        return {}


def run(ctx):
    quick = ctx.quick()
    # 1. design: every interleaving of 2 clients and 2 uploaders on a file.
    # (VERIF_C16_NODESIGN=1 skips it: the design does not depend on /repo, so
    # mutation runs against a scratch copy need not repeat it.)
    design = os.environ.get("VERIF_C16_NODESIGN", "") != "1"
    if design:
        vlib.design_check(ctx, MODEL, "MC_PoolFile.cfg", DEPS, timeout=2400, label="design (uploads x writers)")
        vlib.design_check(ctx, MODEL, "MC_PoolFile_live.cfg", DEPS, timeout=1800, label="design (bounded wait, fair)")
    if design and not quick:
        vlib.design_check(ctx, MODEL, "MC_PoolFile_full.cfg", DEPS, timeout=3600, label="design (uploads, stat, frozen readers)")
        vlib.design_check(ctx, MODEL, "MC_PoolFile_2files.cfg", DEPS, timeout=3600, label="design (two files)")
    # 2. the real code
    binary = vlib.go_build_test(ctx, "poolfile")
    meta = {}
    try:
        meta["scenarios"] = _drive(ctx, binary, "TestScenarios", "scenarios")
        meta["random"] = _drive(ctx, binary, "TestRandom", "random",
                                env={"VERIF_N": 150 if quick else 1000, "VERIF_STEPS": 30 if quick else 40})
        meta["enumeration"] = _drive(ctx, binary, "TestEnumerate", "enum",
                                     env={"VERIF_DEPTH": 4 if quick else 5})
        # calls that resume on a file whose last reference went away meanwhile
        meta["deadops"] = _drive(ctx, binary, "TestDeadDataOps", "deadops")
    except _Stop:
        pass
    ctx.assumptions += [
        "calling convention of the kernel-facing servers: descriptors are closed once by their holder, read/write only through a descriptor with that access, Unlink only while linked",
        "pool file and CAS are harness fakes (in-memory sparse file; Put reads the buffer in two halves); digests are SHA-256 or MD5 (the function asked for varies per call) over contents of at most 6 bytes",
        "interleavings are explored where the real code gives up its lock (wait for writers, wait for unfreeze, CAS transfer), one call per step; races inside a single critical section are left to the mutex",
    ]
    return vlib.finish(
        ctx,
        rule="TLC explores the design model (reference counting, freeze/unfreeze, bounded wait for writers, cached digest, two-half CAS transfer) for every interleaving of 2 client threads and 2 uploaders and checks C16_Refs/CloseOnce/Stale/Digest/NoLostWakeup (+ BoundedWait under fairness). The real NewPoolBackedFileAllocator behind the real FUSE and NFS stateful handle allocators - driven directly, and through builder.NewVirtualBuildDirectory(InMemoryPrepopulatedDirectory).InstallHooks/UploadFile as the worker does - runs over an instrumented pool and a gated fake CAS: scripted races, seeded random histories, an exhaustive enumeration of short histories, and calls resuming on a released file (testing/synctest, one call per step, watchdog for spinning calls). TLC validates every line: number of Close() calls on the pool file vs. links+descriptors+frozen readers at every return and quiescent point, no touch of released storage, status of calls on released/live files, reported digest = digest (under the function the caller asked for) of the bytes the CAS received = a content the file had during the upload, stat digests = present contents, the contents of the pool file = the contents the callers put there (create size, writes, truncations, allocations, O_TRUNC accumulated from the call arguments; overlapping calls in any order) whenever no content-changing call is in progress, a frozen reader shows one and the same contents for as long as it is open, link counts, waits only while their condition holds. Chained driver steps close a frozen view and freeze the file again (frozen reader or upload) in one goroutine before a mutator woken by the close can run (back-to-back freezes with parked writers).",
        explanation="lifetime/reference counting and upload consistency of pool_backed_file_allocator.go",
        exhaustive=True,
        extra={"drivers": meta},
    )


def replay(ctx, path):
    vlib.validate_traces(ctx, path, TRACE, TCFG, DEPS, "replay", classify=vlib.classify_for(ctx.prop))
    return vlib.finish(ctx, rule="replay of a saved trace", explanation="replay")
