"""C15 — file pool: independent sparse files, sectors and quota conserved
(reference model FilePoolOps.tla / FilePool.tla, trace judge FilePoolTrace.tla)."""
import json
import os

from lib import vlib

DEPS = ["FilePoolOps.tla"]
TRACE = "FilePoolTrace.tla"
TCFG = "Trace_FilePool.cfg"
CHUNK = 120000   # lines per TLC run (a trace is never split)
MAXFAIL = 3      # failing traces saved per run; each costs one more TLC pass


def _chunks(path, outdir, label):
    """Split a concatenated trace file at trace boundaries."""
    lines = [ln for ln in vlib.read_lines(path) if ln.strip()]
    if not lines:
        raise vlib.Infra("driver for %s produced an empty trace" % label)
    out, cur = [], []
    for ln in lines:
        if '"ev":"reset"' in ln and len(cur) >= CHUNK:
            out.append(cur)
            cur = []
        cur.append(ln)
    if cur:
        out.append(cur)
    paths = []
    for i, c in enumerate(out):
        p = os.path.join(outdir, "chunk_%s_%d.ndjson" % (label, i))
        with open(p, "w") as f:
            f.write("\n".join(c) + "\n")
        paths.append(p)
    return paths


def _validate(ctx, path, outdir, label, classify, timeout):
    failures = 0
    for i, p in enumerate(_chunks(path, outdir, label)):
        if len(ctx.violations) >= MAXFAIL:
            vlib.log("  (enough failing traces saved; %s chunk %d not validated)" % (label, i))
        else:
            failures += vlib.validate_traces(ctx, p, TRACE, TCFG, DEPS, "%s%d" % (label, i),
                                             classify=classify, timeout=timeout,
                                             max_failures=MAXFAIL - len(ctx.violations))
        os.remove(p)
    return failures


def _drive(ctx, binary, test, label, env, timeout=1500):
    out = ctx.sub(label)
    rc, o = vlib.run_driver(binary, test, out, ctx.seed, env=env, timeout=timeout)
    if rc != 0:
        raise vlib.Infra("filepool driver %s failed:\n%s" % (test, o[-2000:]))
    return out


def run(ctx):
    classify = vlib.classify_for(ctx.prop)
    quick = ctx.quick()
    # 1. design: the sector-map design denotes the abstract sparse file, no
    #    sector has two owners, sectors and quota are conserved (also after
    #    failed calls), exhaustively for a tiny configuration
    vlib.design_check(ctx, "FilePool.tla", "MC_FilePool.cfg", DEPS, timeout=1200, workers=2, heap="2g")
    if not quick:
        vlib.design_check(ctx, "FilePool.tla", "MC_FilePool_big.cfg", DEPS, timeout=3000, workers=4, heap="4g")
        vlib.design_check(ctx, "FilePool.tla", "MC_FilePool_ss4.cfg", DEPS, timeout=3000, workers=4, heap="4g")
    # 2. the real code
    binary = vlib.go_build_test(ctx, "filepool")
    tv_timeout = 1500 if quick else 3000
    only = [x for x in os.environ.get("VERIF_C15_ONLY", "rand,enum,alloc").split(",") if x]   # debugging aid
    scale = float(os.environ.get("VERIF_C15_SCALE", "1"))                                     # debugging aid
    rmeta, emeta = {}, {}
    # 2a. seeded random interleavings on 1-3 files, random tiny configurations, scripted faults
    if "rand" in only:
        out = _drive(ctx, binary, "TestRandom", "rand",
                     {"VERIF_N": int(scale * (300 if quick else 2000)), "VERIF_STEPS": 30 if quick else 40})
        ctx.cov["samples"] += vlib.sample_lines(out + "/trace.ndjson", 8)
        _validate(ctx, out + "/trace.ndjson", out, "random", classify, tv_timeout)
        rmeta = json.load(open(out + "/meta.json"))
    # 2b. every short sequence of state-changing calls over tiny domains, every listed fault position
    if "enum" in only:
        out2 = _drive(ctx, binary, "TestEnumerate", "enum", {"VERIF_FP_LEVEL": 1 if quick else 2})
        _validate(ctx, out2 + "/trace.ndjson", out2, "enum", classify, tv_timeout)
        emeta = json.load(open(out2 + "/meta.json"))
    # 2c. the real bitmap allocator alone, sector counts around the 64-bit word boundaries
    if "alloc" in only:
        out3 = _drive(ctx, binary, "TestAllocator", "alloc",
                      {"VERIF_N": int(scale * (100 if quick else 600)), "VERIF_STEPS": 60 if quick else 120})
        _validate(ctx, out3 + "/trace.ndjson", out3, "alloc", classify, tv_timeout)
    ctx.assumptions.append("hole sources are not longer than the size their file is created with "
                           "(copy-on-write use); calls on one pool are sequential (files are not "
                           "thread-safe and the harness does not run files concurrently); offsets < 2^31")
    return vlib.finish(
        ctx,
        rule="TLC checks exhaustively that the sector-map design (device sectors with stale contents, free set, "
             "per-file sector map, quota counters, one injected fault) denotes the abstract sparse file of "
             "FilePoolOps.tla, never gives a sector two owners and conserves sectors and quota. The real "
             "blockDeviceBackedFilePool + real bitmapSectorAllocator (behind a logging wrapper) + "
             "quotaEnforcingFilePool over a failing base pool are driven over an in-memory block device with "
             "fault injection and pattern/failing hole sources: seeded random interleavings on 1-3 files "
             "(sector sizes 1,2,4; 1..12 sectors), a Go-side exhaustive enumeration of short call sequences "
             "over six tiny domains with a full read + all region seeks afterwards, and the allocator alone "
             "around bitmap word boundaries. Every trace ends by closing everything and allocating the whole "
             "capacity and quota again. TLC recomputes every reply (bytes read, counts, EOF, sizes, region "
             "offsets, quota refusals) from the abstract file and tracks sector ownership and quota from the "
             "logged allocator calls and raw counters. Distinct = distinct design states + validated events.",
        explanation="reference-model conformance of pkg/filesystem/pool (block device file pool, bitmap allocator, quota pool)",
        exhaustive=True,
        extra={"enumeration": emeta, "random": rmeta},
    )


def replay(ctx, path):
    vlib.validate_traces(ctx, path, TRACE, TCFG, DEPS, "replay", classify=vlib.classify_for(ctx.prop))
    return vlib.finish(ctx, rule="replay of a saved trace", explanation="replay")
