SPECIFICATION TraceSpec
INVARIANTS
  VerdictOK
  C16_CloseOnce
  NonconfReport
POSTCONDITION Accepted
CHECK_DEADLOCK FALSE
