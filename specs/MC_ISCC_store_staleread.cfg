SPECIFICATION StoreSpec
CONSTANTS
  Digests = {"d1", "d2"}
  Threads = {"t1", "t2", "t3"}
  NoDigest = "none"
  MaxGets = 5
  MaxUpd = 3
  WritesPerRead = 3
  VersionRules = {"cur+1"}
  WriteGuards = {1}
  ReuseSlots = TRUE
  EagerFinish = TRUE
  RecordHist = TRUE
  MaxN = 1
  MaxT = 0
VIEW StoreView
INVARIANTS
  CexStaleRead
CHECK_DEADLOCK FALSE
