"""Scheduler family (C01-C07): Sched.tla / SchedPreds.tla / SchedTrace.tla."""
import concurrent.futures
import fcntl
import glob
import hashlib
import json
import os

from lib import vlib

DEPS = ["SchedPreds.tla"]
TRACE = "SchedTrace.tla"
CFG = "Trace_Sched.cfg"
CACHE = os.path.join(vlib.VERIF, ".cache")


def split_file(path, chunks):
    """Split a concatenated trace file into `chunks` files at reset events."""
    lines = [ln for ln in vlib.read_lines(path) if ln.strip()]
    traces = vlib.split_traces(lines)
    per = max(1, (len(traces) + chunks - 1) // chunks)
    out = []
    for k in range(0, len(traces), per):
        s = traces[k][0]
        e = traces[min(k + per, len(traces)) - 1][1]
        p = "%s.part%d" % (path, len(out))
        with open(p, "w") as f:
            f.write("\n".join(lines[s:e + 1]) + "\n")
        out.append(p)
    return out


def validate_parallel(ctx, path, label, chunks=8, timeout=1800, classify=None):
    parts = split_file(path, chunks)
    with concurrent.futures.ThreadPoolExecutor(max_workers=len(parts)) as ex:
        futs = [ex.submit(vlib.validate_traces, ctx, p, TRACE, CFG, DEPS, "%s_%d" % (label, i),
                          timeout, 6, classify or vlib.classify_for(ctx.prop))
                for i, p in enumerate(parts)]
        for f in futs:
            f.result()


def _key(binary, seed, tier):
    h = hashlib.sha256()
    for p in [binary] + [os.path.join(vlib.SPECS, n) for n in DEPS + [TRACE, CFG, "Sched.tla", "SchedSim.tla", "Sim_Sched.cfg"] + sorted(
            x for x in os.listdir(vlib.SPECS) if x.startswith("MC_Sched_"))] + [__file__, vlib.__file__]:
        h.update(open(p, "rb").read())
    h.update(("%s|%s|%s" % (seed, tier, vlib.REPO)).encode())
    return h.hexdigest()[:24]


def _run_all(ctx0, binary):
    """Run the drivers and validate their traces once for the whole family;
    every non-ok verdict is recorded with its reason (property prefix)."""
    ctx = vlib.Ctx("SCHED", ctx0.tier, ctx0.seed)
    try:
        # design model: the same predicates are invariants of Sched.tla
        for cfg in (["MC_Sched_core.cfg", "MC_Sched_gc.cfg", "MC_Sched_drain.cfg", "MC_Sched_live.cfg"] if ctx.quick()
                    else ["MC_Sched_core.cfg", "MC_Sched_gc.cfg", "MC_Sched_drain.cfg", "MC_Sched_live.cfg", "MC_Sched_dedup.cfg"]):
            vlib.design_check(ctx, "Sched.tla", cfg, DEPS, timeout=3600, workers=4, heap="6g")
        n = 60 if ctx.quick() else 300
        steps = 70 if ctx.quick() else 90
        out = ctx.sub("rand")
        rc, o = vlib.run_driver(binary, "TestRandom", out, ctx.seed, env={"VERIF_N": n, "VERIF_STEPS": steps}, timeout=1500)
        if rc != 0:
            raise vlib.Infra("sched random driver failed:\n" + o[-3000:])
        everything = lambda reason, inv, failing, lines: "violation"  # noqa: E731
        validate_parallel(ctx, out + "/trace.ndjson", "random", chunks=6 if ctx.quick() else 12, classify=everything)
        samples = []
        for ln in vlib.read_lines(out + "/trace.ndjson")[2:6]:
            e = json.loads(ln)
            if "s" in e:
                e["s"] = "(snapshot elided)"
            samples.append(e)
        out2 = ctx.sub("scen")
        rc, o = vlib.run_driver(binary, "TestScenarios", out2, ctx.seed, timeout=600)
        if rc != 0:
            raise vlib.Infra("sched scenario driver failed:\n" + o[-3000:])
        validate_parallel(ctx, out2 + "/trace.ndjson", "scenarios", chunks=3, classify=everything)
        out2b = ctx.sub("upstream")
        rc, o = vlib.run_driver(binary, "TestUpstream", out2b, ctx.seed, timeout=900)
        if rc != 0:
            raise vlib.Infra("sched upstream-scenario driver failed:\n" + o[-3000:])
        validate_parallel(ctx, out2b + "/trace.ndjson", "upstream", chunks=6, classify=everything)
        out3 = ctx.sub("fair")
        rc, o = vlib.run_driver(binary, "TestFairness", out3, ctx.seed, env={"VERIF_N": 30 if ctx.quick() else 200}, timeout=1500)
        if rc != 0:
            raise vlib.Infra("sched fairness driver failed:\n" + o[-3000:])
        validate_parallel(ctx, out3 + "/trace.ndjson", "fair", chunks=4 if ctx.quick() else 12, classify=everything)
        # spec -> code: behaviours of the design model replayed on the real queue
        sim = ctx.sub("sim")
        vlib.copy_specs(sim, DEPS + ["Sched.tla", "SchedSim.tla", "Sim_Sched.cfg"])
        nbeh = 40 if ctx.quick() else 300
        r = vlib.tlc_run(sim, "SchedSim.tla", "Sim_Sched.cfg", workers=1, timeout=1800, heap="2g",
                         simulate="num=%d" % nbeh, depth=41, seed=ctx.seed)
        behs = glob.glob(os.path.join(sim, "beh_*.ndjson"))
        if not behs:
            raise vlib.Infra("TLC -simulate of SchedSim produced no behaviours:\n" + r.output[-2000:])
        out4 = ctx.sub("replay")
        rc, o = vlib.run_driver(binary, "TestReplayDesign", out4, ctx.seed, env={"VERIF_BEH": sim}, timeout=1500)
        if rc != 0:
            raise vlib.Infra("sched design replay driver failed:\n" + o[-3000:])
        validate_parallel(ctx, out4 + "/trace.ndjson", "designreplay", chunks=4 if ctx.quick() else 12, classify=everything)
        ctx.cov["behaviours_replayed"] = len(behs)
        ctx.cov["samples"] = samples
        return {"violations": ctx.violations, "cov": ctx.cov}
    finally:
        ctx.cleanup()


def run_parts(ctx):
    binary = vlib.go_build_test(ctx, "sched")
    key = _key(binary, ctx.seed, ctx.tier)
    os.makedirs(CACHE, exist_ok=True)
    cpath = os.path.join(CACHE, "sched_%s.json" % key)
    with open(cpath + ".lock", "w") as lk:
        fcntl.flock(lk, fcntl.LOCK_EX)
        res = None
        if os.path.exists(cpath):
            try:
                res = json.load(open(cpath))
                if not all(os.path.exists(v["replay"]) for v in res["violations"]):
                    res = None
            except Exception:
                res = None
        if res is None:
            res = _run_all(ctx, binary)
            json.dump(res, open(cpath, "w"))
        else:
            vlib.log("sched: re-using the validation of identical binary/specs/seed/tier (%s)" % key)
    classify = vlib.classify_for(ctx.prop)
    for k, v in res["cov"].items():
        if isinstance(v, int) and isinstance(ctx.cov.get(k), int):
            ctx.cov[k] += v
        elif isinstance(v, list) and isinstance(ctx.cov.get(k), list):
            ctx.cov[k] += v
        else:
            ctx.cov[k] = v
    for v in res["violations"]:
        kind = classify(v["reason"], "VerdictOK", v.get("line", {}), [])
        if kind == "violation":
            ctx.violations.append(v)
        elif kind.startswith("known:"):
            ctx.known_hits.append(kind[6:])
        elif kind == "other":
            ctx.cov["other_property_verdicts"] = ctx.cov.get("other_property_verdicts", 0) + 1
            vlib.log("  NOTE other-property verdict %s (not decided by the %s check)" % (v["reason"], ctx.prop))


def run(ctx):
    run_parts(ctx)
    return vlib.finish(
        ctx,
        rule="seeded random schedules of critical sections of the real InMemoryBuildQueue (gated enter/leave, fake clock, fake streams), every section's snapshot and every message/reply validated by TLC against SchedPreds/SchedTrace",
        explanation="scheduler family",
    )


def replay(ctx, path):
    vlib.validate_traces(ctx, path, TRACE, CFG, DEPS, "replay", classify=vlib.classify_for(ctx.prop))
    return vlib.finish(ctx, rule="replay of a saved trace", explanation="replay")
