"""C20 — byte-range locks: the lock table itself (reference model
ByteRangeLocks.tla) and its use through the NFSv4.0/4.1 servers (checks/nfs.py)."""
from lib import vlib
from checks import nfs

DEPS = ["ByteRangeLocks.tla"]
TRACE = "ByteRangeLocksTrace.tla"


def classify(reason, invariant, failing, trace_lines):
    k = vlib.known_match("C20", reason, failing)
    if k:
        return "known:" + k
    return "violation"


def run(ctx):
    # 1. design check: the reference model itself satisfies POSIX record-lock rules
    vlib.design_check(ctx, "ByteRangeLocks.tla", "MC_ByteRangeLocks.cfg", [], timeout=600)
    # 2. conformance of the real lock table
    binary = vlib.go_build_test(ctx, "brl")
    n = 300 if ctx.quick() else 3000
    out = ctx.sub("rand")
    rc, o = vlib.run_driver(binary, "TestRandom", out, ctx.seed, env={"VERIF_N": n, "VERIF_STEPS": 40})
    if rc != 0:
        raise vlib.Infra("brl random driver failed:\n" + o[-2000:])
    vlib.validate_traces(ctx, out + "/trace.ndjson", TRACE, "Trace_ByteRangeLocks.cfg", DEPS, "random", classify=classify)
    ctx.cov["samples"] += vlib.sample_lines(out + "/trace.ndjson", 5)
    # 3. every operation from every reachable state of a small domain
    out2 = ctx.sub("enum")
    dom = {"VERIF_BRL_N": 3, "VERIF_BRL_OWNERS": 2} if ctx.quick() else {"VERIF_BRL_N": 3, "VERIF_BRL_OWNERS": 3}
    rc, o = vlib.run_driver(binary, "TestEnumerate", out2, ctx.seed, env=dom)
    if rc != 0:
        raise vlib.Infra("brl enumeration driver failed:\n" + o[-2000:])
    vlib.validate_traces(ctx, out2 + "/trace.ndjson", TRACE, "Trace_ByteRangeLocks.cfg", DEPS, "enum", classify=classify, timeout=1800)
    import json
    meta = json.load(open(out2 + "/meta.json"))
    # 3b. owners of different clients asking at the same moment (real parallelism)
    rbin = vlib.go_build_test(ctx, "lockrace")
    out3 = ctx.sub("race")
    rc, o = vlib.run_driver(rbin, "TestRace", out3, ctx.seed, env={"VERIF_N": 400 if ctx.quick() else 4000})
    if rc != 0:
        raise vlib.Infra("lock race driver failed:\n" + o[-2000:])
    vlib.validate_traces(ctx, out3 + "/trace.ndjson", "LockRaceTrace.tla", "Trace_LockRace.cfg", [], "race", classify=classify, max_failures=3)
    # 4. NFS level: LOCK/LOCKT/LOCKU/CLOSE/lease expiry of the NFSv4.0 and 4.1 servers
    nfs_rule = nfs.run_parts(ctx)
    return vlib.finish(
        ctx,
        rule="TLC explores the per-byte reference table exhaustively (3 owners, 4 bytes); the real ByteRangeLockSet is driven by seeded random histories (Test-then-Set convention, ranges up to the maximum offset) and by a breadth-first enumeration of every operation from every reachable list state of a small domain; TLC validates every recorded reply and list against the reference (list must denote the table, Test denies iff conflict, reported lock really conflicts, delta = change in entry count). Distinct = distinct spec states + validated events. NFS level: " + nfs_rule,
        explanation="reference-model conformance of byte_range_lock_set.go",
        exhaustive=False,
        extra={"enumeration": meta, "exhaustive_part": "table level: every operation from every reachable list state of the small domain"},
    )


def replay(ctx, path):
    import os
    if "nfs4" in os.path.basename(path):
        return nfs.replay(ctx, path)
    vlib.validate_traces(ctx, path, TRACE, "Trace_ByteRangeLocks.cfg", DEPS, "replay", classify=classify)
    return vlib.finish(ctx, rule="replay of a saved trace", explanation="replay")
