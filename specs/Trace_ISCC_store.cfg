SPECIFICATION TraceSpec
CONSTANTS
  Digests = {"d0", "d1", "d2"}
  Threads = {"t1", "t2", "t3"}
  NoDigest = "none"
  MaxGets = 0
  MaxUpd = 0
  WritesPerRead = 3
  VersionRules = {"wr+1", "cur+1"}
  WriteGuards = {0, 1, 2}
  ReuseSlots = FALSE
  EagerFinish = TRUE
  RecordHist = FALSE
  MaxN = 1
  MaxT = 0
  Slack = 5
INVARIANTS
  VerdictOK
  NonconfReport
POSTCONDITION Accepted
CHECK_DEADLOCK FALSE
