SPECIFICATION FairSpec
CONSTANTS
  Files = {f1}
  Clients = {c1, c2}
  Uploaders = {u1}
  MaxLinks = 1
  Contents = {"a"}
  EmptyC = "a"
  PinPathOps = TRUE
  UpKinds = {"upload", "fread"}
  MutOps = {"write"}
INVARIANTS
  C16_Refs
  C16_CloseOnce
  C16_NoLostWakeup
PROPERTIES
  C16_BoundedWait
CHECK_DEADLOCK FALSE
