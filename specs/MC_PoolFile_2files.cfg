SPECIFICATION Spec
CONSTANTS
  Files = {f1, f2}
  Clients = {c1, c2}
  Uploaders = {u1}
  MaxLinks = 1
  Contents = {"a", "b"}
  EmptyC = "a"
  PinPathOps = TRUE
  UpKinds = {"upload"}
  MutOps = {"write"}
INVARIANTS
  TypeOK
  C16_Refs
  C16_CloseOnce
  C16_DigestInv
  C16_NoLostWakeup
PROPERTIES
  C16_CloseForGood
  C16_Stale
  C16_StaleUntouched
  C16_Digest
VIEW
  View
CHECK_DEADLOCK FALSE
