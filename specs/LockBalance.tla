---------------------------- MODULE LockBalance ----------------------------
(***************************************************************************)
(* Property C14, lock balance half: every call of a lock-taking component, *)
(* whatever its outcome, has released every internal lock when it returns. *)
(*                                                                         *)
(* The model is deliberately small: a call enters, acquires and releases   *)
(* locks in any order, picks an outcome class and returns.  What makes the *)
(* property non-trivial is the number of return paths of the real code;    *)
(* they are listed in Expected, one entry per component, call and outcome  *)
(* class, and the trace specification LockBalanceTrace reports which of    *)
(* them the drivers reached on the real code.                              *)
(*                                                                         *)
(* Some calls wait by design for another call (a change of the data of a   *)
(* file waits until the frozen readers are closed; opening a file frozen   *)
(* waits until its writers have closed it).  Such a call gives up every    *)
(* lock before it waits ("parked"), otherwise the call it waits for could  *)
(* never run: the set of both calls would not terminate.  A parked call    *)
(* is in flight but holds nothing; it resumes, may take locks again, and   *)
(* returns like any other call.                                            *)
(*                                                                         *)
(* Some calls call back into their environment while they run: a removal   *)
(* is announced to the FUSE kernel (StatefulDirectoryHandle.NotifyRemoval  *)
(* -> the notifiers registered with the handle allocator).  The kernel     *)
(* needs the inode lock of the directory the notification is about, which  *)
(* a LOOKUP in that directory holds until the server has answered it, and  *)
(* the server answers under the mutex of the directory.  So the            *)
(* environment's step needs that mutex to be free: a call that notifies    *)
(* while it holds it waits for the kernel, the kernel for the LOOKUP, the  *)
(* LOOKUP for the call.                                                    *)
(***************************************************************************)
EXTENDS Sequences, FiniteSets, Naturals

CONSTANTS LockIds,     \* abstract locks a call may take
          MaxParked,   \* bound of the model checker on calls parked at once
          NoLock       \* "no callback in progress"

VARIABLES phase,       \* "idle" | "running": the call that is executing
          held,        \* locks held by the call in progress
          parked,      \* number of calls in flight that wait for another call
          cb           \* the lock the environment needs to finish the callback
                       \* the running call is making, or NoLock

bvars == <<phase, held, parked, cb>>

BInit == phase = "idle" /\ held = {} /\ parked = 0 /\ cb = NoLock

Enter   == phase = "idle" /\ phase' = "running" /\ UNCHANGED <<held, parked, cb>>
Acquire == phase = "running" /\ cb = NoLock /\ \E k \in LockIds \ held : held' = held \cup {k} /\ UNCHANGED <<phase, parked, cb>>
Release == phase = "running" /\ cb = NoLock /\ \E k \in held : held' = held \ {k} /\ UNCHANGED <<phase, parked, cb>>
\* The call hands control to its environment, which needs lock k (the
\* mutex of the directory a removal notification is about).  A correct
\* component does that only after releasing k.
Callback == phase = "running" /\ cb = NoLock /\ \E k \in LockIds \ held : cb' = k /\ UNCHANGED <<phase, held, parked>>
\* The environment's step: possible only while that lock is free.
EnvStep  == cb # NoLock /\ cb \notin held /\ cb' = NoLock /\ UNCHANGED <<phase, held, parked>>
\* A correct component returns only after releasing everything ("defer
\* UnlockAll()", or an Unlock() on every path).
Return  == phase = "running" /\ cb = NoLock /\ held = {} /\ phase' = "idle" /\ UNCHANGED <<held, parked, cb>>
\* ... and starts to wait for another call only empty handed.
Park    == phase = "running" /\ cb = NoLock /\ held = {} /\ parked < MaxParked /\ phase' = "idle" /\ parked' = parked + 1 /\ UNCHANGED <<held, cb>>
Resume  == phase = "idle" /\ parked > 0 /\ phase' = "running" /\ parked' = parked - 1 /\ UNCHANGED <<held, cb>>

BNext == Enter \/ Acquire \/ Release \/ Return \/ Park \/ Resume \/ Callback \/ EnvStep
BSpec == BInit /\ [][BNext]_bvars

\* The property: at every call boundary nothing is held, also when the
\* boundary is "the call waits for another call".
C14_Balance == phase = "idle" => held = {}

\* ... and whenever the environment has to act for the call, the lock it
\* needs is free: the callback can always finish (no call waits for its
\* own environment).
C14_CallbackCanFinish == cb # NoLock => cb \notin held

\* The judgement of one observed call return.
BalanceVerdict(call, outcome, locksFree) ==
  IF locksFree THEN "ok" ELSE "C14:lock-leaked-after:" \o call \o ":" \o outcome

-----------------------------------------------------------------------------
(* Return paths by outcome class: "<component>/<call>/<outcome>".          *)
(*   dir    pkg/filesystem/virtual/in_memory_prepopulated_directory.go     *)
(*   file   pkg/filesystem/virtual/pool_backed_file_allocator.go           *)
(*   ofp    pkg/filesystem/virtual/nfsv4/opened_files_pool.go              *)
(*   idle   pkg/cleaner/idle_invoker.go                                    *)
(*   sector pkg/filesystem/pool/bitmap_sector_allocator.go                 *)

Expected == {
  "dir/CreateAndEnterPrepopulatedDirectory/ENOENT",
  "dir/CreateAndEnterPrepopulatedDirectory/fetch-error",
  "dir/CreateAndEnterPrepopulatedDirectory/ok",
  "dir/CreateChildren/EEXIST",
  "dir/CreateChildren/ENOENT",
  "dir/CreateChildren/fetch-error",
  "dir/CreateChildren/ok",
  "dir/FilterChildren/ok",
  "dir/InstallHooks/ok",
  "dir/LookupAllChildren/fetch-error",
  "dir/LookupAllChildren/ok",
  "dir/LookupChild/ENOENT",
  "dir/LookupChild/fetch-error",
  "dir/LookupChild/ok",
  "dir/ReadDir/fetch-error",
  "dir/ReadDir/ok",
  "dir/Remove/ENOENT",
  "dir/Remove/ENOTEMPTY",
  "dir/Remove/fetch-error",
  "dir/Remove/ok",
  "dir/RemoveAll/ENOENT",
  "dir/RemoveAll/fetch-error",
  "dir/RemoveAll/ok",
  "dir/RemoveAllChildren/ok",
  "dir/VirtualApply/not-intercepted",
  "dir/VirtualGetAttributes/ok",
  "dir/VirtualLink/ErrExist",
  "dir/VirtualLink/ErrIO",
  "dir/VirtualLink/ErrNoEnt",
  "dir/VirtualLink/ErrStale",
  "dir/VirtualLink/ErrXDev",
  "dir/VirtualLink/OK",
  "dir/VirtualLookup/ErrIO",
  "dir/VirtualLookup/ErrNoEnt",
  "dir/VirtualLookup/OK",
  "dir/VirtualMkdir/ErrExist",
  "dir/VirtualMkdir/ErrIO",
  "dir/VirtualMkdir/ErrNoEnt",
  "dir/VirtualMkdir/OK",
  "dir/VirtualMknod/ErrExist",
  "dir/VirtualMknod/ErrIO",
  "dir/VirtualMknod/ErrNoEnt",
  "dir/VirtualMknod/ErrPerm",
  "dir/VirtualMknod/OK",
  "dir/VirtualOpenChild/ErrExist",
  "dir/VirtualOpenChild/ErrIO",
  "dir/VirtualOpenChild/ErrIsDir",
  "dir/VirtualOpenChild/ErrNoEnt",
  "dir/VirtualOpenChild/ErrSymlink",
  "dir/VirtualOpenChild/OK",
  "dir/VirtualOpenNamedAttributes/ErrNoEnt",
  "dir/VirtualOpenNamedAttributes/ErrWrongType",
  "dir/VirtualOpenNamedAttributes/OK",
  "dir/VirtualReadDir/ErrIO",
  "dir/VirtualReadDir/OK",
  "dir/VirtualRemove/ErrIO",
  "dir/VirtualRemove/ErrNoEnt",
  "dir/VirtualRemove/ErrNotDir",
  "dir/VirtualRemove/ErrNotEmpty",
  "dir/VirtualRemove/ErrPerm",
  "dir/VirtualRemove/OK",
  "dir/VirtualRename/ErrIO",
  "dir/VirtualRename/ErrIsDir",
  "dir/VirtualRename/ErrNoEnt",
  "dir/VirtualRename/ErrNotDir",
  "dir/VirtualRename/ErrNotEmpty",
  "dir/VirtualRename/ErrXDev",
  "dir/VirtualRename/OK",
  "dir/VirtualSetAttributes/ErrInval",
  "dir/VirtualSetAttributes/ErrPerm",
  "dir/VirtualSetAttributes/OK",
  "dir/concurrent-calls/quiescent",
  "dir/fixture/ok",
  "env/removal-notification/delivered",
  "file/FrozenFile.Close/ok",
  "file/FrozenFile.GetNextRegionOffset/error",
  "file/FrozenFile.GetNextRegionOffset/ok",
  "file/FrozenFile.Len/ok",
  "file/FrozenFile.ReadAt/error",
  "file/FrozenFile.ReadAt/ok",
  "file/Link/ErrStale",
  "file/Link/OK",
  "file/Unlink/ok",
  "file/VirtualAllocate/ErrIO",
  "file/VirtualAllocate/ErrStale",
  "file/VirtualAllocate/OK",
  "file/VirtualApply:AppendOutputPathPersistencyDirectoryNode/ok",
  "file/VirtualApply:GetBazelOutputServiceStat/Internal",
  "file/VirtualApply:GetBazelOutputServiceStat/Internal-marshal-locator",
  "file/VirtualApply:GetBazelOutputServiceStat/NotFound",
  "file/VirtualApply:GetBazelOutputServiceStat/ok",
  "file/VirtualApply:OpenReadFrozen/NotFound",
  "file/VirtualApply:OpenReadFrozen/ok",
  "file/VirtualApply:UploadFile/Internal",
  "file/VirtualApply:UploadFile/NotFound",
  "file/VirtualApply:UploadFile/Unavailable",
  "file/VirtualApply:UploadFile/Unknown",
  "file/VirtualApply:UploadFile/ok",
  "file/VirtualClose/ok",
  "file/VirtualGetAttributes/ok",
  "file/VirtualOpenNamedAttributes/ErrNoEnt",
  "file/VirtualOpenNamedAttributes/OK",
  "file/VirtualOpenSelf/ErrIO",
  "file/VirtualOpenSelf/ErrStale",
  "file/VirtualOpenSelf/OK",
  "file/VirtualRead/ErrIO",
  "file/VirtualRead/OK",
  "file/VirtualSeek/ErrIO",
  "file/VirtualSeek/ErrNXIO",
  "file/VirtualSeek/OK",
  "file/VirtualSetAttributes/ErrIO",
  "file/VirtualSetAttributes/ErrPerm",
  "file/VirtualSetAttributes/ErrStale",
  "file/VirtualSetAttributes/OK",
  "file/VirtualWrite/ErrIO",
  "file/VirtualWrite/OK",
  "handle/Allocation.AsLeaf/ok",
  "handle/Allocation.AsLinkableLeaf/ok",
  "handle/Allocation.AsResolvableAllocator/ok",
  "handle/Allocation.AsStatefulDirectory/ok",
  "handle/Allocation.AsStatelessAllocator/ok",
  "handle/Allocation.AsStatelessDirectory/ok",
  "handle/DirectoryHandle.GetAttributes/ok",
  "handle/DirectoryHandle.NotifyRemoval/ok",
  "handle/DirectoryHandle.Release/ok",
  "handle/LinkableLeaf.Link/ErrStale",
  "handle/LinkableLeaf.Link/OK",
  "handle/LinkableLeaf.Unlink/last",
  "handle/LinkableLeaf.Unlink/not-last",
  "handle/Node.VirtualGetAttributes/ok",
  "handle/Node.VirtualOpenSelf/ok",
  "handle/Node.VirtualSetAttributes/ok",
  "handle/ResolveHandle/ErrBadHandle",
  "handle/ResolveHandle/ErrStale",
  "handle/ResolveHandle/OK",
  "idle/Acquire/Canceled",
  "idle/Acquire/Internal",
  "idle/Acquire/ok",
  "idle/Release/Internal",
  "idle/Release/ok",
  "ofp/Open/existing",
  "ofp/Open/new",
  "ofp/OpenedFile.Close/last",
  "ofp/OpenedFile.Close/not-last",
  "ofp/OpenedFile.Lock/NFS4ERR_DENIED",
  "ofp/OpenedFile.Lock/NFS4_OK",
  "ofp/OpenedFile.Lock/status10042",
  "ofp/OpenedFile.Lock/status22",
  "ofp/OpenedFile.Unlock/status0",
  "ofp/OpenedFile.Unlock/status10042",
  "ofp/OpenedFile.Unlock/status22",
  "ofp/OpenedFile.UnlockAll/ok",
  "ofp/Resolve/status0",
  "ofp/Resolve/status70",
  "ofp/TestLock/NFS4ERR_DENIED",
  "ofp/TestLock/NFS4_OK",
  "ofp/TestLock/status10042",
  "ofp/TestLock/status22",
  "sector/AllocateContiguous/ResourceExhausted",
  "sector/AllocateContiguous/ok",
  "sector/FreeContiguous/ok",
  "sector/FreeList/ok",
  "usymlink/InstallTemporaryDirectory/InvalidArgument",
  "usymlink/InstallTemporaryDirectory/ok",
  "usymlink/VirtualGetAttributes/ok",
  "usymlink/VirtualSetAttributes/ErrInval",
  "usymlink/VirtualSetAttributes/ErrPerm",
  "usymlink/VirtualSetAttributes/OK"
}
=============================================================================
