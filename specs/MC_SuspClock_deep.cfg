SPECIFICATION Spec
CONSTANTS
  Objs = {c1}
  Suspenders = {s1, s2}
  MaxNest = 2
  Timeouts = {0, 1, 3, 4}
  MaxSusp = 3
  Threshold = 2
  Horizon = 10
INVARIANTS
  TypeOK
  C11_SuspCount
  C11_AccountingExact
  C11_NoEarlyTimeout
  C11_TimeoutFires
  C11_WallBound
  C11_ExpiredWindow
  C11_ReportedDuration
PROPERTIES
  C11_ExpiryStep
  C11_RearmIsRemainingBudget
CHECK_DEADLOCK FALSE
