// Package nfs40 drives the real NFSv4.0 server (nfs40_program.go) over a
// real in-memory directory, the real NFS handle allocator and the real
// OpenedFilesPool, and records traces that specs/NFS40Trace.tla
// validates (properties C18, C19 and the NFS level part of C20).
//
// This file holds the fixtures: deterministic random number generator,
// fake clock, in-memory file pool and the instrumented leaves.
package nfs40

import (
	"context"
	"io"
	"math/rand"
	"sync"
	"time"

	"github.com/buildbarn/bb-remote-execution/pkg/filesystem/pool"
	"github.com/buildbarn/bb-remote-execution/pkg/filesystem/virtual"
	"github.com/buildbarn/bb-storage/pkg/clock"
	"github.com/buildbarn/bb-storage/pkg/filesystem"
)

// ---------------------------------------------------------------------------
// Deterministic random number generator (random.SingleThreadedGenerator).

type detRand struct{ r *rand.Rand }

func newDetRand(seed int64) *detRand { return &detRand{r: rand.New(rand.NewSource(seed))} }

func (d *detRand) Float64() float64                   { return d.r.Float64() }
func (d *detRand) Int64N(n int64) int64               { return d.r.Int63n(n) }
func (d *detRand) IntN(n int) int                     { return d.r.Intn(n) }
func (d *detRand) Read(p []byte) (int, error)         { return d.r.Read(p) }
func (d *detRand) Shuffle(n int, swap func(i, j int)) { d.r.Shuffle(n, swap) }
func (d *detRand) Uint32() uint32                     { return d.r.Uint32() }
func (d *detRand) Uint64() uint64                     { return d.r.Uint64() }

// ---------------------------------------------------------------------------
// Fake clock: time only moves when the driver says so.

type fakeClock struct {
	mu    sync.Mutex
	ticks int64
}

var clockBase = time.Unix(1_700_000_000, 0)

func (c *fakeClock) Now() time.Time {
	c.mu.Lock()
	defer c.mu.Unlock()
	return clockBase.Add(time.Duration(c.ticks) * time.Second)
}

func (c *fakeClock) advance(d int) {
	c.mu.Lock()
	c.ticks += int64(d)
	c.mu.Unlock()
}

func (c *fakeClock) NewContextWithTimeout(parent context.Context, timeout time.Duration) (context.Context, context.CancelFunc) {
	return context.WithCancel(parent)
}

func (c *fakeClock) NewTimer(d time.Duration) (clock.Timer, <-chan time.Time) {
	panic("fakeClock.NewTimer is not used by the NFSv4.0 server")
}

func (c *fakeClock) NewTicker(d time.Duration) (clock.Ticker, <-chan time.Time) {
	panic("fakeClock.NewTicker is not used by the NFSv4.0 server")
}

// ---------------------------------------------------------------------------
// In-memory file pool backing the real pool-backed file allocator.

type memFilePool struct{}

func (memFilePool) NewFile(holeSource pool.HoleSource, size uint64) (filesystem.FileReadWriter, error) {
	return &memFile{data: make([]byte, size)}, nil
}

type memFile struct {
	mu   sync.Mutex
	data []byte
}

func (f *memFile) ReadAt(p []byte, off int64) (int, error) {
	f.mu.Lock()
	defer f.mu.Unlock()
	if off >= int64(len(f.data)) {
		return 0, io.EOF
	}
	n := copy(p, f.data[off:])
	if n < len(p) {
		return n, io.EOF
	}
	return n, nil
}

func (f *memFile) WriteAt(p []byte, off int64) (int, error) {
	f.mu.Lock()
	defer f.mu.Unlock()
	if end := off + int64(len(p)); end > int64(len(f.data)) {
		f.data = append(f.data, make([]byte, end-int64(len(f.data)))...)
	}
	copy(f.data[off:], p)
	return len(p), nil
}

func (f *memFile) Truncate(size int64) error {
	f.mu.Lock()
	defer f.mu.Unlock()
	if size <= int64(len(f.data)) {
		f.data = f.data[:size]
	} else {
		f.data = append(f.data, make([]byte, size-int64(len(f.data)))...)
	}
	return nil
}

func (f *memFile) Sync() error  { return nil }
func (f *memFile) Close() error { return nil }
func (f *memFile) Len() (int64, error) {
	f.mu.Lock()
	defer f.mu.Unlock()
	return int64(len(f.data)), nil
}

func (f *memFile) GetNextRegionOffset(offset int64, regionType filesystem.RegionType) (int64, error) {
	f.mu.Lock()
	defer f.mu.Unlock()
	if offset >= int64(len(f.data)) {
		return 0, io.EOF
	}
	if regionType == filesystem.Data {
		return offset, nil
	}
	return int64(len(f.data)), nil
}

// ---------------------------------------------------------------------------
// Instrumented leaves: every open/close per share access bit is counted
// per file, and I/O can be held at a gate.

type gateKey struct{}

// gate holds one operation inside a leaf method.
type gate struct {
	arrived chan struct{}
	release chan struct{}
	where   string // "io" (Read/Write/SetAttributes) or "open" (OpenSelf)
}

func gateOf(ctx context.Context) *gate {
	g, _ := ctx.Value(gateKey{}).(*gate)
	return g
}

func (g *gate) pass(where string) {
	if g == nil || g.where != where {
		return
	}
	g.arrived <- struct{}{}
	<-g.release
}

type leafCounters struct {
	OpenR, CloseR, OpenW, CloseW int
}

type instrAllocator struct {
	base virtual.FileAllocator

	mu     sync.Mutex
	leaves []*instrLeaf
}

func (a *instrAllocator) NewFile(holeSource pool.HoleSource, isExecutable bool, size uint64, shareAccess virtual.ShareMask) (virtual.LinkableLeaf, error) {
	base, err := a.base.NewFile(holeSource, isExecutable, size, shareAccess)
	if err != nil {
		return nil, err
	}
	a.mu.Lock()
	defer a.mu.Unlock()
	l := &instrLeaf{LinkableLeaf: base, alloc: a, id: len(a.leaves) + 1, links: 1}
	l.count(shareAccess, true)
	a.leaves = append(a.leaves, l)
	return l, nil
}

func (a *instrAllocator) created() int {
	a.mu.Lock()
	defer a.mu.Unlock()
	return len(a.leaves)
}

// snapshot returns [openR, closeR, openW, closeW] per leaf.
func (a *instrAllocator) snapshot() [][]int {
	a.mu.Lock()
	defer a.mu.Unlock()
	out := make([][]int, 0, len(a.leaves))
	for _, l := range a.leaves {
		out = append(out, []int{l.c.OpenR, l.c.CloseR, l.c.OpenW, l.c.CloseW})
	}
	return out
}

type instrLeaf struct {
	virtual.LinkableLeaf
	alloc *instrAllocator
	id    int
	c     leafCounters // protected by alloc.mu
	links int          // protected by alloc.mu
}

func (l *instrLeaf) Link() virtual.Status {
	s := l.LinkableLeaf.Link()
	if s == virtual.StatusOK {
		l.alloc.mu.Lock()
		l.links++
		l.alloc.mu.Unlock()
	}
	return s
}

func (l *instrLeaf) Unlink() {
	l.alloc.mu.Lock()
	l.links--
	l.alloc.mu.Unlock()
	l.LinkableLeaf.Unlink()
}

// alive says whether the real leaf still has references (links or
// opens); without any it has released its backing file.
func (l *instrLeaf) alive() bool {
	l.alloc.mu.Lock()
	defer l.alloc.mu.Unlock()
	return l.links+(l.c.OpenR-l.c.CloseR)+(l.c.OpenW-l.c.CloseW) > 0
}

// count must be called with alloc.mu held.
func (l *instrLeaf) count(shareAccess virtual.ShareMask, open bool) {
	if shareAccess&virtual.ShareMaskRead != 0 {
		if open {
			l.c.OpenR++
		} else {
			l.c.CloseR++
		}
	}
	if shareAccess&virtual.ShareMaskWrite != 0 {
		if open {
			l.c.OpenW++
		} else {
			l.c.CloseW++
		}
	}
}

func (l *instrLeaf) VirtualOpenSelf(ctx context.Context, shareAccess virtual.ShareMask, options *virtual.OpenExistingOptions, requested virtual.AttributesMask, attributes *virtual.Attributes) virtual.Status {
	gateOf(ctx).pass("open")
	s := l.LinkableLeaf.VirtualOpenSelf(ctx, shareAccess, options, requested, attributes)
	if s == virtual.StatusOK {
		l.alloc.mu.Lock()
		l.count(shareAccess, true)
		l.alloc.mu.Unlock()
	}
	return s
}

func (l *instrLeaf) VirtualClose(shareAccess virtual.ShareMask) {
	// Count first: if the real leaf panics because it is closed more
	// often than it was opened, the excess close must be on record.
	l.alloc.mu.Lock()
	l.count(shareAccess, false)
	l.alloc.mu.Unlock()
	l.LinkableLeaf.VirtualClose(shareAccess)
}

func (l *instrLeaf) VirtualRead(ctx context.Context, buf []byte, offset uint64) (int, bool, virtual.Status) {
	gateOf(ctx).pass("io")
	return l.LinkableLeaf.VirtualRead(ctx, buf, offset)
}

func (l *instrLeaf) VirtualWrite(ctx context.Context, buf []byte, offset uint64) (int, virtual.Status) {
	gateOf(ctx).pass("io")
	return l.LinkableLeaf.VirtualWrite(ctx, buf, offset)
}

func (l *instrLeaf) VirtualSetAttributes(ctx context.Context, in *virtual.Attributes, requested virtual.AttributesMask, out *virtual.Attributes) virtual.Status {
	if !l.alive() {
		// pool_backed_file_allocator.go dereferences its released
		// backing file here (a defect outside the NFSv4 server, which
		// may legitimately resolve the handle of a half-closed file);
		// shield the driver from it the way VirtualOpenSelf reports it.
		return virtual.StatusErrStale
	}
	gateOf(ctx).pass("io")
	if !l.alive() {
		return virtual.StatusErrStale
	}
	return l.LinkableLeaf.VirtualSetAttributes(ctx, in, requested, out)
}
