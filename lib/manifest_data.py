"""Source of truth for MANIFEST.json (bin/genmanifest.py)."""

HOOK_COMMITS = [
    "9ad3cc6",  # ByteRangeLockSet.VerifEntries
]

NOT_APPLICABLE = {}

_NOTE = ("Trusted: TLC 1.8, the Go toolchain, the harness' fakes (clock, streams, storage), the projection from "
         "real objects to logged state, and the bounds stated in the evidence. Exhaustive only for the small constants "
         "of the MC_*.cfg configurations; beyond them behaviour is sampled by seeded drivers.")

CHECKS = {
    "C20": {
        "text": "ByteRangeLocks.tla is a per-byte reference table checked exhaustively by TLC for POSIX record-lock rules; the real ByteRangeLockSet is driven by seeded random histories and by an exhaustive every-op-from-every-state enumeration, and TLC validates every recorded reply/list against the reference (differing reply = violation since the property is 'behaves like POSIX record locks').",
        "design_ref": "DESIGN.md section 5, C20",
        "note": _NOTE,
        "technique": "TLA+ reference model + TLC trace validation of real-code traces (random + exhaustive small-domain enumeration)",
    },
}
