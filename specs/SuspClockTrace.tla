-------------------------- MODULE SuspClockTrace --------------------------
(***************************************************************************)
(* Validates traces recorded from the real SuspendableClock, driven over a *)
(* harness-owned base clock (harness/suspclock), against the timing        *)
(* equations of SuspClock.tla (property C11).                              *)
(*                                                                         *)
(* From the logged tick / suspend / resume events the specification        *)
(* recomputes the ghost integral of unsuspended time (uNow).  At every     *)
(* "obs" event (logged when the real code is quiescent) it evaluates, for  *)
(* every context / timer, the equations MayExpire / MustBeDone /           *)
(* WithinBounds / ReportedOK of SuspClock.tla on what the real object      *)
(* shows (Done, Err, UnsuspendedDurationKey).  Base timers the real code   *)
(* armed are tracked so that "every due timer has been delivered" is known. *)
(* Suspend/Resume calls issued by the suspending storage wrappers are      *)
(* counted per storage operation: suspended while inside the backend,      *)
(* resumed exactly when the operation has ended.                           *)
(*                                                                         *)
(* All times are in milliseconds since the start of the trace.             *)
(***************************************************************************)
EXTENDS Integers, Sequences, FiniteSets, Json, TLC, TLCExt

TraceLog == ndJsonDeserialize("trace.ndjson")

VARIABLES l,        \* next line of TraceLog
          verdict,  \* "ok" or "<PID>:<reason>" for the last consumed line
          thr, ms,  \* configuration of the clock of this trace
          now,      \* base clock
          uNow,     \* ghost: unsuspended time since the start of the trace
          susp,     \* number of open suspensions
          cnt,      \* [who -> open suspensions of that reader]
          objs,     \* [id -> record] contexts / timers of the real clock
          timers,   \* [tid -> record] armed base timers / base deadlines
          nonconf   \* lines on which the real code deviated from the model's
                    \* re-arm loop without any C11 equation failing (layer N)

tvars == <<l, verdict, thr, ms, now, uNow, susp, cnt, objs, timers, nonconf>>

\* The equations are those of the reference model; its state variables are
\* not used here (the trace carries its own ghost state).
SC == INSTANCE SuspClock WITH
        Objs <- {}, Suspenders <- {}, MaxNest <- 0, Timeouts <- {},
        MaxSusp <- 0, Threshold <- 1, Horizon <- 0,
        now <- now, holds <- <<>>, susp <- susp, unsuspStart <- 0,
        totalUnsusp <- 0, trueU <- uNow, obj <- <<>>

Line == TraceLog[l]
IsEvent(e) == l <= Len(TraceLog) /\ Line.ev = e /\ l' = l + 1

Put(f, k, v) == [x \in DOMAIN f \cup {k} |-> IF x = k THEN v ELSE f[x]]
Drop(f, k)   == [x \in DOMAIN f \ {k} |-> f[x]]
Cnt(w)       == IF w \in DOMAIN cnt THEN cnt[w] ELSE 0

NothingDue == \A t \in DOMAIN timers : timers[t].due > now

NoRec == [id |-> 0, kind |-> "", done |-> FALSE, err |-> "none", unsusp |-> 0, rem |-> 0]

TInit ==
  /\ l = 1 /\ verdict = "ok" /\ thr = 1 /\ ms = 0 /\ now = 0 /\ uNow = 0
  /\ susp = 0 /\ cnt = <<>> /\ objs = <<>> /\ timers = <<>> /\ nonconf = 0

\* Start of a new trace: a fresh clock.
TReset ==
  /\ IsEvent("reset")
  /\ verdict' = IF Line.thr > 0 /\ Line.ms >= 0 THEN "ok" ELSE "NC:bad-configuration"
  /\ thr' = Line.thr /\ ms' = Line.ms
  /\ now' = 0 /\ uNow' = 0 /\ susp' = 0
  /\ cnt' = <<>> /\ objs' = <<>> /\ timers' = <<>>
  /\ UNCHANGED nonconf

\* The base clock advances; the driver never skips a due base timer.
TTick ==
  /\ IsEvent("tick")
  /\ LET to == Line.to IN
       /\ verdict' = IF to <= now THEN "NC:driver-time-not-advancing"
                     ELSE IF ~NothingDue \/ \E t \in DOMAIN timers : timers[t].due < to
                          THEN "NC:driver-skipped-due-base-timer"
                     ELSE "ok"
       /\ now' = to
       /\ uNow' = IF susp = 0 /\ to > now THEN uNow + (to - now) ELSE uNow
  /\ UNCHANGED <<thr, ms, susp, cnt, objs, timers, nonconf>>

TSuspend ==
  /\ IsEvent("suspend")
  /\ cnt' = Put(cnt, Line.who, Cnt(Line.who) + 1)
  /\ susp' = susp + 1
  /\ verdict' = "ok"
  /\ UNCHANGED <<thr, ms, now, uNow, objs, timers, nonconf>>

\* Resume never without Suspend (the real clock panics if the total is 0;
\* resuming somebody else's suspension is as wrong).
TResume ==
  /\ IsEvent("resume")
  /\ LET c == Cnt(Line.who) IN
       /\ verdict' = IF c = 0 THEN "C11:resume-without-suspend" ELSE "ok"
       /\ cnt' = Put(cnt, Line.who, IF c = 0 THEN 0 ELSE c - 1)
       /\ susp' = IF susp = 0 THEN 0 ELSE susp - 1
  /\ UNCHANGED <<thr, ms, now, uNow, objs, timers, nonconf>>

\* NewContextWithTimeout / NewTimer on the real clock.
TNew ==
  /\ IsEvent("new")
  /\ verdict' = IF Line.id \in DOMAIN objs THEN "NC:object-id-reused" ELSE "ok"
  /\ objs' = Put(objs, Line.id,
                 [kind |-> Line.kind, t |-> Line.d, start |-> now, startU |-> uNow,
                  st |-> "running", creq |-> FALSE, rec |-> NoRec, doneU |-> 0])
  /\ UNCHANGED <<thr, ms, now, uNow, susp, cnt, timers, nonconf>>

UE(o) == uNow - o.startU
WE(o) == now - o.start

\* The real code asked the base clock for a timer / a context deadline.
\* Layer N: a context's timer loop asks for exactly the remaining
\* unsuspended budget (C11_RearmIsRemainingBudget of the model) and for a
\* base deadline of timeout + maximum.  A deviation is counted, not judged:
\* only the observable equations (TObs) decide the property.
ArmConforms ==
  IF Line.owner \in DOMAIN objs /\ objs[Line.owner].kind = "ctx" /\ objs[Line.owner].st = "running"
  THEN LET o == objs[Line.owner] IN
         IF Line.kind = "deadline" THEN Line.d = o.t + ms
         ELSE /\ Line.d = SC!Rearm(o.t, UE(o))
              /\ (now > o.start => Line.d >= thr)
  ELSE TRUE

TArm ==
  /\ IsEvent("arm")
  /\ timers' = Put(timers, Line.tid, [due |-> now + Line.d, kind |-> Line.kind, owner |-> Line.owner])
  /\ verdict' = IF Line.tid \in DOMAIN timers THEN "NC:base-timer-id-reused" ELSE "ok"
  /\ nonconf' = IF ArmConforms THEN nonconf ELSE nonconf + 1
  /\ UNCHANGED <<thr, ms, now, uNow, susp, cnt, objs>>

\* The driver delivered a base timer / base deadline (never early).
TFire ==
  /\ IsEvent("fire")
  /\ verdict' = IF Line.tid \notin DOMAIN timers THEN "NC:driver-fired-unknown-timer"
                ELSE IF timers[Line.tid].due > now THEN "NC:driver-fired-timer-early"
                ELSE "ok"
  /\ timers' = Drop(timers, Line.tid)
  /\ UNCHANGED <<thr, ms, now, uNow, susp, cnt, objs, nonconf>>

\* The real code stopped a base timer / cancelled the base context.
TStop ==
  /\ IsEvent("stop")
  /\ verdict' = "ok"
  /\ timers' = Drop(timers, Line.tid)
  /\ UNCHANGED <<thr, ms, now, uNow, susp, cnt, objs, nonconf>>

\* The command finished (CancelFunc / Timer.Stop) or its parent context was
\* cancelled.
TCancel ==
  /\ IsEvent("cancel")
  /\ verdict' = IF Line.id \in DOMAIN objs THEN "ok" ELSE "NC:cancel-of-unknown-object"
  /\ objs' = IF Line.id \in DOMAIN objs
             THEN [objs EXCEPT ![Line.id].creq = TRUE] ELSE objs
  /\ UNCHANGED <<thr, ms, now, uNow, susp, cnt, timers, nonconf>>

-----------------------------------------------------------------------------
(* Judgement of one observed object.  o = what the trace knows about it,   *)
(* r = what the real object shows now that the real code is quiescent.     *)

ObjVerdict(o, r) ==
  LET u == UE(o)  w == WE(o)  isctx == o.kind = "ctx" IN
  IF o.st = "done" THEN
     \* whatever ended, stays ended and keeps its error and duration
     IF r.done # o.rec.done \/ r.err # o.rec.err \/ r.unsusp # o.rec.unsusp \/ r.rem # o.rec.rem
     THEN "C11:finished-context-changed" ELSE "ok"
  ELSE IF ~isctx /\ o.creq THEN "ok"        \* a stopped timer is not judged
  ELSE IF r.done THEN
     IF ~o.creq /\ ~SC!MayExpire(thr, ms, o.t, u, w)
       THEN "C11:cancelled-before-unsuspended-budget-used"
     ELSE IF isctx /\ ~o.creq /\ r.err # "deadline"
       THEN "C11:timeout-not-reported-as-deadline-exceeded"
     ELSE IF isctx /\ o.creq /\ r.err = "deadline" /\ ~SC!MayExpire(thr, ms, o.t, u, w)
       THEN "C11:finished-in-budget-but-deadline-exceeded"
     ELSE IF isctx /\ o.creq /\ r.err \notin {"canceled", "deadline"}
       THEN "NC:unexpected-error-after-cancel"
     ELSE IF isctx /\ (~SC!ReportedOK(r.unsusp, u) \/ r.rem # 0)
       THEN "C11:reported-duration-is-not-unsuspended-time"
     ELSE "ok"
  ELSE
     IF o.creq THEN "C11:context-not-done-after-cancel"
     ELSE IF w > o.t + ms \/ (NothingDue /\ w >= o.t + ms)
       THEN "C11:maximum-compensation-exceeded"
     ELSE IF ~SC!WithinBounds(ms, o.t, u, w) \/ (NothingDue /\ SC!MustBeDone(ms, o.t, u, w))
       THEN "C11:timeout-did-not-fire"
     ELSE "ok"

TObs ==
  /\ IsEvent("obs")
  /\ LET rs == Line.objs
         V  == [i \in 1 .. Len(rs) |->
                  IF rs[i].id \in DOMAIN objs THEN ObjVerdict(objs[rs[i].id], rs[i])
                  ELSE "NC:observation-of-unknown-object"]
         bad == {i \in 1 .. Len(rs) : V[i] # "ok"}
     IN
       /\ verdict' = IF bad = {} THEN "ok"
                     ELSE V[CHOOSE i \in bad : \A j \in bad : i <= j]
       /\ objs' = [id \in DOMAIN objs |->
                     IF objs[id].st = "running" /\ \E i \in 1 .. Len(rs) : rs[i].id = id /\ rs[i].done
                     THEN [objs[id] EXCEPT !.st = "done", !.doneU = UE(objs[id]),
                                           !.rec = rs[CHOOSE i \in 1 .. Len(rs) : rs[i].id = id /\ rs[i].done]]
                     ELSE objs[id]]
  /\ UNCHANGED <<thr, ms, now, uNow, susp, cnt, timers, nonconf>>

-----------------------------------------------------------------------------
(* Executor level (harness/suspclock/exec_test.go): the object is the      *)
(* context the real localBuildExecutor gave to the command; its timeout t  *)
(* is Action.timeout as the harness requested it.  "xend": Execute has     *)
(* returned (logged after the observation that follows it).  The action is *)
(* reported as DEADLINE_EXCEEDED iff the clock ended the command, and the  *)
(* reported virtual execution duration is the unsuspended time the command *)
(* ran.                                                                    *)

XEndVerdict(o, e) ==
  IF o.st # "done" THEN "NC:execution-ended-but-command-context-still-runs"
  ELSE IF ~o.creq /\ e.code # "DeadlineExceeded"
    THEN "C11:timeout-not-reported-as-deadline-exceeded"
  ELSE IF o.creq /\ o.rec.err = "canceled" /\ e.code = "DeadlineExceeded"
    THEN "C11:finished-in-budget-but-deadline-exceeded"
  ELSE IF ~e.hasvdur \/ ~SC!ReportedOK(e.vdur, o.doneU) \/ e.vrem # 0
    THEN "C11:reported-duration-is-not-unsuspended-time"
  ELSE "ok"

TXEnd ==
  /\ IsEvent("xend")
  /\ verdict' = IF Line.id \in DOMAIN objs THEN XEndVerdict(objs[Line.id], Line)
                ELSE "NC:execution-ended-without-running-the-command"
  /\ UNCHANGED <<thr, ms, now, uNow, susp, cnt, objs, timers, nonconf>>

-----------------------------------------------------------------------------
(* Storage operations through SuspendingBlobAccess /                       *)
(* SuspendingDirectoryFetcher.  Each operation has its own reader identity *)
(* (who), so its Suspend/Resume calls are told apart from everybody else's. *)

TOpBegin ==
  /\ IsEvent("opbegin")
  /\ verdict' = IF Cnt(Line.who) # 0 THEN "NC:operation-identity-reused" ELSE "ok"
  /\ UNCHANGED <<thr, ms, now, uNow, susp, cnt, objs, timers, nonconf>>

\* The real code entered the storage backend (a call, or a read of the
\* stream behind the returned buffer): this is stall time, the clock must
\* be suspended on behalf of this operation.
TOpBase ==
  /\ IsEvent("opbase")
  /\ verdict' = IF Cnt(Line.who) = 0 THEN "C11:storage-access-without-suspend" ELSE "ok"
  /\ UNCHANGED <<thr, ms, now, uNow, susp, cnt, objs, timers, nonconf>>

TOpRelease ==
  /\ IsEvent("oprelease")
  /\ verdict' = "ok"
  /\ UNCHANGED <<thr, ms, now, uNow, susp, cnt, objs, timers, nonconf>>

\* The operation is over (call returned; buffer consumed, failed or
\* discarded): every Suspend has been matched by exactly one Resume.
TOpEnd ==
  /\ IsEvent("opend")
  /\ verdict' = IF Cnt(Line.who) # 0 THEN "C11:resume-missing-after-storage-operation" ELSE "ok"
  /\ UNCHANGED <<thr, ms, now, uNow, susp, cnt, objs, timers, nonconf>>

\* The real code panicked / left goroutines behind that never finish.
TPanic ==
  /\ IsEvent("panic")
  /\ verdict' = "NC:panic"
  /\ UNCHANGED <<thr, ms, now, uNow, susp, cnt, objs, timers, nonconf>>

TLeak ==
  /\ IsEvent("leak")
  /\ verdict' = "NC:goroutines-left-behind"
  /\ UNCHANGED <<thr, ms, now, uNow, susp, cnt, objs, timers, nonconf>>

TEnd ==
  /\ IsEvent("end")
  /\ verdict' = "ok"
  /\ UNCHANGED <<thr, ms, now, uNow, susp, cnt, objs, timers, nonconf>>

TNext == \/ TReset \/ TTick \/ TSuspend \/ TResume \/ TNew \/ TArm \/ TFire
         \/ TStop \/ TCancel \/ TObs \/ TOpBegin \/ TOpBase \/ TOpRelease
         \/ TOpEnd \/ TPanic \/ TLeak \/ TEnd \/ TXEnd

TraceSpec == TInit /\ [][TNext]_tvars

-----------------------------------------------------------------------------
VerdictOK == verdict = "ok"

\* The ghost bookkeeping itself is sane (open brackets are counted).
C11_SuspCount == susp >= 0 /\ \A w \in DOMAIN cnt : cnt[w] >= 0 /\ cnt[w] <= susp

\* Everything observed as still running is within both bounds of C11.
C11_RunningWithinBounds ==
  verdict = "ok" =>
    \A id \in DOMAIN objs :
      (objs[id].st = "running" /\ ~objs[id].creq) =>
        SC!WithinBounds(ms, objs[id].t, UE(objs[id]), WE(objs[id]))

NonconfReport == (l <= Len(TraceLog)) \/ PrintT(<<"NONCONF", nonconf>>)

\* All lines were consumed (infrastructure sanity).
Accepted ==
  /\ TLCGet("stats").diameter - 1 = Len(TraceLog)
  /\ PrintT(<<"TRACE_ACCEPTED", Len(TraceLog)>>)
=============================================================================
