------------------------------ MODULE NFS40MC ------------------------------
(* Constant values for the exhaustive configurations MC_NFS40_*.cfg and the *)
(* behaviour generator (values that a .cfg file cannot express).           *)
EXTENDS NFS40

DevNone == {0}
DevSeq  == {-1, 0, 1}         \* same (retransmission / false retry), next, skipped
DevSid  == {-1, 0, 1}         \* old, current, future state id seqid
NoRanges   == {}
RangesSeq  == {<<0, 1, "norm">>}
\* (NB = 2 in the lock configuration: <<0, 2, "norm">> is "all ones" on the wire,
\* <<2, 2, "eof">> is the last byte alone)
RangesLock == {<<0, 1, "norm">>, <<0, 2, "norm">>, <<1, 1, "eof">>, <<1, 1, "zero">>}
RangesLast == {<<1, 1, "eof">>, <<2, 2, "eof">>}
RangesSim  == {<<0, 2, "norm">>, <<1, 3, "norm">>, <<2, 6, "norm">>, <<3, 3, "eof">>, <<0, 6, "norm">>,
               <<4, 4, "zero">>, <<2, 3, "ovf">>, <<6, 6, "eof">>, <<5, 5, "eof">>}
FirstOne  == {1}
FirstWrap == {1, -2}          \* -2 = 2^32-2: the open-owner seqid wraps to 1 two requests later

\* Vacuity probes: each of these must be *violated* in the configuration
\* named in the comment (checked by hand, never part of a cfg that must pass).
Vac_Replay     == last.ctx # "replay"                               \* seq
Vac_FalseRetry == last.ctx # "falseretry"                           \* seq
Vac_Misordered == last.ctx # "misordered"                           \* seq
Vac_LaxCache   == ~(last.ctx = "laxretry" /\ last.rep.st = "OK")    \* seq
Vac_LaxReject  == ~(last.ctx = "laxretry" /\ last.rep.st = "BAD_SEQID")  \* seq
Vac_Wrapped    == \A k \in DOMAIN s.oo : ~(s.oo[k].lastseq = 1 /\ s.oo[k].confirmed /\ s.nsid = 1 /\ s.oofs[1].q > 2)  \* seq
Vac_OpenInFlight == \A i \in DOMAIN s.io : s.io[i].kind # "open"   \* seq, open
Vac_ReplayAfterFlight == ~(last.ctx = "replay" /\ last.req.op = "OPEN" /\ last.req.gate)  \* seq
Vac_LastByte   == \A f \in DOMAIN s.held : \A o \in DOMAIN s.held[f][NB] : o \in DOMAIN s.held[f][NB - 1]  \* lastbyte
Vac_LastByteRefused == last.rep.st # "BAD_RANGE"  \* lastbyte
Vac_OldSid     == last.rep.st # "OLD_STATEID"                       \* seq
Vac_ClosedPhase == \A t \in DOMAIN s.oofs : s.oofs[t].st # "closed"  \* seq, open
Vac_Zombie     == \A t \in DOMAIN s.oofs : s.oofs[t].st # "gone"    \* open
Vac_Denied     == last.rep.st # "DENIED"                            \* lock
Vac_LocksHeld  == last.rep.st # "LOCKS_HELD"                        \* lock
Vac_TwoEntries == \A k \in DOMAIN s.lo : \A f \in DOMAIN s.held : Entries(s.held[f], k) < 2  \* lock
Vac_Delay      == last.rep.st # "DELAY"                             \* client
Vac_Expired    == ~(last.kind = "op" /\ s.nconf > 0 /\ DOMAIN s.conf = {})  \* client, open
Vac_LockClone  == \A t \in DOMAIN s.oofs : ~("W" \notin s.oofs[t].share /\ s.oofs[t].w > 0)  \* lock (with downgrade)
=============================================================================
