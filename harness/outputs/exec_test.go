// Executor mode: the same cases through the real localBuildExecutor
// (pkg/builder/local_build_executor.go) with a fake runner. The runner is
// the "command": what exists when it is invoked is what existed before
// the command ran, and what it leaves behind is the produced tree. This
// covers the order of the calls (parent directories before Run, upload
// after) and that a rejected command leaves the input root untouched.
//
// Events: reset, prerun {ran, err, tree}, upload (as in outputs_test.go).
package outputs

import (
	"context"
	"fmt"
	"os"
	"path/filepath"
	"sort"
	"time"

	remoteexecution "github.com/bazelbuild/remote-apis/build/bazel/remote/execution/v2"
	"github.com/buildbarn/bb-remote-execution/pkg/builder"
	"github.com/buildbarn/bb-remote-execution/pkg/cas"
	"github.com/buildbarn/bb-remote-execution/pkg/filesystem/pool"
	"github.com/buildbarn/bb-remote-execution/pkg/filesystem/virtual"
	"github.com/buildbarn/bb-remote-execution/pkg/proto/remoteworker"
	runner_pb "github.com/buildbarn/bb-remote-execution/pkg/proto/runner"
	"github.com/buildbarn/bb-storage/pkg/blobstore"
	"github.com/buildbarn/bb-storage/pkg/clock"
	"github.com/buildbarn/bb-storage/pkg/filesystem"
	"github.com/buildbarn/bb-storage/pkg/filesystem/path"
	"github.com/buildbarn/bb-storage/pkg/random"

	"golang.org/x/sync/semaphore"
	"google.golang.org/grpc"
	"google.golang.org/grpc/codes"
	"google.golang.org/grpc/status"
	"google.golang.org/protobuf/proto"
	"google.golang.org/protobuf/types/known/durationpb"
	"google.golang.org/protobuf/types/known/emptypb"

	"verif/harness/common"
)

// fakeRunner stands for bb_runner: it creates stdout and stderr and then
// lets the harness play the command.
type fakeRunner struct {
	e     *env
	onRun func() error
	ran   bool
	err   error

	// pipeline driver: what the command prints / logs, how it exits
	exit      int
	stdout    []byte
	stderr    []byte
	serverLog []byte
}

func (r *fakeRunner) CheckReadiness(ctx context.Context, in *runner_pb.CheckReadinessRequest, opts ...grpc.CallOption) (*emptypb.Empty, error) {
	return &emptypb.Empty{}, nil
}

func (r *fakeRunner) Run(ctx context.Context, in *runner_pb.RunRequest, opts ...grpc.CallOption) (*runner_pb.RunResponse, error) {
	r.ran = true
	if err := r.e.createLogFiles(in.StdoutPath, in.StderrPath); err != nil {
		r.err = err
		return nil, err
	}
	if r.onRun != nil {
		if err := r.onRun(); err != nil {
			r.err = err
			return nil, err
		}
	}
	for _, o := range []struct {
		path string
		data []byte
	}{{in.StdoutPath, r.stdout}, {in.StderrPath, r.stderr}, {in.ServerLogsDirectory + "/log", r.serverLog}} {
		if len(o.data) > 0 {
			if err := r.e.writeBuildFile(o.path, o.data); err != nil {
				r.err = err
				return nil, err
			}
		}
	}
	return &runner_pb.RunResponse{ExitCode: int64(r.exit)}, nil
}

// execEnv is an environment whose build directory has not been prepared:
// the executor itself creates and merges the input root.
type execEnv struct {
	*env
	executor builder.BuildExecutor
	runner   *fakeRunner
	filePool pool.FilePool
}

func newExecEnv(native bool) (*execEnv, error) {
	return newExecEnvWith(native, newFakeCAS(), nil, false)
}

// newExecEnvWith: `store` holds the blobs (inputs are fetched from it);
// `upload` is what the executor and its build directory write outputs to
// and read the Command from (nil: the store itself; the pipeline driver
// passes the worker's batching writer, as cmd/bb_worker does).
func newExecEnvWith(native bool, store *fakeCAS, upload blobstore.BlobAccess, force bool) (*execEnv, error) {
	e := &env{cas: store, logger: &collectingErrorLogger{}}
	e.df, e.ctx = digestFunction(), backgroundContext()
	if upload == nil {
		upload = store
	}
	x := &execEnv{env: e, runner: &fakeRunner{e: e}}
	directoryFetcher := cas.NewBlobAccessDirectoryFetcher(e.cas, 1<<20, 1<<20)
	var buildDirectory builder.BuildDirectory
	if native {
		base, err := os.MkdirTemp(common.OutDir(), "native-")
		if err != nil {
			return nil, err
		}
		e.nativeBase = base
		e.nativeRoot = filepath.Join(base, "root")
		directory, err := filesystem.NewLocalDirectory(path.LocalFormat.NewParser(base))
		if err != nil {
			return nil, err
		}
		buildDirectory = builder.NewNaiveBuildDirectory(directory, directoryFetcher, cas.NewBlobAccessFileFetcher(e.cas), semaphore.NewWeighted(1), upload)
		e.nativeTop = buildDirectory
		x.filePool = pool.EmptyFilePool
	} else {
		handleAllocator := virtual.NewFUSEHandleAllocator(random.FastThreadSafeGenerator)
		defaultAttributesSetter := func(requested virtual.AttributesMask, attributes *virtual.Attributes) {}
		const sectorSize, sectorCount = 32, 2048
		x.filePool = pool.NewBlockDeviceBackedFilePool(
			&memBlockDevice{data: make([]byte, sectorSize*sectorCount)},
			pool.NewBitmapSectorAllocator(sectorCount),
			sectorSize)
		e.top = virtual.NewInMemoryPrepopulatedDirectory(
			virtual.NewHandleAllocatingFileAllocator(
				virtual.NewPoolBackedFileAllocator(pool.EmptyFilePool, e.logger, defaultAttributesSetter, virtual.NoNamedAttributesFactory),
				handleAllocator),
			virtual.NewErrorSymlinkFactory(status.Error(codes.PermissionDenied, "Symlink outside build directory")),
			e.logger, handleAllocator, sort.Sort,
			func(s string) bool { return false },
			clock.SystemClock, virtual.CaseSensitiveComponentNormalizer, defaultAttributesSetter, virtual.NoNamedAttributesFactory,
		)
		buildDirectory = builder.NewVirtualBuildDirectory(
			e.top, directoryFetcher, upload,
			virtual.NewHandleAllocatingSymlinkFactory(virtual.NewBaseSymlinkFactory(defaultAttributesSetter), handleAllocator.New(), path.LocalFormat),
			virtual.NewHandleAllocatingCharacterDeviceFactory(virtual.BaseCharacterDeviceFactory, handleAllocator.New()),
			handleAllocator, defaultAttributesSetter, clock.SystemClock,
		)
	}
	x.executor = builder.NewLocalBuildExecutor(
		upload,
		builder.NewRootBuildDirectoryCreator(buildDirectory),
		x.runner,
		clock.SystemClock,
		// Real-time limits inside the real executor (this one and the
		// action timeout of one hour below) are far beyond what any run
		// needs: no outcome depends on how fast the machine is.
		/* maximumWritableFileUploadDelay = */
		time.Hour,
		/* inputRootCharacterDevices = */ nil,
		/* maximumMessageSizeBytes = */ 1<<20,
		/* environmentVariables = */ map[string]string{},
		/* forceUploadTreesAndDirectories = */ force,
	)
	return x, nil
}

// createLogFiles does what the runner does with stdout and stderr.
func (e *env) createLogFiles(names ...string) error {
	for _, n := range names {
		if e.nativeBase != "" {
			if err := os.WriteFile(filepath.Join(e.nativeBase, n), nil, 0o644); err != nil {
				return err
			}
			continue
		}
		var out virtual.Attributes
		leaf, _, _, s := e.top.VirtualOpenChild(e.ctx, path.MustNewComponent(n), virtual.ShareMaskWrite,
			(&virtual.Attributes{}).SetPermissions(virtual.PermissionsRead|virtual.PermissionsWrite), &virtual.OpenExistingOptions{}, 0, &out)
		if s != virtual.StatusOK {
			return vfsErr("create", path.MustNewComponent(n), s)
		}
		leaf.VirtualClose(virtual.ShareMaskWrite)
	}
	return nil
}

// bindInputRoot finds the input root the executor created.
func (e *env) bindInputRoot() error {
	if e.nativeBase != "" {
		_, err := os.Stat(e.nativeRoot)
		return err
	}
	c, err := e.top.LookupChild(inputRootComponent)
	if err != nil {
		return err
	}
	d, _ := c.GetPair()
	if d == nil {
		return fmt.Errorf("input root is not a directory")
	}
	e.inputVFS = d
	return nil
}

func (x *execEnv) releaseExec() {
	if x.nativeBase != "" {
		x.nativeTop.Close()
		os.RemoveAll(x.nativeBase)
		return
	}
	x.top.RemoveAllChildren(true)
}

// execute runs one action through the real executor.
func (x *execEnv) execute(c *caseT, force bool) *remoteexecution.ExecuteResponse {
	pre := c.pre
	if pre == nil {
		pre = dirN()
	}
	inputRootDigest := x.storeDirectory(pre)
	commandData, err := proto.Marshal(c.command())
	if err != nil {
		panic(harnessError{err})
	}
	action := &remoteexecution.Action{
		CommandDigest:   x.cas.putRaw(commandData),
		InputRootDigest: inputRootDigest,
		Timeout:         durationpb.New(time.Hour),
	}
	actionData, err := proto.Marshal(action)
	if err != nil {
		panic(harnessError{err})
	}
	updates := make(chan *remoteworker.CurrentState_Executing, 16)
	return x.executor.Execute(x.ctx, x.filePool, nil, x.df, &remoteworker.DesiredState_Executing{
		ActionDigest: &remoteexecution.Digest{Hash: hashOf(actionData), SizeBytes: int64(len(actionData))},
		Action:       action,
	}, updates)
}

func statusMsg(r *remoteexecution.ExecuteResponse) (bool, string) {
	if err := status.ErrorProto(r.Status); err != nil {
		return true, errMsg(err)
	}
	return false, ""
}

// runCaseExecutor is runCase for executor mode. forceUploadTreesAndDirectories
// is a construction parameter of the executor, so c.force is not used.
func runCaseExecutor(tr *common.Trace, c *caseT) {
	// First execution: the command only looks around.
	a, err := newExecEnv(c.native)
	if err != nil {
		panic(harnessError{err})
	}
	var before []entry
	a.runner.onRun = func() error {
		if err := a.bindInputRoot(); err != nil {
			return err
		}
		before = mustObserve(a.env)
		return nil
	}
	resp := a.execute(c, false)
	failed, msg := statusMsg(resp)
	if a.runner.err != nil {
		panic(harnessError{fmt.Errorf("fake runner: %w", a.runner.err)})
	}
	if !a.runner.ran {
		// Rejected before the command ran: what does the input root
		// look like now?
		before = []entry{}
		if err := a.bindInputRoot(); err == nil {
			before = mustObserve(a.env)
		}
	}
	a.releaseExec()
	tr.Emit(common.Ev{"ev": "prerun", "ran": a.runner.ran, "err": failed, "msg": msg, "tree": before})
	if !a.runner.ran {
		return
	}

	// Second execution on a fresh worker: the command produces the tree.
	b, err := newExecEnv(c.native)
	if err != nil {
		panic(harnessError{err})
	}
	defer b.releaseExec()
	b.runner.onRun = func() error {
		if err := b.bindInputRoot(); err != nil {
			return err
		}
		if c.prod != nil {
			return b.produce(c.prod)
		}
		return nil
	}
	resp = b.execute(c, false)
	failed, msg = statusMsg(resp)
	if b.runner.err != nil {
		panic(harnessError{fmt.Errorf("fake runner: %w", b.runner.err)})
	}
	if !b.runner.ran {
		panic(harnessError{fmt.Errorf("the executor is not deterministic: second execution did not run the command: %s", msg)})
	}
	files, links, legacy, dirs := decodeResult(b.env, resp.Result)
	tr.Emit(common.Ev{"ev": "upload", "err": failed, "msg": msg, "tree": mustObserve(b.env),
		"files": files, "symlinks": links, "legacy": legacy, "dirs": dirs,
		"badputs": len(b.cas.bad), "fserrors": len(b.logger.errs)})
}
