package nfs40

import (
	"fmt"
	"sort"
	"testing"

	"verif/harness/common"
)

// Request constructors shared by the scenario scripts and the random driver.

func rSetclientid(cl, cv int) Req {
	r := blankReq("SETCLIENTID")
	r.Cl, r.Cv = cl, cv
	return r
}

func rConfirm(cid, verf int) Req {
	r := blankReq("SETCLIENTID_CONFIRM")
	r.Cid, r.Verf = cid, verf
	return r
}

func rRenew(cid int) Req {
	r := blankReq("RENEW")
	r.Cid = cid
	return r
}

func rOpen(cid int, ok string, seq int, name string, share int, how string) Req {
	r := blankReq("OPEN")
	r.Fh, r.Cid, r.Ok, r.Seq, r.Name, r.Share, r.How = 0, cid, ok, seq, name, share, how
	return r
}

func rOpenPrev(cid int, ok string, seq int, fh int, share int) Req {
	r := blankReq("OPEN")
	r.Fh, r.Cid, r.Ok, r.Seq, r.Share, r.Claim = fh, cid, ok, seq, share, "PREV"
	return r
}

func rSid(op string, fh int, t, q int, seq int) Req {
	r := blankReq(op)
	r.Fh, r.Sk, r.St, r.Sq, r.Seq = fh, "reg", t, q, seq
	return r
}

func rDowngrade(fh, t, q, seq, share int) Req {
	r := rSid("OPEN_DOWNGRADE", fh, t, q, seq)
	r.Share = share
	return r
}

func rLockNew(fh, t, q, seq int, cid int, lk string, lseq int, lt string, s, e int) Req {
	r := rSid("LOCK", fh, t, q, seq)
	r.NewLo, r.Cid, r.Lk, r.Lseq, r.Lt, r.S, r.E = true, cid, lk, lseq, lt, s, e
	return r
}

func rLock(fh, t, q, lseq int, lt string, s, e int) Req {
	r := rSid("LOCK", fh, t, q, 0)
	r.Lseq, r.Lt, r.S, r.E = lseq, lt, s, e
	return r
}

func rLocku(fh, t, q, lseq int, s, e int) Req {
	r := rSid("LOCKU", fh, t, q, 0)
	r.Lseq, r.S, r.E = lseq, s, e
	return r
}

func rLockt(fh, cid int, lk string, lt string, s, e int) Req {
	r := blankReq("LOCKT")
	r.Fh, r.Cid, r.Lk, r.Lt, r.S, r.E = fh, cid, lk, lt, s, e
	return r
}

func rRelease(cid int, lk string) Req {
	r := blankReq("RELEASE_LOCKOWNER")
	r.Cid, r.Lk = cid, lk
	return r
}

func rIO(op string, fh int, sk string, t, q int, gate bool) Req {
	r := blankReq(op)
	r.Fh, r.Sk, r.St, r.Sq, r.Gate = fh, sk, t, q, gate
	return r
}

func rRemove(name string) Req {
	r := blankReq("REMOVE")
	r.Fh, r.Name = 0, name
	return r
}

func rRename(from, to string) Req {
	r := blankReq("RENAME")
	r.Fh, r.Name, r.Name2 = 0, from, to
	return r
}

func rPutfh(fh int) Req {
	r := blankReq("PUTFH")
	r.Fh = fh
	return r
}

// TestSmoke: one short scripted history, used while developing.
func TestSmoke(t *testing.T) {
	tr := common.NewTrace("trace.ndjson")
	defer tr.Close()
	e := newEnv(tr, 0, 1)
	c, _ := e.do(rSetclientid(1, 1))
	e.do(rConfirm(c.Cid, c.Verf))
	o, _ := e.do(rOpen(c.Cid, "o1", 1, "a", 3, "UNCHECKED"))
	oc, _ := e.do(rSid("OPEN_CONFIRM", o.Fh, o.T, o.Q, 2))
	l, _ := e.do(rLockNew(o.Fh, oc.T, oc.Q, 3, c.Cid, "l1", 1, "W", 0, 2))
	e.do(rLockt(o.Fh, c.Cid, "l2", "R", 1, 3))
	_, id := e.do(rIO("READ", o.Fh, "reg", oc.T, oc.Q, true))
	d, _ := e.do(rDowngrade(o.Fh, oc.T, oc.Q, 4, 1))
	e.do(rRelease(c.Cid, "l1"))
	e.do(rLocku(o.Fh, l.T, l.Q, 2, 0, nPos))
	e.do(rRemove("a"))
	e.do(rPutfh(o.Fh))
	cl, _ := e.do(rSid("CLOSE", o.Fh, d.T, d.Q, 5))
	e.do(rSid("CLOSE", o.Fh, d.T, d.Q, 5))
	_ = cl
	e.finish(id)
	e.do(rPutfh(o.Fh))
	e.end()
}

// ---------------------------------------------------------------------------
// Seeded random multi-client histories.

type cliOpen struct {
	fh, t, q, share int
}

type cliLock struct {
	fh, t, q int
	ok       string // open-owner through which the lock state was created
}

type cliOO struct {
	key       string
	seq       int
	confirmed bool
	files     map[int]*cliOpen
	last      *Req // the last request sent
	lastDone  *Req // the last request that advanced the seqid (its reply is the cached one)
}

type cliLO struct {
	key      string
	seq      int
	files    map[string]*cliLock // by fh/open-owner
	last     *Req
	lastDone *Req
}

type client struct {
	cl, cv    int
	cid       int
	confirmed bool
	oos       map[string]*cliOO
	los       map[string]*cliLO
}

func (c *client) reset() {
	c.oos = map[string]*cliOO{}
	c.los = map[string]*cliLO{}
}

func completes(st string) bool {
	switch st {
	case "STALE_CLIENTID", "STALE_STATEID", "BAD_STATEID", "BAD_SEQID", "BADXDR", "RESOURCE", "NOFILEHANDLE", "MOVED", "NONE", "DEAD", "PANIC", "INFLIGHT", "PARKED":
		return false
	}
	return true
}

type randomDriver struct {
	e       *env
	rng     interface{ Intn(int) int }
	clients []*client
	names   []string
	files   []int // file tokens seen
	nOO     int
	nLO     int

	nameByFile map[int]string // last name under which a file was opened
	retry      *lockRetry     // a failed initial LOCK that the client may try again
}

func (d *randomDriver) nameOf(fh int) string { return d.nameByFile[fh] }

func (d *randomDriver) pick(n int) int { return d.rng.Intn(n) }

// nxt is the client's side of the seqid rule: 2^32-1 (written -1) is
// followed by 1.
func nxt(seq int) int {
	if seq == -1 {
		return 1
	}
	return seq + 1
}

func (d *randomDriver) oo(c *client) *cliOO {
	k := []string{"o1", "o2", "o3"}[d.pick(d.nOO)]
	o, ok := c.oos[k]
	if !ok {
		o = &cliOO{key: k, files: map[int]*cliOpen{}}
		if d.pick(5) == 0 {
			// the first requests of this open-owner carry the seqids
			// 2^32-2, 2^32-1, then the seqid wraps to 1
			o.seq = -3 + d.pick(2)
		}
		c.oos[k] = o
	}
	return o
}

func (d *randomDriver) lo(c *client) *cliLO {
	k := []string{"l1", "l2"}[d.pick(d.nLO)]
	l, ok := c.los[k]
	if !ok {
		l = &cliLO{key: k, files: map[string]*cliLock{}}
		if d.pick(5) == 0 {
			l.seq = -3 + d.pick(2)
		}
		c.los[k] = l
	}
	return l
}

func (d *randomDriver) anyOpen(o *cliOO) *cliOpen {
	if len(o.files) == 0 {
		return nil
	}
	keys := []int{}
	for k := range o.files {
		keys = append(keys, k)
	}
	sortInts(keys)
	return o.files[keys[d.pick(len(keys))]]
}

func (d *randomDriver) anyLock(l *cliLO) *cliLock {
	if len(l.files) == 0 {
		return nil
	}
	keys := []string{}
	for k := range l.files {
		keys = append(keys, k)
	}
	sortStrings(keys)
	return l.files[keys[d.pick(len(keys))]]
}

func (d *randomDriver) anyFile() int {
	if len(d.files) == 0 {
		return 1
	}
	return d.files[d.pick(len(d.files))]
}

func (d *randomDriver) noteFile(f int) {
	if f <= 0 {
		return
	}
	for _, x := range d.files {
		if x == f {
			return
		}
	}
	d.files = append(d.files, f)
}

func (d *randomDriver) rangeArgs(r *Req) {
	r.S = d.pick(nPos)
	r.E = r.S + 1 + d.pick(nPos-r.S)
	r.Lenk = "norm"
	switch d.pick(12) {
	case 0:
		r.Lenk = "zero"
	case 1:
		r.Lenk = "eof"
	case 2:
		if r.S > 0 {
			r.Lenk = "ovf"
		}
	case 3:
		r.E = nPos
	case 4:
		// the last byte alone: offset 2^64-1, length all ones / length 1
		r.S, r.E = nPos, nPos
		r.Lenk = []string{"eof", "eof", "one"}[d.pick(3)]
	case 5:
		// through the last byte, starting just before it
		r.S, r.E, r.Lenk = nPos-1, nPos-1, "eof"
	}
	r.Lt = []string{"R", "W", "R", "W", "RW", "WW"}[d.pick(6)]
	if d.pick(40) == 0 {
		r.Lt = "BAD"
	}
}

// perturb turns a well-formed request into a misordered, stale or
// misdirected one now and then.
func (d *randomDriver) perturb(r *Req) {
	if d.pick(100) >= 18 {
		return
	}
	switch d.pick(9) {
	case 0:
		r.Seq++
		r.Lseq++
	case 1:
		r.Seq--
		r.Lseq--
	case 2:
		r.Seq -= 2
	case 3:
		r.Sq++
	case 4:
		if r.Sq > 0 {
			r.Sq--
		}
	case 5:
		if r.Fh > 0 {
			r.Fh = d.anyFile()
		}
	case 6:
		if r.Sk == "reg" {
			r.Sk = "stale"
		}
	case 7:
		if r.Fh > 0 {
			r.Fh = -1
		}
	case 8:
		if r.Sk == "reg" {
			r.St = d.e.lastSid() + 1 + d.pick(2)
		}
	}
}

func (e *env) lastSid() int { return len(e.sidTok) }

// afterOO updates the client's view of an open-owner after a request.
func afterOO(o *cliOO, r Req, rep Rep) {
	if rep.St == "INFLIGHT" || rep.St == "PARKED" {
		return
	}
	rc := r
	rc.Gate = false
	o.last = &rc
	if completes(rep.St) && (r.Seq == nxt(o.seq) || (r.Op == "OPEN" && !o.confirmed)) {
		o.seq = r.Seq
		o.lastDone = &rc
	}
}

// openPending returns the id of the OPEN that is in flight (0 = none).
func (e *env) openPending() int {
	for id, p := range e.pending {
		if p.req.Op == "OPEN" {
			return id
		}
	}
	return 0
}

func (d *randomDriver) step() {
	e := d.e
	if id := e.openPending(); id > 0 {
		// While an OPEN is in flight: no more than one request waits for
		// it (the order in which several wake up is not defined), now
		// and then its retransmission is sent while it is in flight, and
		// it is not left in flight for long.
		if len(e.parked) > 0 || d.pick(4) == 0 {
			e.finish(id)
			return
		}
		if d.pick(4) == 0 {
			dup := e.pending[id].req
			dup.Gate = false
			e.do(dup)
			return
		}
	}
	c := d.clients[d.pick(len(d.clients))]
	switch k := d.pick(100); {
	case k < 4 || c.cid == 0:
		if c.cid != 0 && d.pick(3) == 0 {
			c.cv++ // the client rebooted
		}
		rep, _ := e.do(rSetclientid(c.cl, c.cv))
		if rep.St == "OK" {
			if rep.Cid != c.cid {
				c.confirmed = false
			}
			cid := rep.Cid
			if d.pick(10) == 0 {
				return // leave it unconfirmed for a while
			}
			verf := rep.Verf
			if d.pick(15) == 0 {
				verf = 0
			}
			rep2, _ := e.do(rConfirm(cid, verf))
			if rep2.St == "OK" {
				if c.cid != cid || !c.confirmed {
					c.reset()
				}
				c.cid, c.confirmed = cid, true
			}
		}
	case k < 9:
		rep, _ := e.do(rRenew(c.cid))
		if rep.St == "STALE_CLIENTID" {
			c.cid, c.confirmed = 0, false
			c.reset()
		}
	case k < 30:
		o := d.oo(c)
		var r Req
		if f := d.anyOpen(o); f != nil && d.pick(5) == 0 {
			r = rOpenPrev(c.cid, o.key, nxt(o.seq), f.fh, 1+d.pick(3))
			if d.pick(8) == 0 {
				r.Claim = []string{"PREVDELEG", "DCUR", "DPREV"}[d.pick(3)]
			}
			// Hold it while it re-opens the file (a reclaim does not go
			// through the directory, so every other request can still
			// be served; an unconfirmed open-owner would be
			// re-initialised, which closes its files only when the OPEN
			// returns).
			if o.confirmed && len(e.pending) == 0 && d.pick(2) == 0 {
				r.Gate = true
			}
		} else {
			how := []string{"UNCHECKED", "UNCHECKED", "NOCREATE", "NOCREATE", "GUARDED", "EXCLUSIVE", "UNCHECKED0"}[d.pick(7)]
			r = rOpen(c.cid, o.key, nxt(o.seq), d.names[d.pick(len(d.names))], 1+d.pick(3), how)
		}
		switch d.pick(30) {
		case 0:
			r.Deny = 1 + d.pick(4)
		case 1:
			r.Share = 4 * d.pick(2)
		case 2:
			r.Fh = -1
		case 3:
			r.Fh = d.anyFile()
		}
		d.perturb(&r)
		rep, _ := e.do(r)
		if rep.St == "STALE_CLIENTID" {
			c.cid, c.confirmed = 0, false
			c.reset()
			return
		}
		wasConfirmed := o.confirmed
		afterOO(o, r, rep)
		if rep.St == "OK" {
			if !wasConfirmed {
				o.files = map[int]*cliOpen{}
			}
			d.noteFile(rep.Fh)
			if r.Claim == "NULL" {
				d.nameByFile[rep.Fh] = r.Name
			}
			f, ok := o.files[rep.Fh]
			if !ok {
				f = &cliOpen{fh: rep.Fh}
				o.files[rep.Fh] = f
			}
			f.t, f.q, f.share = rep.T, rep.Q, f.share|r.Share
			if rep.Conf && d.pick(6) != 0 {
				r2 := rSid("OPEN_CONFIRM", f.fh, f.t, f.q, nxt(o.seq))
				d.perturb(&r2)
				rep2, _ := e.do(r2)
				afterOO(o, r2, rep2)
				if rep2.St == "OK" {
					o.confirmed = true
					f.q = rep2.Q
				}
			}
		}
	case k < 36:
		o := d.oo(c)
		f := d.anyOpen(o)
		if f == nil {
			return
		}
		r := rSid("OPEN_CONFIRM", f.fh, f.t, f.q, nxt(o.seq))
		d.perturb(&r)
		rep, _ := e.do(r)
		afterOO(o, r, rep)
		if rep.St == "OK" {
			o.confirmed = true
			f.q = rep.Q
		}
	case k < 42:
		o := d.oo(c)
		f := d.anyOpen(o)
		if f == nil {
			return
		}
		r := rDowngrade(f.fh, f.t, f.q, nxt(o.seq), 1+d.pick(3))
		if d.pick(20) == 0 {
			r.Deny = 1
		}
		d.perturb(&r)
		rep, _ := e.do(r)
		afterOO(o, r, rep)
		if rep.St == "OK" {
			f.q, f.share = rep.Q, r.Share
			// Often re-open with more access right away: if a
			// lock-owner file or in-flight I/O still holds the
			// bit that was given up, the new open is redundant.
			if r.Share != 3 && d.pick(3) != 0 {
				var r2 Req
				if d.pick(3) == 0 {
					r2 = rOpenPrev(c.cid, o.key, nxt(o.seq), f.fh, 1+d.pick(3))
				} else {
					r2 = rOpen(c.cid, o.key, nxt(o.seq), "", 1+d.pick(3), "NOCREATE")
					r2.Claim, r2.Fh = "PREV", f.fh
					if n := d.nameOf(f.fh); n != "" {
						r2 = rOpen(c.cid, o.key, nxt(o.seq), n, 1+d.pick(3), "NOCREATE")
					}
				}
				rep2, _ := e.do(r2)
				afterOO(o, r2, rep2)
				if rep2.St == "OK" && rep2.T == f.t {
					f.q, f.share = rep2.Q, f.share|r2.Share
				}
			}
		}
	case k < 50:
		o := d.oo(c)
		f := d.anyOpen(o)
		if f == nil {
			return
		}
		r := rSid("CLOSE", f.fh, f.t, f.q, nxt(o.seq))
		d.perturb(&r)
		rep, _ := e.do(r)
		afterOO(o, r, rep)
		if rep.St == "OK" {
			delete(o.files, f.fh)
			for _, l := range c.los {
				delete(l.files, lockKey(f.fh, o.key))
			}
			// The open-owner's last request is a CLOSE now; if it
			// still has files open it must survive a long silence.
			if len(o.files) > 0 && d.pick(4) == 0 {
				d.idle()
			}
		}
	case k < 62:
		// LOCK
		o := d.oo(c)
		l := d.lo(c)
		f := d.anyOpen(o)
		if rt := d.retry; rt != nil && d.pick(2) == 0 {
			// The initial LOCK (open_to_lock_owner) of a lock-owner on a
			// file failed: the client has no lock state id for the file
			// and tries again with the open state id (same range if it
			// was denied, so that it succeeds once the conflict is gone).
			d.retry = nil
			c, o, l, f = rt.c, rt.o, rt.l, rt.f
			r := rLockNew(f.fh, f.t, f.q, nxt(o.seq), c.cid, l.key, nxt(l.seq), "R", 0, 1)
			if rt.r.Lenk == "norm" || rt.r.Lenk == "eof" {
				r.S, r.E, r.Lenk, r.Lt = rt.r.S, rt.r.E, rt.r.Lenk, rt.r.Lt
			} else {
				d.rangeArgs(&r)
			}
			if r.Lt == "BAD" {
				r.Lt = "W"
			}
			d.lockDone(c, o, l, f, nil, r)
			return
		}
		if f == nil {
			return
		}
		var r Req
		// (A lock-owner that already has lock state on the file through
		// another open-owner is refused when it asks for a second one:
		// now and then that is tried, mostly the existing lock state id
		// is used.)
		lk, have := l.files[lockKey(f.fh, o.key)]
		if !have && d.pick(3) != 0 {
			for _, other := range l.files {
				if other.fh == f.fh {
					lk, have = other, true
					break
				}
			}
		}
		if have && d.pick(12) != 0 {
			r = rLock(lk.fh, lk.t, lk.q, nxt(l.seq), "R", 0, 1)
		} else {
			r = rLockNew(f.fh, f.t, f.q, nxt(o.seq), c.cid, l.key, nxt(l.seq), "R", 0, 1)
			if d.pick(25) == 0 {
				r.Cid = d.clients[d.pick(len(d.clients))].cid
			}
		}
		d.rangeArgs(&r)
		d.perturb(&r)
		d.lockDone(c, o, l, f, lk, r)
	case k < 68:
		l := d.lo(c)
		lk := d.anyLock(l)
		if lk == nil {
			return
		}
		r := rLocku(lk.fh, lk.t, lk.q, nxt(l.seq), 0, 1)
		d.rangeArgs(&r)
		d.perturb(&r)
		rep, _ := e.do(r)
		rc := r
		l.last = &rc
		if completes(rep.St) && r.Lseq == nxt(l.seq) {
			l.seq = r.Lseq
			l.lastDone = &rc
		}
		if rep.St == "OK" && rep.T == lk.t {
			lk.q = rep.Q
		}
	case k < 72:
		r := rLockt(d.anyFile(), c.cid, []string{"l1", "l2", "l9"}[d.pick(3)], "R", 0, 1)
		d.rangeArgs(&r)
		if d.pick(15) == 0 {
			r.Fh = []int{0, -1}[d.pick(2)]
		}
		e.do(r)
	case k < 75:
		l := d.lo(c)
		rep, _ := e.do(rRelease(c.cid, l.key))
		if rep.St == "OK" {
			l.files = map[string]*cliLock{}
		}
	case k < 87:
		// I/O
		op := []string{"READ", "WRITE", "SETATTR"}[d.pick(3)]
		gateIt := len(e.pending) < 2 && d.pick(3) == 0
		var r Req
		switch d.pick(8) {
		case 0:
			r = rIO(op, d.anyFile(), []string{"anon", "byp", "anonbad", "bypbad"}[d.pick(4)], 0, 0, gateIt)
		case 1, 2:
			l := d.lo(c)
			lk := d.anyLock(l)
			if lk == nil {
				return
			}
			r = rIO(op, lk.fh, "reg", lk.t, lk.q, gateIt)
		default:
			o := d.oo(c)
			f := d.anyOpen(o)
			if f == nil {
				return
			}
			r = rIO(op, f.fh, "reg", f.t, f.q, gateIt)
			if gateIt && f.share == 3 && d.pick(2) == 0 {
				if _, id := e.do(r); id > 0 {
					d.downUp(c, o, f)
				}
				return
			}
		}
		d.perturb(&r)
		e.do(r)
	case k < 91:
		if len(e.pending) > 0 {
			ids := []int{}
			for id := range e.pending {
				ids = append(ids, id)
			}
			sortInts(ids)
			e.finish(ids[d.pick(len(ids))])
		}
	case k < 94:
		switch d.pick(3) {
		case 0:
			e.do(rRemove(d.names[d.pick(len(d.names))]))
		case 1:
			a, b := d.names[d.pick(len(d.names))], d.names[d.pick(len(d.names))]
			if a != b {
				e.do(rRename(a, b))
			}
		case 2:
			e.do(rPutfh(d.anyFile()))
		}
	case k < 97:
		// exact retransmission of the last request of an owner, or of
		// the last one that was executed (with rejected requests in
		// between: they must have left the cached reply alone)
		var cands []*Req
		for _, key := range []string{"o1", "o2", "o3"} {
			if o, ok := c.oos[key]; ok && o.last != nil {
				cands = append(cands, o.last)
				if o.lastDone != nil {
					cands = append(cands, o.lastDone)
				}
			}
		}
		for _, key := range []string{"l1", "l2"} {
			if l, ok := c.los[key]; ok && l.last != nil {
				cands = append(cands, l.last)
				if l.lastDone != nil {
					cands = append(cands, l.lastDone)
				}
			}
		}
		if len(cands) > 0 {
			e.do(*cands[d.pick(len(cands))])
		}
	default:
		if d.pick(3) == 0 {
			d.idle()
			return
		}
		e.tick([]int{1, 1, 2, 2, 3, 4, 6, 9, 11}[d.pick(9)])
	}
}

// idle lets more than the lease time pass in steps of about half a lease
// during which no open-owner sends a sequenced request, while (most of)
// the clients keep their lease alive with RENEW or I/O: open-owners
// without open files are forgotten meanwhile, those with open files and
// everything that hangs on them must stay.
func (d *randomDriver) idle() {
	e := d.e
	if e.openPending() > 0 {
		return
	}
	alive := []*client{}
	for _, c := range d.clients {
		if c.cid != 0 && d.pick(4) != 0 {
			alive = append(alive, c)
		}
	}
	for i := 0; i < 3+d.pick(2) && !e.dead; i++ {
		e.tick(4 + d.pick(3))
		for _, c := range alive {
			var r *Req
			if d.pick(2) == 0 {
				// I/O with one of the client's open or lock state ids
				for _, key := range []string{"o1", "o2", "o3"} {
					if o, ok := c.oos[key]; ok && o.confirmed && r == nil {
						if f := d.anyOpen(o); f != nil && f.share&1 != 0 {
							x := rIO("READ", f.fh, "reg", f.t, f.q, false)
							r = &x
						}
					}
				}
			}
			if r == nil {
				x := rRenew(c.cid)
				r = &x
			}
			if rep, _ := e.do(*r); rep.St == "STALE_CLIENTID" {
				c.cid, c.confirmed = 0, false
				c.reset()
			}
		}
	}
}

// lockRetry remembers a failed initial LOCK of a lock-owner on a file.
type lockRetry struct {
	c *client
	o *cliOO
	l *cliLO
	f *cliOpen
	r Req
}

// lockDone sends a LOCK request and updates the client's view.
func (d *randomDriver) lockDone(c *client, o *cliOO, l *cliLO, f *cliOpen, lk *cliLock, r Req) {
	rep, _ := d.e.do(r)
	rc := r
	l.last = &rc
	if r.NewLo {
		afterOO(o, r, rep)
	}
	if completes(rep.St) && (r.Lseq == nxt(l.seq) || (r.NewLo && len(l.files) == 0)) {
		l.seq = r.Lseq
		l.lastDone = &rc
	}
	if r.NewLo && (rep.St == "DENIED" || rep.St == "INVAL" || rep.St == "BAD_RANGE") {
		d.retry = &lockRetry{c: c, o: o, l: l, f: f, r: r}
	}
	if rep.St == "OK" {
		if r.NewLo {
			l.files[lockKey(f.fh, o.key)] = &cliLock{fh: f.fh, t: rep.T, q: rep.Q, ok: o.key}
			if f.share == 3 && d.pick(3) == 0 {
				d.downUp(c, o, f)
			}
		} else if lk != nil && rep.T == lk.t {
			lk.q = rep.Q
		}
	}
}

// downUp sends OPEN_DOWNGRADE for an open file and then (usually) opens
// it again with more access. While a lock-owner file or in-flight I/O
// still holds the share that was given up, the second open is redundant
// and must be closed by the server exactly once.
func (d *randomDriver) downUp(c *client, o *cliOO, f *cliOpen) {
	e := d.e
	r := rDowngrade(f.fh, f.t, f.q, nxt(o.seq), 1+d.pick(2))
	rep, _ := e.do(r)
	afterOO(o, r, rep)
	if rep.St != "OK" {
		return
	}
	f.q, f.share = rep.Q, r.Share
	if d.pick(5) == 0 {
		return
	}
	r2 := rOpenPrev(c.cid, o.key, nxt(o.seq), f.fh, 1+d.pick(3))
	if n := d.nameOf(f.fh); n != "" && d.pick(2) == 0 {
		r2 = rOpen(c.cid, o.key, nxt(o.seq), n, 1+d.pick(3), "NOCREATE")
	}
	rep2, _ := e.do(r2)
	afterOO(o, r2, rep2)
	if rep2.St == "OK" && rep2.T == f.t {
		f.q, f.share = rep2.Q, f.share|r2.Share
	}
}

func lockKey(fh int, ok string) string { return fmt.Sprintf("%d/%s", fh, ok) }

// TestRandom: seeded random multi-client histories.
func TestRandom(t *testing.T) {
	traces := common.EnvInt("VERIF_N", 50)
	steps := common.EnvInt("VERIF_STEPS", 70)
	tr := common.NewTrace("trace.ndjson")
	defer tr.Close()
	for i := 0; i < traces; i++ {
		rng := common.Rand(int64(1000 + i))
		e := newEnv(tr, i, common.Seed()*100000+int64(i))
		d := &randomDriver{e: e, rng: rng, nameByFile: map[int]string{}, names: []string{"a", "b", "c"}[:1+rng.Intn(3)], nOO: 1 + rng.Intn(3), nLO: 1 + rng.Intn(2)}
		for j := 0; j < 2+rng.Intn(2); j++ {
			c := &client{cl: j + 1, cv: 1}
			c.reset()
			d.clients = append(d.clients, c)
		}
		for j := 0; j < steps && !e.dead; j++ {
			d.step()
		}
		e.end()
	}
}

func sortInts(a []int)       { sort.Ints(a) }
func sortStrings(a []string) { sort.Strings(a) }
