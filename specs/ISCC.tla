------------------------------- MODULE ISCC -------------------------------
(***************************************************************************)
(* Property C07, parts 2 and 3.                                            *)
(*                                                                         *)
(* PART B (first half of this module): the write-back store of             *)
(*   pkg/blobstore/blob_access_mutable_proto_store.go.  One action per     *)
(*   lock section of Get() / Release(), plus the steps of the backing      *)
(*   BlobAccess (a Put is applied, a Get is answered).                     *)
(* PART A (second half): the selector / learner state machine of           *)
(*   pkg/scheduler/initialsizeclass/feedback_driven_analyzer.go and        *)
(*   fallback_analyzer.go with the well-formedness predicates of every     *)
(*   choice handed to the scheduler.                                       *)
(*                                                                         *)
(* The store part is parametric in two design decisions (VersionRules,      *)
(* WriteGuards).  MC_ISCC_store*.cfg check the intended design ("cur+1",   *)
(* guard TRUE) exhaustively.  The variant that transcribes the pinned code *)
(* ("wr+1", guard FALSE) breaks every predicate below; it is used by       *)
(* ISCCGen.tla / MC_ISCC_store_ascoded*.cfg to generate the counterexample *)
(* schedules that the Go driver replays on the real store (finding F6).    *)
(* Trace validation accepts either variant as explanation of a step; the   *)
(* verdict comes from the predicates evaluated on the observed states.     *)
(*                                                                         *)
(* Each part keeps its whole state in one record-valued variable (`st`,    *)
(* `an`) and defines its steps as operators from records to records, so    *)
(* that ISCCTrace.tla can apply and compose the very same steps on traces  *)
(* recorded from the real code.                                            *)
(***************************************************************************)
EXTENDS Integers, Sequences, FiniteSets, TLC

CONSTANTS
  Digests,        \* reduced action digests
  Threads,        \* concurrent callers of Get()
  NoDigest,       \* placeholder value
  MaxGets,        \* bound: total calls of Get()
  MaxUpd,         \* bound: total dirty releases
  WritesPerRead,  \* constant writesPerRead of Get() (3 in the code)
  VersionRules,   \* subset of {"cur+1", "wr+1"}: how a dirty Release picks
                  \* currentVersion.  "wr+1" is what the pinned code does
                  \* (currentVersion = writtenVersion + 1); "cur+1" is the
                  \* intended design: every dirty release gets a new version.
  WriteGuards,    \* subset of 0 .. 2, the guards of removeOrQueueForWriteLocked().
                  \* 0 = the pinned code: a handle whose write is in flight
                  \* may be queued, dequeued and deleted from the map like
                  \* any other.  1 = (repair F6) a handle is left alone
                  \* while one of its writes is in flight; the completion
                  \* of the write re-evaluates it.  2 = intended design
                  \* (repair F11): in addition a clean handle stays in the
                  \* map while a Get() that found no handle is reading its
                  \* digest from the backing store - that Get() may have
                  \* read before the handle's content was written, so it
                  \* must adopt the handle instead of inserting what it read.
  ReuseSlots,     \* BOOLEAN: model-checking aid, reuse the ids of
                  \* unreachable handles (FALSE when validating traces)
  EagerFinish,    \* BOOLEAN: TRUE = the last lock section of Get() follows
                  \* the completion of its last BlobAccess call without any
                  \* other step in between (all a driver of the real code
                  \* can arrange); FALSE = any interleaving
  RecordHist      \* BOOLEAN: record the schedule in `hist`

VARIABLES st, an, hist
vars == <<st, an, hist>>

(***************************************************************************)
(*                    PART B: the mutable proto store                      *)
(*                                                                         *)
(* st.hs      sequence of handle objects that were inserted in the map:    *)
(*            [dg, use, wr, cur, c] = digest, useCount, writtenVersion,    *)
(*            currentVersion, c = ghost content version of the message     *)
(* st.hmap    store.handles: Digests -> handle id (0 = absent)             *)
(* st.queue   store.handlesToWrite: sequence of handle ids                 *)
(* st.backing content version held by the backing BlobAccess (0 = absent)  *)
(* st.latest  ghost: content version of the last dirty release per digest  *)
(* st.th      per thread: pc and the locals of Get()                       *)
(*              pc  "idle" | "get" (inside Get) | "hold" (owns a reference)*)
(*              ex  hasExistingHandle;  h handle id;  rc content read      *)
(*                                                                         *)
(* Content (c, rc, backing, latest) is the SET of updates (dirty releases, *)
(* numbered 1, 2, ...) a message incorporates: a handle created from a     *)
(* stale read lacks the updates it did not see, and a dirty release adds   *)
(* one update to whatever the handle's message was based on.               *)
(*              ops in-flight BlobAccess calls of this Get:                *)
(*                  [k |-> "r"|"w", h, c, v = writingVersion,              *)
(*                   st |-> "flight" | "applied"]                          *)
(* st.ng, st.nu  bounds bookkeeping                                        *)
(***************************************************************************)

DeadHandle == [dg |-> NoDigest, use |-> 0, wr |-> 0, cur |-> 0, c |-> {}]
IdleThread == [pc |-> "idle", dg |-> NoDigest, h |-> 0, ex |-> FALSE,
               ops |-> {}, err |-> FALSE, rc |-> {}]
ReadOp == [k |-> "r", h |-> 0, c |-> {}, v |-> 0, st |-> "flight"]

\* Content sets as bit masks (update u = bit u), the form in which the Go
\* driver stores them in a message and schedules name a pending Put.
RECURSIVE Mask(_)
Mask(s) == IF s = {} THEN 0 ELSE LET x == CHOOSE y \in s : TRUE IN 2 ^ x + Mask(s \ {x})
Bits(n) == {i \in 1 .. 30 : (n \div (2 ^ i)) % 2 = 1}

InQueue(q, h) == \E i \in 1 .. Len(q) : q[i] = h
IndexOf(q, h) == CHOOSE i \in 1 .. Len(q) : q[i] = h
Min(a, b) == IF a < b THEN a ELSE b

\* increaseUseCount()'s removal from handlesToWrite: the last element is
\* moved into the vacated slot.
SwapRemove(q, h) ==
  IF ~InQueue(q, h) THEN q
  ELSE LET i == IndexOf(q, h)
           n == Len(q)
       IN SubSeq([q EXCEPT ![i] = q[n]], 1, n - 1)

Writing(S, h) == \E t \in Threads : \E o \in S.th[t].ops : o.k = "w" /\ o.h = h

Referenced(S, h) ==
  \/ S.hs[h].dg \in Digests /\ S.hmap[S.hs[h].dg] = h
  \/ InQueue(S.queue, h)
  \/ Writing(S, h)
  \/ \E t \in Threads : S.th[t].h = h /\ S.th[t].pc # "idle"

\* Forget the fields of handle objects nobody can reach any more.
Norm(S) ==
  IF ~ReuseSlots THEN S
  ELSE LET hs1 == [h \in 1 .. Len(S.hs) |-> IF Referenced(S, h) THEN S.hs[h] ELSE DeadHandle]
           live == {h \in 1 .. Len(hs1) : hs1[h] # DeadHandle}
           n == IF live = {} THEN 0 ELSE CHOOSE m \in live : \A x \in live : x <= m
       IN [S EXCEPT !.hs = SubSeq(hs1, 1, n)]

NewId(S) ==
  IF ReuseSlots /\ \E h \in 1 .. Len(S.hs) : S.hs[h] = DeadHandle
  THEN CHOOSE h \in 1 .. Len(S.hs) : S.hs[h] = DeadHandle /\ \A g \in 1 .. (h - 1) : S.hs[g] # DeadHandle
  ELSE Len(S.hs) + 1

\* Get() calls that found no handle for d and have not finished yet
\* (store.readsInProgress[d]).
Readers(S, d) == {t \in Threads : S.th[t].pc = "get" /\ ~S.th[t].ex /\ S.th[t].dg = d}

\* removeOrQueueForWriteLocked(); g = guards in force
ROQ(S, h, g) ==
  IF S.hs[h].use # 0 \/ (g >= 1 /\ Writing(S, h)) THEN S
  ELSE IF S.hs[h].wr = S.hs[h].cur
       THEN IF g >= 2 /\ Readers(S, S.hs[h].dg) # {} THEN S   \* retained for the readers
            ELSE [S EXCEPT !.hmap[S.hs[h].dg] = 0]       \* delete(ss.handles, sh.digest)
       ELSE IF InQueue(S.queue, h) THEN S
            ELSE [S EXCEPT !.queue = Append(@, h)]

IncUse(S, h) == [S EXCEPT !.hs[h].use = @ + 1, !.queue = SwapRemove(@, h)]
DecUse(S, h, g) == ROQ([S EXCEPT !.hs[h].use = @ - 1], h, g)

StoreInit0 ==
  [hs |-> <<>>, hmap |-> [d \in Digests |-> 0], queue |-> <<>>,
   backing |-> [d \in Digests |-> {}], latest |-> [d \in Digests |-> {}],
   th |-> [t \in Threads |-> IdleThread], ng |-> 0, nu |-> 0]

-----------------------------------------------------------------------------
(* Steps.  En_X = enabling condition, Do_X = effect.                       *)

\* First lock section of Get(): look the digest up and take a reference
\* (which removes the handle from the write queue), then dequeue up to
\* writesPerRead handles from the end of the queue; their message is cloned
\* and their currentVersion becomes the writingVersion.  A Get() that found
\* the handle and has nothing to write returns at once.
En_GetStart(S, t, d) == S.th[t].pc = "idle"
Do_GetStart(S, t, d) ==
  LET e  == S.hmap[d] # 0
      h  == S.hmap[d]
      S1 == IF e THEN IncUse(S, h) ELSE S
      q1 == S1.queue
      k  == Min(WritesPerRead, Len(q1))
      ws == {[k |-> "w", h |-> q1[Len(q1) + 1 - i], c |-> S1.hs[q1[Len(q1) + 1 - i]].c,
              v |-> S1.hs[q1[Len(q1) + 1 - i]].cur, st |-> "flight"] : i \in 1 .. k}
      ops == ws \cup (IF e THEN {} ELSE {ReadOp})
  IN Norm([S1 EXCEPT !.queue = SubSeq(q1, 1, Len(q1) - k),
                     !.th[t] = [pc |-> IF ops = {} THEN "hold" ELSE "get",
                                dg |-> d, h |-> IF e THEN h ELSE 0, ex |-> e,
                                ops |-> ops, err |-> FALSE, rc |-> {}],
                     !.ng = @ + 1])

\* The backing store answers the read of a Get() that found no handle
\* (ok: the stored message, NotFound = empty message; ~ok: an error).
En_ReadDone(S, t) == S.th[t].pc = "get" /\ ReadOp \in S.th[t].ops
Do_ReadDone(S, t, ok) ==
  [S EXCEPT !.th[t].ops = @ \ {ReadOp},
            !.th[t].rc = IF ok THEN S.backing[S.th[t].dg] ELSE {},
            !.th[t].err = @ \/ ~ok]

IsWrite(S, t, o, s) == S.th[t].pc = "get" /\ o \in S.th[t].ops /\ o.k = "w" /\ o.st = s

\* The backing store applies a Put (the call has not returned yet).
En_PutApply(S, t, o) == IsWrite(S, t, o, "flight")
Do_PutApply(S, t, o) ==
  [S EXCEPT !.backing[S.hs[o.h].dg] = o.c,
            !.th[t].ops = (@ \ {o}) \cup {[o EXCEPT !.st = "applied"]}]

\* Lock section after a successful Put.
En_WriteDone(S, t, o) == IsWrite(S, t, o, "applied")
Do_WriteDone(S, t, o, g) ==
  Norm(ROQ([S EXCEPT !.hs[o.h].wr = o.v, !.th[t].ops = @ \ {o}], o.h, g))

\* Lock section after a failed Put (nothing was stored).
En_WriteFail(S, t, o) == IsWrite(S, t, o, "flight")
Do_WriteFail(S, t, o, g) ==
  Norm(ROQ([S EXCEPT !.th[t].ops = @ \ {o}, !.th[t].err = TRUE], o.h, g))

\* group.Wait() returned.  Error: lock section that gives the reference
\* back.  Existing handle: plain return.  Otherwise the lock section that
\* inserts the new handle, or adopts the one another thread inserted.
En_GetFinish(S, t) == S.th[t].pc = "get" /\ S.th[t].ops = {}
Do_GetFinish(S, t, g) ==
  LET d == S.th[t].dg IN
  IF S.th[t].err
  THEN IF S.th[t].ex
       THEN Norm([DecUse(S, S.th[t].h, g) EXCEPT !.th[t] = IdleThread])
       ELSE \* the last reader to give up re-evaluates a handle retained for it
            LET S1 == [S EXCEPT !.th[t] = IdleThread] IN
              Norm(IF g >= 2 /\ Readers(S1, d) = {} /\ S1.hmap[d] # 0 THEN ROQ(S1, S1.hmap[d], g) ELSE S1)
  ELSE IF S.th[t].ex
  THEN [S EXCEPT !.th[t].pc = "hold"]
  ELSE IF S.hmap[d] # 0
  THEN [IncUse(S, S.hmap[d]) EXCEPT !.th[t].pc = "hold", !.th[t].h = S.hmap[d]]
  ELSE LET id == NewId(S)
           nh == [dg |-> d, use |-> 1, wr |-> 0, cur |-> 0, c |-> S.th[t].rc]
       IN [S EXCEPT !.hs = IF id > Len(S.hs) THEN Append(S.hs, nh) ELSE [S.hs EXCEPT ![id] = nh],
                    !.hmap[d] = id,
                    !.th[t].pc = "hold", !.th[t].h = id]

NewVersion(rule, wr, cur) == IF rule = "wr+1" THEN wr + 1 ELSE cur + 1

\* Release(isDirty).  A dirty release is preceded, under the caller's global
\* lock, by a mutation of the shared message: a new content version.
En_Release(S, t) == S.th[t].pc = "hold"
Do_Release(S, t, dirty, rule, g) ==
  LET h == S.th[t].h
      d == S.hs[h].dg
      S1 == IF dirty
            THEN [S EXCEPT !.hs[h].c = @ \cup {S.nu + 1},
                           !.hs[h].cur = NewVersion(rule, S.hs[h].wr, S.hs[h].cur),
                           !.latest[d] = @ \cup {S.nu + 1},
                           !.nu = @ + 1]
            ELSE S
  IN Norm([DecUse(S1, h, g) EXCEPT !.th[t] = IdleThread])

\* Completion of a BlobAccess call, followed at once by the end of Get() if
\* it was the last one and the driver cannot separate the two.
Fin(S, t, g) == IF EagerFinish /\ En_GetFinish(S, t) THEN Do_GetFinish(S, t, g) ELSE S

\* Schedule labels (uniform records; the Go driver executes them).
Lbl(a, t, d, c, ok) == [a |-> a, t |-> t, d |-> d, c |-> c, ok |-> ok]
Rec(l) == hist' = IF RecordHist THEN Append(hist, l) ELSE hist

StoreNext ==
  \E t \in Threads : \E g \in WriteGuards :
    \/ \E d \in Digests :
         /\ En_GetStart(st, t, d) /\ st.ng < MaxGets
         /\ st' = Do_GetStart(st, t, d) /\ Rec(Lbl("get", t, d, 0, TRUE))
    \/ \E ok \in BOOLEAN :
         /\ En_ReadDone(st, t)
         /\ st' = Fin(Do_ReadDone(st, t, ok), t, g) /\ Rec(Lbl("rd", t, st.th[t].dg, 0, ok))
    \/ \E o \in st.th[t].ops :
         \/ /\ En_PutApply(st, t, o)
            /\ st' = Do_PutApply(st, t, o) /\ Rec(Lbl("wa", t, st.hs[o.h].dg, Mask(o.c), TRUE))
         \/ /\ En_WriteDone(st, t, o)
            /\ st' = Fin(Do_WriteDone(st, t, o, g), t, g) /\ Rec(Lbl("wd", t, st.hs[o.h].dg, Mask(o.c), TRUE))
         \/ /\ En_WriteFail(st, t, o)
            /\ st' = Fin(Do_WriteFail(st, t, o, g), t, g) /\ Rec(Lbl("wa", t, st.hs[o.h].dg, Mask(o.c), FALSE))
    \/ /\ ~EagerFinish /\ En_GetFinish(st, t)
       /\ st' = Do_GetFinish(st, t, g) /\ Rec(Lbl("fin", t, st.th[t].dg, 0, TRUE))
    \/ \E dirty \in BOOLEAN : \E r \in VersionRules :
         /\ En_Release(st, t) /\ (dirty => st.nu < MaxUpd)
         /\ st' = Do_Release(st, t, dirty, r, g)
         /\ Rec(Lbl("rel", t, st.hs[st.th[t].h].dg, 0, dirty))

-----------------------------------------------------------------------------
(* Predicates of property C07, part 3 (persistence), on a store state S.   *)

Holders(S, h) == {t \in Threads : /\ S.th[t].h = h
                                  /\ \/ S.th[t].pc = "hold"
                                     \/ S.th[t].pc = "get" /\ S.th[t].ex}

\* useCount = number of references handed out and not yet released.
UseCountBalance(S) == \A h \in 1 .. Len(S.hs) : S.hs[h].use = Cardinality(Holders(S, h))

\* A handle somebody uses is the one the map hands out, and is not queued.
InUseInMap(S) ==
  \A h \in 1 .. Len(S.hs) :
    S.hs[h].use > 0 => S.hmap[S.hs[h].dg] = h /\ ~InQueue(S.queue, h)

\* A handle waiting to be written is still the one in the map.
QueuedInMap(S) == \A i \in 1 .. Len(S.queue) : S.hmap[S.hs[S.queue[i]].dg] = S.queue[i]

Drained(S) == S.queue = <<>> /\ \A t \in Threads : S.th[t].pc = "idle"

\* NO LOST UPDATE: once nothing is queued, in flight or in use, the backing
\* store holds every update that was released.
NoLostUpdate(S) == Drained(S) => \A d \in Digests : S.backing[d] = S.latest[d]

\* Content that has not reached the backing store is carried by a reachable
\* handle that is in use, queued, or has a write in flight whose completion
\* re-evaluates it (so that a failed write is queued again).
Carried(S, d) ==
  \A u \in S.latest[d] \ S.backing[d] :
    \E h \in 1 .. Len(S.hs) :
       /\ S.hs[h].dg = d /\ u \in S.hs[h].c
       /\ \/ S.hs[h].use > 0
          \/ InQueue(S.queue, h)
          \/ Writing(S, h)
PendingCarried(S) == \A d \in Digests : Carried(S, d)

\* A handle stays in the map only for a reason: it is in use, queued, being
\* written, or retained for a Get() that is reading its digest.
NoOrphanHandle(S) ==
  \A d \in Digests : S.hmap[d] # 0 =>
    LET h == S.hmap[d] IN
      S.hs[h].use > 0 \/ InQueue(S.queue, h) \/ Writing(S, h) \/ Readers(S, d) # {}

C07_UseCountBalance == UseCountBalance(st)
C07_InUseInMap      == InUseInMap(st)
C07_QueuedInMap     == QueuedInMap(st)
C07_NoLostUpdate    == NoLostUpdate(st)
C07_PendingCarried  == PendingCarried(st)
NoOrphan            == NoOrphanHandle(st)
\* A write never replaces newer content with older content.
C07_MonotonicWrites == [][\A d \in Digests : st.backing[d] \subseteq st'.backing[d]]_vars

(***************************************************************************)
(*             PART A: selector / learner state machine                    *)
(*                                                                         *)
(* One request at a time (the analyzer keeps no state between requests     *)
(* other than the stats message).  `an` =                                  *)
(*   kind   "idle" | "sel" (Selector obtained) | learner kinds | "done"    *)
(*          feedback driven analyzer:                                      *)
(*            "SF" smallerForegroundLearner  "LF" largestForegroundLearner *)
(*            "LB" largestBackgroundLearner  "SB" smallerBackgroundLearner *)
(*            "L"  largestLearner                                          *)
(*          fallback analyzer: "FS" smallerFallbackLearner,                *)
(*                             "FL" largestFallbackLearner                 *)
(*   az     "fda" | "fb": which analyzer                                   *)
(*   T      the action's timeout (ms)                                      *)
(*   sm     size class remembered by SF / LB (the "smaller" one)           *)
(*   choice last (index, n = length of the list it indexes, timeout,       *)
(*          expected duration) handed to the scheduler                     *)
(*   ret    "select" | "learner" | "nil": what the last call returned      *)
(*   from   which call returned the current learner: "select" | "failed" | *)
(*          "succeeded"                                                    *)
(*   rels   dirty flags of the Release() calls on the stats handle         *)
(*   learned TRUE once an outcome was recorded in the stats message        *)
(*   nretry / nbg  learners returned by Failed / by Succeeded              *)
(***************************************************************************)
CONSTANTS MaxN, MaxT     \* model-checking bounds of part A

PPM == 1000000

FDAKinds == {"SF", "LF", "LB", "SB", "L"}
FBKinds  == {"FS", "FL"}
NoChoice == [idx |-> 0, n |-> 1, to |-> 0, exp |-> 0]

AnInit0 == [kind |-> "idle", az |-> "fda", T |-> 0, sm |-> 0, choice |-> NoChoice,
            ret |-> "nil", from |-> "none", rels |-> <<>>, learned |-> FALSE, nretry |-> 0, nbg |-> 0]

\* A strategy as returned by StrategyCalculator.GetStrategies():
\* [p = probability in ppm, bg = RunInBackground, fto = ForegroundExecutionTimeout]
RECURSIVE SumP(_)
SumP(ss) == IF ss = <<>> THEN 0 ELSE Head(ss).p + SumP(Tail(ss))

\* Each probability in [0,1], the sum at most 1 (slack = rounding to ppm).
ProbabilitiesWF(ss, slack) ==
  /\ \A i \in 1 .. Len(ss) : ss[i].p >= 0 - slack /\ ss[i].p <= PPM + slack
  /\ SumP(ss) <= PPM + slack * (Len(ss) + 1)

\* A strategy that can be drawn and runs in the foreground carries the
\* timeout of the choice.
ForegroundTimeoutsWF(ss, T) ==
  \A i \in 1 .. Len(ss) : (ss[i].p > 0 /\ ~ss[i].bg) => (ss[i].fto >= 0 /\ ss[i].fto <= T)

\* A choice handed to the scheduler: an index of an existing size class and
\* a timeout between zero and the action's own.
ChoiceWF(c, T) == c.idx >= 0 /\ c.idx < c.n /\ c.to >= 0 /\ c.to <= T
ExpectedWF(c) == c.exp >= 0 /\ c.exp <= c.to

Position(sc, x) == CHOOSE i \in 1 .. Len(sc) : sc[i] = x /\ \A j \in 1 .. (i - 1) : sc[j] # x

An_Analyze(A, az, T) == [AnInit0 EXCEPT !.kind = "sel", !.az = az, !.T = T, !.ret = "select"]

Finish(A, released, dirty, learned) ==
  [A EXCEPT !.kind = "done", !.ret = "nil",
            !.rels = IF released /\ A.az = "fda" THEN Append(@, dirty) ELSE @,
            !.learned = @ \/ learned]

\* feedbackDrivenSelector.Select(): `consulted` = the strategy calculator was
\* asked (no recent failure on the largest size class); bucket = position of
\* the strategy the random number fell into (> Len(ss): none, run on largest).
An_SelectFDA(A, sc, consulted, ss, bucket, exp) ==
  LET n == Len(sc) IN
  IF consulted /\ bucket >= 1 /\ bucket <= Len(ss) /\ bucket <= n
  THEN IF ss[bucket].bg
       THEN [A EXCEPT !.kind = "LB", !.ret = "learner", !.from = "select", !.sm = sc[bucket],
                      !.choice = [idx |-> n - 1, n |-> n, to |-> A.T, exp |-> exp]]
       ELSE [A EXCEPT !.kind = "SF", !.ret = "learner", !.from = "select", !.sm = sc[bucket],
                      !.choice = [idx |-> bucket - 1, n |-> n, to |-> ss[bucket].fto, exp |-> exp]]
  ELSE [A EXCEPT !.kind = "L", !.ret = "learner", !.from = "select", !.sm = sc[n],
                 !.choice = [idx |-> n - 1, n |-> n, to |-> A.T, exp |-> exp]]

\* fallbackSelector.Select()
An_SelectFB(A, sc) ==
  [A EXCEPT !.kind = IF Len(sc) > 1 THEN "FS" ELSE "FL", !.ret = "learner", !.from = "select",
            !.choice = [idx |-> 0, n |-> Len(sc), to |-> A.T, exp |-> A.T]]

\* Learner.Succeeded(duration, sizeClasses); bgto = result of
\* GetBackgroundExecutionTimeout() when it is consulted.
An_Succeeded(A, sc2, bgto, exp) ==
  IF A.kind = "LB" /\ \E i \in 1 .. Len(sc2) : sc2[i] = A.sm
  THEN [A EXCEPT !.kind = "SB", !.ret = "learner", !.from = "succeeded", !.nbg = @ + 1, !.learned = TRUE,
                 !.choice = [idx |-> Position(sc2, A.sm) - 1, n |-> Len(sc2), to |-> bgto, exp |-> exp]]
  ELSE Finish(A, TRUE, TRUE, A.az = "fda")

\* Learner.Failed(timedOut): a failure on the size class chosen by Select is
\* retried once on the largest with the action's own timeout.
An_Failed(A, exp) ==
  IF A.kind = "SF"
  THEN [A EXCEPT !.kind = "LF", !.ret = "learner", !.from = "failed", !.nretry = @ + 1,
                 !.choice = [idx |-> @.n - 1, n |-> @.n, to |-> A.T, exp |-> exp]]
  ELSE IF A.kind = "FS"
  THEN [A EXCEPT !.kind = "FL", !.ret = "learner", !.from = "failed", !.nretry = @ + 1,
                 !.choice = [idx |-> @.n - 1, n |-> @.n, to |-> A.T, exp |-> A.T]]
  ELSE Finish(A, TRUE, TRUE, A.az = "fda")

\* Selector.Abandoned() / Learner.Abandoned(): nothing was learned, except
\* that smallerBackgroundLearner still has the foreground outcome to save.
An_Abandoned(A) == Finish(A, TRUE, A.kind = "SB", FALSE)

-----------------------------------------------------------------------------
(* Bounded instance of part A for TLC: strategies are arbitrary well-formed *)
(* values (the numeric quality of the PageRank iteration is out of reach);  *)
(* the size class list may change between Select and Succeeded as long as   *)
(* the largest size class stays.                                            *)

RECURSIVE Ascending(_)
Ascending(sc) == Len(sc) <= 1 \/ (sc[1] < sc[2] /\ Ascending(Tail(sc)))
SizeClassLists == UNION {{sc \in [1 .. k -> 1 .. MaxN] : Ascending(sc)} : k \in 1 .. MaxN}
Strategies(T) == [p : {0, 300000, 1000000}, bg : BOOLEAN, fto : 0 .. T]
\* a strategy list in which only position b can be drawn
OnlyAt(b, s) == [i \in 1 .. b |-> IF i = b THEN s ELSE [p |-> 0, bg |-> FALSE, fto |-> 0]]

AnNext ==
  \/ /\ an.kind \in {"idle", "done"}
     /\ \E az \in {"fda", "fb"} : \E T \in 0 .. MaxT : an' = An_Analyze(an, az, T)
  \/ /\ an.kind = "sel"
     /\ \/ an' = An_Abandoned(an)
        \/ \E sc \in SizeClassLists :
             IF an.az = "fb" THEN an' = An_SelectFB(an, sc)
             ELSE \E consulted \in BOOLEAN : \E b \in 1 .. (Len(sc) + 1) : \E s \in Strategies(an.T) :
                    \E e \in 0 .. an.T :
                      /\ s.p > 0
                      /\ LET nxt == An_SelectFDA(an, sc, consulted, OnlyAt(b, s), b, 0)
                         IN e <= nxt.choice.to /\ an' = [nxt EXCEPT !.choice.exp = e]
  \/ /\ an.kind \in FDAKinds \cup FBKinds
     /\ \/ an' = An_Abandoned(an)
        \/ \E e \in 0 .. an.T : an' = An_Failed(an, e)
        \/ \E sc2 \in SizeClassLists : \E bgto \in 0 .. an.T : \E e \in 0 .. bgto :
             an' = An_Succeeded(an, sc2, bgto, e)

AnalyzerSpec == an = AnInit0 /\ st = StoreInit0 /\ hist = <<>> /\ [][AnNext /\ UNCHANGED <<st, hist>>]_vars

(* Predicates of property C07, part 2 (well-formed choices).               *)
C07_ChoiceWellFormed == an.ret = "learner" => ChoiceWF(an.choice, an.T)
C07_ExpectedWithinTimeout == an.ret = "learner" => ExpectedWF(an.choice)
\* A failure is retried at most once, a success triggers at most one
\* background run.
C07_RetryOnce == an.nretry <= 1 /\ an.nbg <= 1 /\ (an.nretry = 0 \/ an.nbg = 0)
\* The stats handle is released exactly once, by the call that ends the
\* request; recorded outcomes are released dirty.
C07_HandleReleasedOnce ==
  /\ an.kind # "done" => an.rels = <<>>
  /\ an.kind = "done" => Len(an.rels) = (IF an.az = "fda" THEN 1 ELSE 0)
C07_LearnedIsDirty == (an.kind = "done" /\ an.learned) => an.rels = <<TRUE>>

StoreSpec == st = StoreInit0 /\ an = AnInit0 /\ hist = <<>> /\ [][StoreNext /\ UNCHANGED an]_vars
StoreView == st
StoreSym == Permutations(Threads) \cup Permutations(Digests)
=============================================================================
