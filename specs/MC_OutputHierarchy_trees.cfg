\* Every tree of depth <= 2 over two names (files +/-x, symlinks, a special
\* file, empty and identical repeated subdirectories) against the commands
\* with at most one output path of <= 1 component and a working directory
\* of <= 1 component.
SPECIFICATION Spec
CONSTANTS
  Names = {"a", "b"}
  MaxWD = 1
  MaxPaths = 1
  MaxLen = 1
  K1Kinds = {"none", "fx", "f-", "l", "s", "d"}
  K2Kinds = {"none", "fx", "f-", "l", "d"}
  PickedOnly = FALSE
  PreAll = FALSE
INVARIANTS
  TypeOK
  C10_EscapesRejected
  C10_ParentsExistBeforeRun
  C10_Reported
  C10_Trees
  L_Resolve
  L_EscapeIsFinal
  L_ParentDirs
  L_TreesOK
  L_Expected
  L_CanonTree
VIEW
  CaseView
CHECK_DEADLOCK FALSE
