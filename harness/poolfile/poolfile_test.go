package poolfile

// Drivers for property C16. Every driver produces traces through the
// engine in world_test.go: one operation is started per step, the
// engine waits (testing/synctest) until every goroutine has returned or
// is parked inside the real code or at one of the harness' gates, and
// logs a quiescent snapshot. Interleavings are therefore explored at the
// places where the real code gives up its lock: the wait for writers,
// lockMutatingData's wait for unfreeze, and the CAS transfer (two gated
// halves).

import (
	"fmt"
	"math/rand"
	"os"
	"testing"

	"verif/harness/common"
)

// step is one move of the driver.
type step struct {
	kind  string // operation name, or "release" / "delay" / "fault"
	f     int
	mask  string
	trunc bool
	off   int
	data  []byte
	n     int
	mode  string
	df    string // digest function asked for (upload, stat)
	gated bool
	fd    *fdCtl     // descriptor used (close/read/write, path ops via fd)
	rd    *readerCtl // frozen reader used
	op    *opCtl     // upload to release
	then  string     // refreeze / release-then: what freezes the file again ("fopen" | "upload")
	pin   bool       // path based mutator relying on the directory entry
}

func (s step) String() string {
	return fmt.Sprintf("%s f%d m=%s t=%v off=%d data=%v n=%d mode=%s g=%v", s.kind, s.f+1, s.mask, s.trunc, s.off, s.data, s.n, s.mode, s.gated)
}

// apply performs a step.
func (w *world) apply(s step) {
	switch s.kind {
	case "release":
		w.release(s.op)
		return
	case "refreeze":
		// Back-to-back freezes: close frozen reader A and freeze the file
		// again before anybody woken by the close can run.
		s.rd.busy = true
		closeA := &opCtl{op: "fclose", f: s.f, ref: s.rd.id, reader: s.rd}
		if s.then == "upload" {
			w.startChain(closeA, &opCtl{op: "upload", f: s.f, mode: "ok", df: s.df, gated: true})
		} else {
			openB := &opCtl{op: "fopen", f: s.f}
			w.startChain(closeA, openB, &opCtl{op: "fread", f: s.f, off: 0, n: maxSize, from: openB})
		}
		return
	case "release-then":
		// The same with an upload as the first freeze: it finishes, and
		// the next upload starts in its goroutine.
		w.releaseChain(s.op, &opCtl{op: "upload", f: s.f, mode: "ok", df: s.df, gated: true})
		return
	case "delay":
		w.fireDelay()
		return
	case "fault":
		w.injectReadFault(s.f)
		return
	}
	o := &opCtl{op: s.kind, f: s.f, mask: s.mask, trunc: s.trunc, off: s.off, data: s.data, n: s.n, mode: s.mode, df: s.df, gated: s.gated}
	if s.fd != nil {
		o.fd = s.fd
		s.fd.busy = true
		if s.kind == "setsize" || s.kind == "allocate" || s.kind == "setperm" {
			o.viaFd = true
		}
	}
	if s.rd != nil {
		o.reader = s.rd
		o.ref = s.rd.id
		s.rd.busy = true
	}
	if s.pin {
		o.pinnedLink = true
		w.files[s.f].pinned++
	}
	w.start(o)
}

// believedAlive: does the driver hold anything that keeps f alive?
func (w *world) believedAlive(f int) bool {
	fc := w.files[f]
	if fc.links > 0 || len(fc.fds) > 0 {
		return true
	}
	for _, r := range w.readers {
		if r.f == f {
			return true
		}
	}
	for _, o := range w.ops {
		if o.op == "upload" && o.f == f && o.gate() != "" {
			return true
		}
	}
	return false
}

// mayRefreeze: a new freeze of f would not have to wait for writers (the
// operation that follows in a chain must not park before it has frozen).
func (w *world) mayRefreeze(f int) bool {
	fc := w.files[f]
	if fc.leaf == nil || fc.links == 0 {
		return false
	}
	if w.delayFired {
		return true
	}
	for _, fd := range fc.fds {
		if fd.mask != "r" {
			return false
		}
	}
	for _, o := range w.ops {
		if o.f == f && (o.op == "open" || o.op == "create") && o.mask != "r" && o.mask != "" {
			return false
		}
	}
	return true
}

// parkedMutators counts the pending content-changing calls on f.
func (w *world) parkedMutators(f int) int {
	n := 0
	for _, o := range w.ops {
		if o.f == f && !o.done.Load() && (o.op == "write" || o.op == "setsize" || o.op == "allocate" || (o.op == "open" && o.trunc)) {
			n++
		}
	}
	return n
}

func (w *world) pendingCount(kinds ...string) int {
	n := 0
	for _, o := range w.ops {
		for _, k := range kinds {
			if o.op == k {
				n++
			}
		}
	}
	return n
}

// level controls how rich the set of moves is.
type level struct {
	enum     bool // tiny fixed alphabet (exhaustive enumeration)
	maxFds   int
	maxLinks int
}

func randData(rng *rand.Rand, n int) []byte {
	b := make([]byte, n)
	for i := range b {
		b[i] = byte(1 + rng.Intn(maxByte))
	}
	return b
}

// enabled lists the legal moves in the driver's current state. Calling
// convention: descriptors are closed once, by their holder; read needs a
// readable and write a writable descriptor; Unlink needs a link; a path
// based set-size/allocate keeps its directory entry (or uses a
// descriptor) for the duration of the call; on a file the driver holds
// nothing of, only operations that must fail cleanly are issued.
func (w *world) enabled(lv level, nfiles int, rng *rand.Rand) []step {
	var out []step
	add := func(s step) { out = append(out, s) }
	for f := 0; f < nfiles; f++ {
		fc := w.files[f]
		if fc.leaf == nil {
			if w.pendingCount("create") > 0 {
				continue
			}
			if lv.enum {
				add(step{kind: "create", f: f, mask: ""})
				add(step{kind: "create", f: f, mask: "w"})
			} else {
				add(step{kind: "create", f: f, mask: []string{"", "r", "w", "rw"}[rng.Intn(4)], n: []int{0, 0, 0, 2}[rng.Intn(4)]})
			}
			continue
		}
		uploads := w.pendingCount("upload")
		fopens := w.pendingCount("fopen") + len(w.readers)
		if !w.believedAlive(f) {
			// only calls that must fail cleanly
			add(step{kind: "link", f: f})
			add(step{kind: "open", f: f, mask: "r"})
			add(step{kind: "getattr", f: f})
			add(step{kind: "stat", f: f})
			if uploads < 2 {
				add(step{kind: "upload", f: f, mode: "ok"})
			}
			if fopens < 2 {
				add(step{kind: "fopen", f: f})
			}
			continue
		}
		// descriptors
		if len(fc.fds) < lv.maxFds {
			if lv.enum {
				add(step{kind: "open", f: f, mask: "r"})
				add(step{kind: "open", f: f, mask: "w"})
			} else {
				add(step{kind: "open", f: f, mask: []string{"r", "w", "rw"}[rng.Intn(3)]})
				add(step{kind: "open", f: f, mask: []string{"w", "rw"}[rng.Intn(2)], trunc: true})
			}
		}
		seenMask := map[string]bool{}
		var freeFd, rFd, wFd *fdCtl
		for _, fd := range fc.fds {
			if fd.busy {
				continue
			}
			freeFd = fd
			if fd.mask != "w" && rFd == nil {
				rFd = fd
			}
			if fd.mask != "r" && wFd == nil {
				wFd = fd
			}
			if !seenMask[fd.mask] {
				seenMask[fd.mask] = true
				add(step{kind: "close", f: f, mask: fd.mask, fd: fd})
			}
		}
		// links
		if fc.links > 0 && fc.links < lv.maxLinks {
			add(step{kind: "link", f: f})
		}
		if fc.links == 0 && !lv.enum {
			add(step{kind: "link", f: f}) // unlinked but open
		}
		if fc.links > 0 && !(fc.links == 1 && fc.pinned > 0) {
			add(step{kind: "unlink", f: f})
		}
		// data
		if wFd != nil {
			if lv.enum {
				add(step{kind: "write", f: f, off: 0, data: []byte{1, 2}, fd: wFd})
			} else {
				n := 1 + rng.Intn(3)
				off := rng.Intn(maxSize - n + 1)
				add(step{kind: "write", f: f, off: off, data: randData(rng, n), fd: wFd})
				add(step{kind: "write", f: f, off: 0, data: randData(rng, 2+rng.Intn(2)), fd: wFd})
			}
		}
		if rFd != nil && !lv.enum {
			add(step{kind: "read", f: f, off: rng.Intn(4), n: 1 + rng.Intn(maxSize), fd: rFd})
		}
		// path based mutators
		if fc.links > 0 || freeFd != nil {
			var via *fdCtl
			pin := fc.links > 0
			if !pin {
				via = freeFd
			}
			if lv.enum {
				add(step{kind: "setsize", f: f, n: 1, fd: via, pin: pin})
			} else {
				add(step{kind: "setsize", f: f, n: rng.Intn(maxSize + 1), fd: via, pin: pin})
				off := rng.Intn(maxSize)
				add(step{kind: "allocate", f: f, off: off, n: rng.Intn(maxSize - off + 1), fd: via, pin: pin})
				if rng.Intn(3) == 0 {
					add(step{kind: "setperm", f: f, fd: via, pin: pin})
				}
			}
		}
		if !lv.enum {
			add(step{kind: "getattr", f: f})
		}
		// the digest function asked for varies: a memoised digest of one
		// function must not be handed out for another one
		df := ""
		if !lv.enum {
			df = []string{"sha256", "sha256", "md5"}[rng.Intn(3)]
		}
		add(step{kind: "stat", f: f, df: df})
		// uploads and frozen readers
		if uploads < 2 {
			if lv.enum {
				add(step{kind: "upload", f: f, mode: "ok", gated: true})
			} else {
				mode := []string{"ok", "ok", "ok", "fail_after", "fail_before"}[rng.Intn(5)]
				add(step{kind: "upload", f: f, mode: mode, df: df, gated: true})
				add(step{kind: "upload", f: f, mode: mode, df: []string{"sha256", "md5"}[rng.Intn(2)], gated: rng.Intn(2) == 0})
			}
		}
		if fopens < 2 && !lv.enum {
			add(step{kind: "fopen", f: f})
		}
		if !lv.enum && rng.Intn(8) == 0 && w.pendingCount("upload", "fopen") == 0 {
			add(step{kind: "fault", f: f})
		}
	}
	for _, r := range w.readers {
		if !r.busy {
			add(step{kind: "fread", f: r.f, off: rng.Intn(3), n: 1 + rng.Intn(maxSize), rd: r})
			add(step{kind: "fclose", f: r.f, rd: r})
			if !lv.enum && w.mayRefreeze(r.f) {
				// twice when a mutator is parked behind the reader
				for i := 0; i < 1+w.parkedMutators(r.f); i++ {
					add(step{kind: "refreeze", f: r.f, rd: r, then: []string{"fopen", "upload"}[rng.Intn(2)]})
				}
			}
		}
	}
	for id := 1; id < w.nextID; id++ {
		if o, ok := w.ops[id]; ok && o.gate() != "" {
			add(step{kind: "release", f: o.f, op: o})
			if !lv.enum {
				add(step{kind: "release", f: o.f, op: o})
				if o.gate() == "B" && o.next == nil && w.mayRefreeze(o.f) && w.parkedMutators(o.f) > 0 {
					add(step{kind: "release-then", f: o.f, op: o})
					add(step{kind: "release-then", f: o.f, op: o, df: "md5"})
				}
			}
		}
	}
	if !w.delayFired && (!lv.enum || w.pendingCount("upload") > 0) {
		add(step{kind: "delay"})
	}
	return out
}

func allocName(i int) string {
	if i%2 == 0 {
		return "fuse"
	}
	return "nfs"
}

// TestRandom: seeded random histories (one operation per step; blocked
// operations stay pending while later steps run).
func TestRandom(t *testing.T) {
	traces := common.EnvInt("VERIF_N", 200)
	steps := common.EnvInt("VERIF_STEPS", 30)
	tr := common.NewTrace("trace.ndjson")
	defer tr.Close()
	defer startWatchdog(tr)()
	total := 0
	for i := 0; i < traces; i++ {
		rng := common.Rand(int64(i))
		nfiles := 1
		if rng.Intn(4) == 0 {
			nfiles = 2
		}
		lv := level{maxFds: 3, maxLinks: 3}
		total += runTrace(t, tr, i, allocName(i), i%4 >= 2, nfiles, func(w *world) {
			for j := 0; j < steps; j++ {
				en := w.enabled(lv, nfiles, rng)
				if len(en) == 0 {
					break
				}
				w.apply(en[rng.Intn(len(en))])
			}
		})
	}
	common.WriteJSON("meta.json", map[string]any{"traces": traces, "steps": steps, "events": total})
}

// TestEnumerate: every history of legal moves up to a fixed depth over
// a small alphabet, on one file (depth-first; every path is re-run from
// scratch on a fresh object, leaves are logged).
func TestEnumerate(t *testing.T) {
	depth := common.EnvInt("VERIF_DEPTH", 3)
	tr := common.NewTrace("trace.ndjson")
	defer tr.Close()
	defer startWatchdog(tr)()
	lv := level{enum: true, maxFds: 2, maxLinks: 2}
	rng := rand.New(rand.NewSource(1)) // parameters are fixed at this level
	leaves, nodes := 0, 0
	// run replays the choices; returns the number of moves enabled after them.
	run := func(choices []int, log *common.Trace, alloc string) int {
		width := 0
		runTrace(t, log, leaves, alloc, leaves%4 >= 2, 1, func(w *world) {
			// The file always exists: creation with/without a
			// writable descriptor is the first choice.
			for _, c := range choices {
				en := w.enabled(lv, 1, rng)
				if c >= len(en) {
					// the real code did not behave the same way
					// twice; what was logged so far stands
					break
				}
				w.apply(en[c])
			}
			width = len(w.enabled(lv, 1, rng))
		})
		return width
	}
	var explore func(choices []int)
	explore = func(choices []int) {
		nodes++
		if len(choices) == depth {
			run(choices, tr, allocName(leaves))
			leaves++
			return
		}
		width := run(choices, nil, "fuse")
		if width == 0 {
			run(choices, tr, allocName(leaves))
			leaves++
			return
		}
		for c := 0; c < width; c++ {
			explore(append(append([]int(nil), choices...), c))
		}
	}
	explore(nil)
	common.WriteJSON("meta.json", map[string]any{"depth": depth, "histories": leaves, "nodes": nodes, "exhaustive": true})
}

// ---------------------------------------------------------------------
// Scripted concurrent scenarios.

// sc is a tiny scripting layer over world for readable scenarios.
type sc struct {
	w *world
}

// fd finds a free descriptor with the given mask. If the real code went
// off the script (a call that should have returned did not, or panicked)
// there may be none: the step is then skipped, the trace so far stands.
func (s sc) fd(f int, mask string) *fdCtl {
	for _, fd := range s.w.files[f].fds {
		if fd.mask == mask && !fd.busy {
			return fd
		}
	}
	return nil
}

func (s sc) exists(f int) bool { return s.w.files[f].leaf != nil }

func (s sc) create(f int, mask string, size int) {
	s.w.apply(step{kind: "create", f: f, mask: mask, n: size})
}

func (s sc) open(f int, mask string, trunc bool) {
	if s.exists(f) {
		s.w.apply(step{kind: "open", f: f, mask: mask, trunc: trunc})
	}
}

func (s sc) close(f int, mask string) {
	if fd := s.fd(f, mask); fd != nil {
		s.w.apply(step{kind: "close", f: f, mask: mask, fd: fd})
	}
}

func (s sc) link(f int) {
	if s.exists(f) {
		s.w.apply(step{kind: "link", f: f})
	}
}

func (s sc) unlink(f int) {
	if s.exists(f) && s.w.files[f].links > 0 {
		s.w.apply(step{kind: "unlink", f: f})
	}
}

func (s sc) write(f int, mask string, off int, data ...byte) {
	if fd := s.fd(f, mask); fd != nil {
		s.w.apply(step{kind: "write", f: f, off: off, data: data, fd: fd})
	}
}

func (s sc) read(f int, mask string, off, n int) {
	if fd := s.fd(f, mask); fd != nil {
		s.w.apply(step{kind: "read", f: f, off: off, n: n, fd: fd})
	}
}

func (s sc) setsize(f, n int, pin bool) {
	if s.exists(f) {
		s.w.apply(step{kind: "setsize", f: f, n: n, pin: pin})
	}
}

func (s sc) allocate(f, off, n int, pin bool) {
	if s.exists(f) {
		s.w.apply(step{kind: "allocate", f: f, off: off, n: n, pin: pin})
	}
}

func (s sc) getattr(f int) {
	if s.exists(f) {
		s.w.apply(step{kind: "getattr", f: f})
	}
}

func (s sc) stat(f int) {
	if s.exists(f) {
		s.w.apply(step{kind: "stat", f: f})
	}
}

func (s sc) statWith(f int, df string) {
	if s.exists(f) {
		s.w.apply(step{kind: "stat", f: f, df: df})
	}
}

func (s sc) uploadWith(f int, df string) {
	if s.exists(f) {
		s.w.apply(step{kind: "upload", f: f, mode: "ok", df: df})
	}
}

func (s sc) upload(f int, mode string, gated bool) *opCtl {
	if !s.exists(f) {
		return nil
	}
	s.w.apply(step{kind: "upload", f: f, mode: mode, gated: gated})
	return s.w.lastOp
}

func (s sc) fopen(f int) {
	if s.exists(f) {
		s.w.apply(step{kind: "fopen", f: f})
	}
}

func (s sc) reader(f int) *readerCtl {
	for _, r := range s.w.readers {
		if r.f == f && !r.busy {
			return r
		}
	}
	return nil
}

func (s sc) fread(f, off, n int) {
	if r := s.reader(f); r != nil {
		s.w.apply(step{kind: "fread", f: f, off: off, n: n, rd: r})
	}
}

func (s sc) fclose(f int) {
	if r := s.reader(f); r != nil {
		s.w.apply(step{kind: "fclose", f: f, rd: r})
	}
}

// refreeze closes the frozen reader of f and freezes f again at once.
func (s sc) refreeze(f int, then string) *opCtl {
	r := s.reader(f)
	if r == nil || !s.w.mayRefreeze(f) {
		return nil
	}
	s.w.apply(step{kind: "refreeze", f: f, rd: r, then: then})
	return s.w.lastOp
}

// releaseThen lets upload o finish and starts the next upload at once.
func (s sc) releaseThen(o *opCtl) *opCtl {
	if o == nil || o.done.Load() || o.gate() != "B" || !s.w.mayRefreeze(o.f) {
		return nil
	}
	s.w.apply(step{kind: "release-then", f: o.f, op: o})
	return s.w.lastOp
}

func (s sc) release(o *opCtl) {
	if o != nil && !o.done.Load() && o.gate() != "" {
		s.w.release(o)
	}
}

func (s sc) delay() {
	if !s.w.delayFired {
		s.w.fireDelay()
	}
}

func (s sc) fault(f int) {
	if s.exists(f) && s.w.files[f].pf != nil {
		s.w.injectReadFault(f)
	}
}

type scenario struct {
	name   string
	nfiles int
	body   func(s sc)
}

var scenarios = []scenario{
	{"writer-slips-between-halves", 1, func(s sc) {
		s.create(0, "w", 0)
		s.write(0, "w", 0, 1, 2, 3, 1)
		s.close(0, "w")
		u := s.upload(0, "ok", true) // at gate A: hashed, nothing read
		s.open(0, "w", false)
		s.write(0, "w", 0, 3, 3, 3, 3) // must park
		s.release(u)                   // first half read
		s.open(0, "rw", false)
		s.write(0, "rw", 2, 2, 2) // must park too
		s.setsize(0, 1, true)     // and a truncate by path
		s.release(u)              // second half, close; writers resume
		s.stat(0)
		s.close(0, "w")
		s.close(0, "rw")
		u2 := s.upload(0, "ok", true) // the memoised digest must be gone
		s.release(u2)
		s.release(u2)
		s.stat(0)
	}},
	{"upload-waits-for-writer-close", 1, func(s sc) {
		s.create(0, "rw", 0)
		s.write(0, "rw", 0, 1, 1)
		u := s.upload(0, "ok", true) // parks: writable descriptor
		s.write(0, "rw", 2, 2)       // still allowed
		s.open(0, "w", false)
		s.close(0, "rw") // one writer left
		s.close(0, "w")  // none: upload proceeds to gate A
		s.release(u)
		s.release(u)
	}},
	{"bounded-wait-then-writer-blocked", 1, func(s sc) {
		s.create(0, "w", 2)
		s.write(0, "w", 0, 3, 1)
		u := s.upload(0, "ok", true)
		u2 := s.upload(0, "ok", true)
		s.delay() // both proceed although the writer is still there
		s.write(0, "w", 0, 2, 2, 2)
		s.release(u)
		s.release(u2)
		s.release(u)
		s.release(u2)
		s.release(u)
		s.release(u2)
		s.close(0, "w")
	}},
	{"file-dies-while-upload-waits", 1, func(s sc) {
		s.create(0, "w", 0)
		s.write(0, "w", 0, 1)
		s.unlink(0)
		s.upload(0, "ok", false) // parks
		s.fopen(0)               // parks
		s.close(0, "w")          // last reference: both must report not found
		s.link(0)
		s.open(0, "r", false)
		s.stat(0)
		s.getattr(0)
	}},
	{"upload-is-last-reference", 1, func(s sc) {
		s.create(0, "", 3)
		u := s.upload(0, "ok", true)
		s.unlink(0) // alive only through the upload
		s.open(0, "r", false)
		s.link(0)
		s.release(u)
		s.close(0, "r")
		s.release(u) // frozen close releases the storage
		s.open(0, "r", false)
		s.upload(0, "ok", false)
	}},
	{"two-uploads-share-digest", 1, func(s sc) {
		s.create(0, "w", 0)
		s.write(0, "w", 1, 2, 3)
		s.close(0, "w")
		u1 := s.upload(0, "ok", true)
		u2 := s.upload(0, "fail_after", true)
		s.release(u1)
		s.release(u2)
		s.open(0, "w", true) // O_TRUNC parks
		s.release(u1)
		s.release(u2)
		s.stat(0)
		u3 := s.upload(0, "ok", true) // writer open: waits
		s.close(0, "w")
		s.release(u3)
		s.release(u3)
	}},
	{"frozen-reader-blocks-writers", 1, func(s sc) {
		s.create(0, "rw", 0)
		s.write(0, "rw", 0, 1, 2, 3)
		s.fopen(0) // parks: writer
		s.close(0, "rw")
		s.fread(0, 0, 6)
		s.open(0, "rw", false)
		s.write(0, "rw", 1, 3, 3) // parks
		s.allocate(0, 2, 4, true) // parks
		s.fread(0, 1, 2)
		s.fopen(0) // second frozen reader has to wait for the writer: delay
		s.delay()
		s.fclose(0)
		s.fread(0, 0, 6)
		s.fclose(0) // writers resume
		s.read(0, "rw", 0, 6)
		s.close(0, "rw")
		s.stat(0)
	}},
	{"put-failures-and-read-fault", 1, func(s sc) {
		s.create(0, "w", 0)
		s.write(0, "w", 0, 2, 1, 2)
		s.close(0, "w")
		s.fault(0)
		s.upload(0, "ok", false) // hashing fails: frozen view must be closed
		u := s.upload(0, "fail_before", true)
		s.open(0, "w", false)
		s.write(0, "w", 0, 1) // parks
		s.release(u)          // discarded unread
		s.close(0, "w")
		u = s.upload(0, "fail_after", true)
		s.release(u)
		s.release(u)
		s.upload(0, "ok", false)
		s.unlink(0)
	}},
	{"stat-and-cache", 1, func(s sc) {
		s.create(0, "", 2)
		s.stat(0)
		s.open(0, "w", false)
		s.stat(0) // no digest while writable
		s.write(0, "w", 0, 1, 1)
		s.close(0, "w")
		s.stat(0)
		s.setsize(0, 1, true)
		s.stat(0)
		s.allocate(0, 0, 1, true) // no growth
		s.stat(0)
		s.allocate(0, 1, 2, true)
		s.upload(0, "ok", false)
		s.open(0, "w", true)
		s.close(0, "w")
		s.upload(0, "ok", false)
	}},
	{"frozen-again-before-the-writer-resumes", 1, func(s sc) {
		s.create(0, "", 3)
		s.fopen(0)            // frozen reader A
		s.setsize(0, 5, true) // parks behind A
		s.allocate(0, 4, 2, true)
		s.refreeze(0, "fopen") // A closed, B opened and read before the woken calls run
		s.fread(0, 0, 6)       // B still shows what it showed
		s.getattr(0)
		s.refreeze(0, "fopen") // and once more
		s.fread(0, 1, 4)
		s.fclose(0) // now they resume
		s.getattr(0)
		s.stat(0)
	}},
	{"frozen-again-with-a-writer", 1, func(s sc) {
		s.create(0, "w", 0)
		s.write(0, "w", 0, 1, 2, 3)
		s.fopen(0)                     // waits for the writer
		s.delay()                      // ... until the delay expires: reader A
		s.write(0, "w", 0, 3, 3, 3, 3) // parks behind A
		s.refreeze(0, "fopen")
		s.fread(0, 0, 6)
		u := s.refreeze(0, "upload") // B closed, upload freezes at once; at gate A
		s.release(u)
		s.release(u) // the writer resumes
		s.read(0, "w", 0, 6)
		s.close(0, "w")
		s.stat(0)
	}},
	{"upload-after-upload-with-parked-writer", 1, func(s sc) {
		s.create(0, "", 4)
		u1 := s.upload(0, "ok", true) // memoises the digest; at gate A
		s.release(u1)                 // first half read; at gate B
		s.setsize(0, 2, true)         // parks behind u1
		u2 := s.releaseThen(u1)       // u1 finishes, u2 freezes at once (memoised digest); at gate A
		s.getattr(0)
		s.release(u2)
		s.release(u2) // the truncation resumes
		s.getattr(0)
		u3 := s.upload(0, "ok", true)
		s.release(u3)
		s.release(u3)
	}},
	{"digest-function-changes", 1, func(s sc) {
		s.create(0, "w", 0)
		s.write(0, "w", 0, 1, 2, 3)
		s.close(0, "w")
		s.uploadWith(0, "sha256") // memoises the SHA-256 digest
		s.uploadWith(0, "md5")    // must be the MD5 digest of the same bytes
		s.statWith(0, "sha256")
		s.statWith(0, "md5")
		s.uploadWith(0, "md5")
		s.uploadWith(0, "sha256")
	}},
	{"contents-outlive-the-last-name", 1, func(s sc) {
		s.create(0, "rw", 0)
		s.write(0, "rw", 0, 1, 2, 3)
		s.unlink(0) // only the descriptor is left: the contents stay
		s.read(0, "rw", 0, 6)
		s.getattr(0)
		s.write(0, "rw", 3, 2)
		s.fopen(0) // waits for the writer
		s.close(0, "rw")
		s.fread(0, 0, 6) // only the frozen reader is left
		s.fclose(0)
	}},
	{"dead-file-calls", 1, func(s sc) {
		s.create(0, "r", 1)
		s.link(0)
		s.unlink(0)
		s.unlink(0)
		s.link(0) // unlinked but open
		s.getattr(0)
		s.close(0, "r")
		s.link(0)
		s.getattr(0)
		s.open(0, "rw", true)
		s.upload(0, "ok", false)
		s.fopen(0)
		s.stat(0)
	}},
	{"two-files-independent", 2, func(s sc) {
		s.create(0, "w", 0)
		s.create(1, "w", 0)
		s.write(0, "w", 0, 1, 1)
		s.write(1, "w", 0, 2, 2)
		s.close(0, "w")
		u := s.upload(0, "ok", true)
		s.write(1, "w", 1, 3) // other file: not blocked
		s.unlink(1)
		s.close(1, "w") // f2 dies while f1 is frozen
		s.release(u)
		s.upload(1, "ok", false)
		s.release(u)
	}},
}

// TestScenarios: the scripted scenarios, each with both handle allocators.
func TestScenarios(t *testing.T) {
	tr := common.NewTrace("trace.ndjson")
	defer tr.Close()
	defer startWatchdog(tr)()
	only := os.Getenv("VERIF_SCENARIO")
	n := 0
	for _, scn := range scenarios {
		if only != "" && only != scn.name {
			continue
		}
		for a := 0; a < 4; a++ {
			runTrace(t, tr, n, allocName(a), a >= 2, scn.nfiles, func(w *world) { scn.body(sc{w}) })
			n++
		}
	}
	common.WriteJSON("meta.json", map[string]any{"traces": n})
}

// TestDeadDataOps: a path based set-size / allocate is called while the
// file still has its directory entry, parks behind an upload, the entry
// is removed, and the upload finishes: the parked call resumes on a file
// whose last reference is gone.
func TestDeadDataOps(t *testing.T) {
	tr := common.NewTrace("trace.ndjson")
	defer tr.Close()
	defer startWatchdog(tr)()
	n := 0
	for _, kind := range []string{"setsize", "allocate"} {
		for _, a := range []int{0, 3} { // fuse + leaf, nfs + build directory
			runTrace(t, tr, n, allocName(a), a >= 2, 1, func(w *world) {
				s := sc{w}
				s.create(0, "", 2)
				u := s.upload(0, "ok", true)
				if kind == "setsize" {
					s.setsize(0, 4, false)
				} else {
					s.allocate(0, 1, 3, false)
				}
				s.unlink(0)
				s.release(u)
				s.release(u)
			})
			n++
		}
	}
	common.WriteJSON("meta.json", map[string]any{"traces": n})
}
