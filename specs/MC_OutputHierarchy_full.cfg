\* Thorough tier: every command of MC_OutputHierarchy.cfg against every
\* tree with files and directories at depth 1 and symlinks at depth 2.
SPECIFICATION Spec
CONSTANTS
  Names = {"a", "b"}
  MaxWD = 2
  MaxPaths = 2
  MaxLen = 2
  K1Kinds = {"none", "fx", "d"}
  K2Kinds = {"none", "l"}
  PickedOnly = FALSE
  PreAll = TRUE
INVARIANTS
  TypeOK
  C10_EscapesRejected
  C10_ParentsExistBeforeRun
  C10_Reported
  C10_Trees
  L_Resolve
  L_EscapeIsFinal
  L_ParentDirs
  L_TreesOK
  L_Expected
  L_CanonTree
VIEW
  CaseView
CHECK_DEADLOCK FALSE
