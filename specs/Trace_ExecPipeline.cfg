SPECIFICATION TraceSpec
CONSTANTS
  Blobs = {"b1", "b2", "b3"}
  MaxPuts = 3
  BatchSizes = {1}
  Sems = {1}
INVARIANTS
  VerdictOK
  C09_AC
  C09_Error
  C09_Ack
  C09_Buffers
  NonconfReport
POSTCONDITION Accepted
CHECK_DEADLOCK FALSE
