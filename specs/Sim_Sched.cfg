SPECIFICATION SimSpec
CONSTANTS
  Workers = {w1, w2}
  Clients = {c1, c2, c3}
  Digests = {d1, d3}
  NoCache = {d3}
  Invs = {"i1", "i2"}
  MaxTasks = 3
  MaxOps = 4
  RetryLimit = 1
  Predeclared = TRUE
  AllowRequeue = FALSE
  Features = {"nocleanup", "cancel", "sendfail", "kill", "drain", "terminate", "wrong", "preferidle", "fail", "wait"}
  SimDepth = 40
INVARIANTS
  Dump
CHECK_DEADLOCK FALSE
