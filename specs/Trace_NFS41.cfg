SPECIFICATION TraceSpec
CONSTANTS
  Owners = {"A", "B", "C"}
  Vers = {1, 2, 3}
  OOs = {"o1", "o2", "o3"}
  LOs = {"l1", "l2"}
  Names = {"a", "b", "c"}
  MaxFile = 10
  N = 4
  NSlots = 2
  MaxOps = 8
  Lease = 10
  SessIds = {1, 2, 3, 4, 5, 6, 7, 8, 9, 10, 11, 12, 13, 14, 15, 16}
  Ctxs = {1, 2, 3, 4}
  Deferred = FALSE
  InitFH <- NoFH
  MaxOther = 0
  MaxSeq = 0
  MaxClock = 0
  MaxAcc = 0
  Family = "none"
INVARIANTS
  VerdictOK
  NonconfReport
ALIAS TraceAlias
POSTCONDITION Accepted
CHECK_DEADLOCK FALSE
