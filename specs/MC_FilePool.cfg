SPECIFICATION Spec
CONSTANTS
  Files = {1, 2}
  MO = 3
  SS = 2
  NSec = 2
  MaxFilesQ = 2
  MaxBytesQ = 4
  MaxFaults = 1
  PatLen = 3
  PatByte = 7
INVARIANTS
  TypeOK
  C15_NoSectorOwnedTwice
  C15_ReadsDenoteFile
  C15_Isolation
  C15_SectorsMatchData
  C15_Conservation
VIEW
  View
CHECK_DEADLOCK FALSE
