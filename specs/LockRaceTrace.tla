---------------------------- MODULE LockRaceTrace ----------------------------
(***************************************************************************)
(* C20 under real parallelism: owners of different clients ask for byte    *)
(* range locks on one opened file at the same moment (harness/lockrace).   *)
(* "granted" is logged after Lock() returned, "releasing" before           *)
(* UnlockAll() is called, so the set `held` below only contains locks that *)
(* were really held when the next event was logged.                        *)
(***************************************************************************)
EXTENDS Integers, Sequences, FiniteSets, Json, TLC, TLCExt

TraceLog == ndJsonDeserialize("trace.ndjson")

\* The ranges the driver uses, as [start, end) with the maximum offset = 100.
Ranges == << <<0, 10>>, <<5, 15>>, <<0, 90>>, <<9, 10>>, <<10, 100>> >>
Overlap(a, b) == Ranges[a + 1][1] < Ranges[b + 1][2] /\ Ranges[b + 1][1] < Ranges[a + 1][2]

VARIABLES l, verdict, held
tvars == <<l, verdict, held>>

Line == TraceLog[l]
IsEvent(e) == l <= Len(TraceLog) /\ Line.ev = e /\ l' = l + 1

TInit == l = 1 /\ verdict = "ok" /\ held = {}

TReset == IsEvent("reset") /\ held' = {} /\ verdict' = "ok"

\* Two different owners never both hold a common byte unless both locks are shared.
TGranted ==
  /\ IsEvent("granted")
  /\ LET bad == {h \in held : h.o # Line.o /\ Overlap(h.off, Line.off) /\ (h.t = "X" \/ Line.t = "X")}
     IN verdict' = IF bad = {} THEN "ok" ELSE "C20:two-owners-hold-conflicting-locks-at-once"
  /\ held' = held \cup {[o |-> Line.o, off |-> Line.off, t |-> Line.t]}

TReleasing ==
  /\ IsEvent("releasing")
  /\ held' = {h \in held : h.o # Line.o}
  /\ verdict' = "ok"

TDenied == IsEvent("denied") /\ UNCHANGED held /\ verdict' = "ok"

TNext == TReset \/ TGranted \/ TReleasing \/ TDenied
TraceSpec == TInit /\ [][TNext]_tvars

VerdictOK == verdict = "ok"
C20_Exclusion ==
  \A a, b \in held : (a.o # b.o /\ Overlap(a.off, b.off)) => (a.t = "S" /\ b.t = "S")

TraceAccepted ==
  /\ TLCGet("stats").diameter - 1 = Len(TraceLog)
  /\ PrintT(<<"TRACE_ACCEPTED", Len(TraceLog)>>)
=============================================================================
