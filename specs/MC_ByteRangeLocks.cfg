SPECIFICATION Spec
CONSTANTS
  Owners = {o1, o2, o3}
  N = 4
INVARIANTS
  TypeOK
  C20_Exclusion
  C20_OwnNeverConflicts
  C20_TestIffSetWouldBreak
  C20_CanonDisjoint
PROPERTIES
  C20_SetLocal
VIEW
  HeldView
CHECK_DEADLOCK FALSE
