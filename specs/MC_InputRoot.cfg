SPECIFICATION Spec
CONSTANTS
  InvalidNames <- MCInvalidNames
  CasInit <- MCCas
  Actions <- MCActions1
  RootOf <- MCRootOf1
  Names <- MCNames1
  PutNodes <- MCPutNodes1
  RenameTo <- MCRenameTo
  MaxMods = 1
  MaxFaults = 1
INVARIANTS
  C17_Fidelity
  C17_InitialDenotation
  C17_Errors
PROPERTIES
  C17_ReplyFidelity
  C17_FaultLeavesLazy
  C17_Immutable
  C17_OwnTreeOnly
VIEW
  StateView
CHECK_DEADLOCK FALSE
