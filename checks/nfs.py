"""NFSv4 family (C18, C19, NFS level of C20): NFSv4.0 server (checks/nfs40.py,
specs/NFS40*.tla) and NFSv4.1 server (checks/nfs41.py, specs/NFS41*.tla).

The conformance part (drivers + TLC trace validation) is the same for the three
properties; it is run once per compiled driver binary / specs / seed / tier
and the recorded verdicts are filtered per property (vlib.family_cached). The
design checks are per property."""
import glob
import os

from lib import vlib
from checks import nfs40, nfs41


def _spec_files(prefix):
    return sorted(glob.glob(os.path.join(vlib.SPECS, prefix + "*")))


def _run40(fctx):
    os.environ["VERIF_NFS40_PARTS"] = "scen,find,rand,sim"
    try:
        return nfs40.run_parts(fctx)
    finally:
        os.environ.pop("VERIF_NFS40_PARTS", None)


def _run41(fctx):
    return nfs41.run_parts(fctx, design=False)


def run_parts(ctx):
    # design checks of this property (they do not depend on /repo)
    for cfg, props in nfs40.MC:
        if ctx.prop in props:
            vlib.design_check(ctx, "NFS40MC.tla", cfg, nfs40.MC_DEPS, timeout=1800, workers=2, heap="3g")
    q, t = nfs41.MC.get(ctx.prop, ([], []))
    for cfg in q + ([] if ctx.quick() else t):
        vlib.design_check(ctx, nfs41.SPEC, cfg, [], timeout=3000, workers=2, heap="3g")
    b40 = vlib.go_build_test(ctx, "nfs40")
    r40 = vlib.family_cached(ctx, "nfs40", [b40, nfs40.__file__, vlib.__file__] + _spec_files("NFS40") + _spec_files("Trace_NFS40") + _spec_files("Sim_NFS40"), _run40)
    b41 = vlib.go_build_test(ctx, "nfs41")
    r41 = vlib.family_cached(ctx, "nfs41", [b41, nfs41.__file__, vlib.__file__] + _spec_files("NFS41") + _spec_files("Trace_NFS41"), _run41)
    return "NFSv4.0: %s NFSv4.1: %s" % (r40 or nfs40.RULE, r41 or nfs41.RULE)


def run(ctx):
    rule = run_parts(ctx)
    return vlib.finish(ctx, rule=rule, explanation="reference-model conformance of the NFSv4.0 and NFSv4.1 servers")


def replay(ctx, path):
    if "nfs41" in os.path.basename(path):
        return nfs41.replay(ctx, path)
    return nfs40.replay(ctx, path)
