SPECIFICATION TraceSpec
INVARIANTS
  VerdictOK
  NonconfReport
POSTCONDITION TraceAccepted
CHECK_DEADLOCK FALSE
