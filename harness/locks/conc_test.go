package locks

// Concurrent calls on one real directory tree: renames in opposite
// directions, removal of directories that are being entered, bulk
// removals racing with creation, listing and filtering; leaves also
// travel between a directory, its parent, its children and its siblings.
// A deadlock is read off one consistent snapshot of all goroutines in
// which every unfinished worker (and every other goroutine that executes
// real code) waits, one of them for a mutex (blockedKind in env_test.go);
// the clock never decides.

import (
	"fmt"
	"math/rand"
	"sync"
	"sync/atomic"
	"testing"
	"time"

	"github.com/buildbarn/bb-remote-execution/pkg/filesystem/virtual"
	"github.com/buildbarn/bb-storage/pkg/filesystem"
	"github.com/buildbarn/bb-storage/pkg/filesystem/path"

	"verif/harness/common"
)

// Containers are the children of the root that rename uses as source and
// target directory. They are never moved themselves, and the directories
// that are moved are never used as the target directory of a rename, so
// no directory can end up inside itself (the operating system's VFS
// layer excludes such renames; the directory itself does not).
var containerNames = []string{"A", "B", "C"}

var movableNames = []string{"f", "e", "n", "h", "lz", "lf", "s", ".hid1"}

// leafOnlyNames are only ever given to leaves (nothing creates a
// directory under them), so whatever a rename moves under such a name is
// a leaf: these renames may go in any direction between the root, the
// containers and the directories below them (parent to child, child to
// parent, siblings) without a directory ending up inside itself.
var leafOnlyNames = []string{"L1", "L2", "L3"}

type concStats struct {
	mu    sync.Mutex
	pairs map[string]int
}

func (s *concStats) add(call, outcome string) {
	s.mu.Lock()
	s.pairs[call+"/"+outcome]++
	s.mu.Unlock()
}

type concWorker struct {
	e        *env
	rng      *rand.Rand
	stats    *concStats
	progress *atomic.Int64
	cache    []virtual.PrepopulatedDirectory // possibly stale container references
	gid      string
	done     atomic.Bool
	panicked atomic.Bool
}

// container returns a container: a fresh lookup (creating it if it is
// gone) or a reference obtained earlier, which may have been removed.
func (w *concWorker) container() virtual.PrepopulatedDirectory {
	if len(w.cache) > 0 && w.rng.Intn(3) == 0 {
		return w.cache[w.rng.Intn(len(w.cache))]
	}
	name := containerNames[w.rng.Intn(len(containerNames))]
	d, err := w.e.root.CreateAndEnterPrepopulatedDirectory(comp(name))
	w.stats.add("CreateAndEnterPrepopulatedDirectory", errClass(err))
	if err != nil {
		return w.e.root
	}
	w.e.addDir(d)
	if len(w.cache) < 8 {
		w.cache = append(w.cache, d)
	} else {
		w.cache[w.rng.Intn(len(w.cache))] = d
	}
	return d
}

func (w *concWorker) movable() string { return movableNames[w.rng.Intn(len(movableNames))] }

// inner returns a directory below a container (or the container).
func (w *concWorker) inner(c virtual.PrepopulatedDirectory) virtual.PrepopulatedDirectory {
	child, err := c.LookupChild(comp(w.movable()))
	w.stats.add("LookupChild", errClass(err))
	if err == nil {
		if d, _ := child.GetPair(); d != nil {
			w.e.addDir(d)
			return d
		}
	}
	return c
}

func (w *concWorker) step() {
	e := w.e
	c := w.container()
	nm := w.movable()
	mask := []virtual.AttributesMask{maskLocked, maskUnlocked}[w.rng.Intn(2)]
	var out virtual.Attributes
	switch k := w.rng.Intn(37); {
	case k >= 30:
		// Leaves travelling between a directory, its parent, its child
		// and a sibling, in all directions; the target name may be a
		// directory (third lock of rename).
		dirs := []virtual.PrepopulatedDirectory{c, w.inner(c), e.root, w.container(), w.inner(w.container())}
		src := dirs[w.rng.Intn(len(dirs))]
		dst := dirs[w.rng.Intn(len(dirs))]
		leaf := leafOnlyNames[w.rng.Intn(len(leafOnlyNames))]
		if w.rng.Intn(2) == 0 {
			l, _, _, s := src.VirtualOpenChild(ctxBG, comp(leaf), virtual.ShareMaskWrite, &virtual.Attributes{}, &virtual.OpenExistingOptions{}, mask, &out)
			w.stats.add("VirtualOpenChild", st(s))
			if s == virtual.StatusOK {
				l.VirtualClose(virtual.ShareMaskWrite)
			}
		}
		target := leafOnlyNames[w.rng.Intn(len(leafOnlyNames))]
		if w.rng.Intn(3) == 0 {
			target = nm
		}
		_, _, s := src.VirtualRename(ctxBG, comp(leaf), dst, comp(target))
		w.stats.add("VirtualRename", st(s))
	case k < 7:
		c2 := w.container()
		_, _, s := c.VirtualRename(ctxBG, comp(nm), c2, comp(w.movable()))
		w.stats.add("VirtualRename", st(s))
	case k < 9:
		d, _, s := w.inner(c).VirtualMkdir(ctxBG, comp(nm), &virtual.Attributes{}, mask, &out)
		w.stats.add("VirtualMkdir", st(s))
		if s == virtual.StatusOK {
			e.addDirectory(d)
		}
	case k < 11:
		l, _, _, s := w.inner(c).VirtualOpenChild(ctxBG, comp(nm), virtual.ShareMaskWrite, &virtual.Attributes{}, &virtual.OpenExistingOptions{Truncate: w.rng.Intn(2) == 0}, mask, &out)
		w.stats.add("VirtualOpenChild", st(s))
		if s == virtual.StatusOK {
			l.VirtualWrite(ctxBG, []byte("data"), 0)
			l.VirtualClose(virtual.ShareMaskWrite)
		}
	case k < 13:
		_, s := w.inner(c).VirtualRemove(ctxBG, comp(nm), true, true)
		w.stats.add("VirtualRemove", st(s))
	case k == 13:
		w.stats.add("Remove", errClass(w.inner(c).Remove(comp(nm))))
	case k == 14:
		w.stats.add("RemoveAll", errClass(c.RemoveAll(comp(nm))))
	case k == 15:
		// Bulk removal racing with everything else; sometimes of a
		// whole container while others are entering it.
		switch w.rng.Intn(6) {
		case 0:
			w.stats.add("RemoveAll", errClass(e.root.RemoveAll(comp(containerNames[w.rng.Intn(len(containerNames))]))))
		case 1:
			w.stats.add("RemoveAllChildren", errClass(w.inner(c).RemoveAllChildren(true)))
		default:
			w.stats.add("RemoveAllChildren", errClass(w.inner(c).RemoveAllChildren(false)))
		}
	case k < 18:
		r := &reporter{stopAfter: w.rng.Intn(4)}
		w.stats.add("VirtualReadDir", st(w.inner(c).VirtualReadDir(ctxBG, uint64(w.rng.Intn(3)), mask, r)))
	case k < 21:
		_, s := c.VirtualLookup(ctxBG, comp(nm), mask, &out)
		w.stats.add("VirtualLookup", st(s))
	case k == 21:
		top := []virtual.PrepopulatedDirectory{e.root, c}[w.rng.Intn(2)]
		var later []virtual.ChildRemover
		mode := w.rng.Intn(3)
		err := top.FilterChildren(func(node virtual.InitialChild, remove virtual.ChildRemover) bool {
			switch {
			case mode == 0 && w.rng.Intn(3) == 0:
				remove()
			case mode == 1 && w.rng.Intn(3) == 0:
				later = append(later, remove)
			}
			return w.rng.Intn(40) != 0
		})
		for _, r := range later {
			r()
		}
		w.stats.add("FilterChildren", errClass(err))
	case k == 22:
		_, _, err := c.LookupAllChildren()
		w.stats.add("LookupAllChildren", errClass(err))
		_, err = w.inner(c).ReadDir()
		w.stats.add("ReadDir", errClass(err))
	case k == 23 && w.rng.Intn(2) == 0:
		// Repopulate a container with lazily initialised contents.
		w.stats.add("CreateChildren", errClass(c.CreateChildren(e.stdChildren(), w.rng.Intn(3) > 0)))
	case k == 23:
		err := c.CreateChildren(map[path.Component]virtual.InitialChild{
			comp(nm):          dirChild(e.okFetcher(nil)),
			comp(w.movable()): dirChild(e.failingFetcher()),
			comp("n"): dirChild(&fetcher{children: func() map[path.Component]virtual.InitialChild {
				return map[path.Component]virtual.InitialChild{comp("y"): dirChild(&fetcher{})}
			}}),
		}, w.rng.Intn(2) == 0)
		w.stats.add("CreateChildren", errClass(err))
	case k == 24:
		d, err := c.CreateAndEnterPrepopulatedDirectory(comp(nm))
		w.stats.add("CreateAndEnterPrepopulatedDirectory", errClass(err))
		if err == nil {
			e.addDir(d)
			_, _, s := d.VirtualMknod(ctxBG, comp(w.movable()), (&virtual.Attributes{}).SetFileType(filesystem.FileTypeFIFO), mask, &out)
			w.stats.add("VirtualMknod", st(s))
		}
	case k == 25:
		// Hard link a file of one container into another one.
		c2 := w.container()
		child, s := c.VirtualLookup(ctxBG, comp(nm), maskUnlocked, &out)
		w.stats.add("VirtualLookup", st(s))
		if s == virtual.StatusOK {
			if _, l := child.GetPair(); l != nil {
				_, s := c2.VirtualLink(ctxBG, comp(w.movable()), l, mask, &out)
				w.stats.add("VirtualLink", st(s))
			}
		}
	case k == 26:
		c.VirtualGetAttributes(ctxBG, mask, &out)
		w.stats.add("VirtualGetAttributes", "ok")
		w.stats.add("VirtualSetAttributes", st(c.VirtualSetAttributes(ctxBG, &virtual.Attributes{}, mask, &out)))
	case k == 27:
		// Named attributes of a directory: another in-memory directory.
		nd, s := w.inner(c).VirtualOpenNamedAttributes(ctxBG, w.rng.Intn(2) == 0, mask, &out)
		w.stats.add("VirtualOpenNamedAttributes", st(s))
		if s == virtual.StatusOK {
			if pd := e.addDirectory(nd); pd != nil {
				l, _, _, s := pd.VirtualOpenChild(ctxBG, comp(nm), 0, &virtual.Attributes{}, &virtual.OpenExistingOptions{}, mask, &out)
				w.stats.add("VirtualOpenChild", st(s))
				_ = l
				_, s2 := pd.VirtualRemove(ctxBG, comp(w.movable()), true, true)
				w.stats.add("VirtualRemove", st(s2))
			}
		}
	case k == 28:
		w.inner(c).InstallHooks(e.fileAllocator, e.symlinkFactory, e.errorLogger, defaultAttributesSetter, e.nattrFactory)
		w.stats.add("InstallHooks", "ok")
	default:
		e.fetchFail.Store(w.rng.Intn(2) == 0)
		w.stats.add("VirtualApply", fmt.Sprint(c.VirtualApply(&virtual.ApplyGetContainingDigests{Context: ctxBG})))
	}
}

//go:noinline
func concWorkerMain(w *concWorker, ops int, started *sync.WaitGroup) {
	w.gid = currentGoroutineID()
	started.Done()
	defer func() {
		// A panic of the real code ends this worker; it is logged and
		// is not a lock balance failure by itself.
		if r := recover(); r != nil {
			w.e.tr.Emit(common.Ev{"ev": "panic", "obj": "dir", "call": "concurrent-calls", "variant": "", "msg": fmt.Sprint(r), "locks_free": true, "busy": []string{}})
			w.panicked.Store(true)
		}
		w.done.Store(true)
	}()
	for i := 0; i < ops; i++ {
		w.step()
		w.progress.Add(1)
	}
}

// unfinishedWorkers returns the goroutine ids of the workers that have
// not finished.
func unfinishedWorkers(workers []*concWorker) []string {
	var ids []string
	for _, w := range workers {
		if !w.done.Load() {
			ids = append(ids, w.gid)
		}
	}
	return ids
}

func TestDirConcurrent(t *testing.T) {
	rounds := common.EnvInt("VERIF_ROUNDS", 20)
	nWorkers := common.EnvInt("VERIF_WORKERS", 6)
	ops := common.EnvInt("VERIF_OPS", 400)
	stall := time.Duration(common.EnvInt("VERIF_STALL_S", 20)) * time.Second
	tr := common.NewTrace("trace.ndjson")
	defer tr.Close()
	stats := &concStats{pairs: map[string]int{}}
	total := int64(0)
	for round := 0; round < rounds; round++ {
		fuse := round%3 == 2
		e := newEnvWith(tr, envOptions{fuse: fuse, quiet: true})
		tr.Emit(common.Ev{"ev": "reset", "trace": round, "mode": "concurrent", "fuse": fuse})
		for _, n := range containerNames {
			e.populate(e.mkdir(e.root, n))
		}
		if fuse && !e.record("dir", "fixture", "concurrent", func() string { return "ok" }) {
			continue
		}
		progress := &atomic.Int64{}
		var workers []*concWorker
		var started sync.WaitGroup
		for i := 0; i < nWorkers; i++ {
			w := &concWorker{e: e, rng: common.Rand(int64(20000 + round*100 + i)), stats: stats, progress: progress}
			workers = append(workers, w)
			started.Add(1)
			go concWorkerMain(w, ops, &started)
		}
		started.Wait()
		last := int64(-1)
		lastChange := time.Now()
		deadlocked := false
		for {
			time.Sleep(100 * time.Millisecond)
			allDone := true
			for _, w := range workers {
				if !w.done.Load() {
					allDone = false
				}
			}
			if allDone {
				break
			}
			if p := progress.Load(); p != last {
				last, lastChange = p, time.Now()
				continue
			}
			if time.Since(lastChange) < time.Second {
				continue
			}
			// No call returned for a moment: look at one consistent
			// snapshot of all goroutines. If every unfinished worker,
			// and every other goroutine that executes real code, waits
			// (one of the workers for a mutex), nobody is left to
			// unlock: deadlock. The verdict does not depend on how long
			// anything took (see blockedKind).
			need := unfinishedWorkers(workers)
			kind, stacks := blockedKind(goroutineDump(), need)
			if kind == "mutex" {
				tr.Emit(common.Ev{"ev": "deadlock", "obj": "dir", "workers": nWorkers, "unfinished": len(need), "parked": len(need), "progress": last, "stacks": stacks})
				deadlocked = true
				break
			}
			if kind == "channel" || time.Since(lastChange) > 10*stall {
				tr.Close()
				t.Fatalf("INFRA: no progress for %v but the workers are not waiting for mutexes (%s)\n%s", time.Since(lastChange), kind, stacks)
			}
		}
		if deadlocked {
			// The goroutines of this round are abandoned.
			continue
		}
		total += progress.Load()
		e.discover()
		busy := e.busy()
		tr.Emit(common.Ev{"ev": "call", "obj": "dir", "call": "concurrent-calls", "variant": fmt.Sprintf("workers=%d;ops=%d", nWorkers, ops), "outcome": "quiescent", "locks_free": len(busy) == 0, "busy": busy})
		if len(busy) == 0 {
			e.probeFUSE("concurrent-calls")
		}
	}
	common.WriteJSON("meta.json", map[string]any{"rounds": rounds, "workers": nWorkers, "calls": total, "pairs": stats.pairs})
}
