// Executor level of property C11: the real localBuildExecutor
// (pkg/builder/local_build_executor.go) runs an action whose command is a
// fake runner that lasts as long as the harness wants. The executor's clock
// is the real SuspendableClock over the harness-owned base clock, so the
// run context the executor derives from Action.timeout, the cancellation of
// the command, the status of the ExecuteResponse and its
// virtual_execution_duration are all observed on the same timeline as the
// suspensions.
//
// Events (in addition to those of suspclock_test.go):
//
//	new    logged by the fake runner when the executor invokes it: the
//	       command starts; d = Action.timeout as the harness requested it
//	       (not what the executor passed to the clock)
//	cancel the command ends by itself ("own": exit code 0) or the worker
//	       cancels the execution ("parent")
//	obs    the context the command was given (Done, Err, duration)
//	xend   Execute returned: status code of the ExecuteResponse and
//	       virtual_execution_duration
package suspclock

import (
	"context"
	"fmt"
	"sort"
	"sync"
	"syscall"
	"testing"
	"time"

	remoteexecution "github.com/bazelbuild/remote-apis/build/bazel/remote/execution/v2"
	"github.com/buildbarn/bb-remote-execution/pkg/builder"
	"github.com/buildbarn/bb-remote-execution/pkg/cas"
	"github.com/buildbarn/bb-remote-execution/pkg/filesystem/pool"
	"github.com/buildbarn/bb-remote-execution/pkg/filesystem/virtual"
	"github.com/buildbarn/bb-remote-execution/pkg/proto/remoteworker"
	runner_pb "github.com/buildbarn/bb-remote-execution/pkg/proto/runner"
	"github.com/buildbarn/bb-storage/pkg/blobstore/buffer"
	"github.com/buildbarn/bb-storage/pkg/blobstore/slicing"
	"github.com/buildbarn/bb-storage/pkg/clock"
	"github.com/buildbarn/bb-storage/pkg/digest"
	"github.com/buildbarn/bb-storage/pkg/filesystem/path"
	"github.com/buildbarn/bb-storage/pkg/random"
	"github.com/buildbarn/bb-storage/pkg/util"

	"google.golang.org/grpc"
	"google.golang.org/grpc/codes"
	"google.golang.org/grpc/status"
	"google.golang.org/protobuf/proto"
	"google.golang.org/protobuf/types/known/durationpb"
	"google.golang.org/protobuf/types/known/emptypb"

	"verif/harness/common"
)

// memCAS is a plain in-memory Content Addressable Storage.
type memCAS struct {
	mu    sync.Mutex
	blobs map[string][]byte
}

func (c *memCAS) put(df digest.Function, data []byte) digest.Digest {
	g := df.NewGenerator(int64(len(data)))
	g.Write(data)
	d := g.Sum()
	c.mu.Lock()
	c.blobs[d.GetKey(digest.KeyWithoutInstance)] = data
	c.mu.Unlock()
	return d
}

func (c *memCAS) Get(ctx context.Context, d digest.Digest) buffer.Buffer {
	c.mu.Lock()
	defer c.mu.Unlock()
	if b, ok := c.blobs[d.GetKey(digest.KeyWithoutInstance)]; ok {
		return buffer.NewValidatedBufferFromByteSlice(append([]byte(nil), b...))
	}
	return buffer.NewBufferFromError(status.Errorf(codes.NotFound, "blob %s not found", d))
}

func (c *memCAS) GetFromComposite(ctx context.Context, parent, child digest.Digest, slicer slicing.BlobSlicer) buffer.Buffer {
	return buffer.NewBufferFromError(status.Error(codes.Unimplemented, "GetFromComposite"))
}

func (c *memCAS) Put(ctx context.Context, d digest.Digest, b buffer.Buffer) error {
	data, err := b.ToByteSlice(1 << 20)
	if err != nil {
		return err
	}
	c.mu.Lock()
	c.blobs[d.GetKey(digest.KeyWithoutInstance)] = data
	c.mu.Unlock()
	return nil
}

func (c *memCAS) FindMissing(ctx context.Context, digests digest.Set) (digest.Set, error) {
	return digest.EmptySet, nil
}

func (c *memCAS) GetCapabilities(ctx context.Context, instanceName digest.InstanceName) (*remoteexecution.ServerCapabilities, error) {
	return &remoteexecution.ServerCapabilities{CacheCapabilities: &remoteexecution.CacheCapabilities{}}, nil
}

type memBlockDevice struct {
	mu   sync.Mutex
	data []byte
}

func (d *memBlockDevice) ReadAt(p []byte, off int64) (int, error) {
	d.mu.Lock()
	defer d.mu.Unlock()
	if off < 0 || off+int64(len(p)) > int64(len(d.data)) {
		return 0, syscall.EIO
	}
	return copy(p, d.data[off:]), nil
}

func (d *memBlockDevice) WriteAt(p []byte, off int64) (int, error) {
	d.mu.Lock()
	defer d.mu.Unlock()
	if off < 0 || off+int64(len(p)) > int64(len(d.data)) {
		return 0, syscall.ENOSPC
	}
	return copy(d.data[off:], p), nil
}

func (d *memBlockDevice) Sync() error  { return nil }
func (d *memBlockDevice) Close() error { return nil }

type discardLogger struct{}

func (discardLogger) Log(err error) {}

// execution is one Execute call of the real executor.
type execution struct {
	d         *driver
	timeoutMs int64
	top       virtual.PrepopulatedDirectory
	gate      chan int64 // the command ends by itself with this exit code
	parent    context.CancelFunc
	obj       *object // the context the command was given; nil until the runner is invoked

	mu       sync.Mutex
	finished bool
	reported bool
	response *remoteexecution.ExecuteResponse
}

// xRunner stands for bb_runner: it creates stdout and stderr and then the
// command runs until it ends by itself or its context is done (which is
// what a gRPC client call does with the context's error).
type xRunner struct{ x *execution }

func (r xRunner) CheckReadiness(ctx context.Context, in *runner_pb.CheckReadinessRequest, opts ...grpc.CallOption) (*emptypb.Empty, error) {
	return &emptypb.Empty{}, nil
}

func (r xRunner) Run(ctx context.Context, in *runner_pb.RunRequest, opts ...grpc.CallOption) (*runner_pb.RunResponse, error) {
	x := r.x
	for _, n := range []string{in.StdoutPath, in.StderrPath} {
		var out virtual.Attributes
		leaf, _, _, s := x.top.VirtualOpenChild(context.Background(), path.MustNewComponent(n), virtual.ShareMaskWrite,
			(&virtual.Attributes{}).SetPermissions(virtual.PermissionsRead|virtual.PermissionsWrite), &virtual.OpenExistingOptions{}, 0, &out)
		if s != virtual.StatusOK {
			return nil, status.Errorf(codes.Internal, "verif: cannot create %s: %v", n, s)
		}
		leaf.VirtualClose(virtual.ShareMaskWrite)
	}
	// The command starts now, with this context.
	d := x.d
	o := &object{id: len(d.objs) + 1, kind: "ctx", ctx: ctx}
	o.cancel = func() {
		select {
		case x.gate <- 0:
		default:
		}
	}
	o.parentCancel = x.parent
	d.tr.Emit(common.Ev{"ev": "new", "id": o.id, "kind": "ctx", "d": x.timeoutMs})
	d.objs = append(d.objs, o)
	x.obj = o
	select {
	case <-ctx.Done():
		return nil, util.StatusFromContext(ctx)
	case code := <-x.gate:
		return &runner_pb.RunResponse{ExitCode: code}, nil
	}
}

// startExec builds a worker around the driver's SuspendableClock and starts
// Execute for an action with the given timeout.
func (d *driver) startExec(timeoutMs int64) *execution {
	df := digest.MustNewFunction("c11", remoteexecution.DigestFunction_SHA256)
	store := &memCAS{blobs: map[string][]byte{}}
	commandData, _ := proto.Marshal(&remoteexecution.Command{Arguments: []string{"true"}})
	rootData, _ := proto.Marshal(&remoteexecution.Directory{})
	action := &remoteexecution.Action{
		CommandDigest:   store.put(df, commandData).GetProto(),
		InputRootDigest: store.put(df, rootData).GetProto(),
		Timeout:         durationpb.New(time.Duration(timeoutMs) * time.Millisecond),
		DoNotCache:      true,
	}
	actionData, _ := proto.Marshal(action)
	actionDigest := store.put(df, actionData)

	handleAllocator := virtual.NewFUSEHandleAllocator(random.FastThreadSafeGenerator)
	das := func(requested virtual.AttributesMask, attributes *virtual.Attributes) {}
	top := virtual.NewInMemoryPrepopulatedDirectory(
		virtual.NewHandleAllocatingFileAllocator(
			virtual.NewPoolBackedFileAllocator(pool.EmptyFilePool, discardLogger{}, das, virtual.NoNamedAttributesFactory),
			handleAllocator),
		virtual.NewErrorSymlinkFactory(status.Error(codes.PermissionDenied, "Symlink outside build directory")),
		discardLogger{}, handleAllocator, sort.Sort,
		func(s string) bool { return false },
		clock.SystemClock, virtual.CaseSensitiveComponentNormalizer, das, virtual.NoNamedAttributesFactory,
	)
	buildDirectory := builder.NewVirtualBuildDirectory(
		top, cas.NewBlobAccessDirectoryFetcher(store, 1<<20, 1<<20), store,
		virtual.NewHandleAllocatingSymlinkFactory(virtual.NewBaseSymlinkFactory(das), handleAllocator.New(), path.LocalFormat),
		virtual.NewHandleAllocatingCharacterDeviceFactory(virtual.BaseCharacterDeviceFactory, handleAllocator.New()),
		handleAllocator, das, clock.SystemClock,
	)
	ctx, cancel := context.WithCancel(context.Background())
	x := &execution{d: d, timeoutMs: timeoutMs, top: top, gate: make(chan int64, 1), parent: cancel}
	executor := builder.NewLocalBuildExecutor(
		store,
		builder.NewRootBuildDirectoryCreator(buildDirectory),
		xRunner{x},
		d.sc,
		/* maximumWritableFileUploadDelay = */ time.Hour,
		/* inputRootCharacterDevices = */ nil,
		/* maximumMessageSizeBytes = */ 1<<20,
		/* environmentVariables = */ map[string]string{},
		/* forceUploadTreesAndDirectories = */ false,
	)
	const sectorSize, sectorCount = 32, 256
	filePool := pool.NewBlockDeviceBackedFilePool(
		&memBlockDevice{data: make([]byte, sectorSize*sectorCount)},
		pool.NewBitmapSectorAllocator(sectorCount), sectorSize)
	d.exec = x
	go func() {
		defer func() {
			if r := recover(); r != nil {
				d.tr.Emit(common.Ev{"ev": "panic", "msg": fmt.Sprint(r), "who": "executor"})
			}
			x.mu.Lock()
			x.finished = true
			x.mu.Unlock()
		}()
		updates := make(chan *remoteworker.CurrentState_Executing, 16)
		resp := executor.Execute(ctx, filePool, nil, df, &remoteworker.DesiredState_Executing{
			ActionDigest: actionDigest.GetProto(),
			Action:       action,
		}, updates)
		x.mu.Lock()
		x.response = resp
		x.mu.Unlock()
	}()
	d.settle()
	return x
}

// reportExec logs the end of the execution once, after the observation that
// follows it.
func (d *driver) reportExec() {
	x := d.exec
	if x == nil {
		return
	}
	x.mu.Lock()
	defer x.mu.Unlock()
	if !x.finished || x.reported {
		return
	}
	x.reported = true
	id := 0
	if x.obj != nil {
		id = x.obj.id
	}
	ev := common.Ev{"ev": "xend", "id": id, "code": "none", "exit": 0, "hasvdur": false, "vdur": 0, "vrem": 0}
	if r := x.response; r != nil {
		ev["code"] = codes.Code(r.GetStatus().GetCode()).String()
		ev["exit"] = int(r.GetResult().GetExitCode())
		if vd := r.GetResult().GetExecutionMetadata().GetVirtualExecutionDuration(); vd != nil {
			v := vd.AsDuration()
			ev["hasvdur"] = true
			ev["vdur"] = clampMs(int64(v / time.Millisecond))
			ev["vrem"] = int64(v % time.Millisecond)
		}
	}
	d.tr.Emit(ev)
}

// TestExecutor: one action per trace; every pattern of suspension over H
// unit intervals x every instant at which the command ends by itself (or
// never) x both orders of "deliver due timers" and "the command ends" at
// that instant; sometimes the worker cancels the execution instead.
func TestExecutor(t *testing.T) {
	// Plan: comma separated "timeout:threshold:maximum:H" (ticks).
	plan := common.Env("VERIF_EXEC_PLAN", "3:1:2:4")
	tr := common.NewTrace("trace.ndjson")
	defer tr.Close()
	n := 0
	plans := []map[string]any{}
	for _, item := range splitPlan(plan) {
		var timeout, thr, ms int64
		var h int
		if _, err := fmt.Sscanf(item, "%d:%d:%d:%d", &timeout, &thr, &ms, &h); err != nil {
			t.Fatalf("bad VERIF_EXEC_PLAN item %q: %v", item, err)
		}
		count := 0
		for pat := 0; pat < 1<<h; pat++ {
			for fin := -1; fin <= h; fin++ {
				for order := 0; order < 2; order++ {
					if fin < 0 && order == 1 {
						continue
					}
					via := "own"
					if fin >= 0 && (pat+fin+order)%5 == 3 {
						via = "parent"
					}
					label := fmt.Sprintf("exec plan=%s pat=%d fin=%d order=%d via=%s", item, pat, fin, order, via)
					bubble(t, tr, fmt.Sprintf("x%d", n), func() {
						d := newDriver(tr, n, thr*tickMs, ms*tickMs, epochOf(n), label)
						suspended := false
						setLevel := func(want bool) {
							if want && !suspended {
								d.suspend("d1")
							} else if !want && suspended {
								d.resume("d1")
							}
							suspended = want
						}
						x := d.startExec(timeout * tickMs)
						for i := 0; i < max(h, int(timeout+ms)+1); i++ {
							want := suspended
							if i < h {
								want = pat>>i&1 == 1
							}
							end := func() {
								if i == fin && x.obj != nil && !x.obj.cancelled {
									d.cancel(x.obj, via)
								}
							}
							if order == 0 {
								end()
								setLevel(want)
								d.fireAllDue()
							} else {
								setLevel(want)
								d.fireAllDue()
								end()
							}
							target := d.nowMs() + tickMs
							for d.nowMs() < target {
								if !d.tick(target - d.nowMs()) {
									d.fireAllDue()
								}
							}
						}
						d.fireAllDue()
						d.finish()
					})
					n++
					count++
				}
			}
		}
		plans = append(plans, map[string]any{"timeout": timeout, "threshold": thr, "maximum": ms, "h": h, "traces": count})
	}
	common.WriteJSON("meta.json", map[string]any{"traces": n, "plans": plans, "exhaustive": true})
}

func splitPlan(s string) []string {
	out := []string{}
	cur := ""
	for _, c := range s {
		if c == ',' {
			if cur != "" {
				out = append(out, cur)
			}
			cur = ""
			continue
		}
		cur += string(c)
	}
	if cur != "" {
		out = append(out, cur)
	}
	return out
}
