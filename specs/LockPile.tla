------------------------------ MODULE LockPile ------------------------------
(***************************************************************************)
(* Model of pkg/sync/lock_pile.go (property C14, deadlock freedom half).   *)
(*                                                                         *)
(* N threads share M TryLockers.  Every thread owns one LockPile and runs  *)
(* the algorithm of LockPile.Lock / Unlock / UnlockAll one primitive       *)
(* operation (TryLock, blocking Lock, Unlock of a TryLocker) at a time.    *)
(*                                                                         *)
(*   Lock(ls):  insert every lock of ls (recursion count if present);      *)
(*              loop while not all acquired:                               *)
(*                 - something already acquired: TryLock the next one;     *)
(*                   on failure Unlock all acquired ones, swap the         *)
(*                   contended lock to the front                           *)
(*                 - blocking Lock on the first lock of the pile           *)
(*              return TRUE iff nothing was unlocked on the way            *)
(*   Unlock(l): decrement the recursion count, or Unlock and remove        *)
(*              (the last entry moves into the hole)                       *)
(*   UnlockAll: Unlock every entry once, empty the pile                    *)
(*                                                                         *)
(* The actions are split in a guard-free "Do..." body (used by the trace   *)
(* specification LockPileTrace to replay the real code) and the bounded    *)
(* choice made by the model checker (Next).                                *)
(***************************************************************************)
EXTENDS Integers, Sequences, FiniteSets, TLC

CONSTANTS Threads,   \* threads, each with its own LockPile
          Locks,     \* the shared TryLockers
          None,      \* "nobody"
          MaxReq,    \* largest number of locks in one Lock() call
          MaxRec,    \* largest recursion count explored
          Budget,    \* number of Lock() calls a thread makes
          Multi      \* threads that may hold or request more than one lock

VARIABLES owner,   \* [Locks -> Threads \cup {None}]: state of the TryLockers
          pile,    \* [Threads -> Seq([lock, rec])]: the LockPile slices
          pc,      \* [Threads -> control state]
          acq,     \* currentlyAcquired
          cwu,     \* completedWithoutUnlocking
          ui,      \* index of the unlock loops (0 when unused)
          tgt,     \* argument of Unlock(one) (None when unused)
          didrel,  \* history: the current Lock() call unlocked something
          calls    \* number of Lock() calls made

vars == <<owner, pile, pc, acq, cwu, ui, tgt, didrel, calls>>

PCs == {"idle", "loop", "rel", "block", "unl", "retv", "ua"}

-----------------------------------------------------------------------------
(* Pile manipulation, exactly as the Go code does it.                      *)

Has(p, l)  == \E i \in 1 .. Len(p) : p[i].lock = l
Idx(p, l)  == CHOOSE i \in 1 .. Len(p) : p[i].lock = l
LocksOf(p) == {p[i].lock : i \in 1 .. Len(p)}

Insert1(p, l) ==
  IF Has(p, l) THEN [p EXCEPT ![Idx(p, l)].rec = @ + 1]
  ELSE Append(p, [lock |-> l, rec |-> 0])

RECURSIVE InsertAll(_, _)
InsertAll(p, ls) ==
  IF ls = <<>> THEN p ELSE InsertAll(Insert1(p, Head(ls)), Tail(ls))

Swap(p, i, j) == [p EXCEPT ![i] = p[j], ![j] = p[i]]

\* (*lp)[i] = (*lp)[len-1]; *lp = (*lp)[:len-1]
RemoveAt(p, i) == SubSeq([p EXCEPT ![i] = p[Len(p)]], 1, Len(p) - 1)

Held(t) == {l \in Locks : owner[l] = t}

\* The lock that the Lock() loop tries next.
NextLock(t) == pile[t][acq[t] + 1].lock

-----------------------------------------------------------------------------
(* Action bodies: one per call entry, primitive operation and return.      *)

DoCallLock(t, ls) ==
  /\ pc[t] = "idle" /\ Len(ls) > 0
  /\ pile' = [pile EXCEPT ![t] = InsertAll(@, ls)]
  /\ acq' = [acq EXCEPT ![t] = Len(pile[t])]
  /\ cwu' = [cwu EXCEPT ![t] = TRUE]
  /\ didrel' = [didrel EXCEPT ![t] = FALSE]
  /\ pc' = [pc EXCEPT ![t] = "loop"]
  /\ calls' = [calls EXCEPT ![t] = @ + 1]
  /\ UNCHANGED <<owner, ui, tgt>>

CanTry(t) == pc[t] = "loop" /\ 0 < acq[t] /\ acq[t] < Len(pile[t])

\* TryLock() of the next lock succeeds.
TryOk(t) ==
  /\ CanTry(t) /\ owner[NextLock(t)] = None
  /\ owner' = [owner EXCEPT ![NextLock(t)] = t]
  /\ acq' = [acq EXCEPT ![t] = @ + 1]
  /\ UNCHANGED <<pile, pc, cwu, ui, tgt, didrel, calls>>

\* TryLock() of the next lock fails: start releasing.
TryFail(t) ==
  /\ CanTry(t) /\ owner[NextLock(t)] # None
  /\ cwu' = [cwu EXCEPT ![t] = FALSE]
  /\ pc' = [pc EXCEPT ![t] = "rel"]
  /\ ui' = [ui EXCEPT ![t] = 1]
  /\ UNCHANGED <<owner, pile, acq, tgt, didrel, calls>>

CanRel(t) == pc[t] = "rel" /\ ui[t] >= 1 /\ ui[t] <= acq[t] /\ acq[t] < Len(pile[t])
RelLock(t) == pile[t][ui[t]].lock

\* Unlock() of one acquired lock; after the last one the contended lock
\* is swapped to the front and is acquired by a blocking Lock().
Rel(t) ==
  /\ CanRel(t)
  /\ owner' = [owner EXCEPT ![RelLock(t)] = None]
  /\ didrel' = [didrel EXCEPT ![t] = TRUE]
  /\ IF ui[t] < acq[t]
     THEN /\ ui' = [ui EXCEPT ![t] = @ + 1]
          /\ UNCHANGED <<pile, pc, acq>>
     ELSE /\ pile' = [pile EXCEPT ![t] = Swap(@, 1, acq[t] + 1)]
          /\ pc' = [pc EXCEPT ![t] = "loop"]
          /\ acq' = [acq EXCEPT ![t] = 0]
          /\ ui' = [ui EXCEPT ![t] = 0]
  /\ UNCHANGED <<cwu, tgt, calls>>

CanBlockStart(t) == pc[t] = "loop" /\ acq[t] = 0 /\ Len(pile[t]) > 0

\* The thread enters the blocking Lock() of the first lock of the pile.
BlockStart(t) ==
  /\ CanBlockStart(t)
  /\ pc' = [pc EXCEPT ![t] = "block"]
  /\ UNCHANGED <<owner, pile, acq, cwu, ui, tgt, didrel, calls>>

BlockLock(t) == pile[t][1].lock
CanBlockAcq(t) == pc[t] = "block" /\ Len(pile[t]) > 0

\* The blocking Lock() returns.
BlockAcq(t) ==
  /\ CanBlockAcq(t) /\ owner[BlockLock(t)] = None
  /\ owner' = [owner EXCEPT ![BlockLock(t)] = t]
  /\ acq' = [acq EXCEPT ![t] = 1]
  /\ pc' = [pc EXCEPT ![t] = "loop"]
  /\ UNCHANGED <<pile, cwu, ui, tgt, didrel, calls>>

CanRetLock(t) == pc[t] = "loop" /\ acq[t] = Len(pile[t])

\* Lock() returns cwu[t].
RetLock(t) ==
  /\ CanRetLock(t)
  /\ pc' = [pc EXCEPT ![t] = "idle"]
  /\ acq' = [acq EXCEPT ![t] = 0]
  /\ cwu' = [cwu EXCEPT ![t] = TRUE]
  /\ didrel' = [didrel EXCEPT ![t] = FALSE]
  /\ UNCHANGED <<owner, pile, ui, tgt, calls>>

DoCallUnlock(t, l) ==
  /\ pc[t] = "idle" /\ Has(pile[t], l)
  /\ IF pile[t][Idx(pile[t], l)].rec > 0
     THEN /\ pile' = [pile EXCEPT ![t] = [@ EXCEPT ![Idx(pile[t], l)].rec = @ - 1]]
          /\ pc' = [pc EXCEPT ![t] = "retv"]
          /\ UNCHANGED tgt
     ELSE /\ pc' = [pc EXCEPT ![t] = "unl"]
          /\ tgt' = [tgt EXCEPT ![t] = l]
          /\ UNCHANGED pile
  /\ UNCHANGED <<owner, acq, cwu, ui, didrel, calls>>

CanUnlPrim(t) == pc[t] = "unl" /\ tgt[t] # None /\ Has(pile[t], tgt[t])

\* Unlock() of the lock that Unlock(one) removes from the pile.
UnlPrim(t) ==
  /\ CanUnlPrim(t)
  /\ owner' = [owner EXCEPT ![tgt[t]] = None]
  /\ pile' = [pile EXCEPT ![t] = RemoveAt(@, Idx(@, tgt[t]))]
  /\ pc' = [pc EXCEPT ![t] = "retv"]
  /\ tgt' = [tgt EXCEPT ![t] = None]
  /\ UNCHANGED <<acq, cwu, ui, didrel, calls>>

RetVoid(t) ==
  /\ pc[t] = "retv"
  /\ pc' = [pc EXCEPT ![t] = "idle"]
  /\ UNCHANGED <<owner, pile, acq, cwu, ui, tgt, didrel, calls>>

DoCallUnlockAll(t) ==
  /\ pc[t] = "idle"
  /\ pc' = [pc EXCEPT ![t] = "ua"]
  /\ ui' = [ui EXCEPT ![t] = 1]
  /\ UNCHANGED <<owner, pile, acq, cwu, tgt, didrel, calls>>

CanUAStep(t) == pc[t] = "ua" /\ ui[t] >= 1 /\ ui[t] <= Len(pile[t])
UALock(t) == pile[t][ui[t]].lock

UAStep(t) ==
  /\ CanUAStep(t)
  /\ owner' = [owner EXCEPT ![UALock(t)] = None]
  /\ ui' = [ui EXCEPT ![t] = @ + 1]
  /\ UNCHANGED <<pile, pc, acq, cwu, tgt, didrel, calls>>

CanUARet(t) == pc[t] = "ua" /\ ui[t] > Len(pile[t])

UARet(t) ==
  /\ CanUARet(t)
  /\ pile' = [pile EXCEPT ![t] = <<>>]
  /\ pc' = [pc EXCEPT ![t] = "idle"]
  /\ ui' = [ui EXCEPT ![t] = 0]
  /\ UNCHANGED <<owner, acq, cwu, tgt, didrel, calls>>

-----------------------------------------------------------------------------
(* The bounded model.                                                      *)

NoPile == [t \in Threads |-> <<>>]

Init ==
  /\ owner = [l \in Locks |-> None]
  /\ pile = NoPile
  /\ pc = [t \in Threads |-> "idle"]
  /\ acq = [t \in Threads |-> 0]
  /\ cwu = [t \in Threads |-> TRUE]
  /\ ui = [t \in Threads |-> 0]
  /\ tgt = [t \in Threads |-> None]
  /\ didrel = [t \in Threads |-> FALSE]
  /\ calls = [t \in Threads |-> 0]

\* Requests: sequences of distinct locks, in any order.
Reqs ==
  {s \in UNION {[1 .. n -> Locks] : n \in 1 .. MaxReq} :
     \A i, j \in DOMAIN s : i # j => s[i] # s[j]}

Range(s) == {s[i] : i \in DOMAIN s}

CallLock(t, ls) ==
  /\ calls[t] < Budget
  /\ \A l \in Range(ls) :
       Has(pile[t], l) => pile[t][Idx(pile[t], l)].rec < MaxRec
  /\ t \notin Multi => Cardinality(LocksOf(pile[t]) \cup Range(ls)) <= 1
  /\ DoCallLock(t, ls)

\* Steps of a thread that need no decision of the caller and never wait.
Internal(t) ==
  \/ TryOk(t) \/ TryFail(t) \/ Rel(t) \/ BlockStart(t) \/ RetLock(t)
  \/ UnlPrim(t) \/ RetVoid(t) \/ UAStep(t) \/ UARet(t)

CallUnlockAll(t) == pile[t] # <<>> /\ DoCallUnlockAll(t)

ThreadNext(t) ==
  \/ \E ls \in Reqs : CallLock(t, ls)
  \/ \E l \in Locks : DoCallUnlock(t, l)
  \/ CallUnlockAll(t)
  \/ Internal(t)
  \/ BlockAcq(t)

\* Every thread made all its calls and released everything.
Finished == \A t \in Threads : pc[t] = "idle" /\ pile[t] = <<>> /\ calls[t] = Budget
Done == Finished /\ UNCHANGED vars

Next == (\E t \in Threads : ThreadNext(t)) \/ Done

Spec == Init /\ [][Next]_vars

\* Fairness: threads keep running; sync.Mutex.Lock() is starvation free
\* (a waiter of a lock that is free again and again eventually gets it);
\* callers eventually finish with UnlockAll().
FairSpec ==
  /\ Spec
  /\ \A t \in Threads :
       /\ WF_vars(Internal(t))
       /\ SF_vars(BlockAcq(t))
       /\ SF_vars(CallUnlockAll(t))

-----------------------------------------------------------------------------
(* Properties.                                                             *)

TypeOK ==
  /\ owner \in [Locks -> Threads \cup {None}]
  /\ pc \in [Threads -> PCs]
  /\ \A t \in Threads :
       /\ acq[t] \in 0 .. Len(pile[t])
       /\ ui[t] \in 0 .. (Len(pile[t]) + 1)
       /\ tgt[t] \in Locks \cup {None}
       /\ \A i \in 1 .. Len(pile[t]) : pile[t][i].lock \in Locks /\ pile[t][i].rec \in 0 .. MaxRec
       /\ \A i, j \in 1 .. Len(pile[t]) : i # j => pile[t][i].lock # pile[t][j].lock

\* The locks a thread's algorithm state says it holds.
Believes(t) ==
  CASE pc[t] \in {"idle", "retv", "unl"} -> LocksOf(pile[t])
    [] pc[t] = "loop"  -> {pile[t][i].lock : i \in 1 .. acq[t]}
    [] pc[t] = "rel"   -> {pile[t][i].lock : i \in ui[t] .. acq[t]}
    [] pc[t] = "block" -> {}
    [] pc[t] = "ua"    -> {pile[t][i].lock : i \in ui[t] .. Len(pile[t])}

\* Mutual exclusion: what a thread believes to hold it really holds, so no
\* two threads believe to hold the same lock.
C14_MutualExclusion == \A t \in Threads : Believes(t) \subseteq Held(t)

\* Nothing is held behind the back of the algorithm (no leaked lock); at
\* call boundaries the pile is exactly the set of locks held.
C14_NoLeak == \A t \in Threads : Held(t) \subseteq Believes(t)
C14_PileIsHeld == \A t \in Threads : pc[t] = "idle" => LocksOf(pile[t]) = Held(t)

\* The deadlock avoidance rule: a thread blocks only empty handed.
C14_NoHoldAndWait == \A t \in Threads : pc[t] = "block" => Held(t) = {}

\* No cycle in the wait-for graph.
Waits(t, u) == pc[t] = "block" /\ Len(pile[t]) > 0 /\ owner[BlockLock(t)] = u
C14_NoWaitCycle ==
  ~ \E S \in SUBSET Threads : S # {} /\ \A t \in S : \E u \in S : Waits(t, u)

\* Lock() returns TRUE iff it unlocked nothing.
C14_ReturnValue == \A t \in Threads : pc[t] = "loop" => (cwu[t] <=> ~didrel[t])

\* Under the fairness assumptions every call returns.
C14_CallsReturn == \A t \in Threads : (pc[t] # "idle") ~> (pc[t] = "idle")

\* Symmetry for the safety configurations (all threads in Multi).
Sym == Permutations(Threads) \cup Permutations(Locks)
=============================================================================
