"""C14 — VFS: no call leaves a lock behind and concurrent calls never deadlock.

(b) LockPile.tla: the deadlock avoidance algorithm of pkg/sync/lock_pile.go,
    model checked, and the real LockPile replayed step by step over gated
    TryLocker fakes (LockPileTrace.tla).
(a) LockBalance.tla: after every call of the real directory / pool-backed
    file / OpenedFilesPool / IdleInvoker / sector allocator, every outcome
    class, all locks are free (TryLock probes; LockBalanceTrace.tla).
(c) concurrent calls on a real directory tree with a deadlock watchdog.
"""
import json
import os
import re
import subprocess
import time

from lib import vlib

LP_DEPS = ["LockPile.tla"]
LP_TRACE = "LockPileTrace.tla"
LP_CFG = "Trace_LockPile.cfg"
LB_DEPS = ["LockBalance.tla"]
LB_TRACE = "LockBalanceTrace.tla"
LB_CFG = "Trace_LockBalance.cfg"

COVER_PKGS = [
    "github.com/buildbarn/bb-remote-execution/pkg/filesystem/virtual",
    "github.com/buildbarn/bb-remote-execution/pkg/sync",
]
COVER_FILES = ("in_memory_prepopulated_directory.go", "lock_pile.go",
               "pool_backed_file_allocator.go", "nfs_handle_allocator.go",
               "fuse_handle_allocator.go", "user_settable_symlink.go")


def drive(ctx, binary, test, label, env, timeout=1800):
    out = ctx.sub(label)
    t = time.time()
    rc, o = vlib.run_driver(binary, test, out, ctx.seed, env=env, timeout=timeout)
    if rc != 0:
        raise vlib.Infra("driver %s failed (rc=%d):\n%s" % (test, rc, o[-3000:]))
    n = sum(1 for _ in open(os.path.join(out, "trace.ndjson")))
    vlib.log("driver %s: %d events in %.1fs" % (test, n, time.time() - t))
    meta = {}
    mp = os.path.join(out, "meta.json")
    if os.path.exists(mp):
        meta = json.load(open(mp))
    return os.path.join(out, "trace.ndjson"), meta


def concat(ctx, name, paths):
    """Concatenate traces (each trace starts with a reset event)."""
    p = os.path.join(ctx.sub("cat"), name)
    with open(p, "w") as f:
        for q in paths:
            with open(q) as g:
                for ln in g:
                    if ln.strip():
                        f.write(ln if ln.endswith("\n") else ln + "\n")
    return p


def report_exercised(ctx, label):
    p = os.path.join(ctx.scratch, "tv_" + label, "exercised.json")
    if not os.path.exists(p):
        vlib.log("  (no outcome class report: validation did not reach the end of the log)")
        return {}
    d = json.load(open(p))
    ex = sorted(d.get("exercised", []))
    un = sorted(d.get("unexercised", []))
    ux = sorted(d.get("unexpected", []))
    vlib.log("outcome classes (component/call/outcome): %d exercised, %d not exercised, %d not in the table; %d call returns judged"
             % (len(ex), len(un), len(ux), d.get("calls", 0)))
    for k in un:
        vlib.log("  UNEXERCISED %s" % k)
    for k in ux:
        vlib.log("  NOT-IN-TABLE %s (lock balance was checked all the same)" % k)
    return {"exercised": ex, "unexercised": un, "not_in_table": ux, "call_returns": d.get("calls", 0)}


def coverage_report(ctx, env_sets):
    """Thorough tier, informational: statements of the lock-taking files
    that no driver reached (Go coverage instrumentation)."""
    hdir = vlib.harness_prepare(ctx)
    out = os.path.join(ctx.sub("bin"), "locks_cover.test")
    cmd = [vlib.GO, "test", "-c", "-tags", "verif", "-cover", "-covermode=atomic",
           "-coverpkg=" + ",".join(COVER_PKGS), "-o", out, "./locks"]
    try:
        p = subprocess.run(cmd, cwd=hdir, env=vlib.go_env(), capture_output=True, text=True, timeout=1500)
    except subprocess.TimeoutExpired:
        vlib.log("  (coverage build timed out; skipped)")
        return None
    if p.returncode != 0:
        vlib.log("  (coverage build failed; skipped): " + (p.stdout + p.stderr)[-500:])
        return None
    counts = {}
    for test, env in env_sets:
        d = ctx.sub("cover_" + test)
        prof = os.path.join(d, "cover.out")
        rc, o = vlib.run_driver(out, test, d, ctx.seed, env=env, timeout=1800,
                                extra_args=["-test.coverprofile", prof])
        if rc != 0 or not os.path.exists(prof):
            vlib.log("  (coverage run of %s failed; skipped)" % test)
            continue
        for ln in open(prof):
            m = re.match(r"(\S+):(\d+)\.\d+,(\d+)\.\d+ (\d+) (\d+)$", ln.strip())
            if not m or not m.group(1).endswith(COVER_FILES):
                continue
            key = (os.path.basename(m.group(1)), int(m.group(2)), int(m.group(3)))
            counts[key] = counts.get(key, 0) + int(m.group(5))
    if not counts:
        return None
    unreached = sorted(k for k, v in counts.items() if v == 0)
    vlib.log("statement coverage of the lock-taking files by the drivers: %d of %d blocks reached"
             % (len(counts) - len(unreached), len(counts)))
    for f, a, b in unreached:
        vlib.log("  UNREACHED-BLOCK %s:%d-%d" % (f, a, b))
    return {"blocks": len(counts), "unreached": ["%s:%d-%d" % k for k in unreached]}


def drivers_and_validation(ctx, binary, quick, classify, res):

    # 2. (b) the real LockPile, one primitive operation at a time.
    sched_env = {"VERIF_PREEMPTIONS": 2, "VERIF_SCHEDULES": 250} if quick else {"VERIF_PREEMPTIONS": 3, "VERIF_SCHEDULES": 1500}
    p1, res["sched"] = drive(ctx, binary, "TestLockPileSchedules", "lp_sched", sched_env)
    p2, _ = drive(ctx, binary, "TestLockPileRandom", "lp_rand", {"VERIF_N": 150 if quick else 600, "VERIF_STEPS": 60})
    lp = concat(ctx, "lockpile.ndjson", [p1, p2])
    vlib.validate_traces(ctx, lp, LP_TRACE, LP_CFG, LP_DEPS, "lockpile", classify=classify,
                         timeout=3600, max_failures=4)
    ctx.cov["samples"] += vlib.sample_lines(p2, 6)

    # 3. (a) lock balance of every call, every outcome class.
    paths = []
    p, res["sweep"] = drive(ctx, binary, "TestDirSweep", "dir_sweep", {})
    paths.append(p)
    p, _ = drive(ctx, binary, "TestDirRandom", "dir_rand", {"VERIF_N": 30 if quick else 200, "VERIF_STEPS": 120})
    paths.append(p)
    ctx.cov["samples"] += vlib.sample_lines(p, 4)
    n = 30 if quick else 200
    for test, label in (("TestFileRandom", "file"), ("TestOpenedFilesPoolRandom", "ofp"),
                        ("TestIdleInvokerRandom", "idle"), ("TestSectorAllocatorRandom", "sector"),
                        ("TestUserSettableSymlinkRandom", "usymlink"), ("TestHandleAllocatorRandom", "handle")):
        p, _ = drive(ctx, binary, test, label, {"VERIF_N": 2 * n if label == "file" else n})
        paths.append(p)
        if label == "file":
            res["parked"] = sum(1 for ln in open(p) if '"ev":"park"' in ln.replace(" ", ""))
            vlib.log("  calls observed waiting by design and woken by other calls: %d" % res["parked"])

    # 3b. (c) gated lock-order scenarios: two directories held through the
    #     normalizer gate, two multi-lock calls, staged releases.
    p, res["gated"] = drive(ctx, binary, "TestDirGated", "gated", {"VERIF_N": 250 if quick else 3000}, timeout=3000)
    paths.append(p)

    # 4. (c) concurrent calls with the deadlock watchdog.
    conc_env = {"VERIF_ROUNDS": 30 if quick else 300, "VERIF_WORKERS": 6, "VERIF_OPS": 400}
    p, res["conc"] = drive(ctx, binary, "TestDirConcurrent", "conc", conc_env, timeout=3000)
    paths.append(p)

    lb = concat(ctx, "balance.ndjson", paths)
    vlib.validate_traces(ctx, lb, LB_TRACE, LB_CFG, LB_DEPS, "balance", classify=classify,
                         timeout=3600, max_failures=4)
    res["exercised"] = report_exercised(ctx, "balance")

    if not quick and not ctx.violations:
        res["cover"] = coverage_report(ctx, [("TestDirSweep", {}),
                                      ("TestDirRandom", {"VERIF_N": 60}),
                                      ("TestFileRandom", {"VERIF_N": 100}),
                                      ("TestDirGated", {"VERIF_N": 300}),
                                      ("TestHandleAllocatorRandom", {"VERIF_N": 60}),
                                      ("TestUserSettableSymlinkRandom", {"VERIF_N": 30}),
                                      ("TestDirConcurrent", {"VERIF_ROUNDS": 20}),
                                      ("TestLockPileRandom", {"VERIF_N": 100})])



def run(ctx):
    quick = ctx.quick()
    classify = vlib.classify_for(ctx.prop)

    # 1. The designs: LockPile algorithm (safety exhaustively; liveness for
    #    one backing-off thread) and the lock balance model.
    # (VERIF_C14_SKIP_DESIGN=1 skips the design checks; they do not depend
    # on the tree under test. Only for the builder's mutation runs.)
    skip_design = os.environ.get("VERIF_C14_SKIP_DESIGN") == "1"
    if not skip_design:
        vlib.design_check(ctx, "LockPile.tla", "MC_LockPile.cfg", [], timeout=2400, workers=2, heap="2g", label="LockPile 3 threads x 2 locks")
        vlib.design_check(ctx, "LockPile.tla", "MC_LockPile_live.cfg", [], timeout=1500, workers=2, heap="2g", label="LockPile liveness (2 threads)")
    if not quick and not skip_design:
        vlib.design_check(ctx, "LockPile.tla", "MC_LockPile_2x3.cfg", [], timeout=3600, workers=2, heap="2g", label="LockPile 2 threads x 3 locks")
        vlib.design_check(ctx, "LockPile.tla", "MC_LockPile_thorough.cfg", [], timeout=10800, workers=4, heap="4g", label="LockPile 3 threads x 3 locks")
        vlib.design_check(ctx, "LockPile.tla", "MC_LockPile_live3.cfg", [], timeout=3600, workers=2, heap="2g", label="LockPile liveness (3 threads)")
    vlib.design_check(ctx, "LockBalance.tla", "MC_LockBalance.cfg", [], timeout=600, workers=1, heap="1g", label="LockBalance")

    binary = vlib.go_build_test(ctx, "locks")
    res = {"sched": {}, "sweep": {}, "conc": {}, "exercised": {}, "cover": None, "gated": {}, "parked": 0}
    try:
        drivers_and_validation(ctx, binary, quick, classify, res)
    except vlib.Infra as e:
        # A tree that already failed the property may also crash a later
        # driver (e.g. a fixture cannot be built any more): the verdict
        # stands on what was observed before.
        if not ctx.violations:
            raise
        vlib.log("NOTE a later step could not be completed after violations were found: %s" % str(e)[:600])
    meta_sched, meta_sweep, meta_conc = res["sched"], res["sweep"], res["conc"]
    exercised, cover = res["exercised"], res["cover"]

    # The scheduler's lock is probed at the end of every scheduler trace
    # (verdict C14:scheduler-lock-left-behind of SchedTrace.tla); that family
    # is validated once per binary/specs/seed/tier and shared with C01-C07.
    # (VERIF_C14_SKIP_SCHED=1 skips the scheduler family; only for the
    # builder's mutation runs of the virtual file system packages.)
    if os.environ.get("VERIF_C14_SKIP_SCHED") != "1":
        from checks import sched
        sched.run_parts(ctx)

    # The NFSv4.0 / NFSv4.1 servers' locks are probed by their drivers after
    # every request (verdict C14:server-lock-left-held-after-a-request-returned
    # of NFS40Trace.tla / NFS41Trace.tla); that family is validated once per
    # binary/specs/seed/tier and shared with C18-C20.
    # (VERIF_C14_SKIP_NFS=1 skips it; only for mutation runs of other packages.)
    if os.environ.get("VERIF_C14_SKIP_NFS") != "1":
        from checks import nfs
        nfs.run_parts(ctx)

    return vlib.finish(
        ctx,
        rule=("TLC explores LockPile.tla exhaustively (threads x TryLockers, requests in any order, pile extension, "
              "recursion, Unlock(one), UnlockAll): mutual exclusion, pile = locks held at call boundaries, blocking only "
              "empty handed, no wait cycle, return value, no deadlock; liveness under fairness for one backing-off thread. "
              "The real LockPile runs over gated TryLocker fakes, every primitive operation is a scheduling point "
              "(context-bounded enumeration of the schedules of small scenarios + seeded random schedules); TLC replays "
              "every event against the algorithm and judges the observed lock ownership. Lock balance: every public "
              "method of the real in-memory directory x receiver state x name class (fresh file system each), seeded "
              "random sequences incl. removed and lazily initialised directories, pool-backed files (incl. calls that wait "
              "by design for frozen readers / writers and the calls that wake them), NFS handle resolution, "
              "OpenedFilesPool, IdleInvoker, sector allocator, UserSettableSymlink; NFS and FUSE handle allocators; "
              "after every call all known locks are probed with TryLock hooks (locks without a hook: by the next call "
              "that needs them, under the watchdog). Gated lock-order scenarios: two directory locks held through the "
              "normalizer, two multi-lock calls, staged releases. "
              "Concurrent workers on one tree (leaves also renamed between parent, child and sibling directories) "
              "with a watchdog for 'all workers parked in a mutex'."),
        explanation="model checking of lock_pile.go + conformance/lock probing of the real code",
        exhaustive=False,
        extra={"exhaustive_part": "LockPile.tla model checking of the bounded configurations",
               "lockpile_schedules": meta_sched, "dir_sweep": meta_sweep,
               "concurrent": {k: meta_conc.get(k) for k in ("rounds", "workers", "calls")},
               "concurrent_outcomes": meta_conc.get("pairs", {}),
               "gated_scenarios": res["gated"], "parked_calls": res["parked"],
               "outcome_classes": exercised, "statement_coverage": cover},
    )


def replay(ctx, path):
    classify = vlib.classify_for(ctx.prop)
    spec = None
    info = path + ".info.json"
    if os.path.exists(info):
        try:
            spec = json.load(open(info)).get("spec")
        except Exception:
            spec = None
    if spec is None:
        head = open(path).read(4000)
        spec = LP_TRACE if ('"ev":"try"' in head or '"ev":"lock_start"' in head or '"mode":"dfs' in head) else LB_TRACE
    if spec == LP_TRACE:
        vlib.validate_traces(ctx, path, LP_TRACE, LP_CFG, LP_DEPS, "replay", classify=classify)
    else:
        vlib.validate_traces(ctx, path, LB_TRACE, LB_CFG, LB_DEPS, "replay", classify=classify)
    return vlib.finish(ctx, rule="replay of a saved trace", explanation="replay")
