SPECIFICATION FairSpec
CONSTANTS
  Threads = {"t1", "t2"}
  WithDirs = FALSE
  MaxCtr = 0
INVARIANTS
  TypeOK
PROPERTIES
  C12_WaitersSignalled
  C12_CleaningTerminates
  C12_CallsReturn
CHECK_DEADLOCK TRUE
