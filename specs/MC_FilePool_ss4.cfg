SPECIFICATION Spec
CONSTANTS
  Files = {1, 2}
  MO = 5
  SS = 4
  NSec = 2
  MaxFilesQ = 2
  MaxBytesQ = 7
  MaxFaults = 0
  PatLen = 3
  PatByte = 7
INVARIANTS
  TypeOK
  C15_NoSectorOwnedTwice
  C15_ReadsDenoteFile
  C15_Isolation
  C15_SectorsMatchData
  C15_Conservation
VIEW
  View
CHECK_DEADLOCK FALSE
