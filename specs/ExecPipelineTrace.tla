------------------------- MODULE ExecPipelineTrace -------------------------
(***************************************************************************)
(* Judges traces recorded from the real worker pipeline                    *)
(*   Caching(Metrics(FilePoolStats(Timestamped(StorageFlushing(base,       *)
(*   flush))))) over the real BatchedStoreBlobAccess                       *)
(* (harness/execpipe: scripted, well-behaved base executor;                *)
(* harness/outputs TestPipeline: the real localBuildExecutor with its      *)
(* OutputHierarchy and build directory uploading through the batching      *)
(* writer; there `bput` is every Put the base made and the referenced      *)
(* digests include the files inside Trees and, with root_directory_digest, *)
(* the Directory messages) against ExecPipeline.tla (property C09).        *)
(* A storage call may succeed ("ok"), fail ("fail"), fail because it       *)
(* cancels the request context ("cancel"), fail because the context was    *)
(* cancelled earlier ("ctxdone"), or succeed while the context is          *)
(* cancelled before it returns ("okcancel").                               *)
(*                                                                         *)
(* Layer P: the clauses of C09 (ACVerdict, ErrorVerdict, AckVerdict,       *)
(* BufferVerdict of ExecPipeline.tla) are evaluated on the logged data     *)
(* only: storage calls with their results, returns of Put and flush, the   *)
(* response entering the caching executor, the final response and the      *)
(* final contents of CAS and AC.  A failing clause sets `verdict`.  The    *)
(* model's state variables are rebuilt from the log, so that the model's   *)
(* own invariants C09_AC, C09_Error, C09_Ack, C09_Buffers are evaluated on *)
(* the observed states as well.                                            *)
(*                                                                         *)
(* Layer N: the batching layer's internal behaviour (what FindMissing is   *)
(* asked, what is uploaded, what Put and flush reply) is compared with the *)
(* model; a difference is counted in `nonconf` and printed, it is not a    *)
(* verdict.                                                                *)
(***************************************************************************)
EXTENDS ExecPipeline, Json, TLCExt

TraceLog == ndJsonDeserialize("trace.ndjson")

VARIABLES l,        \* next line of TraceLog
          verdict,  \* "ok" or "C09:<reason>" / "NC:<reason>" for the last consumed line
          tpend,    \* layer N: digests the model believes to be pending
          tupload,  \* layer N: digests the flush in progress has to upload
          tfm,      \* layer N: FindMissing seen since the last return of Put
          tmid,     \* response that entered the caching executor
          nonconf   \* number of layer N differences

tvars == <<vars, l, verdict, tpend, tupload, tfm, tmid, nonconf>>

Line == TraceLog[l]
IsEvent(e) == l <= Len(TraceLog) /\ Line.ev = e /\ l' = l + 1

ToSet(s) == {s[i] : i \in 1 .. Len(s)}

\* digests referenced by an ActionResult projection / advertised by a response
Refs(p) == ToSet(p.files) \cup ToSet(p.dirs) \cup ToSet(p.stdout) \cup ToSet(p.stderr)
Advertised(p) == Refs(p) \cup ToSet(p.logs)

\* first element that is not "ok"
Pick(vs) ==
  IF \E i \in 1 .. Len(vs) : vs[i] # "ok"
  THEN vs[CHOOSE i \in 1 .. Len(vs) : vs[i] # "ok" /\ \A j \in 1 .. (i - 1) : vs[j] = "ok"]
  ELSE "ok"

\* record a layer N difference
Note(nc) ==
  /\ nonconf' = IF nc = "ok" THEN nonconf ELSE nonconf + 1
  /\ IF nc = "ok" THEN TRUE ELSE PrintT(<<"NC", l, nc>>)

NoMid == [seen |-> FALSE, statusOK |-> FALSE, exit |-> 0]

Blank ==
  /\ pc' = "base" /\ bufs' = <<>> /\ flushError' = FALSE /\ fl' = NoFlush
  /\ fret' = FALSE /\ ac' = NoAC /\ acked' = {}
  /\ casFailed' = FALSE /\ otherFailed' = FALSE /\ cancelled' = FALSE
  /\ tpend' = {} /\ tupload' = {} /\ tfm' = FALSE /\ tmid' = NoMid

TInit ==
  /\ batch = 1 /\ sem = 1 /\ dnc = FALSE /\ reqGood = TRUE
  /\ cas = {} /\ resp = [statusOK |-> TRUE, exit |-> 0, refs |-> {}]
  /\ pc = "base" /\ bufs = <<>> /\ flushError = FALSE /\ fl = NoFlush
  /\ fret = FALSE /\ ac = NoAC /\ acked = {}
  /\ casFailed = FALSE /\ otherFailed = FALSE /\ cancelled = FALSE
  /\ tpend = {} /\ tupload = {} /\ tfm = FALSE /\ tmid = NoMid
  /\ l = 1 /\ verdict = "ok" /\ nonconf = 0

\* A new run: fresh stack, CAS pre-populated as the scenario says.
TReset ==
  /\ IsEvent("reset")
  /\ batch' = Line.batch /\ sem' = Line.sem /\ dnc' = Line.dnc
  /\ reqGood' = (Line.req = "good")
  /\ cas' = ToSet(Line.pre)
  /\ resp' = [statusOK |-> Line.baseok, exit |-> Line.exit, refs |-> {}]
  /\ Blank
  /\ verdict' = "ok" /\ UNCHANGED nonconf

\* One call on the CAS.
TCas ==
  /\ IsEvent("cas")
  /\ LET ds == ToSet(Line.ds)
         ok == Succeeded(Line.res)
         batchFM  == Line.via = "batch" /\ Line.op = "fm"
         batchPut == Line.via = "batch" /\ Line.op = "put"
         histPut  == Line.via = "caching" /\ Line.op = "put"
         \* layer N: what the flush in progress still has to upload after
         \* this call; a call that succeeds while the request context is
         \* cancelled ("okcancel") makes the flush give up on it
         rest == IF batchFM THEN (IF ok THEN ToSet(Line.missing) \cap tpend ELSE {})
                 ELSE IF batchPut THEN tupload \ ds ELSE {}
     IN
       /\ cas' = IF batchPut /\ ok THEN cas \cup ds ELSE cas
       /\ casFailed' = (casFailed \/ ((batchFM \/ batchPut) /\ ~ok))
       /\ flushError' = (flushError \/ ((batchFM \/ batchPut) /\ ~ok)
                                    \/ (Line.res = "okcancel" /\ rest # {}))
       /\ otherFailed' = (otherFailed \/ (histPut /\ ~ok))
       /\ cancelled' = (cancelled \/ Line.res \in {"cancel", "ctxdone", "okcancel"})
       /\ tpend' = IF batchFM THEN {} ELSE tpend
       /\ tupload' = IF batchFM THEN (IF ok THEN ToSet(Line.missing) \cap tpend ELSE {})
                     ELSE IF batchPut THEN tupload \ ds ELSE tupload
       /\ tfm' = (tfm \/ batchFM)
       /\ verdict' = "ok"
       /\ Note(IF batchFM THEN
                 (IF ds # tpend THEN "NC:findmissing-set-differs-from-pending"
                  ELSE IF ok /\ ToSet(Line.missing) # ds \ cas THEN "NC:cas-fake-answered-findmissing-wrongly"
                  ELSE IF pc \notin {"base", "flush"} THEN "NC:flush-after-flush-returned"
                  ELSE "ok")
               ELSE IF batchPut THEN
                 (IF ~(ds \subseteq tupload) THEN "NC:uploaded-blob-not-reported-missing" ELSE "ok")
               ELSE IF histPut THEN
                 (IF pc # "decide" THEN "NC:historical-put-at-unexpected-time" ELSE "ok")
               ELSE "NC:unexpected-cas-call")
  /\ UNCHANGED <<batch, sem, dnc, reqGood, pc, bufs, fl, fret, ac, resp, acked, tmid>>

\* Put of the batching layer returned to the base executor.
TBput ==
  /\ IsEvent("bput")
  /\ LET d == Line.d
         expected == IF d \in tpend THEN FALSE ELSE flushError
     IN
       /\ acked' = IF Line.err THEN acked ELSE acked \cup {d}
       /\ tpend' = IF Line.err THEN tpend ELSE tpend \cup {d}
       /\ tupload' = {} /\ tfm' = FALSE
       /\ verdict' = "ok"
       /\ Note(IF pc # "base" THEN "NC:put-after-base-returned"
               ELSE IF Line.err # expected THEN "NC:put-reply-differs-from-model"
               ELSE IF ~tfm /\ d \notin tpend /\ Cardinality(tpend) >= batch
                    THEN "NC:batch-full-but-not-flushed"
               ELSE "ok")
  /\ UNCHANGED <<batch, sem, dnc, reqGood, pc, bufs, flushError, fl, fret, cas, ac, resp,
                 casFailed, otherFailed, cancelled, tmid>>

\* The base executor returned.
TBret ==
  /\ IsEvent("bret")
  /\ pc' = "flush" /\ tfm' = FALSE
  /\ verdict' = "ok"
  /\ Note(IF pc # "base" THEN "NC:base-returned-twice" ELSE "ok")
  /\ UNCHANGED <<batch, sem, dnc, reqGood, bufs, flushError, fl, fret, cas, ac, resp, acked,
                 casFailed, otherFailed, cancelled, tpend, tupload, tmid>>

\* The flush callback returned to the storage flushing executor.
TFlush ==
  /\ IsEvent("flush")
  /\ fret' = Line.err
  /\ pc' = "prune"
  /\ casFailed' = (casFailed \/ Line.err)
  /\ flushError' = FALSE
  /\ tpend' = {} /\ tupload' = {}
  /\ verdict' = AckVerdict(Line.err, acked, cas)
  /\ Note(IF Line.err # flushError THEN "NC:flush-reply-differs-from-model"
          ELSE IF ~tfm /\ tpend # {} THEN "NC:flush-did-not-examine-pending-blobs"
          ELSE "ok")
  /\ UNCHANGED <<batch, sem, dnc, reqGood, bufs, fl, cas, ac, resp, acked,
                 otherFailed, cancelled, tfm, tmid>>

\* The response enters the caching executor.
TMid ==
  /\ IsEvent("mid")
  /\ tmid' = [seen |-> TRUE, statusOK |-> (Line.resp.code = 0), exit |-> Line.resp.exit]
  /\ pc' = "decide"
  /\ verdict' = "ok"
  /\ Note(IF pc # "prune" THEN "NC:response-without-flush" ELSE "ok")
  /\ UNCHANGED <<batch, sem, dnc, reqGood, bufs, flushError, fl, fret, cas, ac, resp, acked,
                 casFailed, otherFailed, cancelled, tpend, tupload, tfm>>

\* One call on the Action Cache.  A Put is judged whether or not the
\* (possibly fault-injected) store accepted it: the attempt is the code's.
TAc ==
  /\ IsEvent("ac")
  /\ LET isPut == Line.op = "put"
         ok == Succeeded(Line.res)
         r  == Line.result
         ex == IF tmid.exit # 0 THEN tmid.exit ELSE r.exit
     IN
       /\ verdict' =
            IF ~isPut THEN "ok"
            ELSE IF ~tmid.seen THEN "NC:action-cache-put-before-response"
            ELSE IF ~r.decoded THEN "NC:action-cache-put-not-an-action-result"
            ELSE ACVerdict(reqGood, dnc, tmid.statusOK, ex, Refs(r), cas)
       /\ ac' = IF isPut /\ ok /\ r.decoded
                THEN [present |-> TRUE, statusOK |-> tmid.seen /\ tmid.statusOK, exit |-> ex,
                      refs |-> Refs(r), snap |-> cas]
                ELSE ac
       /\ otherFailed' = (otherFailed \/ (isPut /\ ~ok))
       /\ cancelled' = (cancelled \/ Line.res \in {"cancel", "ctxdone", "okcancel"})
       /\ Note(IF ~isPut THEN "NC:unexpected-action-cache-call"
               ELSE IF ac.present THEN "NC:second-action-cache-put" ELSE "ok")
  /\ UNCHANGED <<batch, sem, dnc, reqGood, pc, bufs, flushError, fl, fret, cas, resp, acked,
                 casFailed, tpend, tupload, tfm, tmid>>

\* The final ExecuteResponse.
TResp ==
  /\ IsEvent("resp")
  /\ LET p == Line.resp IN
       /\ resp' = [statusOK |-> (p.code = 0), exit |-> p.exit, refs |-> Advertised(p)]
       /\ verdict' = ErrorVerdict(casFailed, otherFailed, p.code = 0, ac.present, Advertised(p))
       /\ Note(IF pc # "decide" THEN "NC:final-response-at-unexpected-time"
               ELSE IF ac.present # (p.msg = "cached") THEN "NC:message-does-not-match-caching"
               ELSE "ok")
  /\ pc' = "done"
  /\ UNCHANGED <<batch, sem, dnc, reqGood, bufs, flushError, fl, fret, cas, ac, acked,
                 casFailed, otherFailed, cancelled, tpend, tupload, tfm, tmid>>

\* End of the run: contents of the stores, how often each buffer was closed.
TEnd ==
  /\ IsEvent("end")
  /\ LET nb == Len(Line.bufs)
         counts == [i \in 1 .. nb |-> Line.bufs[i].closes]
         casEnd == ToSet(Line.cas)
         entryVerdict(e) == ACVerdict(reqGood, dnc, TRUE, e.exit, Refs(e), casEnd)
     IN
       /\ bufs' = [i \in 1 .. nb |-> [d |-> Line.bufs[i].d, st |-> "put", n |-> Line.bufs[i].closes]]
       /\ verdict' = Pick(<<BufferVerdict(counts)>> \o
                          [i \in 1 .. Len(Line.ac) |-> entryVerdict(Line.ac[i])])
       /\ Note(IF casEnd # cas THEN "NC:cas-contents-differ-from-logged-calls"
               ELSE IF Len(Line.ac) # (IF ac.present THEN 1 ELSE 0) THEN "NC:ac-contents-differ-from-logged-calls"
               ELSE "ok")
  /\ UNCHANGED <<batch, sem, dnc, reqGood, pc, flushError, fl, fret, cas, ac, resp, acked,
                 casFailed, otherFailed, cancelled, tpend, tupload, tfm, tmid>>

\* Execute panicked or returned nil: no response that could carry the error.
TPanic ==
  /\ IsEvent("panic")
  /\ verdict' = "C09:panic-instead-of-response"
  /\ UNCHANGED <<vars, tpend, tupload, tfm, tmid, nonconf>>

Known == {"reset", "cas", "bput", "bret", "flush", "mid", "ac", "resp", "end", "panic"}

TUnknown ==
  /\ l <= Len(TraceLog) /\ Line.ev \notin Known /\ l' = l + 1
  /\ verdict' = "NC:unknown-event"
  /\ UNCHANGED <<vars, tpend, tupload, tfm, tmid, nonconf>>

TNext == TReset \/ TCas \/ TBput \/ TBret \/ TFlush \/ TMid \/ TAc \/ TResp \/ TEnd
         \/ TPanic \/ TUnknown

TraceSpec == TInit /\ [][TNext]_tvars

-----------------------------------------------------------------------------
VerdictOK == verdict = "ok"

Accepted ==
  /\ TLCGet("stats").diameter - 1 = Len(TraceLog)
  /\ PrintT(<<"TRACE_ACCEPTED", Len(TraceLog)>>)

NonconfReport == (l <= Len(TraceLog)) \/ PrintT(<<"NONCONF", nonconf>>)
=============================================================================
