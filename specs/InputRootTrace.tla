--------------------------- MODULE InputRootTrace ---------------------------
(***************************************************************************)
(* Validates traces recorded from the real input root (harness/inputroot)  *)
(* against the reference model of InputRootOps.tla (property C17).         *)
(*                                                                         *)
(* Every line is consumed.  The reset line describes the CAS; the model    *)
(* computes, for every logged operation, what the denotation of the root   *)
(* digest overlaid with the local modifications so far prescribes, and     *)
(* `verdict` records whether the real reply is that.                       *)
(*                                                                         *)
(*   verdict "ok"                                                          *)
(*   "C17:<reason>"  a C17 predicate is false on what the code replied;    *)
(*                   `clause` names the predicate (Fidelity, Errors,       *)
(*                   Immutable)                                            *)
(*   "C13:<reason>"  the result of a local modification differs although   *)
(*                   no CAS-denoted directory was involved (POSIX          *)
(*                   hierarchy, not this property)                         *)
(*   "NC:<reason>"   the driver addressed something the model does not     *)
(*                   know                                                  *)
(*                                                                         *)
(* Injected storage errors (field `faults`) excuse a failure of the        *)
(* operation during which they were injected - and nothing else: the       *)
(* tree must be unchanged afterwards and a retry must succeed, which later *)
(* lines check.                                                            *)
(***************************************************************************)
EXTENDS InputRootOps, Json, TLCExt

CONSTANTS ActionIds

TraceLog == ndJsonDeserialize("trace.ndjson")

VARIABLES l,        \* next line of TraceLog
          verdict,  \* "ok" or why the last consumed line is wrong
          clause,   \* which C17 predicate failed ("" if none)
          cas,      \* the CAS as described by the reset line
          hashes,   \* id -> hash of the stored bytes at reset
          trees     \* action -> reference tree (lazy nodes = still denoted by the CAS)

tvars == <<l, verdict, clause, cas, hashes, trees>>

Line == TraceLog[l]
IsEvent(e) == l <= Len(TraceLog) /\ Line.ev = e /\ l' = l + 1

EmptyCas == [dirs |-> <<>>, trees |-> <<>>, blobs |-> <<>>]
NoTrees  == [a \in ActionIds |-> EmptyTree]

TInit ==
  /\ l = 1 /\ verdict = "ok" /\ clause = ""
  /\ cas = EmptyCas /\ hashes = <<>> /\ trees = NoTrees

OK == <<"ok", "">>
Set(v) == verdict' = v[1] /\ clause' = v[2]

Faulted == Len(Line.faults) > 0
T == trees[Line.a]
KnownAction == Line.a \in ActionIds

\* The tree after a line: the reference result if the real code agreed
\* with it, otherwise unchanged (a failed operation changes nothing).
After(exp, realok) == IF realok /\ exp.ok THEN exp.t ELSE T
Advance(exp, realok) == trees' = [trees EXCEPT ![Line.a] = After(exp, realok)]

-----------------------------------------------------------------------------
(* Judging                                                                 *)

\* An observation (look-up, listing): exp is the reference result, matches
\* says whether the reported value is the prescribed one.
JudgeObs(exp, realok, matches, differs) ==
  IF exp.why = "unknowndir" THEN <<"NC:driver-addressed-unknown-directory", "">>
  ELSE IF exp.ok THEN
    IF realok THEN (IF matches THEN OK ELSE <<differs, "Fidelity">>)
    ELSE IF Faulted THEN OK
    ELSE <<"C17:error-without-cause", "Fidelity">>
  ELSE IF ~realok THEN OK
  ELSE IF exp.why = "unavail" THEN <<"C17:malformed-or-missing-directory-presented-as-tree", "Errors">>
  ELSE <<"C17:phantom-entry", "Fidelity">>

\* A local modification.
JudgeMod(exp, realok) ==
  IF exp.why = "unknowndir" THEN <<"NC:driver-addressed-unknown-directory", "">>
  ELSE IF exp.why = "illegal" THEN <<"NC:driver-moved-directory-into-itself", "">>
  ELSE IF exp.ok THEN
    IF realok \/ Faulted THEN OK
    ELSE IF exp.lazy THEN <<"C17:error-without-cause", "Fidelity">>
    ELSE <<"C13:modification-refused", "">>
  ELSE IF ~realok THEN OK
  ELSE IF exp.why = "unavail" THEN <<"C17:malformed-or-missing-directory-presented-as-tree", "Errors">>
  ELSE IF exp.lazy THEN <<"C17:modification-contradicts-denoted-tree", "Fidelity">>
  ELSE <<"C13:modification-accepted", "">>

AttrMatches(x, basic) ==
  /\ Line.kind = x.kind
  /\ Line.exec = x.exec
  /\ basic \/ Line.target = x.target
  /\ basic \/ x.size = -1 \/ Line.size = x.size

EntryMatches(e, x, basic) ==
  /\ e.name = x.name /\ e.kind = x.kind /\ e.exec = x.exec
  /\ basic \/ e.target = x.target
  /\ basic \/ x.size = -1 \/ e.size = x.size

ListMatches(es, want, basic) ==
  /\ Len(es) = Cardinality(want)
  /\ Cardinality({es[i].name : i \in 1 .. Len(es)}) = Len(es)
  /\ \A i \in 1 .. Len(es) : \E x \in want : EntryMatches(es[i], x, basic)

-----------------------------------------------------------------------------
(* Lines                                                                   *)

\* A new scenario: a new CAS, no action has an input root yet.
TReset ==
  /\ IsEvent("reset")
  /\ cas' = [dirs |-> Line.dirs, trees |-> Line.trees, blobs |-> Line.blobs]
  /\ hashes' = Line.hashes
  /\ trees' = NoTrees
  /\ Set(OK)

TSkip ==
  /\ (IsEvent("info") \/ IsEvent("done"))
  /\ Set(OK) /\ UNCHANGED <<cas, hashes, trees>>

SrcOf(mode, tree, id) == IF mode = "tree" THEN TreeSrc(tree, id) ELSE DirSrc(id)

\* MergeDirectoryContents(digest) into directory dir (dir = <<>> at the
\* start of an action).
TMerge ==
  /\ IsEvent("merge")
  /\ LET exp == OpMerge(cas, T, Line.dir, SrcOf(Line.mode, Line.tree, Line.id)) IN
       /\ Set(JudgeMod(exp, Line.ok))
       /\ Advance(exp, Line.ok)
  /\ UNCHANGED <<cas, hashes>>

TLookup ==
  /\ IsEvent("lookup")
  /\ LET exp == OpLookup(cas, T, Line.dir, Line.name) IN
       /\ Set(JudgeObs(exp, Line.ok, AttrMatches(exp.val, FALSE), "C17:looked-up-node-differs"))
       /\ Advance(exp, Line.ok)
  /\ UNCHANGED <<cas, hashes>>

TList ==
  /\ IsEvent("list")
  /\ LET exp == OpList(cas, T, Line.dir) IN
       /\ Set(JudgeObs(exp, Line.ok, ListMatches(Line.entries, exp.val, Line.api = "w"), "C17:listing-differs"))
       /\ Advance(exp, Line.ok)
  /\ UNCHANGED <<cas, hashes>>

TGetattr ==
  /\ IsEvent("getattr")
  /\ Set(IF Line.path \notin DOMAIN T THEN <<"NC:driver-addressed-unknown-node", "">>
         ELSE IF AttrMatches(AttrOf(T[Line.path]), FALSE) THEN OK
         ELSE <<"C17:attributes-differ", "Fidelity">>)
  /\ UNCHANGED <<cas, hashes, trees>>

TRead ==
  /\ IsEvent("read")
  /\ Set(IF Line.path \notin DOMAIN T THEN <<"NC:driver-addressed-unknown-node", "">>
         ELSE IF ~IsCasFile(T, Line.path) THEN OK            \* local file: not this property
         ELSE IF ~BlobPresent(cas, T, Line.path) THEN
           \* the bytes are not in the CAS: only a read at or beyond the
           \* size named by the digest can succeed (with no data)
           (IF Line.ok /\ ~(Line.off >= T[Line.path].size /\ Line.data = <<>>)
            THEN <<"C17:read-of-absent-blob-returned-data", "Fidelity">> ELSE OK)
         ELSE IF ~Line.ok THEN
           (IF Faulted THEN OK ELSE <<"C17:read-failed-without-cause", "Immutable">>)
         ELSE LET want == ReadOf(cas, T, Line.path, Line.off, Line.n) IN
           IF Line.data = want.data /\ Line.eof = want.eof THEN OK
           ELSE <<"C17:read-returns-other-bytes-than-the-blob", "Immutable">>)
  /\ UNCHANGED <<cas, hashes, trees>>

TUpload ==
  /\ IsEvent("upload")
  /\ Set(IF Line.path \notin DOMAIN T THEN <<"NC:driver-addressed-unknown-node", "">>
         ELSE IF IsCasFile(T, Line.path) /\ Line.ok /\ Line.blob # T[Line.path].blob
           THEN <<"C17:file-reports-other-digest", "Fidelity">>
         ELSE OK)
  /\ UNCHANGED <<cas, hashes, trees>>

TReadlink ==
  /\ IsEvent("readlink")
  /\ Set(IF Line.path \notin DOMAIN T \/ T[Line.path].kind # "symlink" THEN <<"NC:driver-addressed-unknown-node", "">>
         ELSE IF ~Line.ok THEN (IF Faulted THEN OK ELSE <<"C17:error-without-cause", "Fidelity">>)
         ELSE IF Line.target = T[Line.path].target THEN OK
         ELSE <<"C17:symlink-target-differs", "Fidelity">>)
  /\ UNCHANGED <<cas, hashes, trees>>

\* Attempts to alter a file.  For a CAS-backed file every one of them must
\* be refused ("panic": VirtualWrite of a CAS file documents that the call
\* must have been intercepted earlier - nothing is written).
TAlter ==
  /\ IsEvent("alter")
  /\ Set(IF Line.path \notin DOMAIN T THEN <<"NC:driver-addressed-unknown-node", "">>
         ELSE IF Line.kind \notin AlterKinds THEN <<"NC:unknown-alteration", "">>
         ELSE IF IsCasFile(T, Line.path) /\ (Line.res = "accepted" \/ Line.wrote # 0)
           THEN <<"C17:alteration-of-cas-backed-file-accepted", "Immutable">>
         ELSE OK)
  /\ UNCHANGED <<cas, hashes, trees>>

TRemove ==
  /\ IsEvent("remove")
  /\ LET exp == OpRemove(cas, T, Line.dir, Line.name, Line.rd, Line.rl) IN
       /\ Set(JudgeMod(exp, Line.ok))
       /\ Advance(exp, Line.ok)
  /\ UNCHANGED <<cas, hashes>>

TRename ==
  /\ IsEvent("rename")
  /\ LET exp == OpRename(cas, T, Line.dir, Line.name, Line.ndir, Line.nname)
         noeffect == Line.ok /\ exp.ok /\ Line.srcthere
     IN
       /\ Set(IF noeffect /\ ~RenameNoEffect(exp)
              THEN (IF exp.lazy THEN <<"C17:rename-left-source-in-place", "Fidelity">>
                    ELSE <<"C13:rename-left-source-in-place", "">>)
              ELSE JudgeMod(exp, Line.ok))
       /\ IF noeffect THEN UNCHANGED trees ELSE Advance(exp, Line.ok)
  /\ UNCHANGED <<cas, hashes>>

TMkdir ==
  /\ IsEvent("mkdir")
  /\ LET exp == OpCreate(cas, T, Line.dir, Line.name, MatDir) IN
       /\ Set(JudgeMod(exp, Line.ok))
       /\ Advance(exp, Line.ok)
  /\ UNCHANGED <<cas, hashes>>

TCreate ==
  /\ IsEvent("create")
  /\ LET exp == OpCreate(cas, T, Line.dir, Line.name, LocalFile(Line.exec)) IN
       /\ Set(JudgeMod(exp, Line.ok))
       /\ Advance(exp, Line.ok)
  /\ UNCHANGED <<cas, hashes>>

KidNode(k) ==
  CASE k.kind = "lazydir"  -> LazyDir(SrcOf(k.mode, k.tree, k.id))
    [] k.kind = "emptydir" -> MatDir
    [] k.kind = "casfile"  -> CasFile(k.blob, k.size, k.exec)
    [] OTHER               -> Symlink(k.target)

TPut ==
  /\ IsEvent("put")
  /\ LET kids == [i \in 1 .. Len(Line.kids) |-> [name |-> Line.kids[i].name, node |-> KidNode(Line.kids[i])]]
         exp  == OpPut(cas, T, Line.dir, kids, Line.overwrite)
     IN
       /\ Set(JudgeMod(exp, Line.ok))
       /\ Advance(exp, Line.ok)
  /\ UNCHANGED <<cas, hashes>>

\* At the end every blob is read back from the storage.
TCasScan ==
  /\ IsEvent("casscan")
  /\ Set(IF Line.id \notin DOMAIN hashes THEN <<"NC:scan-of-unknown-blob", "">>
         ELSE IF hashes[Line.id] = Line.hash THEN OK
         ELSE <<"C17:cas-content-changed", "Immutable">>)
  /\ UNCHANGED <<cas, hashes, trees>>

\* The real code panicked while the input root was used.
TPanic ==
  /\ IsEvent("panic")
  /\ Set(<<"C17:panic", "Fidelity">>)
  /\ UNCHANGED <<cas, hashes, trees>>

TNext ==
  \/ TReset \/ TSkip \/ TMerge \/ TLookup \/ TList \/ TGetattr \/ TRead \/ TUpload
  \/ TReadlink \/ TAlter \/ TRemove \/ TRename \/ TMkdir \/ TCreate \/ TPut
  \/ TCasScan \/ TPanic

TraceSpec == TInit /\ [][TNext]_tvars

-----------------------------------------------------------------------------
C17_Fidelity  == clause # "Fidelity"
C17_Errors    == clause # "Errors"
C17_Immutable == clause # "Immutable"
VerdictOK     == verdict = "ok"

Accepted ==
  /\ TLCGet("stats").diameter - 1 = Len(TraceLog)
  /\ PrintT(<<"TRACE_ACCEPTED", Len(TraceLog)>>)
=============================================================================
