// Package sched drives the real scheduler.InMemoryBuildQueue under a
// deterministic scheduler of critical sections and records traces that
// specs/SchedTrace.tla validates (properties C01-C07).
package sched

import (
	"context"
	"encoding/json"
	"fmt"
	"runtime"
	"sort"
	"strconv"
	"strings"
	"sync"
	"testing/synctest"
	"time"

	remoteexecution "github.com/bazelbuild/remote-apis/build/bazel/remote/execution/v2"
	"github.com/buildbarn/bb-remote-execution/pkg/proto/buildqueuestate"
	"github.com/buildbarn/bb-remote-execution/pkg/proto/remoteworker"
	"github.com/buildbarn/bb-remote-execution/pkg/scheduler"
	"github.com/buildbarn/bb-remote-execution/pkg/scheduler/initialsizeclass"
	"github.com/buildbarn/bb-remote-execution/pkg/scheduler/invocation"
	"github.com/buildbarn/bb-remote-execution/pkg/scheduler/platform"
	"github.com/buildbarn/bb-remote-execution/pkg/scheduler/routing"
	"github.com/buildbarn/bb-storage/pkg/auth"
	"github.com/buildbarn/bb-storage/pkg/blobstore"
	"github.com/buildbarn/bb-storage/pkg/blobstore/buffer"
	"github.com/buildbarn/bb-storage/pkg/blobstore/slicing"
	"github.com/buildbarn/bb-storage/pkg/clock"
	"github.com/buildbarn/bb-storage/pkg/digest"
	"github.com/buildbarn/bb-storage/pkg/util"
	"github.com/google/uuid"

	"cloud.google.com/go/longrunning/autogen/longrunningpb"
	status_pb "google.golang.org/genproto/googleapis/rpc/status"
	"google.golang.org/grpc/codes"
	"google.golang.org/grpc/metadata"
	"google.golang.org/grpc/status"
	"google.golang.org/protobuf/proto"
	"google.golang.org/protobuf/types/known/anypb"
	"google.golang.org/protobuf/types/known/durationpb"
	"google.golang.org/protobuf/types/known/emptypb"

	"verif/harness/common"
)

// Unit is the duration of one model tick.
const Unit = time.Second

var epoch = time.Unix(1000000, 0)

func ticks(t time.Time) int64 {
	if t.IsZero() {
		return 0
	}
	return int64(t.Sub(epoch) / Unit)
}

// goid returns the id of the calling goroutine.
func goid() int64 {
	var buf [64]byte
	n := runtime.Stack(buf[:], false)
	f := strings.Fields(string(buf[:n]))
	id, _ := strconv.ParseInt(f[1], 10, 64)
	return id
}

// ---------------------------------------------------------------------------
// Fake clock

type fakeTimer struct {
	id      int
	due     time.Time
	ch      chan time.Time
	stopped bool
	fired   bool
	owner   string
}

func (t *fakeTimer) Stop() bool {
	t.stopped = true
	return !t.fired
}

type fakeClock struct {
	w *World
}

func (c fakeClock) Now() time.Time {
	c.w.mu.Lock()
	defer c.w.mu.Unlock()
	return c.w.now
}

func (c fakeClock) NewContextWithTimeout(parent context.Context, timeout time.Duration) (context.Context, context.CancelFunc) {
	panic("not used by the scheduler")
}

func (c fakeClock) NewTimer(d time.Duration) (clock.Timer, <-chan time.Time) {
	w := c.w
	w.mu.Lock()
	defer w.mu.Unlock()
	w.timerSeq++
	t := &fakeTimer{id: w.timerSeq, due: w.now.Add(d), ch: make(chan time.Time, 1)}
	if a := w.byGoid[goid()]; a != nil {
		t.owner = a.name
	}
	w.timers = append(w.timers, t)
	return t, t.ch
}

func (c fakeClock) NewTicker(d time.Duration) (clock.Ticker, <-chan time.Time) {
	panic("not used by the scheduler")
}

// ---------------------------------------------------------------------------
// Fake CAS holding Action messages

type fakeCAS struct {
	blobstore.BlobAccess
	w *World
}

func (c fakeCAS) Get(ctx context.Context, d digest.Digest) buffer.Buffer {
	if a, ok := c.w.actionsByHash[d.GetHashString()]; ok {
		return buffer.NewProtoBufferFromProto(a.msg, buffer.UserProvided)
	}
	return buffer.NewBufferFromError(status.Error(codes.NotFound, "Action not found"))
}

func (c fakeCAS) GetFromComposite(ctx context.Context, parentDigest, childDigest digest.Digest, slicer slicing.BlobSlicer) buffer.Buffer {
	panic("unused")
}

// ---------------------------------------------------------------------------
// Scripted size class analyzer

// isccScript decides what the scripted analyzer answers. All answers
// are logged, so the trace says which ones were given.
type isccScript interface {
	// selectClass: size classes present -> index, expected duration, timeout, learner wanted
	selectClass(sizeClasses []uint32, actionTimeout int) (int, int, int)
	// succeeded: -> background learning wanted?, index, expDur, timeout
	succeeded(sizeClasses []uint32) (bool, int, int, int)
	// failed: -> retry on largest wanted?, expDur, timeout
	failed(isLargest bool) (bool, int, int)
}

type fakeAnalyzer struct{ w *World }

type fakeSelector struct {
	w  *World
	id int
}

type fakeLearner struct {
	w       *World
	id      int
	largest bool // whether it runs on the largest size class
	bg      bool
}

func (a fakeAnalyzer) Analyze(ctx context.Context, digestFunction digest.Function, action *remoteexecution.Action) (initialsizeclass.Selector, error) {
	w := a.w
	w.mu.Lock()
	w.selSeq++
	id := w.selSeq
	w.mu.Unlock()
	w.emitISCC(common.Ev{"k": "analyze", "sel": id, "lrn": 0, "idx": 0, "exp": 0, "to": 0, "n": 0, "next": 0, "arg": 0})
	return &fakeSelector{w: w, id: id}, nil
}

func (s *fakeSelector) Select(sizeClasses []uint32) (int, time.Duration, time.Duration, initialsizeclass.Learner) {
	w := s.w
	idx, exp, to := w.script.selectClass(sizeClasses, 100)
	w.mu.Lock()
	w.lrnSeq++
	l := &fakeLearner{w: w, id: w.lrnSeq, largest: idx == len(sizeClasses)-1}
	w.mu.Unlock()
	w.emitISCC(common.Ev{"k": "select", "sel": s.id, "lrn": l.id, "idx": idx, "exp": exp, "to": to, "n": len(sizeClasses), "next": l.id, "arg": 0})
	return idx, time.Duration(exp) * Unit, time.Duration(to) * Unit, l
}

func (s *fakeSelector) Abandoned() {
	s.w.emitISCC(common.Ev{"k": "sel_abandoned", "sel": s.id, "lrn": 0, "idx": 0, "exp": 0, "to": 0, "n": 0, "next": 0, "arg": 0})
}

func (l *fakeLearner) Succeeded(duration time.Duration, sizeClasses []uint32) (int, time.Duration, time.Duration, initialsizeclass.Learner) {
	w := l.w
	want, idx, exp, to := false, 0, 0, 0
	if !l.bg {
		want, idx, exp, to = w.script.succeeded(sizeClasses)
	}
	var next *fakeLearner
	nextID := 0
	if want {
		w.mu.Lock()
		w.lrnSeq++
		next = &fakeLearner{w: w, id: w.lrnSeq, largest: idx == len(sizeClasses)-1, bg: true}
		w.mu.Unlock()
		nextID = next.id
	}
	w.emitISCC(common.Ev{"k": "succeeded", "sel": 0, "lrn": l.id, "idx": idx, "exp": exp, "to": to, "n": len(sizeClasses), "next": nextID, "arg": int(duration / Unit)})
	if next == nil {
		return 0, 0, 0, nil
	}
	return idx, time.Duration(exp) * Unit, time.Duration(to) * Unit, next
}

func (l *fakeLearner) Failed(timedOut bool) (time.Duration, time.Duration, initialsizeclass.Learner) {
	w := l.w
	want, exp, to := false, 0, 0
	if !l.largest {
		want, exp, to = w.script.failed(l.largest)
	}
	var next *fakeLearner
	nextID := 0
	if want {
		w.mu.Lock()
		w.lrnSeq++
		next = &fakeLearner{w: w, id: w.lrnSeq, largest: true, bg: l.bg}
		w.mu.Unlock()
		nextID = next.id
	}
	arg := 0
	if timedOut {
		arg = 1
	}
	w.emitISCC(common.Ev{"k": "failed", "sel": 0, "lrn": l.id, "idx": 0, "exp": exp, "to": to, "n": 0, "next": nextID, "arg": arg})
	if next == nil {
		return 0, 0, nil
	}
	return time.Duration(exp) * Unit, time.Duration(to) * Unit, next
}

func (l *fakeLearner) Abandoned() {
	l.w.emitISCC(common.Ev{"k": "lrn_abandoned", "sel": 0, "lrn": l.id, "idx": 0, "exp": 0, "to": 0, "n": 0, "next": 0, "arg": 0})
}

// ---------------------------------------------------------------------------
// Invocation key extractors: level k of the invocation path is read from
// the request metadata (correlated invocations id, tool invocation id,
// action id).

type levelKeyExtractor struct {
	w     *World
	level int
}

func (e levelKeyExtractor) ExtractKey(ctx context.Context, md *remoteexecution.RequestMetadata) (invocation.Key, error) {
	var v string
	switch e.level {
	case 0:
		v = md.GetCorrelatedInvocationsId()
	case 1:
		v = md.GetToolInvocationId()
	default:
		v = md.GetActionId()
	}
	return e.w.invKey(v), nil
}

// ---------------------------------------------------------------------------
// World

type actionDef struct {
	label    string // "d1"...
	hash     string
	platform string // "p1" | "p2"
	dnc      bool
	msg      *remoteexecution.Action
	digest   *remoteexecution.Digest
}

// Actor is one in-flight RPC (one goroutine).
type Actor struct {
	name   string // e.g. "c1#3": client 1, call 3
	kind   string // execute | wait | sync | terminate | op
	owner  string // client / worker / operator name
	gate   chan struct{}
	sendG  chan error
	authG  chan struct{}
	state  string // running | gate | send | done
	cancel context.CancelFunc
	ctx    context.Context
	// per call bookkeeping
	cancelled  bool
	sendFailed bool
	sections   int
	iscc       []common.Ev // analyzer calls made since the last event
	done       bool
	result     common.Ev
}

// World owns the real build queue and everything around it.
type World struct {
	mu      sync.Mutex
	tr      *common.Trace
	bq      *scheduler.InMemoryBuildQueue
	cfg     *scheduler.InMemoryBuildQueueConfiguration
	now     time.Time
	timers  []*fakeTimer
	timerSeq int
	uuidSeq int
	selSeq  int
	lrnSeq  int
	script  isccScript

	actions       []*actionDef
	actionsByHash map[string]*actionDef

	actors   []*Actor
	byGoid   map[int64]*Actor
	actorSeq int
	seq      int

	invKeys   map[string]invocation.Key // label -> key
	invLabels map[string]string         // key -> label
	workerLbl map[string]string         // worker key json -> label
	last      *scheduler.VerifSnapshot
	panicked  string
	quiet     bool // driver calls do not emit section events (read-only listings)
	pendingISCC []common.Ev
}

func (w *World) invKey(label string) invocation.Key {
	w.mu.Lock()
	defer w.mu.Unlock()
	if k, ok := w.invKeys[label]; ok {
		return k
	}
	// Keys are protojson of an Any, produced by the same function the
	// server uses when it resolves invocation names (its whitespace is
	// not stable across binaries, so it must not be written by hand).
	any, err := anypb.New(&remoteexecution.RequestMetadata{ToolInvocationId: label})
	if err != nil {
		panic(err)
	}
	k, err := invocation.NewKey(any)
	if err != nil {
		panic(err)
	}
	w.invKeys[label] = k
	w.invLabels[string(k)] = label
	return k
}

func (w *World) invLabel(k string) string {
	if l, ok := w.invLabels[k]; ok {
		return l
	}
	if k == string(invocation.BackgroundLearningKeys[0]) {
		return "BG"
	}
	// protojson does not produce stable whitespace: compare by content.
	var m map[string]any
	if err := json.Unmarshal([]byte(k), &m); err == nil {
		if t, _ := m["@type"].(string); strings.HasSuffix(t, "BackgroundLearning") {
			return "BG"
		}
		if v, ok := m["toolInvocationId"].(string); ok {
			return v
		}
	}
	return "?" + k
}

func (w *World) emitISCC(ev common.Ev) {
	w.mu.Lock()
	defer w.mu.Unlock()
	w.pendingISCC = append(w.pendingISCC, ev)
}

func (w *World) takeISCC() []common.Ev {
	w.mu.Lock()
	defer w.mu.Unlock()
	r := w.pendingISCC
	w.pendingISCC = nil
	if r == nil {
		r = []common.Ev{}
	}
	return r
}

// Config of one trace.
type Config struct {
	UpdateInterval   int
	NoWaiterTimeout  int
	QueueTimeout     int
	BusySyncInterval int
	IdleSyncInterval int
	RetryCount       int
	WorkerTimeout    int
}

var DefaultConfig = Config{UpdateInterval: 7, NoWaiterTimeout: 11, QueueTimeout: 31, BusySyncInterval: 5, IdleSyncInterval: 13, RetryCount: 1, WorkerTimeout: 23}

// NewWorld creates a world with a fresh real build queue.
func NewWorld(tr *common.Trace, c Config, script isccScript) *World {
	w := &World{
		tr:            tr,
		now:           epoch,
		actionsByHash: map[string]*actionDef{},
		byGoid:        map[int64]*Actor{},
		invKeys:       map[string]invocation.Key{},
		invLabels:     map[string]string{},
		workerLbl:     map[string]string{},
		script:        script,
	}
	w.cfg = &scheduler.InMemoryBuildQueueConfiguration{
		ExecutionUpdateInterval:              time.Duration(c.UpdateInterval) * Unit,
		OperationWithNoWaitersTimeout:        time.Duration(c.NoWaiterTimeout) * Unit,
		PlatformQueueWithNoWorkersTimeout:    time.Duration(c.QueueTimeout) * Unit,
		BusyWorkerSynchronizationInterval:    time.Duration(c.BusySyncInterval) * Unit,
		GetIdleWorkerSynchronizationInterval: func() time.Duration { return time.Duration(c.IdleSyncInterval) * Unit },
		WorkerTaskRetryCount:                 c.RetryCount,
		WorkerWithNoSynchronizationsTimeout:  time.Duration(c.WorkerTimeout) * Unit,
	}
	allow := auth.NewStaticAuthorizer(func(digest.InstanceName) bool { return true })
	// WaitExecution and KillOperations authorize between two critical
	// sections; the gate lets the driver run other sections in that window.
	windowed := gatedAuthorizer{w}
	router := routing.NewSimpleActionRouter(
		platform.ActionKeyExtractor,
		[]invocation.KeyExtractor{levelKeyExtractor{w, 0}, levelKeyExtractor{w, 1}},
		fakeAnalyzer{w})
	w.bq = scheduler.NewInMemoryBuildQueue(fakeCAS{w: w}, fakeClock{w}, func() (uuid.UUID, error) {
		w.mu.Lock()
		defer w.mu.Unlock()
		w.uuidSeq++
		var u uuid.UUID
		u[14] = byte(w.uuidSeq >> 8)
		u[15] = byte(w.uuidSeq)
		return u, nil
	}, w.cfg, 1<<20, router, windowed, allow, windowed, allow)
	scheduler.VerifSetTracer(w.bq, w)
	return w
}

func opLabel(name string) string {
	if len(name) == 36 {
		n, err := strconv.ParseInt(name[32:], 16, 32)
		if err == nil {
			return "o" + strconv.Itoa(int(n))
		}
	}
	return name
}

func opUUID(label string) string {
	n, _ := strconv.Atoi(strings.TrimPrefix(label, "o"))
	var u uuid.UUID
	u[14] = byte(n >> 8)
	u[15] = byte(n)
	return u.String()
}

// AddAction defines an action message that clients may request.
func (w *World) AddAction(label, plat string, dnc bool) *actionDef {
	n := len(w.actions) + 1
	hash := fmt.Sprintf("%064x", n)
	a := &actionDef{label: label, hash: hash, platform: plat, dnc: dnc}
	a.msg = &remoteexecution.Action{
		DoNotCache: dnc,
		Timeout:    durationpb.New(100 * Unit),
		Platform:   platformMsg(plat),
	}
	a.digest = &remoteexecution.Digest{Hash: hash, SizeBytes: int64(100 + n)}
	w.actions = append(w.actions, a)
	w.actionsByHash[hash] = a
	return a
}

func platformMsg(p string) *remoteexecution.Platform {
	return &remoteexecution.Platform{Properties: []*remoteexecution.Platform_Property{{Name: "os", Value: p}}}
}

func (w *World) digestLabel(s string) string {
	// digest string forms: "3-<hash>-<size>-<instance>" etc; find the hash.
	for h, a := range w.actionsByHash {
		if strings.Contains(s, h) {
			inst := ""
			if i := strings.LastIndex(s, "-"); i >= 0 {
				inst = s[i+1:]
			}
			return a.label + "@" + inst
		}
	}
	return s
}

// gatedAuthorizer allows everything, but parks WaitExecution and
// KillOperations calls in the unlocked authorization window until the
// driver lets them continue.
type gatedAuthorizer struct{ w *World }

func (g gatedAuthorizer) Authorize(ctx context.Context, instanceNames []digest.InstanceName) []error {
	w := g.w
	w.mu.Lock()
	a := w.byGoid[goid()]
	w.mu.Unlock()
	if a != nil && (a.kind == "wait" || a.kind == "kill") && a.sections > 0 {
		w.mu.Lock()
		a.state = "auth"
		w.mu.Unlock()
		<-a.authG
		w.mu.Lock()
		a.state = "running"
		w.mu.Unlock()
	}
	return make([]error, len(instanceNames))
}

// ReleaseAuth lets actor a leave the authorization window.
func (w *World) ReleaseAuth(a *Actor) {
	a.authG <- struct{}{}
	synctest.Wait()
}

// --- tracer (called from the build queue) -----------------------------------

// Enter blocks the calling actor until the driver releases it.
func (w *World) Enter(bq *scheduler.InMemoryBuildQueue) {
	w.mu.Lock()
	a := w.byGoid[goid()]
	w.mu.Unlock()
	if a == nil {
		return // driver's own calls (not gated)
	}
	w.mu.Lock()
	a.state = "gate"
	w.mu.Unlock()
	<-a.gate
	w.mu.Lock()
	a.state = "running"
	w.mu.Unlock()
}

// Panicked reports whether the real code panicked in this trace.
func (w *World) Panicked() bool {
	w.mu.Lock()
	defer w.mu.Unlock()
	return w.panicked != ""
}

// Leave records the state at the end of a critical section.
func (w *World) Leave(bq *scheduler.InMemoryBuildQueue) {
	if w.Panicked() {
		return
	}
	snap := bq.VerifSnapshot(int64(Unit))
	w.mu.Lock()
	a := w.byGoid[goid()]
	w.last = snap
	w.seq++
	seq := w.seq
	w.mu.Unlock()
	name, kind, owner := "driver", "driver", "driver"
	first := true
	if a == nil && w.quiet {
		return
	}
	if a != nil {
		name, kind, owner = a.name, a.kind, a.owner
		first = a.sections == 0
		a.sections++
	}
	w.tr.Emit(common.Ev{"ev": "sec", "seq": seq, "actor": name, "kind": kind, "owner": owner, "first": first, "clock": ticks(w.clockNow()), "iscc": w.takeISCC(), "s": w.project(snap)})
}

func (w *World) clockNow() time.Time {
	w.mu.Lock()
	defer w.mu.Unlock()
	return w.now
}

// --- projection --------------------------------------------------------------

func (w *World) workerLabel(key string) string {
	if key == "" {
		return ""
	}
	if l, ok := w.workerLbl[key]; ok {
		return l
	}
	return "?" + key
}

func (w *World) pathLabels(p []string) []string {
	out := make([]string, 0, len(p))
	for _, k := range p {
		out = append(out, w.invLabel(k))
	}
	return out
}

func nz[T any](s []T) []T {
	if s == nil {
		return []T{}
	}
	return s
}

// project renames identifiers of a raw snapshot into short stable labels.
// It does not interpret anything.
func (w *World) project(s *scheduler.VerifSnapshot) common.Ev {
	queues := []common.Ev{}
	for _, q := range s.Queues {
		workers := []common.Ev{}
		for _, wk := range q.Workers {
			workers = append(workers, common.Ev{
				"idp": pairsOf(wk.Key),
				"id": w.workerLabel(wk.Key), "task": wk.Task, "terminating": wk.Terminating,
				"has_last": wk.HasLastInv, "last": w.pathLabels(wk.LastInv), "parked": wk.Parked,
				"list_index": wk.ListIndex, "cleanup_at": rel(wk.CleanupAt), "stick": relSlice(wk.Stickiness), "drained": wk.Drained,
			})
		}
		invs := []common.Ev{}
		for _, i := range q.Invocations {
			qops := []string{}
			for _, n := range i.QueuedOperations {
				qops = append(qops, opLabel(n))
			}
			qch := [][]string{}
			for _, c := range i.QueuedChildren {
				qch = append(qch, w.pathLabels(c))
			}
			ich := [][]string{}
			for _, c := range i.IdleSyncChildren {
				ich = append(ich, w.pathLabels(c))
			}
			isw := []string{}
			for _, k := range i.IdleSyncWorkers {
				isw = append(isw, w.workerLabel(k))
			}
			exec := []common.Ev{}
			var ek []string
			for k := range i.ExecutingWorkers {
				ek = append(ek, k)
			}
			sort.Strings(ek)
			for _, k := range ek {
				exec = append(exec, common.Ev{"w": w.workerLabel(k), "n": i.ExecutingWorkers[k]})
			}
			ch := []string{}
			for _, k := range i.Children {
				ch = append(ch, w.invLabel(k))
			}
			invs = append(invs, common.Ev{
				"path": w.pathLabels(i.Path), "qops": qops, "qidx": nz(i.QueueIndices), "qch": qch, "qchidx": nz(i.QueuedChildrenIndices),
				"qci": i.QueuedChildrenIndex, "isw": isw, "iswidx": nz(i.IdleSyncWorkerIndices), "ich": ich, "ici": i.IdleSyncChildrenIndex,
				"first_prio": i.FirstQueuedPriority, "exec": exec, "idle": i.IdleWorkersCount,
				"last_started": rel0(i.LastOperationStarted), "last_completion": rel0(i.LastOperationCompletion),
				"children": ch, "parent_ok": i.ParentOK,
			})
		}
		queues = append(queues, common.Ev{
			"prefix": q.InstanceNamePrefix, "platform": platLabel(q.Platform), "size_class": q.SizeClass,
			"may_be_removed": q.MayBeRemoved, "cleanup_at": rel(q.CleanupAt), "drains": nz(q.Drains), "drain_patterns": patternsOf(q.Drains), "workers": workers,
			"invs": invs, "sci": q.SizeClassIndex, "classes": nz(q.PlatformSizeClasses), "limits": nz(q.StickinessLimits), "max_bg": q.MaxBackground,
		})
	}
	ops := []common.Ev{}
	for _, o := range s.Operations {
		ops = append(ops, common.Ev{
			"name": opLabel(o.Name), "task": o.Task, "prio": o.Priority, "queue": o.Queue, "inv": w.pathLabels(o.Invocation),
			"queue_index": o.QueueIndex, "waiters": o.Waiters, "may_exist": o.MayExistWithoutWaiters, "cleanup_at": rel(o.CleanupAt), "in_task_map": o.InTaskMap,
		})
	}
	tasks := []common.Ev{}
	for _, t := range s.Tasks {
		tops := []string{}
		for _, n := range t.Operations {
			tops = append(tops, opLabel(n))
		}
		tasks = append(tasks, common.Ev{
			"id": t.ID, "digest": w.digestLabel(t.Digest), "dnc": t.DoNotCache, "stage": t.Stage, "worker": w.workerLabel(t.Worker),
			"worker_queue": t.WorkerQueue, "retry": t.RetryCount, "ops": tops, "learner": t.HasLearner, "resp": t.Response, "code": t.ResponseCode,
			"exit_code": t.ResponseExitCode, "has_result": t.ResponseHasResult, "exp_dur": t.ExpectedDuration, "queued_at": rel0(t.QueuedAt),
			"timeout": t.Timeout, "suffix": t.Suffix, "has_wakeup": t.HasWakeup, "in_dedup": t.InDedup,
		})
	}
	dedup := []common.Ev{}
	var dk []string
	for d := range s.Dedup {
		dk = append(dk, d)
	}
	sort.Strings(dk)
	for _, d := range dk {
		dedup = append(dedup, common.Ev{"digest": w.digestLabel(d), "task": s.Dedup[d]})
	}
	heap := make([]int64, len(s.CleanupHeap))
	for i, v := range s.CleanupHeap {
		heap[i] = rel(v)
	}
	return common.Ev{"now": rel(s.Now), "queues": queues, "ops": ops, "tasks": tasks, "dedup": dedup, "cleanup": heap,
		"cleanup_ok": s.CleanupSorted, "platform_queues": s.PlatformQueues, "hard_failure_at": rel(s.HardFailureAt)}
}

var ticks0 = epoch.UnixNano() / int64(Unit)

// rel converts an absolute tick count into ticks since the epoch of the
// trace; -1 (no timestamp) stays -1.
func rel(v int64) int64 {
	if v < 0 {
		return -1
	}
	return v - ticks0
}

// rel0 is rel for timestamps where 0 means "never".
func rel0(v int64) int64 {
	if v == 0 {
		return -1
	}
	return v - ticks0
}

func relSlice(v []int64) []int64 {
	out := make([]int64, len(v))
	for i, x := range v {
		out[i] = rel0(x)
	}
	return out
}

func platLabel(s string) string {
	if strings.Contains(s, "p1") {
		return "p1"
	}
	if strings.Contains(s, "p2") {
		return "p2"
	}
	return s
}

// --- actors ---------------------------------------------------------------------

func (w *World) newActor(kind, owner string) *Actor {
	w.actorSeq++
	ctx, cancel := context.WithCancel(context.Background())
	a := &Actor{name: fmt.Sprintf("%s#%d", owner, w.actorSeq), kind: kind, owner: owner, gate: make(chan struct{}), sendG: make(chan error), authG: make(chan struct{}), state: "running", ctx: ctx, cancel: cancel}
	w.actors = append(w.actors, a)
	return a
}

// spawn runs f as actor a and waits until everything is quiescent.
func (w *World) spawn(a *Actor, f func() common.Ev) {
	started := make(chan struct{})
	go func() {
		w.mu.Lock()
		w.byGoid[goid()] = a
		w.mu.Unlock()
		close(started)
		defer func() {
			if r := recover(); r != nil {
				// The real code panicked. Record it; the trace ends here.
				w.mu.Lock()
				w.panicked = fmt.Sprint(r)
				a.state = "done"
				a.done = true
				delete(w.byGoid, goid())
				w.mu.Unlock()
				w.tr.Emit(common.Ev{"ev": "panic", "actor": a.name, "kind": a.kind, "msg": fmt.Sprint(r)})
			}
		}()
		res := f()
		w.mu.Lock()
		a.state = "done"
		a.done = true
		a.result = res
		delete(w.byGoid, goid())
		w.mu.Unlock()
		res["ev"] = "ret"
		res["actor"] = a.name
		res["kind"] = a.kind
		res["owner"] = a.owner
		res["cancelled"] = a.cancelled
		res["send_failed"] = a.sendFailed
		w.tr.Emit(res)
	}()
	<-started
	synctest.Wait()
}

func (w *World) stateOf(a *Actor) string {
	w.mu.Lock()
	defer w.mu.Unlock()
	return a.state
}

// Release lets actor a run its next critical section.
func (w *World) Release(a *Actor) {
	a.gate <- struct{}{}
	synctest.Wait()
}

// ReleaseSend completes the Send() call actor a is blocked in.
func (w *World) ReleaseSend(a *Actor, err error) {
	if err != nil {
		a.sendFailed = true
	}
	a.sendG <- err
	synctest.Wait()
}

// Cancel cancels the context of actor a.
func (w *World) Cancel(a *Actor) {
	a.cancelled = true
	w.tr.Emit(common.Ev{"ev": "cancel", "actor": a.name})
	a.cancel()
	synctest.Wait()
}

// Advance moves the clock.
func (w *World) Advance(d int) {
	w.mu.Lock()
	w.now = w.now.Add(time.Duration(d) * Unit)
	n := ticks(w.now)
	w.mu.Unlock()
	w.tr.Emit(common.Ev{"ev": "advance", "clock": n})
}

// DueTimers returns the timers that may fire now.
func (w *World) DueTimers() []*fakeTimer {
	w.mu.Lock()
	defer w.mu.Unlock()
	var out []*fakeTimer
	for _, t := range w.timers {
		if !t.stopped && !t.fired && !t.due.After(w.now) {
			out = append(out, t)
		}
	}
	return out
}

// NextTimerDue returns the earliest due time (in ticks from now) of a live timer, or -1.
func (w *World) NextTimerDue() int {
	w.mu.Lock()
	defer w.mu.Unlock()
	best := -1
	for _, t := range w.timers {
		if !t.stopped && !t.fired {
			d := int(t.due.Sub(w.now) / Unit)
			if d < 0 {
				d = 0
			}
			if best < 0 || d < best {
				best = d
			}
		}
	}
	return best
}

// Fire fires a due timer.
func (w *World) Fire(t *fakeTimer) {
	w.mu.Lock()
	t.fired = true
	now := w.now
	w.mu.Unlock()
	w.tr.Emit(common.Ev{"ev": "fire", "timer": t.id, "actor": t.owner, "clock": ticks(now)})
	t.ch <- now
	synctest.Wait()
}

// --- streams ----------------------------------------------------------------------

type fakeStream struct {
	w *World
	a *Actor
}

func (s *fakeStream) Context() context.Context     { return s.a.ctx }
func (s *fakeStream) SetHeader(metadata.MD) error  { return nil }
func (s *fakeStream) SendHeader(metadata.MD) error { return nil }
func (s *fakeStream) SetTrailer(metadata.MD)       {}
func (s *fakeStream) SendMsg(m interface{}) error  { panic("unused") }
func (s *fakeStream) RecvMsg(m interface{}) error  { panic("unused") }

func (s *fakeStream) Send(op *longrunningpb.Operation) error {
	w := s.w
	var md remoteexecution.ExecuteOperationMetadata
	stage := "?"
	if err := op.Metadata.UnmarshalTo(&md); err == nil {
		stage = map[remoteexecution.ExecutionStage_Value]string{
			remoteexecution.ExecutionStage_QUEUED: "Q", remoteexecution.ExecutionStage_EXECUTING: "E", remoteexecution.ExecutionStage_COMPLETED: "C",
			remoteexecution.ExecutionStage_CACHE_CHECK: "K", remoteexecution.ExecutionStage_UNKNOWN: "U",
		}[md.Stage]
	}
	token, code, hasResult, exit := "", 0, false, 0
	if r := op.GetResponse(); r != nil {
		var er remoteexecution.ExecuteResponse
		if err := r.UnmarshalTo(&er); err == nil {
			token = er.Message
			code = int(status.FromProto(er.Status).Code())
			hasResult = er.Result != nil
			exit = int(er.Result.GetExitCode())
		}
	}
	w.tr.Emit(common.Ev{"ev": "send", "actor": s.a.name, "owner": s.a.owner, "op": opLabel(op.Name), "stage": stage, "done": op.Done,
		"token": token, "code": code, "has_result": hasResult, "exit_code": exit, "digest": w.digestLabelHash(md.ActionDigest.GetHash())})
	w.mu.Lock()
	s.a.state = "send"
	w.mu.Unlock()
	err := <-s.a.sendG
	w.mu.Lock()
	s.a.state = "running"
	w.mu.Unlock()
	return err
}

func (w *World) digestLabelHash(h string) string {
	if a, ok := w.actionsByHash[h]; ok {
		return a.label
	}
	return h
}

func errCode(err error) int {
	if err == nil {
		return 0
	}
	return int(status.Code(err))
}

// StartExecute starts an Execute() call.
func (w *World) StartExecute(client string, a *actionDef, instance string, inv []string, prio int) *Actor {
	act := w.newActor("execute", client)
	md := &remoteexecution.RequestMetadata{CorrelatedInvocationsId: inv[0], ToolInvocationId: inv[1]}
	b, _ := proto.Marshal(md)
	act.ctx = metadata.NewIncomingContext(act.ctx, metadata.Pairs("build.bazel.remote.execution.v2.requestmetadata-bin", string(b)))
	w.tr.Emit(common.Ev{"ev": "call", "actor": act.name, "kind": "execute", "owner": client, "digest": a.label, "dnc": a.dnc, "platform": a.platform,
		"instance": instance, "inv": inv, "prio": prio, "clock": ticks(w.clockNow())})
	w.spawn(act, func() common.Ev {
		err := w.bq.Execute(&remoteexecution.ExecuteRequest{
			InstanceName:    instance,
			ActionDigest:    a.digest,
			ExecutionPolicy: &remoteexecution.ExecutionPolicy{Priority: int32(prio)},
		}, &fakeStream{w, act})
		return common.Ev{"code": errCode(err)}
	})
	return act
}

// StartWaitExecution starts a WaitExecution() call for an operation label.
func (w *World) StartWaitExecution(client, op string) *Actor {
	act := w.newActor("wait", client)
	w.tr.Emit(common.Ev{"ev": "call", "actor": act.name, "kind": "wait", "owner": client, "op": op, "clock": ticks(w.clockNow())})
	w.spawn(act, func() common.Ev {
		err := w.bq.WaitExecution(&remoteexecution.WaitExecutionRequest{Name: opUUID(op)}, &fakeStream{w, act})
		return common.Ev{"code": errCode(err)}
	})
	return act
}

// WorkerDef describes a worker process.
type WorkerDef struct {
	Label     string
	ID        map[string]string
	Prefix    string
	Platform  string
	SizeClass uint32
	// what the worker believes it is doing
	Executing string // digest label or ""
	ExecHash  *remoteexecution.Digest
	call      *Actor
}

func (w *World) RegisterWorkerLabel(d *WorkerDef) {
	k := workerKeyJSON(d.ID)
	w.workerLbl[k] = d.Label
}

func workerKeyJSON(id map[string]string) string {
	var keys []string
	for k := range id {
		keys = append(keys, k)
	}
	sort.Strings(keys)
	var sb strings.Builder
	sb.WriteString("{")
	for i, k := range keys {
		if i > 0 {
			sb.WriteString(",")
		}
		sb.WriteString(strconv.Quote(k) + ":" + strconv.Quote(id[k]))
	}
	sb.WriteString("}")
	return sb.String()
}

// SyncArgs describes what the worker reports.
type SyncArgs struct {
	State      string // idle | executing | completed
	Digest     *actionDef
	Token      string
	Code       int
	ExitCode   int
	Duration   int
	PreferIdle bool
}

// StartSynchronize starts a Synchronize() call of worker d.
func (w *World) StartSynchronize(d *WorkerDef, s SyncArgs) *Actor {
	act := w.newActor("sync", d.Label)
	if d.call == nil {
		d.call = act // otherwise: a duplicate of a call that is still in progress
	}
	req := &remoteworker.SynchronizeRequest{
		WorkerId:           d.ID,
		InstanceNamePrefix: d.Prefix,
		Platform:           platformMsg(d.Platform),
		SizeClass:          d.SizeClass,
		PreferBeingIdle:    s.PreferIdle,
	}
	dl := ""
	switch s.State {
	case "idle":
		req.CurrentState = &remoteworker.CurrentState{WorkerState: &remoteworker.CurrentState_Idle{Idle: &emptypb.Empty{}}}
	case "executing":
		dl = s.Digest.label
		req.CurrentState = &remoteworker.CurrentState{WorkerState: &remoteworker.CurrentState_Executing_{Executing: &remoteworker.CurrentState_Executing{
			ActionDigest:   s.Digest.digest,
			ExecutionState: &remoteworker.CurrentState_Executing_Running{Running: &emptypb.Empty{}},
		}}}
	case "completed":
		dl = s.Digest.label
		resp := &remoteexecution.ExecuteResponse{Message: s.Token}
		if s.Code != 0 {
			resp.Status = &status_pb.Status{Code: int32(s.Code), Message: "worker reported failure"}
		}
		resp.Result = &remoteexecution.ActionResult{ExitCode: int32(s.ExitCode), ExecutionMetadata: &remoteexecution.ExecutedActionMetadata{VirtualExecutionDuration: durationpb.New(time.Duration(s.Duration) * Unit)}}
		req.CurrentState = &remoteworker.CurrentState{WorkerState: &remoteworker.CurrentState_Executing_{Executing: &remoteworker.CurrentState_Executing{
			ActionDigest:   s.Digest.digest,
			ExecutionState: &remoteworker.CurrentState_Executing_Completed{Completed: resp},
		}}}
	}
	w.tr.Emit(common.Ev{"ev": "call", "actor": act.name, "kind": "sync", "owner": d.Label, "state": s.State, "digest": dl, "token": s.Token, "code": s.Code,
		"exit_code": s.ExitCode, "duration": s.Duration, "prefer_idle": s.PreferIdle, "prefix": d.Prefix, "platform": d.Platform, "size_class": int(d.SizeClass),
		"wid": workerKeyJSON(d.ID), "clock": ticks(w.clockNow())})
	w.spawn(act, func() common.Ev {
		resp, err := w.bq.Synchronize(act.ctx, req)
		ev := common.Ev{"code": errCode(err), "desired": "none", "digest": "", "suffix": "", "next_sync": int64(-1), "dnc": false, "timeout": int64(0)}
		if err == nil {
			ev["next_sync"] = ticks(resp.NextSynchronizationAt.AsTime())
			if ds := resp.DesiredState; ds != nil {
				switch st := ds.WorkerState.(type) {
				case *remoteworker.DesiredState_Idle:
					ev["desired"] = "idle"
					d.Executing, d.ExecHash = "", nil
				case *remoteworker.DesiredState_Executing_:
					ev["desired"] = "execute"
					ev["digest"] = w.digestLabelHash(st.Executing.ActionDigest.GetHash())
					ev["suffix"] = st.Executing.InstanceNameSuffix
					ev["dnc"] = st.Executing.Action.GetDoNotCache()
					ev["timeout"] = int64(st.Executing.Action.GetTimeout().AsDuration() / Unit)
					d.Executing = ev["digest"].(string)
					d.ExecHash = st.Executing.ActionDigest
				}
			}
		}
		if d.call == act {
			d.call = nil
		}
		return ev
	})
	return act
}

func scqName(prefix, plat string, sizeClass uint32) *buildqueuestate.SizeClassQueueName {
	return &buildqueuestate.SizeClassQueueName{
		PlatformQueueName: &buildqueuestate.PlatformQueueName{InstanceNamePrefix: prefix, Platform: platformMsg(plat)},
		SizeClass:         sizeClass,
	}
}

// StartOperator runs one operator call as an actor.
func (w *World) StartOperator(what string, args common.Ev, f func(ctx context.Context) error) *Actor {
	act := w.newActor(what, "operator")
	ev := common.Ev{"ev": "call", "actor": act.name, "kind": what, "owner": "operator", "clock": ticks(w.clockNow())}
	for k, v := range args {
		ev[k] = v
	}
	w.tr.Emit(ev)
	w.spawn(act, func() common.Ev {
		err := f(act.ctx)
		return common.Ev{"code": errCode(err)}
	})
	return act
}

func (w *World) KillOperation(op string, code int) *Actor {
	return w.StartOperator("kill", common.Ev{"op": op, "code": code}, func(ctx context.Context) error {
		_, err := w.bq.KillOperations(ctx, &buildqueuestate.KillOperationsRequest{
			Filter: &buildqueuestate.KillOperationsRequest_Filter{Type: &buildqueuestate.KillOperationsRequest_Filter_OperationName{OperationName: opUUID(op)}},
			Status: &status_pb.Status{Code: int32(code), Message: "killed by operator"},
		})
		return err
	})
}

func (w *World) KillQueue(prefix, plat string, sc uint32, code int) *Actor {
	return w.StartOperator("killqueue", common.Ev{"prefix": prefix, "platform": plat, "size_class": int(sc), "code": code}, func(ctx context.Context) error {
		_, err := w.bq.KillOperations(ctx, &buildqueuestate.KillOperationsRequest{
			Filter: &buildqueuestate.KillOperationsRequest_Filter{Type: &buildqueuestate.KillOperationsRequest_Filter_SizeClassQueueWithoutWorkers{SizeClassQueueWithoutWorkers: scqName(prefix, plat, sc)}},
			Status: &status_pb.Status{Code: int32(code), Message: "killed by operator"},
		})
		return err
	})
}

func (w *World) Drain(add bool, prefix, plat string, sc uint32, pattern map[string]string) *Actor {
	what := "undrain"
	if add {
		what = "drain"
	}
	return w.StartOperator(what, common.Ev{"prefix": prefix, "platform": plat, "size_class": int(sc), "pattern": workerKeyJSON(pattern), "pattern_kv": pairsOf(workerKeyJSON(pattern))}, func(ctx context.Context) error {
		req := &buildqueuestate.AddOrRemoveDrainRequest{SizeClassQueueName: scqName(prefix, plat, sc), WorkerIdPattern: pattern}
		var err error
		if add {
			_, err = w.bq.AddDrain(ctx, req)
		} else {
			_, err = w.bq.RemoveDrain(ctx, req)
		}
		return err
	})
}

func (w *World) Terminate(pattern map[string]string) *Actor {
	return w.StartOperator("terminate", common.Ev{"pattern": workerKeyJSON(pattern), "pattern_kv": pairsOf(workerKeyJSON(pattern))}, func(ctx context.Context) error {
		_, err := w.bq.TerminateWorkers(ctx, &buildqueuestate.TerminateWorkersRequest{WorkerIdPattern: pattern})
		return err
	})
}

// Poke performs a read-only call so that pending cleanups run.
func (w *World) Poke() *Actor {
	return w.StartOperator("poke", common.Ev{}, func(ctx context.Context) error {
		_, err := w.bq.ListPlatformQueues(ctx, &emptypb.Empty{})
		return err
	})
}

var _ = util.StatusWrap

// Predeclare registers a predeclared platform queue (driver call, not gated).
func (w *World) Predeclare(prefix, plat string, limits []int, maxBG, bgPrio int, sizeClasses []uint32) {
	var l []time.Duration
	for _, v := range limits {
		l = append(l, time.Duration(v)*Unit)
	}
	inst, _ := digest.NewInstanceName(prefix)
	w.tr.Emit(common.Ev{"ev": "predeclare", "prefix": prefix, "platform": plat, "limits": nz(limits), "max_bg": maxBG, "bg_prio": bgPrio, "classes": sizeClasses})
	if err := w.bq.RegisterPredeclaredPlatformQueue(inst, platformMsg(plat), l, maxBG, int32(bgPrio), sizeClasses); err != nil {
		panic(err)
	}
}

// Quiescent records which calls are blocked inside the build queue at a
// moment when nothing is runnable and no timer is due.
func (w *World) Quiescent(parked []*Actor) {
	names := []string{}
	for _, a := range parked {
		names = append(names, a.name)
	}
	w.tr.Emit(common.Ev{"ev": "quiescent", "parked": names, "clock": ticks(w.clockNow())})
}

// --- read-only BuildQueueState API (growth: listings must agree with the
// state the specification derives from the snapshot) -----------------------

func (w *World) invocationName(q scheduler.VerifQueue, path []string) *buildqueuestate.InvocationName {
	n := &buildqueuestate.InvocationName{SizeClassQueueName: scqName(q.InstanceNamePrefix, platLabel(q.Platform), uint32(q.SizeClass))}
	for _, k := range path {
		n.Ids = append(n.Ids, invocation.Key(k).GetID())
	}
	return n
}

// Listing calls the read-only API for every queue and invocation of the
// last snapshot (driver calls, not gated) and logs what it returns.
func (w *World) Listing() {
	w.mu.Lock()
	snap := w.last
	w.mu.Unlock()
	if snap == nil {
		return
	}
	ctx := context.Background()
	// One logged driver call first, so that cleanups that are due run in a
	// recorded section; the listings themselves are not recorded as sections.
	w.bq.ListPlatformQueues(ctx, &emptypb.Empty{})
	w.mu.Lock()
	snap = w.last
	w.quiet = true
	w.mu.Unlock()
	defer func() {
		w.mu.Lock()
		w.quiet = false
		w.mu.Unlock()
	}()
	for qi, q := range snap.Queues {
		for _, inv := range q.Invocations {
			name := w.invocationName(q, inv.Path)
			ev := common.Ev{"ev": "listing", "what": "invocation", "queue": qi, "path": w.pathLabels(inv.Path), "ok": true,
				"ops": []string{}, "paged": []string{}, "children": []string{}, "all": []string{}, "active": []string{},
				"executing": 0, "idle": 0, "idle_sync": 0, "queued_direct": 0, "queued_indirect": 0, "n_children": 0, "n_queued_children": 0, "n_active_children": 0}
			r, err := w.bq.ListQueuedOperations(ctx, &buildqueuestate.ListQueuedOperationsRequest{InvocationName: name, PageSize: 1000})
			if err != nil {
				ev["ok"] = false
				w.tr.Emit(ev)
				continue
			}
			ops := []string{}
			for _, o := range r.QueuedOperations {
				ops = append(ops, opLabel(o.Name))
			}
			ev["ops"] = ops
			// the same list in pages of one, resumed from each returned entry
			paged := []string{}
			var after *buildqueuestate.ListQueuedOperationsRequest_StartAfter
			for i := 0; i < 100; i++ {
				pr, err := w.bq.ListQueuedOperations(ctx, &buildqueuestate.ListQueuedOperationsRequest{InvocationName: name, PageSize: 1, StartAfter: after})
				if err != nil || len(pr.QueuedOperations) == 0 {
					break
				}
				o := pr.QueuedOperations[0]
				paged = append(paged, opLabel(o.Name))
				after = &buildqueuestate.ListQueuedOperationsRequest_StartAfter{Priority: o.Priority, ExpectedDuration: o.ExpectedDuration, QueuedTimestamp: o.QueuedTimestamp}
			}
			ev["paged"] = paged
			for _, f := range []struct {
				key    string
				filter buildqueuestate.ListInvocationChildrenRequest_Filter
			}{{"children", buildqueuestate.ListInvocationChildrenRequest_QUEUED}, {"all", buildqueuestate.ListInvocationChildrenRequest_ALL}, {"active", buildqueuestate.ListInvocationChildrenRequest_ACTIVE}} {
				cr, err := w.bq.ListInvocationChildren(ctx, &buildqueuestate.ListInvocationChildrenRequest{InvocationName: name, Filter: f.filter})
				if err != nil {
					ev["ok"] = false
					continue
				}
				keys := []string{}
				for _, c := range cr.Children {
					k, _ := invocation.NewKey(c.Id)
					keys = append(keys, w.invLabel(string(k)))
				}
				ev[f.key] = keys
			}
			// state of this invocation as reported through its parent (or the queue for the root)
			var st *buildqueuestate.InvocationState
			if len(inv.Path) == 0 {
				pr, err := w.bq.ListPlatformQueues(ctx, &emptypb.Empty{})
				if err == nil {
					for _, pq := range pr.PlatformQueues {
						if pq.Name.InstanceNamePrefix == q.InstanceNamePrefix && platLabel(platform.MustNewKey(q.InstanceNamePrefix, pq.Name.Platform).GetPlatformString()) == platLabel(q.Platform) {
							for _, s := range pq.SizeClassQueues {
								if int(s.SizeClass) == q.SizeClass {
									st = s.RootInvocation
								}
							}
						}
					}
				}
			} else {
				parent := w.invocationName(q, inv.Path[:len(inv.Path)-1])
				cr, err := w.bq.ListInvocationChildren(ctx, &buildqueuestate.ListInvocationChildrenRequest{InvocationName: parent, Filter: buildqueuestate.ListInvocationChildrenRequest_ALL})
				if err == nil {
					for _, c := range cr.Children {
						k, _ := invocation.NewKey(c.Id)
						if string(k) == inv.Path[len(inv.Path)-1] {
							st = c.State
						}
					}
				}
			}
			if st == nil {
				ev["ok"] = false
			} else {
				ev["executing"] = int(st.ExecutingWorkersCount)
				ev["idle"] = int(st.IdleWorkersCount)
				ev["idle_sync"] = int(st.IdleSynchronizingWorkersCount)
				ev["queued_direct"] = int(st.QueuedOperationsCount.GetDirect())
				ev["queued_indirect"] = int(st.QueuedOperationsCount.GetIndirect())
				ev["n_children"] = int(st.ChildrenCount)
				ev["n_queued_children"] = int(st.QueuedChildrenCount)
				ev["n_active_children"] = int(st.ActiveChildrenCount)
			}
			w.tr.Emit(ev)
		}
		// workers of the queue
		wr, err := w.bq.ListWorkers(ctx, &buildqueuestate.ListWorkersRequest{Filter: &buildqueuestate.ListWorkersRequest_Filter{Type: &buildqueuestate.ListWorkersRequest_Filter_All{All: scqName(q.InstanceNamePrefix, platLabel(q.Platform), uint32(q.SizeClass))}}, PageSize: 1000})
		wev := common.Ev{"ev": "listing", "what": "workers", "queue": qi, "ok": err == nil, "ids": []string{}, "drained": []bool{}, "ops": []string{}, "timeouts": []int64{}}
		if err == nil {
			ids, dr, ops, tos := []string{}, []bool{}, []string{}, []int64{}
			for _, x := range wr.Workers {
				ids = append(ids, w.workerLabel(workerKeyJSON(x.Id)))
				dr = append(dr, x.Drained)
				if x.CurrentOperation != nil {
					ops = append(ops, opLabel(x.CurrentOperation.Name))
				} else {
					ops = append(ops, "")
				}
				if x.Timeout != nil {
					tos = append(tos, ticks(x.Timeout.AsTime()))
				} else {
					tos = append(tos, -1)
				}
			}
			wev["ids"], wev["drained"], wev["ops"], wev["timeouts"] = ids, dr, ops, tos
		}
		w.tr.Emit(wev)
	}
	for qi, q := range snap.Queues {
		name := scqName(q.InstanceNamePrefix, platLabel(q.Platform), uint32(q.SizeClass))
		// drains of the queue
		dr, err := w.bq.ListDrains(ctx, &buildqueuestate.ListDrainsRequest{SizeClassQueueName: name})
		dev := common.Ev{"ev": "listing", "what": "drains", "queue": qi, "ok": err == nil, "patterns": [][]common.Ev{}}
		if err == nil {
			pats := [][]common.Ev{}
			for _, d := range dr.Drains {
				pats = append(pats, pairsOf(workerKeyJSON(d.WorkerIdPattern)))
			}
			dev["patterns"] = pats
		}
		w.tr.Emit(dev)
		// workers by filter, in pages of one
		for _, inv := range q.Invocations {
			iname := w.invocationName(q, inv.Path)
			fev := common.Ev{"ev": "listing", "what": "workers_filtered", "queue": qi, "path": w.pathLabels(inv.Path), "ok": true, "executing": []string{}, "idle_sync": []string{}}
			for _, f := range []string{"executing", "idle_sync"} {
				ids := []string{}
				var after *buildqueuestate.ListWorkersRequest_StartAfter
				for i := 0; i < 100; i++ {
					filter := &buildqueuestate.ListWorkersRequest_Filter{Type: &buildqueuestate.ListWorkersRequest_Filter_Executing{Executing: iname}}
					if f == "idle_sync" {
						filter = &buildqueuestate.ListWorkersRequest_Filter{Type: &buildqueuestate.ListWorkersRequest_Filter_IdleSynchronizing{IdleSynchronizing: iname}}
					}
					r, err := w.bq.ListWorkers(ctx, &buildqueuestate.ListWorkersRequest{Filter: filter, PageSize: 1, StartAfter: after})
					if err != nil {
						fev["ok"] = false
						break
					}
					if len(r.Workers) == 0 {
						break
					}
					x := r.Workers[0]
					ids = append(ids, w.workerLabel(workerKeyJSON(x.Id)))
					after = &buildqueuestate.ListWorkersRequest_StartAfter{WorkerId: x.Id}
				}
				fev[f] = ids
			}
			w.tr.Emit(fev)
		}
	}
	// every operation by name, and one that does not exist
	for _, o := range append(append([]scheduler.VerifOperation{}, snap.Operations...), scheduler.VerifOperation{Name: opUUID("o99")}) {
		r, err := w.bq.GetOperation(ctx, &buildqueuestate.GetOperationRequest{OperationName: o.Name})
		gev := common.Ev{"ev": "listing", "what": "getop", "name": opLabel(o.Name), "ok": err == nil, "stage": "", "prio": 0, "inv": []string{}}
		if err == nil {
			switch r.Operation.Stage.(type) {
			case *buildqueuestate.OperationState_Queued:
				gev["stage"] = "Q"
			case *buildqueuestate.OperationState_Executing:
				gev["stage"] = "E"
			case *buildqueuestate.OperationState_Completed:
				gev["stage"] = "C"
			}
			gev["prio"] = int(r.Operation.Priority)
			path := []string{}
			for _, id := range r.Operation.InvocationName.GetIds() {
				k, _ := invocation.NewKey(id)
				path = append(path, w.invLabel(string(k)))
			}
			gev["inv"] = path
		}
		w.tr.Emit(gev)
	}
	// all operations, in pages of two
	names, stages := []string{}, []string{}
	var after *buildqueuestate.ListOperationsRequest_StartAfter
	total := -1
	for i := 0; i < 100; i++ {
		r, err := w.bq.ListOperations(ctx, &buildqueuestate.ListOperationsRequest{PageSize: 2, StartAfter: after})
		if err != nil {
			break
		}
		total = int(r.PaginationInfo.TotalEntries)
		if len(r.Operations) == 0 {
			break
		}
		for _, o := range r.Operations {
			names = append(names, opLabel(o.Name))
			switch o.Stage.(type) {
			case *buildqueuestate.OperationState_Queued:
				stages = append(stages, "Q")
			case *buildqueuestate.OperationState_Executing:
				stages = append(stages, "E")
			case *buildqueuestate.OperationState_Completed:
				stages = append(stages, "C")
			default:
				stages = append(stages, "?")
			}
			after = &buildqueuestate.ListOperationsRequest_StartAfter{OperationName: o.Name}
		}
	}
	w.tr.Emit(common.Ev{"ev": "listing", "what": "operations", "names": names, "stages": stages, "total": total})
}

// pairsOf turns the JSON form of a map[string]string into a list of
// key/value pairs.
func pairsOf(js string) []common.Ev {
	out := []common.Ev{}
	var m map[string]string
	if err := json.Unmarshal([]byte(js), &m); err != nil {
		return out
	}
	var keys []string
	for k := range m {
		keys = append(keys, k)
	}
	sort.Strings(keys)
	for _, k := range keys {
		out = append(out, common.Ev{"k": k, "v": m[k]})
	}
	return out
}

func patternsOf(drains []string) [][]common.Ev {
	out := [][]common.Ev{}
	for _, d := range drains {
		out = append(out, pairsOf(d))
	}
	return out
}
