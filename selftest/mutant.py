#!/usr/bin/env python3
"""selftest/mutant.py <name> <PROP[,PROP..]> <file> <old> <new> : apply a one-place
edit to a scratch copy of /repo, run the checks against it, report, clean up."""
import os, shutil, subprocess, sys
name, props, path, old, new = sys.argv[1:6]
d = "/tmp/mut-" + name
shutil.rmtree(d, ignore_errors=True)
shutil.copytree("/repo", d, symlinks=True)
p = os.path.join(d, path)
s = open(p).read()
if s.count(old) != 1:
    print("MUTANT %s: pattern occurs %d times" % (name, s.count(old))); sys.exit(3)
open(p, "w").write(s.replace(old, new))
env = dict(os.environ, VERIF_REPO=d)
b = subprocess.run("cd %s && go build ./pkg/... " % d, shell=True, capture_output=True, text=True)
if b.returncode != 0:
    print("MUTANT %s does not compile:\n%s" % (name, b.stderr[-1500:])); shutil.rmtree(d); sys.exit(3)
for prop in props.split(","):
    r = subprocess.run(["/verif/bin/check", prop], env=env, capture_output=True, text=True, cwd="/verif")
    lines = [l[:300] for l in r.stdout.splitlines() if l.startswith(("VIOLATION", "OK ", "INCONCLUSIVE", "KNOWN", "  NOTE"))]
    print("MUTANT %s on %s: exit=%d\n  %s" % (name, prop, r.returncode, "\n  ".join(lines[:8])))
shutil.rmtree(d, ignore_errors=True)
shutil.rmtree("/tmp/verif-evidence-" + d.replace("/", "_").replace("-", "_"), ignore_errors=True)
