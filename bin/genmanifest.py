#!/usr/bin/env python3
"""Regenerates MANIFEST.json from lib/manifest_data.py."""
import json, os, sys
sys.path.insert(0, os.path.join(os.path.dirname(os.path.abspath(__file__)), ".."))
from lib.manifest_data import CHECKS, NOT_APPLICABLE, HOOK_COMMITS
props = [json.loads(l)["id"] for l in open(os.path.join(os.path.dirname(__file__), "..", "properties.jsonl"))]
checks = []
for pid in props:
    if pid not in CHECKS:
        continue
    c = CHECKS[pid]
    checks.append({
        "property_id": pid,
        "quick_cmd": "bin/check %s --tier quick" % pid,
        "thorough_cmd": "bin/check %s --tier thorough" % pid,
        "evidence_file": "/verif/evidence/%s.json" % pid,
        "replay_cmd_template": "bin/check %s --replay {path}" % pid,
        "engine": "tlc+go",
        "level_claimed": {"category": "model_checking", "text": c["text"], "design_ref": c["design_ref"]},
        "level_note": c["note"],
        "technique": c["technique"],
    })
na = [{"property_id": p, "reason": NOT_APPLICABLE.get(p, "check not built yet (work in progress); see DESIGN.md")} for p in props if p not in CHECKS]
m = {
    "version": 1,
    "setup_cmd": "bin/setup",
    "hooks": {
        "guard": "verif",
        "enable": "go build/test with -tags verif (harness module /verif/harness replaces the repository module with /repo)",
        "baseline_off_cmd": "cd /repo && go test -mod=mod -json -vet=off -count=1 -timeout 25m ./...",
        "source_commits": HOOK_COMMITS,
        "add_only": True,
    },
    "engines": [{"name": "tlc+go", "path": "/verif/bin/check", "serves_properties": [c["property_id"] for c in checks],
                 "kind_free_text": "explicit TLA+ specifications (specs/*.tla) model-checked with TLC; Go drivers (harness/) exercise the real packages of /repo built with -tags verif, record NDJSON traces, and TLC validates every trace against the specification (trace specs *Trace.tla)"}],
    "checks": checks,
    "notes": "See DESIGN.md. Exit 2 of a check means inconclusive (infrastructure), never a verdict.",
    "not_applicable": na,
}
json.dump(m, open(os.path.join(os.path.dirname(__file__), "..", "MANIFEST.json"), "w"), indent=1)
print("MANIFEST.json: %d checks, %d not claimed" % (len(checks), len(na)))
