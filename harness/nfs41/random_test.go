package nfs41

import (
	"math/rand"
	"sort"
	"testing"

	"verif/harness/common"
)

// Seeded random multi-client histories.

type rdriver struct {
	s        *script
	rng      *rand.Rand
	sessions int
	// silent: clients that have "vanished" and the step at which they
	// come back (so that the lease of one client runs out while the
	// others stay active).
	silent map[*clientC]int
	stepNo int
	// requests held inside a leaf (TestRandomInFlight only)
	holds []*rhold
}

var (
	rOOs = []string{"o1", "o2"}
	rLOs = []string{"l1", "l2"}
)

func (d *rdriver) pick(n int) int    { return d.rng.Intn(n) }
func (d *rdriver) chance(p int) bool { return d.rng.Intn(100) < p }

func (d *rdriver) knownFiles() [][]byte {
	var toks []string
	for h, t := range d.s.e.handleTok {
		if t != "root" {
			toks = append(toks, t+"\x00"+h)
		}
	}
	sort.Strings(toks)
	var out [][]byte
	for _, t := range toks {
		for i := 0; i < len(t); i++ {
			if t[i] == 0 {
				out = append(out, []byte(t[i+1:]))
				break
			}
		}
	}
	return out
}

func (d *rdriver) anyFile() []byte {
	fs := d.knownFiles()
	if len(fs) == 0 {
		return []byte{1, 2, 3, 4, 5, 6, 7, 8}
	}
	return fs[d.pick(len(fs))]
}

// fhFor returns the operation that sets the current file handle; mostly
// the right one.
func (d *rdriver) fhFor(fh []byte, allowDir bool) []*Op {
	switch r := d.pick(100); {
	case r < 84 && fh != nil:
		return []*Op{putfh(fh)}
	case r < 92:
		return []*Op{putfh(d.anyFile())}
	case r < 94 && allowDir:
		return []*Op{putroot()}
	case r < 96 && allowDir:
		return nil
	case r < 98:
		return []*Op{putfh([]byte{9, 9, 9, 9, 9, 9, 9, byte(d.pick(200))})}
	case r < 99:
		return []*Op{putfh([]byte{1, 2, 3})}
	}
	if fh != nil {
		return []*Op{putfh(fh)}
	}
	return []*Op{putfh(d.anyFile())}
}

func sortedOpens(c *clientC) []*openC {
	var ks []uint64
	for k := range c.opens {
		ks = append(ks, k)
	}
	sort.Slice(ks, func(i, j int) bool { return ks[i] < ks[j] })
	var out []*openC
	for _, k := range ks {
		out = append(out, c.opens[k])
	}
	return out
}

func sortedLocks(c *clientC) []*lockC {
	var ks []uint64
	for k := range c.locks {
		ks = append(ks, k)
	}
	sort.Slice(ks, func(i, j int) bool { return ks[i] < ks[j] })
	var out []*lockC
	for _, k := range ks {
		out = append(out, c.locks[k])
	}
	return out
}

// mutate mostly returns the state ID unchanged.
func (d *rdriver) mutate(c *clientC, s sid) sid {
	switch r := d.pick(100); {
	case r < 78:
		return s
	case r < 82:
		if s.seq > 1 {
			s.seq--
		}
		return s
	case r < 85:
		s.seq++
		return s
	case r < 88:
		s.seq = 0
		return s
	case r < 91:
		if len(c.stale) > 0 {
			return c.stale[d.pick(len(c.stale))]
		}
		return s
	case r < 93:
		o := d.s.clients[d.pick(len(d.s.clients))]
		if len(o.stale) > 0 {
			return o.stale[d.pick(len(o.stale))]
		}
		return s
	case r < 94:
		s.kind = "junk"
		return s
	case r < 95:
		return anonSid
	case r < 96:
		return bypassSid
	case r < 97:
		return curSid
	case r < 98:
		return sid{kind: "inval"}
	}
	return sid{kind: "reg", other: uint64(500 + d.pick(3)), seq: 1}
}

func (d *rdriver) someOpen(c *clientC) *openC {
	os := sortedOpens(c)
	if len(os) == 0 {
		return &openC{oo: "o1", fh: d.anyFile(), sid: sid{kind: "reg", other: uint64(600 + d.pick(3)), seq: 1}}
	}
	return os[d.pick(len(os))]
}

func (d *rdriver) someLock(c *clientC) *lockC {
	ls := sortedLocks(c)
	if len(ls) == 0 {
		return &lockC{oo: "o1", lo: "l1", fh: d.anyFile(), sid: sid{kind: "reg", other: uint64(700 + d.pick(3)), seq: 1}}
	}
	return ls[d.pick(len(ls))]
}

func (d *rdriver) rangeOp(o *Op) *Op {
	s := d.pick(nPos)
	e := s + 1 + d.pick(nPos-s)
	o.RK, o.S, o.E = "range", s, e
	switch r := d.pick(100); {
	case r < 4:
		o.RK, o.E = "len0", s
	case r < 8:
		o.RK, o.S, o.E = "overflow", 1+d.pick(nPos-1), nPos
	case r < 14:
		o.RK, o.S, o.E = "exact", 1+d.pick(nPos-1), nPos
	case r < 19:
		o.RK, o.S, o.E = "last", nPos, nPos
	case r < 21:
		o.RK, o.S, o.E = "last1", nPos, nPos
	}
	o.LT = []string{"R", "W", "R", "W", "RW", "WW"}[d.pick(6)]
	if d.chance(2) {
		o.LT = "BAD"
	}
	return o
}

func (d *rdriver) compound(c *clientC) []*Op {
	leaves := len(d.s.e.leaves)
	switch r := d.pick(100); {
	case r < 18: // open by name
		how := []string{"NOCREATE", "NOCREATE", "NOCREATE", "UNCHECKED", "UNCHECKED_TRUNC", "GUARDED"}[d.pick(6)]
		if leaves >= 9 && how != "NOCREATE" {
			how = "NOCREATE"
		}
		if d.chance(2) {
			how = "EXCLUSIVE4_1"
		}
		o := openName(rOOs[d.pick(2)], allNames[d.pick(3)], uint32(1+d.pick(3)), how)
		if d.chance(3) {
			o.Share = []uint32{0, 4, 7, 1 | 0x400}[d.pick(4)]
		}
		if d.chance(3) {
			o.Deny = uint32(1 + d.pick(4))
		}
		ops := []*Op{putroot(), o, getfh()}
		if d.chance(4) {
			ops = []*Op{putfh(d.anyFile()), o}
		}
		switch d.pick(10) {
		case 0:
			ops = append(ops, read(curSid))
		case 1:
			// (the lock-owner may already have lock state on the file
			// through the other open-owner: that lock state is shared)
			lo := rLOs[d.pick(2)]
			ops = append(ops, d.rangeOp(&Op{Name: "LOCK", NewO: true, Sid2: curSid, LO: lo}), read(curSid))
		case 2:
			ops = append(ops, write(curSid, "cc"), closeOp(curSid))
		case 3:
			ops = append(ops, downgrade(curSid, uint32(1+d.pick(3))))
		}
		return ops
	case r < 24: // open by handle
		oc := d.someOpen(c)
		claim := []string{"FH", "FH", "PREVIOUS", "PREVIOUS", "PREVIOUS_DELEG", "DELEGATE_CUR", "DELEGATE_PREV"}[d.pick(7)]
		o := openFH(oc.oo, uint32(1+d.pick(3)), claim)
		if d.chance(30) {
			o.OO = rOOs[d.pick(2)]
		}
		if d.chance(5) {
			o.How = "GUARDED"
		}
		fh := oc.fh
		if d.chance(30) {
			fh = d.anyFile()
		}
		return append(d.fhFor(fh, true), o)
	case r < 31:
		oc := d.someOpen(c)
		return append(d.fhFor(oc.fh, true), downgrade(d.mutate(c, oc.sid), uint32(1+d.pick(3))))
	case r < 41:
		oc := d.someOpen(c)
		return append(d.fhFor(oc.fh, true), closeOp(d.mutate(c, oc.sid)))
	case r < 52: // lock with a new lock-owner
		oc := d.someOpen(c)
		lo := rLOs[d.pick(2)]
		if d.chance(35) {
			// A lock-owner that already has lock state on the file through
			// another open-owner of this client.
			for _, l := range sortedLocks(c) {
				for _, o := range sortedOpens(c) {
					if o.oo != l.oo && l.fh != nil && string(o.fh) == string(l.fh) {
						oc, lo = o, l.lo
					}
				}
			}
		}
		// Only mutations that cannot denote another open of this client
		// (state ID "other" values are small per-client counters).
		id := oc.sid
		switch m := d.pick(100); {
		case m < 80:
		case m < 85 && id.seq > 1:
			id.seq--
		case m < 90:
			id.seq++
		case m < 94:
			id.seq = 0
		case m < 96:
			id.kind = "junk"
		case m < 98:
			id = anonSid
		default:
			id = sid{kind: "reg", other: uint64(800 + d.pick(3)), seq: 1}
		}
		return append(d.fhFor(oc.fh, true), d.rangeOp(&Op{Name: "LOCK", NewO: true, Sid2: id, LO: lo}))
	case r < 60: // lock more
		lc := d.someLock(c)
		return append(d.fhFor(lc.fh, true), d.rangeOp(&Op{Name: "LOCK", Sid: d.mutate(c, lc.sid)}))
	case r < 66:
		return append(d.fhFor(d.anyFile(), true), d.rangeOp(&Op{Name: "LOCKT", LO: rLOs[d.pick(2)]}))
	case r < 74:
		lc := d.someLock(c)
		return append(d.fhFor(lc.fh, true), d.rangeOp(&Op{Name: "LOCKU", Sid: d.mutate(c, lc.sid)}))
	case r < 78:
		lc := d.someLock(c)
		id := lc.sid
		if d.chance(15) {
			id = d.someOpen(c).sid
		}
		return []*Op{freeSid(d.mutate(c, id))}
	case r < 81:
		ids := []sid{d.mutate(c, d.someOpen(c).sid), d.mutate(c, d.someLock(c).sid)}
		if d.chance(50) {
			ids = append(ids, anonSid, curSid)
		}
		return []*Op{testSids(ids...)}
	case r < 93: // I/O
		var id sid
		var fh []byte
		switch d.pick(4) {
		case 0:
			lc := d.someLock(c)
			id, fh = d.mutate(c, lc.sid), lc.fh
		case 1:
			id, fh = []sid{anonSid, bypassSid}[d.pick(2)], d.anyFile()
		default:
			oc := d.someOpen(c)
			id, fh = d.mutate(c, oc.sid), oc.fh
		}
		var io *Op
		switch d.pick(5) {
		case 0, 1:
			io = read(id)
		case 2, 3:
			io = write(id, "rw")
		default:
			io = setsize(id, uint64(d.pick(20)))
		}
		special := id.kind == "anon" || id.kind == "bypass"
		pre := d.fhFor(fh, !(io.Name == "SETATTR" && special))
		if io.Name == "SETATTR" && special {
			pre = []*Op{putfh(fh)}
		}
		return append(pre, io)
	case r < 96:
		return []*Op{putroot(), remove(allNames[d.pick(3)])}
	case r < 98:
		a, b := allNames[d.pick(3)], allNames[d.pick(3)]
		if a == b {
			return []*Op{putroot(), lookup(a), getfh()}
		}
		return []*Op{putroot(), savefh(), rename(a, b)}
	}
	return []*Op{putroot(), lookup(allNames[d.pick(3)]), getfh()}
}

// pickClient chooses a client that has not vanished.
func (d *rdriver) pickClient() *clientC {
	s := d.s
	var awake []*clientC
	for _, c := range s.clients {
		if until, ok := d.silent[c]; !ok || until <= d.stepNo {
			awake = append(awake, c)
		}
	}
	if len(awake) == 0 {
		awake = s.clients
	}
	return awake[d.pick(len(awake))]
}

func (d *rdriver) step() {
	s := d.s
	d.stepNo++
	if d.chance(2) {
		// One client vanishes for a while.
		if d.silent == nil {
			d.silent = map[*clientC]int{}
		}
		d.silent[s.clients[d.pick(len(s.clients))]] = d.stepNo + 20 + d.pick(40)
	}
	c := d.pickClient()
	switch r := d.pick(100); {
	case r < 4: // client management
		switch d.pick(6) {
		case 0, 1:
			s.register(c, d.chance(80) && d.sessions < 14)
			d.sessions++
		case 2: // new incarnation of the same owner
			if c.ver < 3 && d.sessions < 14 {
				n := newClient(c.own, c.ver+1)
				for i := range s.clients {
					if s.clients[i] == c {
						s.clients[i] = n
					}
				}
				s.register(n, d.chance(85))
				d.sessions++
			}
		case 3:
			if c.have && d.sessions < 14 {
				s.newSession(c, c.csNext+uint32(d.pick(3))-1)
				d.sessions++
			}
		case 4:
			if len(c.sess) > 0 && d.chance(50) {
				i := d.pick(len(c.sess))
				if ok, pan := s.e.destroySession(c.sess[i].id, true); pan {
					s.dead = true
				} else if ok {
					c.sess = append(c.sess[:i], c.sess[i+1:]...)
				}
			} else {
				var bogus [16]byte
				bogus[3] = byte(d.pick(4))
				if _, pan := s.e.destroySession(bogus, false); pan {
					s.dead = true
				}
			}
		case 5:
			if c.have {
				if ok, pan := s.e.destroyClientID(c.cid, true); pan {
					s.dead = true
				} else if ok {
					c.have = false
					c.sess = nil
					c.forget()
				}
			}
		}
	case r < 10 && len(c.sess) > 0 && len(c.locks) > 0:
		// Downgrade an open that has lock state under it, then open
		// the file again with more access by the same open-owner.
		lc := d.someLock(c)
		oc, ok := c.opens[lc.openOther]
		if !ok || oc.fh == nil {
			return
		}
		sn := d.pick(len(c.sess))
		s.doOn(c, sn, d.pick(nSlots), true, putfh(oc.fh), downgrade(oc.sid, uint32(1+d.pick(2))))
		if d.chance(30) {
			s.doOn(c, sn, d.pick(nSlots), true, putfh(oc.fh), read(lc.sid))
		}
		s.doOn(c, sn, d.pick(nSlots), true, putfh(oc.fh), openFH(oc.oo, uint32(1+d.pick(3)), "FH"))
		if d.chance(50) {
			s.doOn(c, sn, d.pick(nSlots), true, putfh(oc.fh), closeOp(oc.sid))
		}
	case r < 15:
		t := 1 + d.pick(6)
		if d.chance(8) {
			t = leaseTicks + 1 + d.pick(3)
		}
		s.e.advance(t)
	case r < 24: // retransmission, false retry, misordered
		if len(c.sess) == 0 {
			return
		}
		sn := d.pick(len(c.sess))
		slot := d.pick(nSlots)
		sl := &c.sess[sn].slots[slot]
		if d.slotHeld(sl) {
			// (a request with the sequence ID of the one in flight would
			// wait for it: those are sent by dupOne)
			return
		}
		switch k := d.pick(10); {
		case k < 4 && sl.last != nil: // identical
			s.resend(c, sn, slot, sl.last.seq, sl.last.cache, sl.last.ops...)
		case k < 6 && sl.last != nil: // other content
			s.resend(c, sn, slot, sl.last.seq, true, d.compound(c)...)
		case k < 8:
			s.resend(c, sn, slot, sl.next+1+uint32(d.pick(2)), true, putroot())
		case k < 9:
			if sl.next >= 2 {
				s.resend(c, sn, slot, sl.next-2, true, putroot())
			}
		default:
			s.resend(c, sn, nSlots+d.pick(2), 1, true, putroot())
		}
	default:
		if len(c.sess) == 0 {
			if d.chance(60) && d.sessions < 14 {
				s.register(c, true)
				d.sessions++
			}
			return
		}
		ops := d.compound(c)
		if len(ops) > maxOps-1 {
			ops = ops[:maxOps-1]
		}
		s.doOn(c, d.pick(len(c.sess)), d.pick(nSlots), d.chance(60), ops...)
	}
}

// TestRandom: VERIF_N traces of VERIF_STEPS steps.
func TestRandom(t *testing.T) {
	traces := common.EnvInt("VERIF_N", 20)
	steps := common.EnvInt("VERIF_STEPS", 60)
	tr := common.NewTrace("trace.ndjson")
	defer tr.Close()
	for i := 0; i < traces; i++ {
		rng := common.Rand(int64(i))
		s := newScript(tr, 1000+i, "random", []string{"a", "b"})
		d := &rdriver{s: s, rng: rng}
		nc := 2 + rng.Intn(2)
		for j := 0; j < nc; j++ {
			c := newClient([]string{"A", "B", "C"}[j], 1)
			s.clients = append(s.clients, c)
			s.register(c, true)
			d.sessions++
		}
		for j := 0; j < steps && !s.dead; j++ {
			d.step()
		}
		s.finish()
	}
}
