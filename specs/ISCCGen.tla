------------------------------ MODULE ISCCGen ------------------------------
(***************************************************************************)
(* Spec -> code direction for the store part of ISCC.tla: schedules that   *)
(* the Go driver replays on the real blobAccessMutableProtoStore.          *)
(*  - counterexample search on the "as coded" variant of the model         *)
(*    (MC_ISCC_store_ascoded.cfg): the first state that breaks a predicate *)
(*    writes the schedule that leads to it and stops TLC;                  *)
(*  - random behaviours (tlc -simulate, Sim_ISCC_store.cfg).               *)
(***************************************************************************)
EXTENDS ISCC, Json

CexNoLostUpdate ==
  NoLostUpdate(st) \/ ~ndJsonSerialize("cex_nolostupdate.ndjson", hist)
CexInUseInMap ==
  InUseInMap(st) \/ ~ndJsonSerialize("cex_inuseinmap.ndjson", hist)
\* The design after the repair of F6 but without the read guard (WriteGuards
\* = {1}): a Get() that read the backing store before another handle's
\* content was written inserts its stale copy after that handle was
\* discarded (finding F11).
CexStaleRead ==
  NoLostUpdate(st) \/ ~ndJsonSerialize("cex_staleread.ndjson", hist)
CexPendingCarried ==
  PendingCarried(st) \/ ~ndJsonSerialize("cex_pendingcarried.ndjson", hist)

\* Simulation: every behaviour writes its schedule (the last write of a run
\* is the longest prefix).
SimDump ==
  Len(hist) < 6 \/
    ndJsonSerialize("beh_" \o ToString(TLCGet("stats").traces) \o ".ndjson", hist)
=============================================================================
