// Package common holds helpers shared by all conformance drivers: the
// NDJSON trace writer, environment handling and seeded randomness.
package common

import (
	"bufio"
	"encoding/json"
	"fmt"
	"math/rand"
	"os"
	"path/filepath"
	"strconv"
	"sync"
	"time"
)

// Env returns the value of an environment variable or a default.
func Env(name, def string) string {
	if v := os.Getenv(name); v != "" {
		return v
	}
	return def
}

// EnvInt returns an integer environment variable or a default.
func EnvInt(name string, def int) int {
	if v := os.Getenv(name); v != "" {
		if i, err := strconv.Atoi(v); err == nil {
			return i
		}
	}
	return def
}

// Seed returns VERIF_SEED (default 1).
func Seed() int64 { return int64(EnvInt("VERIF_SEED", 1)) }

// OutDir returns VERIF_OUT; drivers write their traces there.
func OutDir() string {
	d := Env("VERIF_OUT", "")
	if d == "" {
		panic("VERIF_OUT not set")
	}
	if err := os.MkdirAll(d, 0o755); err != nil {
		panic(err)
	}
	return d
}

// Rand returns a deterministic generator for (seed, stream).
func Rand(stream int64) *rand.Rand {
	return rand.New(rand.NewSource(Seed()*1000003 + stream))
}

// Ev is one trace event.
type Ev map[string]any

// Trace is an append-only NDJSON event log. It is safe for concurrent
// use; the order of lines is the order of Emit calls, so callers must
// emit under the lock that protects the state they describe.
type Trace struct {
	mu   sync.Mutex
	f    *os.File
	w    *bufio.Writer
	n    int
	path   string
	closed bool
}

// Watchdog starts a real-time watchdog: if no event is emitted for the
// given duration, it appends the event produced by onStall, closes the
// trace and ends the process with exit code 0 (the trace is the result).
// It must be started outside of any synctest bubble.
func (t *Trace) Watchdog(limit time.Duration, onStall func() Ev) {
	// Emit() may run inside a synctest bubble where time is fake, so
	// progress is measured by the event counter against real time here.
	go func() {
		seen, since := -1, time.Now()
		for {
			time.Sleep(limit / 10)
			t.mu.Lock()
			n := t.n
			closed := t.closed
			t.mu.Unlock()
			if closed {
				return
			}
			if n != seen {
				seen, since = n, time.Now()
				continue
			}
			if time.Since(since) > limit {
				ev := onStall()
				b, _ := json.Marshal(ev)
				t.mu.Lock()
				t.w.Write(b)
				t.w.WriteByte('\n')
				t.w.Flush()
				t.f.Close()
				t.mu.Unlock()
				os.Exit(0)
			}
		}
	}()
}

// NewTrace creates <OutDir>/<name>.
func NewTrace(name string) *Trace {
	p := filepath.Join(OutDir(), name)
	f, err := os.Create(p)
	if err != nil {
		panic(err)
	}
	return &Trace{f: f, w: bufio.NewWriterSize(f, 1<<20), path: p}
}

// Emit appends one event.
func (t *Trace) Emit(ev Ev) {
	b, err := json.Marshal(ev)
	if err != nil {
		panic(fmt.Sprintf("cannot marshal event %v: %v", ev, err))
	}
	t.mu.Lock()
	t.w.Write(b)
	t.w.WriteByte('\n')
	t.w.Flush() // a driver may be killed (or may exit) at any time: keep the file complete
	t.n++
	t.mu.Unlock()
}

// Len returns the number of events emitted so far.
func (t *Trace) Len() int {
	t.mu.Lock()
	defer t.mu.Unlock()
	return t.n
}

// Close flushes the file.
func (t *Trace) Close() {
	t.mu.Lock()
	defer t.mu.Unlock()
	if t.closed {
		return
	}
	t.closed = true
	t.w.Flush()
	t.f.Close()
}

// WriteJSON writes v to <OutDir>/<name>.
func WriteJSON(name string, v any) {
	b, err := json.MarshalIndent(v, "", " ")
	if err != nil {
		panic(err)
	}
	if err := os.WriteFile(filepath.Join(OutDir(), name), b, 0o644); err != nil {
		panic(err)
	}
}
