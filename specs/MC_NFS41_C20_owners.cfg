SPECIFICATION Spec
CONSTANTS
  Owners = {"A"}
  Vers = {1}
  OOs = {"o1", "o2"}
  LOs = {"l1"}
  Names = {"a"}
  MaxFile = 1
  N = 2
  NSlots = 1
  MaxOps = 4
  Lease = 1
  SessIds = {1}
  Ctxs = {"A"}
  Deferred = FALSE
  InitFH = 1
  MaxOther = 4
  MaxSeq = 3
  MaxClock = 0
  MaxAcc = 2
  Family = "C20"
CONSTRAINT Bound
INVARIANTS
  C18_Balance
  C18_StateIds
  C18_Final
  C20_Exclusion
  C20_Accounted
  C20_OneLockState
VIEW MCView
CHECK_DEADLOCK FALSE
