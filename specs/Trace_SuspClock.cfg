SPECIFICATION TraceSpec
INVARIANTS
  VerdictOK
  C11_SuspCount
  C11_RunningWithinBounds
  NonconfReport
POSTCONDITION Accepted
CHECK_DEADLOCK FALSE
