"""C12 — each action runs isolated and leaves nothing behind
(IdleInvoker.tla: IdleInvoker at critical-section granularity + the
Shared(Clean(Root(dir))) build directory creator chain)."""
import glob
import json
import os

from lib import vlib

DEPS = ["IdleInvoker.tla"]
TRACE = "IdleInvokerTrace.tla"
TCFG = "Trace_IdleInvoker.cfg"


def _driver(ctx, binary, test, name, env, traces, allow_fail=False):
    """Run one driver; return the lines of its trace."""
    out = ctx.sub(name)
    rc, o = vlib.run_driver(binary, test, out, ctx.seed, env=env, timeout=900)
    p = os.path.join(out, "trace.ndjson")
    if os.path.exists(p) and os.path.getsize(p) > 300 << 20:
        os.remove(p)
        raise vlib.Infra("driver %s (%s) wrote an unreasonably large trace" % (test, name))
    lines = [ln for ln in vlib.read_lines(p) if ln.strip()] if os.path.exists(p) else []
    if rc != 0:
        # The events before the failure may already tell TLC what went wrong
        # (e.g. goroutines blocked for ever); judge them first.
        ctx.driver_failures.append("%s (%s) exit %d:\n%s" % (test, name, rc, o[-1500:]))
    if not lines and rc == 0:
        raise vlib.Infra("driver %s (%s) produced no trace" % (test, name))
    traces.extend(lines)
    if lines:
        ctx.cov["samples"] += [json.loads(x) for x in lines[1:4]]
    return out


def _schedules(ctx, n):
    """Behaviours of the specification (tlc -simulate) as schedules."""
    wd = ctx.sub("sim")
    vlib.copy_specs(wd, DEPS + ["IdleInvokerSim.tla", "Sim_IdleInvoker.cfg"])
    r = vlib.tlc_run(wd, "IdleInvokerSim.tla", "Sim_IdleInvoker.cfg", workers=1, timeout=1800,
                     simulate="num=%d" % n, depth=400, seed=ctx.seed, heap="2g")
    if not r.ok:
        raise vlib.Infra("tlc -simulate failed: %s\n%s" % (r.violated or r.error, r.output[-2000:]))
    files = sorted(glob.glob(os.path.join(wd, "sched_*.ndjson")))
    if not files:
        raise vlib.Infra("tlc -simulate wrote no schedules")
    p = os.path.join(wd, "schedules.ndjson")
    with open(p, "w") as f:
        for fn in files:
            for ln in open(fn):
                if ln.strip():
                    f.write(ln.strip() + "\n")
    ctx.cov["tlc_runs"].append({"cfg": "Sim_IdleInvoker.cfg", "simulate": n, "schedules": len(files), "wall_s": round(r.wall, 1)})
    return p, len(files)


def run(ctx):
    ctx.driver_failures = []
    q = ctx.quick()
    # 1. design: every interleaving of three threads at critical-section
    #    granularity (cleaner ok/fail, cancellation while parked), the creator
    #    chain with two threads and directory faults, liveness with two threads
    #    (does not depend on /repo; VERIF_SKIP_DESIGN=1 skips it for mutation
    #    sanity runs on a loaded machine)
    if not os.environ.get("VERIF_SKIP_DESIGN"):
        for cfg in ("MC_IdleInvoker.cfg", "MC_IdleInvoker_dirs.cfg", "MC_IdleInvoker_live.cfg"):
            vlib.design_check(ctx, "IdleInvoker.tla", cfg, [], timeout=1800, workers=2, heap="2g")
    sched, ns = _schedules(ctx, 40 if q else 400)
    # 2. the real code
    binary = vlib.go_build_test(ctx, "idleinv")
    traces = []
    meta = {}
    for n in ([2, 3] if q else [2, 3, 4]):
        out = _driver(ctx, binary, "TestEnumerate", "enum%d" % n, {"VERIF_THREADS": n}, traces)
        mp = os.path.join(out, "meta.json")
        if os.path.exists(mp):
            m = json.load(open(mp))
            meta["enumerate_%d_threads" % n] = {k: m[k] for k in ("states", "transitions", "diverged_replays", "traces", "truncated")}
    out = _driver(ctx, binary, "TestSchedules", "sched", {"VERIF_SCHEDULES": sched}, traces)
    mp = os.path.join(out, "meta.json")
    if os.path.exists(mp):
        meta["tlc_schedules"] = json.load(open(mp))
    # "exec": the real localBuildExecutor on top of the creator chain (the
    # action ends normally, by an error before/in the command, or cancelled)
    sizes = {"direct": (40, 40), "runner": (25, 40), "creator": (25, 40), "chain": (40, 40), "exec": (40, 40)}
    for mode, (nt, steps) in sizes.items():
        if not q:
            nt *= 10
        _driver(ctx, binary, "TestRandom", "rand_" + mode, {"VERIF_MODE": mode, "VERIF_N": nt, "VERIF_STEPS": steps}, traces)
    if not q:
        # the same schedules with other interleavings inside the wake-up
        # cascades and other log orders: one P, and two Ps shared with busy
        # goroutines that force preemption at arbitrary points
        _driver(ctx, binary, "TestRandom", "rand_direct_p1",
                {"VERIF_MODE": "direct", "VERIF_N": 200, "VERIF_STEPS": 40, "GOMAXPROCS": 1}, traces)
        for mode in ("direct", "creator", "chain", "exec"):
            _driver(ctx, binary, "TestRandom", "rand_%s_hostile" % mode,
                    {"VERIF_MODE": mode, "VERIF_N": 200, "VERIF_STEPS": 40, "GOMAXPROCS": 2, "VERIF_SPIN": 6}, traces)
    if not traces:
        raise vlib.Infra("drivers produced no events:\n" + "\n".join(ctx.driver_failures))
    allp = os.path.join(ctx.sub("all"), "trace.ndjson")
    with open(allp, "w") as f:
        f.write("\n".join(traces) + "\n")
    vlib.validate_traces(ctx, allp, TRACE, TCFG, DEPS, "all", classify=vlib.classify_for(ctx.prop),
                         timeout=3000, max_failures=3)
    if ctx.driver_failures and not ctx.violations:
        raise vlib.Infra("driver failed and the recorded events show no violation:\n" + "\n".join(ctx.driver_failures))
    return vlib.finish(
        ctx,
        rule=("TLC explores IdleInvoker.tla exhaustively: 3 threads at critical-section granularity (cleaner ok/fail, "
              "cancellation while parked, deadlock check), the Shared(Clean(Root)) chain with 2 threads and Mkdir/Enter/"
              "Remove/RemoveAll faults, liveness with 2 threads under fairness. The real IdleInvoker is driven inside "
              "testing/synctest with a gated cleaner (in every other random schedule the real ChainedCleaner over two gated "
              "parts, either of which the harness makes fail): every harness step from every reachable quiescent state (2..4 "
              "threads), schedules generated by tlc -simulate, seeded random schedules directly and through CleanRunner, "
              "CleanBuildDirectoryCreator and the creator chain over the real in-memory build directory with fault "
              "injection, and through the real localBuildExecutor on top of that chain with a gated fake runner (the "
              "action ends normally, by a runner error, by a missing input root or command, by directory faults or by "
              "cancellation: when Execute returns the build directory must have been closed and the invoker released). "
              "TLC validates every recorded event against the set of specification states consistent with "
              "the log. Distinct = distinct spec states + validated events."),
        explanation="conformance of idle_invoker.go, clean_runner.go, clean/shared/root build directory creators and the build directory handling of local_build_executor.go to IdleInvoker.tla",
        exhaustive=True,
        extra={"drivers": meta},
    )


def replay(ctx, path):
    vlib.validate_traces(ctx, path, TRACE, TCFG, DEPS, "replay", classify=vlib.classify_for(ctx.prop))
    return vlib.finish(ctx, rule="replay of a saved trace", explanation="replay")
