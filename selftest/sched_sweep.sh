#!/bin/bash
# selftest/sched_sweep.sh <seed>...: scheduler family on the unchanged tree for several seeds;
# every property of the family is checked (the drivers run once per seed, cached). Log: /tmp/sched-sweep.log
for s in "$@"; do
  for p in C01 C02 C03 C04 C05 C06; do
    out=$(cd /verif && VERIF_SEED=$s bin/check $p 2>&1); rc=$?
    echo "seed=$s $p rc=$rc $(echo "$out" | grep -E '^(VIOLATION|OK |INCONCLUSIVE|KNOWN)' | head -3 | tr '\n' ' ' | cut -c1-300)" >> /tmp/sched-sweep.log
    [ $rc -ne 0 ] && echo "$out" > /tmp/sched-sweep-fail-$s-$p.log
  done
done
echo DONE >> /tmp/sched-sweep.log
