package nfs41

import (
	"testing"
	"testing/synctest"

	"github.com/buildbarn/go-xdr/pkg/protocols/nfsv4"

	"verif/harness/common"
)

// Concurrency: a COMPOUND [PUTFH, READ|WRITE] is held inside the leaf's
// VirtualRead/VirtualWrite while other requests run. Everything happens
// inside a testing/synctest bubble, so "every goroutine is durably
// blocked" is decided by the runtime, not by timeouts.

type callResult struct {
	res *nfsv4.Compound4res
	pan string
}

type heldCall struct {
	c     *clientC
	ss    *sessC
	x     int
	sess  [16]byte
	slot  uint32
	seq   uint32
	cache bool
	ops   []*Op
	gate  *heldIO
	done  chan callResult
	held  bool
}

// hold starts [PUTFH fh, READ/WRITE sid] and returns once the request
// is either blocked inside the leaf or has completed.
func (s *script) hold(c *clientC, slot int, leaf int, kind string, fh []byte, id sid) *heldCall {
	return s.holdC(c, slot, leaf, kind, fh, id, true)
}

// holdC is hold with an explicit sa_cachethis (false: the reply has
// three results, so the server does not have to keep it).
func (s *script) holdC(c *clientC, slot int, leaf int, kind string, fh []byte, id sid, cache bool) *heldCall {
	if s.dead || len(c.sess) == 0 {
		return nil
	}
	return s.holdOn(c, c.sess[0], slot, leaf, kind, fh, id, cache)
}

// holdOn is holdC on a given session of the client.
func (s *script) holdOn(c *clientC, ss *sessC, slot int, leaf int, kind string, fh []byte, id sid, cache bool) *heldCall {
	if s.dead {
		return nil
	}
	sl := &ss.slots[slot]
	io := read(id)
	if kind == "WRITE" {
		io = write(id, "HH")
	}
	hc := &heldCall{c: c, ss: ss, x: s.e.newCtx(), sess: ss.id, slot: uint32(slot), seq: sl.next, cache: cache,
		ops: []*Op{putfh(fh), io}, done: make(chan callResult, 1)}
	s.helds = append(s.helds, hc)
	hc.gate = s.e.armGate(kind, leaf)
	args := seqArgs(hc.sess, hc.slot, hc.seq, hc.cache, hc.ops)
	go func() {
		res, pan := s.e.call(args)
		hc.done <- callResult{res, pan}
	}()
	synctest.Wait()
	select {
	case <-hc.gate.arrived:
		hc.held = true
		sl.next = hc.seq + 1
		sl.last = &sentReq{seq: hc.seq, cache: hc.cache, ops: hc.ops}
		s.e.tr.Emit(s.e.seqEvent(hc.x, hc.sess, hc.slot, hc.seq, hc.cache, hc.ops, "OK"))
		s.e.tr.Emit(common.Ev{"ev": "PUTFH", "x": hc.x, "st": "OK", "rop": "PUTFH", "fh": s.e.fhNum(fh)})
		s.e.tr.Emit(common.Ev{"ev": "iostart", "x": hc.x, "op": kind, "sid": s.e.sidEv(id), "f": leaf})
		s.e.snapshot("h")
	default:
		// The request never reached the leaf: it completed.
		s.e.disarmGate()
		s.finishHeld(hc, 0)
	}
	return hc
}

// finishHeld collects the result of a held call and logs what has not
// been logged yet.
func (s *script) finishHeld(hc *heldCall, from int) {
	r := <-hc.done
	defer s.e.freeCtx(hc.x)
	if r.pan != "" {
		if from == 0 {
			s.e.tr.Emit(s.e.seqEvent(hc.x, hc.sess, hc.slot, hc.seq, hc.cache, hc.ops, "PANIC"))
		}
		s.e.panicEvent(hc.x, hc.ops, r.pan, true)
		s.dead = true
		return
	}
	res := r.res
	if from > 0 && (len(res.Resarray) < 3 || resopStatus(res.Resarray[0]) != nfsv4.NFS4_OK || resopStatus(res.Resarray[1]) != nfsv4.NFS4_OK) {
		s.e.tr.Emit(common.Ev{"ev": "anomaly", "what": "held request reached the leaf but its reply says otherwise"})
	}
	if from == 0 && len(res.Resarray) > 0 && resopStatus(res.Resarray[0]) == nfsv4.NFS4_OK {
		sl := &hc.ss.slots[hc.slot]
		sl.next = hc.seq + 1
		sl.last = &sentReq{seq: hc.seq, cache: hc.cache, ops: hc.ops}
	}
	s.e.logSeqResult(hc.x, hc.sess, hc.slot, hc.seq, hc.cache, hc.ops, true, res, from)
}

// unblock lets every request that is still held inside a leaf run to its
// end without logging it (the scenario stopped early, e.g. because the
// real code panicked). It reports whether all of them returned.
func (s *script) unblock() bool {
	all := true
	if s.e.stuck {
		// A server lock was left held: a parked request cannot finish.
		for _, hc := range s.helds {
			if hc.held {
				return false
			}
		}
		return true
	}
	for _, hc := range s.helds {
		if !hc.held {
			continue
		}
		hc.held = false
		close(hc.gate.release)
		synctest.Wait()
		select {
		case <-hc.done:
		default:
			all = false
		}
	}
	return all
}

// release lets a held request continue and waits for its completion.
func (s *script) release(hc *heldCall) {
	if hc == nil || !hc.held || s.dead {
		return
	}
	hc.held = false
	close(hc.gate.release)
	synctest.Wait()
	s.finishHeld(hc, 1)
}

type dupCall struct {
	x       int
	done    chan callResult
	waiting bool
}

// duplicate sends a request with the slot and sequence ID of a request
// that is in flight.
func (s *script) duplicate(hc *heldCall, cache bool, ops []*Op) *dupCall {
	if s.dead {
		return nil
	}
	d := &dupCall{x: s.e.newCtx(), done: make(chan callResult, 1)}
	args := seqArgs(hc.sess, hc.slot, hc.seq, cache, ops)
	go func() {
		res, pan := s.e.call(args)
		d.done <- callResult{res, pan}
	}()
	synctest.Wait()
	select {
	case r := <-d.done:
		// It did not wait.
		defer s.e.freeCtx(d.x)
		if r.pan != "" {
			s.e.tr.Emit(s.e.seqEvent(d.x, hc.sess, hc.slot, hc.seq, cache, ops, "PANIC"))
			s.e.panicEvent(d.x, ops, r.pan, false)
			s.dead = true
			return d
		}
		s.e.logSeqResult(d.x, hc.sess, hc.slot, hc.seq, cache, ops, false, r.res, 0)
	default:
		d.waiting = true
		ev := s.e.seqEvent(d.x, hc.sess, hc.slot, hc.seq, cache, ops, "WAIT")
		ev["ev"] = "dupstart"
		s.e.tr.Emit(ev)
		s.e.snapshot("h")
	}
	return d
}

// collect logs how a waiting duplicate ended. It must be called after
// the original has been released. It returns false if the duplicate
// never returned.
func (s *script) collect(d *dupCall) bool {
	if d == nil || !d.waiting {
		return true
	}
	synctest.Wait()
	select {
	case r := <-d.done:
		defer s.e.freeCtx(d.x)
		if r.pan != "" {
			s.e.panicEvent(d.x, nil, r.pan, false)
			s.dead = true
			return true
		}
		ev := s.e.endEvent(d.x, r.res)
		ev["ev"] = "dupend"
		s.e.tr.Emit(ev)
		s.e.snapshot("c")
		return true
	default:
		s.e.tr.Emit(common.Ev{"ev": "duphang", "x": d.x})
		s.dead = true
		s.hung = true
		return false
	}
}

var concScenarios = []scenario{
	{"io-in-flight-close", func(s *script) {
		a := s.client("A", 1)
		b := s.client("B", 1)
		s.do(a, putroot(), openName("o1", "a", shRW, "NOCREATE"), getfh())
		oa := a.open("o1", s.fh(1)).sid
		s.do(a, putfh(s.fh(1)), lockNew(oa, "l1", "W", 0, 4))
		h := s.hold(a, 0, 1, "READ", s.fh(1), oa)
		s.doOn(a, 0, 1, true, putfh(s.fh(1)), closeOp(oa))
		s.doOn(b, 0, 0, true, putfh(s.fh(1)), lockt("l1", "W", 0, 4))
		s.doOn(a, 0, 1, true, putroot(), openName("o1", "a", shR, "NOCREATE"), getfh())
		s.doOn(a, 0, 1, true, putfh(s.fh(1)), read(oa))
		s.release(h)
		s.doOn(a, 0, 1, true, putfh(s.fh(1)), closeOp(a.open("o1", s.fh(1)).sid))
	}},
	{"io-in-flight-downgrade", func(s *script) {
		a := s.client("A", 1)
		s.do(a, putroot(), openName("o1", "a", shRW, "NOCREATE"), getfh())
		oa := a.open("o1", s.fh(1))
		h := s.hold(a, 0, 1, "WRITE", s.fh(1), oa.sid)
		s.doOn(a, 0, 1, true, putfh(s.fh(1)), downgrade(oa.sid, shR))
		s.doOn(a, 0, 1, true, putfh(s.fh(1)), write(oa.sid, "no"))
		s.doOn(a, 0, 1, true, putroot(), remove("a"))
		s.release(h)
		s.doOn(a, 0, 1, true, putfh(s.fh(1)), closeOp(oa.sid))
		s.doOn(a, 0, 1, true, putfh(s.fh(1)))
	}},
	{"downgrade-during-io-then-upgrade", func(s *script) {
		// An in-flight WRITE alone keeps the write share after the
		// downgrade; the upgrade must treat its leaf open as redundant.
		a := s.client("A", 1)
		s.do(a, putroot(), openName("o1", "a", shRW, "NOCREATE"), getfh())
		oa := a.open("o1", s.fh(1))
		h := s.hold(a, 0, 1, "WRITE", s.fh(1), oa.sid)
		s.doOn(a, 0, 1, true, putfh(s.fh(1)), downgrade(oa.sid, shR))
		s.doOn(a, 0, 1, true, putfh(s.fh(1)), openFH("o1", shW, "FH"))
		s.release(h)
		s.doOn(a, 0, 1, true, putfh(s.fh(1)), closeOp(oa.sid))
	}},
	{"io-in-flight-lease", func(s *script) {
		a := s.client("A", 1)
		b := s.client("B", 1)
		s.do(a, putroot(), openName("o1", "a", shRW, "NOCREATE"), getfh())
		oa := a.open("o1", s.fh(1))
		h := s.hold(a, 0, 1, "READ", s.fh(1), oa.sid)
		s.doOn(a, 0, 1, true, putroot(), getfh()) // a second request comes and goes: A stays held
		s.e.advance(leaseTicks + 3)
		s.do(b, putroot(), openName("o1", "a", shR, "NOCREATE"), getfh()) // B re-registers below if needed
		a2 := newClient("A", 2)
		s.clients = append(s.clients, a2)
		s.register(a2, true) // CREATE_SESSION must be delayed: A's incarnation is busy
		s.e.destroyClientID(a.cid, true)
		s.e.destroySession(a.sess[0].id, true)
		s.release(h)
		s.newSession(a2, a2.csNext)
		s.do(a2, putfh(s.fh(1)), read(oa.sid))
	}},
	{"io-in-flight-longer-than-lease", func(s *script) {
		// A READ runs for twice the lease time while nobody else talks to
		// the server. The COMPOUND that is executing keeps the client
		// alive and its completion renews the lease: a second later the
		// state ID is still good.
		a := s.client("A", 1)
		s.do(a, putroot(), openName("o1", "a", shRW, "NOCREATE"), getfh())
		oa := a.open("o1", s.fh(1))
		s.do(a, putfh(s.fh(1)), lockNew(oa.sid, "l1", "W", 0, 2))
		h := s.hold(a, 0, 1, "READ", s.fh(1), oa.sid)
		s.e.advance(2 * leaseTicks)
		s.release(h)
		s.e.advance(1)
		s.doOn(a, 0, 1, true, putfh(s.fh(1)), read(oa.sid))
		s.e.advance(leaseTicks - 2)
		s.doOn(a, 0, 1, true, putfh(s.fh(1)), write(oa.sid, "ok"))
		s.doOn(a, 0, 1, true, putfh(s.fh(1)), closeOp(oa.sid))
	}},
	{"io-in-flight-silent-client-expires", func(s *script) {
		// The control: B says nothing while A's READ runs for twice the
		// lease time; B's lease runs out, A's does not.
		a := s.client("A", 1)
		b := s.client("B", 1)
		s.do(a, putroot(), openName("o1", "a", shRW, "NOCREATE"), getfh())
		s.do(b, putroot(), openName("o1", "a", shR, "NOCREATE"), getfh())
		s.do(b, putfh(s.fh(1)), lockNew(b.open("o1", s.fh(1)).sid, "l1", "R", 0, 4))
		oa, ob := a.open("o1", s.fh(1)), b.open("o1", s.fh(1))
		h := s.hold(a, 0, 1, "WRITE", s.fh(1), oa.sid)
		s.e.advance(2 * leaseTicks)
		s.release(h)
		s.e.advance(1)
		s.doOn(a, 0, 1, true, putfh(s.fh(1)), lockNew(oa.sid, "l1", "W", 0, 4)) // B's lock is gone
		s.do(b, putfh(s.fh(1)), read(ob.sid))                                   // B's session too
		s.doOn(a, 0, 1, true, putfh(s.fh(1)), closeOp(oa.sid))
	}},
	{"io-in-flight-anonymous", func(s *script) {
		a := s.client("A", 1)
		b := s.client("B", 1)
		h := s.hold(a, 0, 1, "READ", s.fh(1), anonSid)
		s.do(b, putroot(), remove("a"))
		s.do(b, putfh(s.fh(1)), read(anonSid))
		s.release(h)
		h2 := s.hold(a, 0, 2, "WRITE", s.fh(2), bypassSid)
		s.do(b, putroot(), openName("o1", "b", shRW, "NOCREATE"), getfh())
		s.release(h2)
	}},
	{"io-in-flight-destroy", func(s *script) {
		// The client's session and the client itself are destroyed while
		// one of its requests is still running.
		a := s.client("A", 1)
		b := s.client("B", 1)
		h := s.hold(a, 0, 1, "READ", s.fh(1), anonSid)
		s.e.destroySession(a.sess[0].id, true)
		s.e.destroyClientID(a.cid, true) // must be refused: a request of A is in flight
		s.do(b, putroot(), lookup("a"), getfh())
		s.e.destroyClientID(a.cid, true)
		s.release(h)
		s.e.destroyClientID(a.cid, true) // now A can go
		s.e.destroyClientID(a.cid, true)
	}},
	{"io-in-flight-lock-stateid", func(s *script) {
		// A WRITE with a lock state ID is running while the open is
		// downgraded and the lock state is freed.
		a := s.client("A", 1)
		s.do(a, putroot(), openName("o1", "a", shRW, "NOCREATE"), getfh())
		oa := a.open("o1", s.fh(1))
		s.do(a, putfh(s.fh(1)), lockNew(oa.sid, "l1", "W", 0, 2))
		la := a.lock("o1", "l1", s.fh(1))
		h := s.hold(a, 0, 1, "WRITE", s.fh(1), la.sid)
		s.doOn(a, 0, 1, true, putfh(s.fh(1)), downgrade(oa.sid, shR))
		s.doOn(a, 0, 1, true, putfh(s.fh(1)), locku(la.sid, 0, 4))
		s.doOn(a, 0, 1, true, freeSid(la.sid))
		s.doOn(a, 0, 1, true, putfh(s.fh(1)), write(oa.sid, "no"))
		s.doOn(a, 0, 1, true, putfh(s.fh(1)), write(la.sid, "no"))
		s.release(h)
		s.doOn(a, 0, 1, true, putfh(s.fh(1)), closeOp(oa.sid))
	}},
	{"duplicate-in-flight-uncached", func(s *script) {
		// The original does not ask for its reply to be cached (and the
		// reply has three results): duplicates that arrive while it runs
		// still complete with its full result; a retransmission that
		// arrives afterwards gets what the cache kept.
		a := s.client("A", 1)
		s.do(a, putroot(), openName("o1", "a", shRW, "NOCREATE"), getfh())
		oa := a.open("o1", s.fh(1))
		h := s.holdC(a, 0, 1, "READ", s.fh(1), oa.sid, false)
		d1 := s.duplicate(h, false, h.ops)
		d2 := s.duplicate(h, true, h.ops)
		s.release(h)
		if s.collect(d1) {
			s.collect(d2)
		}
		s.resend(a, 0, 0, h.seq, false, h.ops...)
	}},
	{"duplicate-in-flight-same", func(s *script) {
		a := s.client("A", 1)
		s.do(a, putroot(), openName("o1", "a", shRW, "NOCREATE"), getfh())
		oa := a.open("o1", s.fh(1))
		h := s.hold(a, 0, 1, "READ", s.fh(1), oa.sid)
		d1 := s.duplicate(h, true, h.ops)
		d2 := s.duplicate(h, true, h.ops)
		s.release(h)
		if s.collect(d1) {
			s.collect(d2)
		}
		s.resend(a, 0, 0, h.seq, true, h.ops...) // and once more from the cache
	}},
	{"duplicate-in-flight-different", func(s *script) {
		a := s.client("A", 1)
		s.do(a, putroot(), openName("o1", "a", shRW, "NOCREATE"), getfh())
		oa := a.open("o1", s.fh(1))
		h := s.hold(a, 0, 1, "READ", s.fh(1), oa.sid)
		d := s.duplicate(h, true, []*Op{putroot(), getfh(), getfh()})
		s.release(h)
		s.collect(d)
	}},
}

// TestInFlight runs the scenarios with I/O in flight and duplicates of
// requests in flight. If a duplicate never returns, the trace says so
// and the test binary ends with synctest's deadlock report.
func TestInFlight(t *testing.T) {
	tr := common.NewTrace("trace.ndjson")
	only := common.Env("VERIF_SCEN", "")
	for i, sc := range concScenarios {
		if only != "" && only != sc.name {
			continue
		}
		hung := false
		synctest.Test(t, func(t *testing.T) {
			s := newScript(tr, 100+i, sc.name, []string{"a", "b"})
			s.e.async = true
			runGuarded(s, sc)
			if s.dead {
				// The real code panicked or a duplicate never returned.
				if !s.unblock() || s.hung {
					hung = true
					tr.Close()
				}
				return
			}
			s.finish()
		})
		if hung {
			return
		}
	}
	tr.Close()
}

// ---------------------------------------------------------------------
// Seeded random histories with requests in flight: READ/WRITE requests
// are held inside the leaf at random moments while the other clients
// (and the other slots of the same client) go on with opens, closes,
// downgrades, locks, registrations, destroys, retransmissions and clock
// advances; duplicates of the held requests are sent, with the same and
// with different content.

type rhold struct {
	hc   *heldCall
	sl   *slotC
	dups []*dupCall
}

func (d *rdriver) slotHeld(sl *slotC) bool {
	for _, h := range d.holds {
		if h.sl == sl {
			return true
		}
	}
	return false
}

func (d *rdriver) waitingDups() int {
	n := 0
	for _, h := range d.holds {
		n += len(h.dups)
	}
	return n
}

func (d *rdriver) startHold() {
	s := d.s
	c := d.pickClient()
	if len(c.opens) == 0 {
		// prefer a client that has something open
		for _, o := range s.clients {
			if len(o.opens) > 0 && len(o.sess) > 0 && d.chance(70) {
				c = o
			}
		}
	}
	if len(c.sess) == 0 {
		return
	}
	ss := c.sess[d.pick(len(c.sess))]
	slot := d.pick(nSlots)
	if d.slotHeld(&ss.slots[slot]) {
		slot = (slot + 1) % nSlots
		if d.slotHeld(&ss.slots[slot]) {
			return
		}
	}
	var id sid
	var fh []byte
	switch d.pick(5) {
	case 0:
		lc := d.someLock(c)
		id, fh = d.mutate(c, lc.sid), lc.fh
	case 1:
		id, fh = []sid{anonSid, bypassSid}[d.pick(2)], d.anyFile()
	default:
		oc := d.someOpen(c)
		id, fh = d.mutate(c, oc.sid), oc.fh
	}
	if fh == nil {
		return
	}
	leaf := fileNo(s.e.tokOfHandle(fh))
	if leaf == 0 {
		return
	}
	kind := []string{"READ", "WRITE"}[d.pick(2)]
	hc := s.holdOn(c, ss, slot, leaf, kind, fh, id, d.chance(60))
	if hc != nil && hc.held {
		d.holds = append(d.holds, &rhold{hc: hc, sl: &ss.slots[slot]})
	}
}

func (d *rdriver) releaseHold(i int) {
	h := d.holds[i]
	d.holds = append(d.holds[:i], d.holds[i+1:]...)
	d.s.release(h.hc)
	for _, dp := range h.dups {
		if d.s.dead || !d.s.collect(dp) {
			return
		}
	}
}

func (d *rdriver) dupOne() {
	h := d.holds[d.pick(len(d.holds))]
	ops := h.hc.ops
	if d.chance(35) {
		ops = d.compound(h.hc.c)
		if len(ops) > maxOps-1 {
			ops = ops[:maxOps-1]
		}
	}
	cache := h.hc.cache
	if d.chance(25) {
		cache = !cache
	}
	if dp := d.s.duplicate(h.hc, cache, ops); dp != nil && dp.waiting {
		h.dups = append(h.dups, dp)
	}
}

func (d *rdriver) stepInFlight() {
	if len(d.holds) > 0 && d.chance(5) {
		// A request stays in flight for longer than the lease.
		d.s.e.advance(leaseTicks + 1 + d.pick(leaseTicks))
		return
	}
	switch r := d.pick(100); {
	case r < 20 && len(d.holds) < 2:
		d.startHold()
	case r < 30 && len(d.holds) > 0:
		d.releaseHold(d.pick(len(d.holds)))
	case r < 40 && len(d.holds) > 0 && d.waitingDups() < 1:
		d.dupOne()
	default:
		d.step()
	}
}

// TestRandomInFlight: VERIF_N traces of VERIF_STEPS steps, each inside
// its own synctest bubble.
func TestRandomInFlight(t *testing.T) {
	traces := common.EnvInt("VERIF_N", 10)
	steps := common.EnvInt("VERIF_STEPS", 60)
	tr := common.NewTrace("trace.ndjson")
	for i := 0; i < traces; i++ {
		hung := false
		synctest.Test(t, func(t *testing.T) {
			rng := common.Rand(int64(5000 + i))
			s := newScript(tr, 2000+i, "random-inflight", []string{"a", "b"})
			s.e.async = true
			d := &rdriver{s: s, rng: rng}
			for j := 0; j < 2; j++ {
				c := newClient([]string{"A", "B"}[j], 1)
				s.clients = append(s.clients, c)
				s.register(c, true)
				d.sessions++
			}
			for j := 0; j < steps && !s.dead; j++ {
				d.stepInFlight()
			}
			for len(d.holds) > 0 && !s.dead {
				d.releaseHold(0)
			}
			if s.dead {
				if !s.unblock() || s.hung {
					hung = true
					tr.Close()
				}
				return
			}
			s.finish()
		})
		if hung {
			return
		}
	}
	tr.Close()
}
