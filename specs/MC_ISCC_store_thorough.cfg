SPECIFICATION StoreSpec
CONSTANTS
  Digests = {d1, d2}
  Threads = {t1, t2, t3}
  NoDigest = NoDigest
  MaxGets = 10
  MaxUpd = 5
  WritesPerRead = 3
  VersionRules = {"cur+1"}
  WriteGuards = {2}
  ReuseSlots = TRUE
  EagerFinish = FALSE
  RecordHist = FALSE
  MaxN = 1
  MaxT = 0
SYMMETRY StoreSym
INVARIANTS
  C07_UseCountBalance
  C07_InUseInMap
  C07_QueuedInMap
  C07_NoLostUpdate
  C07_PendingCarried
  NoOrphan
PROPERTIES
  C07_MonotonicWrites
CHECK_DEADLOCK FALSE
