----------------------------- MODULE NFS40Trace -----------------------------
(***************************************************************************)
(* Validates traces recorded from the real NFSv4.0 server (harness/nfs40)  *)
(* against NFS40.tla.  Every line is consumed.  The reference state `s` is *)
(* advanced with the logged request; the logged reply, the open/close      *)
(* counters of the instrumented leaves and the hook snapshot are compared  *)
(* with it.  `verdict` names the property whose predicate failed on the    *)
(* observed data ("C18:..", "C19:..", "C20:..") or "NC:.." when the model   *)
(* cannot explain the step without a property predicate failing.  Exact    *)
(* agreement of bookkeeping that no property speaks about is only counted  *)
(* (nonconf).  Events: reset, tick, vanish, op (a completed request),      *)
(* iostart / ioend (READ, WRITE, SETATTR or OPEN held in flight), blocked  *)
(* (a request that waits for the in-flight OPEN of its open-owner; when it *)
(* completes it is an ordinary op), hang (such a request never woke up),   *)
(* lockheld (the server lock was left held by a request that returned;     *)
(* property C14), panic, final.                                            *)
(***************************************************************************)
EXTENDS NFS40, Json, TLCExt

TraceLog == ndJsonDeserialize("trace.ndjson")

CONSTANT StrictReplayFh  \* TRUE: a GETFH after a replayed OPEN must see the opened file

VARIABLES l,        \* next line of TraceLog
          verdict,  \* "ok" or "<property>:<reason>" for the last consumed line
          nonconf,  \* lines whose bookkeeping differs from the model (not a property)
          obs,      \* the previous observation [leaf, hook]
          seen      \* reduced reply -> hash of its XDR encoding

tvars == <<s, last, l, verdict, nonconf, obs, seen>>

Line == TraceLog[l]
IsEvent(e) == l <= Len(TraceLog) /\ Line.ev = e /\ l' = l + 1
Range(q) == {q[i] : i \in 1 .. Len(q)}

NoObs == [leaf |-> << >>, hook |-> [oofs |-> << >>, lofs |-> << >>, pool |-> << >>, oos |-> << >>, los |-> << >>]]

\* A logged request, together with the choice among the outcomes that the
\* properties leave open (see Blank in NFS40.tla).
Rq(r, lax, rej) ==
  [op |-> r.op, fh |-> r.fh, cid |-> r.cid, verf |-> r.verf, cl |-> r.cl, cv |-> r.cv, ok |-> r.ok, lk |-> r.lk,
   seq |-> r.seq, lseq |-> r.lseq, sk |-> r.sk, st |-> r.st, sq |-> r.sq, share |-> r.share, deny |-> r.deny,
   how |-> r.how, claim |-> r.claim, name |-> r.name, name2 |-> r.name2, lt |-> r.lt,
   s |-> r.s, e |-> r.e, lenk |-> r.lenk, newlo |-> r.newlo, gate |-> r.gate, lax |-> lax, rej |-> rej,
   twin |-> FALSE]

\* A range that is the last byte alone may be refused with any error.
RejOf(r, rep) == IF LastByteOnly(r) /\ rep.st \notin {"OK", "DENIED", "NONE"} THEN rep.st ELSE ""

-----------------------------------------------------------------------------
(* Replies.                                                                *)

Proj(r) == [pre |-> r.pre, st |-> r.st, t |-> r.t, q |-> r.q, conf |-> r.conf,
            cid |-> r.cid, verf |-> r.verf, fh |-> r.fh]
Key(ln) == LET r == ln.rep IN
           [op |-> ln.req.op, pre |-> r.pre, st |-> r.st, t |-> r.t, q |-> r.q, conf |-> r.conf,
            cid |-> r.cid, verf |-> r.verf, fh |-> r.fh, den |-> r.den]

SidErrors == {"BAD_STATEID", "OLD_STATEID", "STALE_STATEID", "OPENMODE", "NOFILEHANDLE"}

OkCached(sp) == {x \in CachedReps(sp, 0) : x.st = "OK"}

\* Which clause of which property a differing reply contradicts.
\* sp = state before the request, m = model reply, r = real reply.
ForeignLockOwner(sp, req) ==
  LET e == Expire(sp) IN
  /\ req.op = "LOCK" /\ req.newlo /\ req.sk = "reg" /\ req.st \in DOMAIN e.oofs
  /\ req.cid # e.oofs[req.st].c

\* The previous observation shows lock state of the request's lock-owner on the
\* request's file that the model does not have.
StrayLockState(sp, req) ==
  \E x \in Range(obs.hook.lofs) :
    /\ x.cid = req.cid /\ x.lk = req.lk /\ x.f = req.fh
    /\ ~\E y \in DOMAIN sp.lofs : sp.lofs[y].c = x.cid /\ sp.lofs[y].lk = x.lk /\ sp.oofs[sp.lofs[y].ot].f = x.f

Classify(sp, req, m, ctx, r) ==
  IF r = m THEN "ok"
  ELSE IF r.pre # m.pre THEN
         IF m.pre = "OK" /\ req.fh \in DOMAIN sp.held THEN "C18:open-file-not-reachable-by-handle"
         ELSE "NC:file-handle-resolution-differs"
  ELSE IF ForeignLockOwner(sp, req) /\ r.st = "OK" THEN "C18:open-state-id-honoured-for-a-lock-owner-of-another-client"
  ELSE IF ctx = "replay" THEN "C19:retransmission-got-different-reply"
  ELSE IF ctx = "laxretry" THEN
         \* neither the cached reply nor BAD_SEQID (both were tried)
         IF r.st = "OK" THEN "C19:request-with-the-seqid-of-the-cached-reply-executed-again"
         ELSE "NC:status-of-retry-with-other-arguments"
  ELSE IF ctx = "falseretry" THEN
         IF r.st = "OK" \/ r \in CachedReps(sp, 0) THEN "C19:differing-request-answered-from-replay-cache"
         ELSE "NC:status-of-false-retry"
  ELSE IF ctx = "misordered" THEN
         IF r.st = "OK" \/ r \in OkCached(sp) THEN "C19:misordered-seqid-accepted"
         ELSE "NC:status-of-misordered-request"
  ELSE IF ctx = "new" /\ r \in OkCached(sp) THEN "C19:new-request-answered-from-replay-cache"
  \* the first LOCK of a lock-owner on a file, in order, nothing conflicting (the
  \* model grants it), refused because the server has lock state for (lock-owner,
  \* file) that no granted LOCK created
  ELSE IF ctx = "new" /\ r.st = "BAD_SEQID" /\ req.op = "LOCK" /\ req.newlo /\ m.st = "OK" /\ StrayLockState(sp, req)
       THEN "C20:lock-refused-although-nothing-conflicts"
  ELSE IF ctx = "new" /\ r.st = "BAD_SEQID" THEN "C19:in-order-seqid-rejected"
  ELSE IF m.st \in SidErrors /\ r.st = "OK" THEN "C18:state-id-honoured-wrongly"
  ELSE IF req.op \in {"LOCK", "LOCKT"} /\ m.st = "DENIED" /\ r.st = "OK" THEN "C20:conflicting-lock-granted"
  ELSE IF req.op \in {"LOCK", "LOCKT"} /\ m.st = "OK" /\ r.st = "DENIED" THEN "C20:lock-denied-without-conflict"
  ELSE IF req.op = "RELEASE_LOCKOWNER" /\ m.st = "LOCKS_HELD" /\ r.st = "OK" THEN "C20:release-lockowner-with-locks-held"
  ELSE IF req.op = "RELEASE_LOCKOWNER" /\ m.st = "OK" /\ r.st = "LOCKS_HELD" THEN "C20:locks-held-without-locks"
  ELSE IF req.op \in {"LOCK", "LOCKT", "LOCKU"} /\ m.st = "INVAL" /\ r.st = "OK" THEN "C20:invalid-range-accepted"
  ELSE IF req.op \in {"LOCK", "LOCKT", "LOCKU"} /\ m.st = "OK" /\ r.st = "INVAL" THEN "C20:valid-range-rejected"
  ELSE "NC:reply-differs"

\* A denied reply must report a lock that really conflicts: another owner,
\* holding every byte of the reported range with the reported type, the
\* range overlapping the request, one of the two exclusive.
DeniedOK(sp, req, d) ==
  LET e == Expire(sp)
      o == <<d.cid, d.lk>>
      has(b) == o \in DOMAIN e.held[req.fh][b] /\ e.held[req.fh][b][o] = d.lt
  IN /\ req.fh \in DOMAIN e.held
     /\ d.lt \in {"R", "W"} /\ 0 <= d.s /\ d.s < d.e /\ d.e <= NB + 1
     \* (d.e = NB + 1: reported "through end of file"; a server that keeps
     \* exclusive end offsets reports a lock that ends just before the last
     \* byte that way too, so the last byte itself is not insisted on)
     /\ \A b \in d.s .. (d.e - 1) : b = NB \/ has(b)
     /\ \E b \in d.s .. (d.e - 1) : req.s <= b /\ b < RangeEnd(req) /\ has(b)
     /\ (d.lt = "W" \/ TableType(req.lt) = "W")

\* The requester of a LOCK is the owner of the state id, not (cid, lk).
Requester(sp, req) ==
  IF req.op = "LOCKT" \/ req.newlo THEN <<req.cid, req.lk>>
  ELSE IF req.st \in DOMAIN sp.lofs THEN <<sp.lofs[req.st].c, sp.lofs[req.st].lk>> ELSE <<0, "">>

\* (Only for a request that was evaluated now: a retransmission gets the
\* reply of the first execution, whose conflicting lock may be gone since.)
DeniedCheck(sp, req, ctx, r) ==
  IF r.st = "DENIED" /\ req.op \in {"LOCK", "LOCKT"} /\ ctx \notin {"replay", "laxretry"}
     /\ ~(DeniedOK(sp, req, r.den) /\ <<r.den.cid, r.den.lk>> # Requester(Expire(sp), req))
  THEN "C20:denied-reports-nonconflicting-lock" ELSE "ok"

-----------------------------------------------------------------------------
(* Leaves: C18_Balance on the observed open/close counters.                *)

NotExpirable(st, c) ==
  c \in DOMAIN st.conf /\ (st.conf[c].hold > 0 \/ st.conf[c].seen + Lease >= Max(st.now, st.clock))

\* Opens that a state id or in-flight I/O entitles to for sure: the client's
\* lease cannot have expired and the open-owner is confirmed.
EntitledForSure(st, f, b) ==
  Card({t \in DOMAIN st.oofs :
          /\ st.oofs[t].f = f /\ HasBit(st.oofs[t], b) /\ NotExpirable(st, st.oofs[t].c)
          /\ (st.oofs[t].st = "gone" \/ st.oo[<<st.oofs[t].c, st.oofs[t].ok>>].confirmed)})
  + Card({i \in DOMAIN st.io : st.io[i].kind = "anon" /\ st.io[i].f = f /\ b \in st.io[i].bits})

Diff(lf, b) == IF b = "R" THEN lf[1] - lf[2] ELSE lf[3] - lf[4]

LeafVerdict(st, leaf) ==
  LET F == 1 .. Len(leaf) IN
  IF \E f \in F : \E b \in {"R", "W"} : Diff(leaf[f], b) < 0
    THEN "C18:leaf-closed-more-often-than-opened"
  ELSE IF \E f \in F \cap DOMAIN st.leaf : \E b \in {"R", "W"} : EntitledForSure(st, f, b) > 0 /\ Diff(leaf[f], b) = 0
    THEN "C18:leaf-closed-while-state-id-entitles-to-access"
  ELSE IF \E f \in F \cap DOMAIN st.leaf : \E b \in {"R", "W"} : Entitled(st, f, b) = 0 /\ Diff(leaf[f], b) > 0
    THEN "C18:leaf-left-open-without-entitlement"
  ELSE "ok"

LeafExact(st, leaf) ==
  /\ Len(leaf) = st.nfile
  /\ \A f \in 1 .. Len(leaf) : \A b \in {"R", "W"} : f \in DOMAIN st.leaf /\ Diff(leaf[f], b) = st.leaf[f][b]

-----------------------------------------------------------------------------
(* Hook snapshot.                                                          *)

HookLocks(h) == UNION {{[f |-> p.f, s |-> x.s, e |-> x.e, lt |-> x.lt, cid |-> x.cid, lk |-> x.lk, ptr |-> x.ptr]
                          : x \in Range(p.locks)} : p \in Range(h.pool)}

RECURSIVE SumField(_)
SumField(S) == IF S = {} THEN 0 ELSE LET x == CHOOSE y \in S : TRUE IN x.lc + SumField(S \ {x})

TableOf(L, f) ==
  [b \in Bytes |->
     LET C == {e \in L : e.f = f /\ e.s <= b /\ b < e.e}
         O == {<<e.cid, e.lk>> : e \in C}
     IN [o \in O |-> (CHOOSE e \in C : <<e.cid, e.lk>> = o).lt]]

\* NFS level of C20 on the observed lock tables and lock counts.
HookC20(st, h) ==
  LET L == HookLocks(h)
      lofs == Range(h.lofs)
  IN
  IF \E a, b \in L : (a.cid = b.cid /\ a.lk = b.lk) # (a.ptr = b.ptr)
    THEN "C20:protocol-lock-owner-is-not-one-table-owner"
  ELSE IF \E x \in lofs : x.lc < 0 THEN "C20:negative-lock-count"
  ELSE IF \E x \in lofs :
            LET same == {y \in lofs : y.cid = x.cid /\ y.lk = x.lk /\ y.f = x.f}
                tot  == SumField(same)
            IN tot # Card({e \in L : e.f = x.f /\ e.cid = x.cid /\ e.lk = x.lk})
    THEN "C20:lock-count-differs-from-table-entries"
  ELSE IF \E e \in L : ~\E x \in lofs : x.cid = e.cid /\ x.lk = e.lk /\ x.f = e.f
    THEN "C20:table-entry-without-lock-owner-state"
  \* Lock state exists for (lock-owner, file) only from a granted LOCK on: a
  \* failed first LOCK issued no lock state id, so state left behind for it can
  \* be named by nobody and stands in the way of the owner's next attempt.
  ELSE IF \E x \in lofs : x.lc = 0 /\ ~\E y \in DOMAIN st.lofs :
            st.lofs[y].c = x.cid /\ st.lofs[y].lk = x.lk /\ st.oofs[st.lofs[y].ot].f = x.f
    THEN "C20:lock-state-left-behind-by-a-failed-initial-lock"
  \* (the last byte is not compared: a table with exclusive end offsets
  \* cannot tell "up to the last byte" from "through the last byte"; what
  \* happens to that byte is judged by the replies)
  ELSE IF \E p \in Range(h.pool) : p.f \in DOMAIN st.held
            /\ \E b \in 0 .. (NB - 1) : TableOf(L, p.f)[b] # st.held[p.f][b]
    THEN "C20:lock-table-differs-from-reference"
  ELSE "ok"

\* The model's bookkeeping in the shape of the hook snapshot.
ModelConfs(st) == {[t |-> c, cl |-> st.conf[c].cl, cv |-> st.conf[c].cv, confirmed |-> st.conf[c].confirmed,
                    hold |-> st.conf[c].hold, idle |-> st.conf[c].hold = 0] : c \in DOMAIN st.conf}
ModelOos(st) == {[cid |-> k[1], ok |-> k[2], confirmed |-> st.oo[k].confirmed, lastseq |-> st.oo[k].lastseq,
                  hasresp |-> st.oo[k].resp.op # "none",
                  closedresp |-> st.oo[k].resp.op # "none" /\ st.oo[k].resp.closed # 0,
                  files |-> Card(OofsOf(st, k)), unused |-> st.oo[k].unused >= 0, intxn |-> OpenOwnerBusy(st, k)]
                   : k \in DOMAIN st.oo}
ModelOofs(st) == {[t |-> t, q |-> st.oofs[t].q, cid |-> st.oofs[t].c, ok |-> st.oofs[t].ok, f |-> st.oofs[t].f,
                   share |-> ShareWire(st.oofs[t].share), r |-> st.oofs[t].r, w |-> st.oofs[t].w]
                    : t \in {x \in DOMAIN st.oofs : st.oofs[x].st # "gone"}}
ModelLos(st) == {[cid |-> k[1], lk |-> k[2], lastseq |-> st.lo[k].lastseq, hasresp |-> st.lo[k].resp.op # "none",
                  files |-> Card(LofsOf(st, k[1], k[2]))] : k \in DOMAIN st.lo}
ModelLofs(st) == {[t |-> t, q |-> st.lofs[t].q, cid |-> st.lofs[t].c, lk |-> st.lofs[t].lk, ot |-> st.lofs[t].ot,
                   f |-> st.oofs[st.lofs[t].ot].f, share |-> ShareWire(st.lofs[t].share), lc |-> st.lofs[t].lc]
                    : t \in DOMAIN st.lofs}
ModelPool(st) == {[f |-> f, use |-> UseCount(st, f)] : f \in DOMAIN st.held}

HookExact(st, h) ==
  /\ Range(h.confs) = ModelConfs(st)
  /\ Range(h.oos) = ModelOos(st)
  /\ Range(h.oofs) = ModelOofs(st)
  /\ Range(h.los) = ModelLos(st)
  /\ Range(h.lofs) = ModelLofs(st)
  /\ {[f |-> p.f, use |-> p.use] : p \in Range(h.pool)} = ModelPool(st)
  /\ h.nidle = Card({c \in DOMAIN st.conf : st.conf[c].hold = 0})
  /\ h.nbykey = Card(DOMAIN st.conf) /\ h.nbyshort = Card(DOMAIN st.conf)
  /\ h.nbyother = Card(ModelOofs(st)) /\ h.nlbyother = Card(DOMAIN st.lofs)
  /\ h.nunused = Card({k \in DOMAIN st.oo : st.oo[k].unused >= 0})

HookEmpty(h) ==
  /\ h.nclients = 0 /\ h.nidle = 0 /\ h.nunused = 0 /\ h.nbyother = 0 /\ h.nlbyother = 0
  /\ h.nbykey = 0 /\ h.nbyshort = 0
  /\ h.confs = << >> /\ h.oos = << >> /\ h.oofs = << >> /\ h.los = << >> /\ h.lofs = << >> /\ h.pool = << >>

\* Client visible part of a snapshot, for "no side effects" checks.
HookVisible(h) == [oofs |-> {x \in Range(h.oofs) : x.share # 0}, lofs |-> Range(h.lofs), locks |-> HookLocks(h)]

-----------------------------------------------------------------------------
(* One lock-owner with two lock states on one file (through two open-owners *)
(* of its client): the server refuses to create the second one (BAD_SEQID,  *)
(* the existing lock state id has to be used).  For a server that creates   *)
(* it (field twin of the request, chosen from the reply), which of the      *)
(* owner's bytes belong to which of the two lock state ids is not defined   *)
(* once ranges merge, so the model cannot prescribe what CLOSE or lease     *)
(* expiry of one of them releases (a server that counts locks per lock      *)
(* state panics there, see TestFindings).  From the moment it arises until  *)
(* the end of the history only the clauses that any correct server          *)
(* satisfies are judged: no panic, no leaf closed more often than opened,   *)
(* nothing retained after all leases expired.                               *)

Ambiguous(st) ==
  \E x, y \in DOMAIN st.lofs :
    /\ x # y /\ st.lofs[x].c = st.lofs[y].c /\ st.lofs[x].lk = st.lofs[y].lk
    /\ st.oofs[st.lofs[x].ot].f = st.oofs[st.lofs[y].ot].f

Amb == last.kind = "ambiguous"
MarkAmb(st) == last' = IF Amb \/ Ambiguous(st) THEN [last EXCEPT !.kind = "ambiguous"] ELSE last
LeafNeg(leaf) == IF \E f \in 1 .. Len(leaf) : \E b \in {"R", "W"} : Diff(leaf[f], b) < 0
                 THEN "C18:leaf-closed-more-often-than-opened" ELSE "ok"

-----------------------------------------------------------------------------
(* Combined verdict of one observed step.                                  *)

First(vs) == IF \E i \in 1 .. Len(vs) : vs[i] # "ok"
             THEN vs[CHOOSE i \in 1 .. Len(vs) : vs[i] # "ok" /\ \A j \in 1 .. (i - 1) : vs[j] = "ok"]
             ELSE "ok"

\* A request that was rejected because of its seqid, or answered from the
\* replay cache, must not change anything the client can see (when the
\* model says that no lease expired during the request).
\* The exactly-once machinery itself: sequence numbers and presence of a
\* cached reply per owner, as observed / as the model has them.
OwnerProj(h) ==
  [oos |-> {[cid |-> x.cid, ok |-> x.ok, lastseq |-> x.lastseq, hasresp |-> x.hasresp, confirmed |-> x.confirmed] : x \in Range(h.oos)},
   los |-> {[cid |-> x.cid, lk |-> x.lk, lastseq |-> x.lastseq, hasresp |-> x.hasresp] : x \in Range(h.los)}]
ModelOwnerProj(st) ==
  [oos |-> {[cid |-> x.cid, ok |-> x.ok, lastseq |-> x.lastseq, hasresp |-> x.hasresp, confirmed |-> x.confirmed] : x \in ModelOos(st)},
   los |-> {[cid |-> x.cid, lk |-> x.lk, lastseq |-> x.lastseq, hasresp |-> x.hasresp] : x \in ModelLos(st)}]

EffectsVerdict(sp, sn, ctx, same, ln) ==
  IF /\ ctx \in {"replay", "falseretry", "misordered", "laxretry"} /\ same
     /\ Visible(Expire(sp)) = Visible(sp) /\ DOMAIN Expire(sp).conf = DOMAIN sp.conf
  THEN IF ln.leaf # obs.leaf \/ HookVisible(ln.hook) # HookVisible(obs.hook)
       THEN "C19:rejected-or-replayed-request-had-effects"
       \* ... nor may it advance a sequence number or drop / replace a cached
       \* reply (when the model says that the request leaves them alone)
       ELSE IF ModelOwnerProj(sn) = ModelOwnerProj(sp) /\ OwnerProj(ln.hook) # OwnerProj(obs.hook)
       THEN "C19:rejected-or-replayed-request-changed-seqid-or-cached-reply"
       ELSE "ok"
  ELSE "ok"

HashVerdict(ctx, ln) ==
  IF ctx = "replay" /\ Key(ln) \in DOMAIN seen /\ seen[Key(ln)] # ln.rep.h
  THEN "C19:retransmission-reply-not-byte-equal"
  ELSE IF ctx = "replay" /\ Key(ln) \notin DOMAIN seen THEN "C19:retransmission-got-different-reply"
  ELSE "ok"

\* An OPEN that was in flight and the requests that waited for it complete
\* concurrently; the driver observes the server once, when all of them are
\* through, and logs them as a group: grp = number of events of the group
\* that still follow, grpn = size of the group (0: no group).  Replies are
\* judged event by event, the observation at the last event of the group
\* (the "no effects" comparison with the previous observation is not made
\* inside a group).
Grp(ln)  == IF "grp" \in DOMAIN ln THEN ln.grp ELSE 0
Grpn(ln) == IF "grpn" \in DOMAIN ln THEN ln.grpn ELSE 0

Observe(st, ln) ==
  IF Grp(ln) > 0 THEN UNCHANGED <<obs, nonconf>>
  ELSE /\ obs' = [leaf |-> ln.leaf, hook |-> ln.hook]
       /\ nonconf' = IF Amb \/ (LeafExact(st, ln.leaf) /\ HookExact(st, ln.hook)) THEN nonconf ELSE nonconf + 1

Remember(ln) == seen' = IF ln.rep.h # "" THEN Put(seen, Key(ln), ln.rep.h) ELSE seen

-----------------------------------------------------------------------------
TInit == /\ s = InitState(Names) /\ last = NoStep /\ l = 1 /\ verdict = "ok" /\ nonconf = 0
         /\ obs = NoObs /\ seen = EmptyMap

TReset ==
  /\ IsEvent("reset")
  /\ s' = InitState(Names) /\ verdict' = IF Line.lease = Lease /\ Line.nb = NB THEN "ok" ELSE "NC:constants-differ"
  /\ obs' = NoObs /\ seen' = EmptyMap /\ last' = NoStep
  /\ UNCHANGED nonconf

TTick ==
  /\ IsEvent("tick")
  /\ s' = Tick(s, Line.d) /\ verdict' = "ok"
  /\ UNCHANGED <<last, nonconf, obs, seen>>

TVanish ==
  /\ IsEvent("vanish")
  /\ verdict' = "ok"
  /\ UNCHANGED <<s, last, nonconf, obs, seen>>

\* The model's outcome of a completed request.  Where the properties leave
\* the outcome open, the alternative that the real reply selects is followed:
\* a request with the seqid and type of the cached reply but other arguments
\* (cached reply or BAD_SEQID), a range that is the last byte alone (refused
\* with whatever error the server gave, or treated like any other range).
Outcome(st, r0, rep) ==
  LET rej == RejOf(r0, rep)
      \* a second lock state for a lock-owner on a file (through another open-owner)
      \* is refused with BAD_SEQID; a server that creates it instead is followed
      tw  == r0.op = "LOCK" /\ r0.newlo /\ rep.st = "OK"
      oc  == Do(st, [Rq(r0, "cache", rej) EXCEPT !.twin = tw])
      orj == Do(st, [Rq(r0, "reject", rej) EXCEPT !.twin = tw])
  IN IF oc.ctx = "laxretry" /\ Proj(rep) # oc.rep /\ Proj(rep) = orj.rep THEN orj ELSE oc

TOp ==
  /\ IsEvent("op")
  /\ LET req == Rq(Line.req, "cache", "")
         blk == Blocked(s, req)
         o   == IF blk THEN Res(s, BlankRep, "none") ELSE Outcome(s, Line.req, Line.rep)
         \* A replayed OPEN leaves the current file handle of the COMPOUND
         \* alone in the real server (a following GETFH does not see the
         \* opened file).  The OPEN result itself is what C19 speaks about,
         \* so unless StrictReplayFh is set this is tolerated.
         lax == o.ctx \in {"replay", "laxretry"} /\ req.op = "OPEN" /\ ~StrictReplayFh
         ln  == IF lax THEN [Line EXCEPT !.rep.fh = o.rep.fh] ELSE Line
         r   == Proj(ln.rep)
         v1  == Classify(s, req, o.rep, o.ctx, r)
     IN /\ s' = o.s
        /\ verdict' = IF Amb THEN LeafNeg(Line.leaf)
                       \* the open-owner has an OPEN in flight: the request has to wait for it
                       ELSE IF blk THEN
                              IF DupOfInFlight(s, req)
                              THEN "C19:retransmission-of-in-flight-request-not-answered-with-its-result"
                              ELSE "NC:request-completed-while-its-open-owner-has-a-request-in-flight"
                       ELSE First(<<v1, HashVerdict(o.ctx, ln), DeniedCheck(s, req, o.ctx, Line.rep),
                                    IF Grpn(Line) > 0 THEN "ok" ELSE EffectsVerdict(s, o.s, o.ctx, v1 = "ok", Line),
                                    IF Grp(Line) > 0 THEN "ok" ELSE LeafVerdict(o.s, Line.leaf),
                                    IF Grp(Line) > 0 THEN "ok" ELSE HookC20(o.s, Line.hook)>>)
        /\ Observe(o.s, Line) /\ Remember(Line)
        /\ MarkAmb(o.s)

\* A request that is in flight: READ/WRITE/SETATTR held inside the leaf, or
\* an OPEN held while it opens the file (its open-owner transaction has
\* started).
TIOStart ==
  /\ IsEvent("iostart")
  /\ LET req == Rq(Line.req, "cache", "")
         a   == IF req.fh > 0 /\ ~(req.fh \in DOMAIN s.leaf /\ Resolves(s, req.fh))
                THEN [s |-> s, rep |-> PreErr("STALE"), io |-> [kind |-> "fail"]]
                ELSE IF req.op = "OPEN" THEN (IF Blocked(s, req) THEN [s |-> s, rep |-> BlankRep, io |-> [kind |-> "fail"]]
                                              ELSE OpenStart(s, req))
                ELSE IOStart(s, req)
         ok  == req.op \in {"READ", "WRITE", "SETATTR", "OPEN"} /\ a.io.kind # "fail"
         s1  == IF ok THEN [a.s EXCEPT !.io = Put(@, Line.id, a.io)] ELSE s
     IN /\ s' = s1
        /\ verdict' = IF Amb THEN LeafNeg(Line.leaf)
                       ELSE First(<<IF ok THEN
                                       \* (an OPEN that re-initialises an unconfirmed open-owner with open
                                       \* files closes them only when it returns; the drivers never hold one)
                                       IF req.op = "OPEN" /\ a.s.leaf # Expire(s).leaf
                                       THEN "NC:in-flight-open-reinitialises-its-open-owner" ELSE "ok"
                                    ELSE IF req.op \in {"READ", "WRITE", "SETATTR"} /\ a.rep.st \in SidErrors
                                         THEN "C18:state-id-honoured-wrongly"
                                    ELSE "NC:request-in-flight-that-the-model-rejects",
                                    LeafVerdict(s1, Line.leaf), HookC20(s1, Line.hook)>>)
        /\ Observe(s1, Line)
  /\ UNCHANGED <<last, seen>>

TIOEnd ==
  /\ IsEvent("ioend")
  /\ LET known == Line.id \in DOMAIN s.io
         isopen == known /\ s.io[Line.id].kind = "open"
         oe == IF isopen THEN OpenEnd(s, s.io[Line.id]) ELSE [s |-> s, rep |-> OkRep]
         s1 == IF isopen THEN [oe.s EXCEPT !.io = Del(@, {Line.id})]
               ELSE IF known THEN [IOEnd(s, s.io[Line.id]) EXCEPT !.io = Del(@, {Line.id})] ELSE s
         r  == Proj(Line.rep)
         \* a SETATTR without state id that was held inside a leaf which lost
         \* its last reference meanwhile fails (see harness/nfs40/fixture_test.go)
         m  == IF isopen THEN oe.rep
               ELSE IF known /\ s.io[Line.id].kind = "plain" /\ s.io[Line.id].f > 0 /\ ~LeafAlive(s, s.io[Line.id].f)
               THEN Err("STALE") ELSE OkRep
     IN /\ s' = s1
        /\ verdict' = IF Amb THEN LeafNeg(Line.leaf)
                       ELSE First(<<IF ~known THEN "NC:completion-of-unknown-request"
                                    ELSE IF isopen THEN Classify(s, s.io[Line.id].req, m, "new", r)
                                    ELSE IF r # m THEN "NC:reply-differs" ELSE "ok",
                                    IF Grp(Line) > 0 THEN "ok" ELSE LeafVerdict(s1, Line.leaf),
                                    IF Grp(Line) > 0 THEN "ok" ELSE HookC20(s1, Line.hook)>>)
        /\ Observe(s1, Line) /\ Remember(Line)
        /\ IF isopen THEN MarkAmb(s1) ELSE UNCHANGED last

\* A request that waits for the OPEN that its open-owner has in flight: it
\* has done nothing yet except entering the server (which expires leases).
TBlocked ==
  /\ IsEvent("blocked")
  /\ LET req == Rq(Line.req, "cache", "")
         s1  == Expire(s)
     IN /\ s' = s1
        /\ verdict' = IF Amb THEN LeafNeg(Line.leaf)
                       ELSE First(<<IF Blocked(s, req) THEN "ok" ELSE "NC:request-waits-that-the-model-completes",
                                    IF Visible(s1) = Visible(s) /\ DOMAIN s1.conf = DOMAIN s.conf
                                       /\ ModelOwnerProj(s1) = ModelOwnerProj(s)
                                       /\ (Line.leaf # obs.leaf \/ HookVisible(Line.hook) # HookVisible(obs.hook)
                                            \/ OwnerProj(Line.hook) # OwnerProj(obs.hook))
                                    THEN "C19:request-waiting-for-an-in-flight-request-had-effects" ELSE "ok",
                                    LeafVerdict(s1, Line.leaf), HookC20(s1, Line.hook)>>)
        /\ Observe(s1, Line)
  /\ UNCHANGED <<last, seen>>

\* A request that waited for an in-flight OPEN and is still parked although
\* that OPEN has completed.
THang ==
  /\ IsEvent("hang")
  /\ LET req == Rq(Line.req, "cache", "")
         k   == <<req.cid, req.ok>>
         \* the OPEN it waited for has completed and is the open-owner's cached request
         dup == req.op = "OPEN" /\ k \in DOMAIN s.oo /\ s.oo[k].resp.op # "none" /\ SameReq(s.oo[k].resp.req, req)
     IN verdict' = IF dup THEN "C19:retransmission-of-in-flight-request-never-completes"
                   ELSE "NC:request-waiting-for-a-completed-request-never-completes"
  /\ UNCHANGED <<s, last, nonconf, obs, seen>>

\* End of a history: every lease has expired and one more request ran.
TFinal ==
  /\ IsEvent("final")
  /\ verdict' = First(<<IF ~HookEmpty(Line.hook) THEN "C18:state-retained-after-all-leases-expired" ELSE "ok",
                        IF \E f \in 1 .. Len(Line.leaf) : \E b \in {"R", "W"} : Diff(Line.leaf[f], b) # 0
                        THEN "C18:leaf-opens-and-closes-differ-after-all-leases-expired" ELSE "ok",
                        IF ~Amb /\ ~Empty(s) THEN "NC:model-retains-state-at-the-end" ELSE "ok">>)
  /\ UNCHANGED <<s, last, nonconf, obs, seen>>

\* The real code panicked.
TPanic ==
  /\ IsEvent("panic")
  /\ verdict' = IF Line.pk = "lock" THEN "C20:server-panic-in-lock-accounting"
                ELSE "C18:server-panic-in-state-accounting"
  /\ UNCHANGED <<s, last, nonconf, obs, seen>>

\* The program lock of the server could not be acquired although no request
\* was executing inside the server (every request sent had returned, was held
\* inside a leaf, where the lock is not held, or was waiting for its
\* open-owner's transaction, for which it leaves the server): a request has
\* returned without releasing it.  The driver ends the history there.
TLockHeld ==
  /\ IsEvent("lockheld")
  /\ verdict' = "C14:server-lock-left-held-after-a-request-returned"
  /\ UNCHANGED <<s, last, nonconf, obs, seen>>

TNext == TReset \/ TTick \/ TVanish \/ TOp \/ TIOStart \/ TIOEnd \/ TBlocked \/ THang \/ TFinal \/ TPanic \/ TLockHeld

TraceSpec == TInit /\ [][TNext]_tvars

-----------------------------------------------------------------------------
VerdictOK == verdict = "ok"

Accepted ==
  /\ TLCGet("stats").diameter - 1 = Len(TraceLog)
  /\ PrintT(<<"TRACE_ACCEPTED", Len(TraceLog)>>)

NonconfReport == (l <= Len(TraceLog)) \/ PrintT(<<"NONCONF", nonconf>>)
=============================================================================
