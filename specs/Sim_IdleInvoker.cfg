SPECIFICATION SimSpec
CONSTANTS
  Threads = {"t1", "t2", "t3"}
  WithDirs = FALSE
  MaxCtr = 0
  K = 24
INVARIANTS
  Dump
  C12_Mutex
  C12_UseCount
CHECK_DEADLOCK FALSE
