package sched

import (
	"bufio"
	"encoding/json"
	"fmt"
	"math/rand"
	"os"
	"path/filepath"
	"sort"
	"testing"
	"testing/synctest"

	"verif/harness/common"
)

// designStep is one labelled action of a behaviour of specs/Sched.tla
// (written by specs/SchedSim.tla under tlc -simulate).
type designStep struct {
	A   string `json:"a"`
	X   string `json:"x"`
	Y   string `json:"y"`
	Z   string `json:"z"`
	K   int    `json:"k"`
	Abs struct {
		Stages  []string `json:"stages"`
		Workers []string `json:"workers"`
		Alive   []bool   `json:"alive"`
	} `json:"abs"`
}

func readBehaviour(path string) []designStep {
	f, err := os.Open(path)
	if err != nil {
		panic(err)
	}
	defer f.Close()
	var out []designStep
	sc := bufio.NewScanner(f)
	sc.Buffer(make([]byte, 1<<20), 1<<20)
	for sc.Scan() {
		var s designStep
		if err := json.Unmarshal(sc.Bytes(), &s); err != nil {
			panic(err)
		}
		out = append(out, s)
	}
	return out
}

// TestReplayDesign: spec -> code. Behaviours of the design model are
// stepped through the real build queue: every design action is one
// release of the corresponding gated call (or the environment step that
// enables it). The usual trace is recorded (and judged by SchedTrace.tla);
// after each action the abstract state the design expects is logged too.
func TestReplayDesign(t *testing.T) {
	dir := common.Env("VERIF_BEH", "")
	files, _ := filepath.Glob(filepath.Join(dir, "beh_*.ndjson"))
	sort.Strings(files)
	tr := common.NewTrace("trace.ndjson")
	defer tr.Close()
	stallWatchdog(tr)
	for idx, file := range files {
		steps := readBehaviour(file)
		synctest.Test(t, func(t *testing.T) {
			tr.Emit(common.Ev{"ev": "reset", "trace": 9000 + idx, "flavour": 5, "behaviour": filepath.Base(file)})
			cfg := Config{UpdateInterval: 7, NoWaiterTimeout: 100000, QueueTimeout: 100000, BusySyncInterval: 5, IdleSyncInterval: 13, RetryCount: 1, WorkerTimeout: 100000}
			w := NewWorld(tr, cfg, &fixedScript{})
			sc := &scenario{w: w, rng: rand.New(rand.NewSource(int64(idx))), expireStep: 100001}
			c := w.cfg
			tr.Emit(common.Ev{"ev": "config", "update": int(c.ExecutionUpdateInterval / Unit), "no_waiter": int(c.OperationWithNoWaitersTimeout / Unit),
				"queue": int(c.PlatformQueueWithNoWorkersTimeout / Unit), "busy": int(c.BusyWorkerSynchronizationInterval / Unit),
				"idle": int(c.GetIdleWorkerSynchronizationInterval() / Unit), "retry": c.WorkerTaskRetryCount, "worker": int(c.WorkerWithNoSynchronizationsTimeout / Unit)})
			w.AddAction("d1", "p1", false)
			w.AddAction("d2", "p1", false)
			w.AddAction("d3", "p1", true)
			w.Predeclare("", "p1", nil, 0, 50, []uint32{0})
			workers := map[string]*WorkerDef{
				"w1": sc.worker("w1", "h1", "", "p1", 0),
				"w2": sc.worker("w2", "h2", "", "p1", 0),
			}
			clients := map[string]*Actor{}
			skipped := 0
			release := func(a *Actor) bool {
				if a != nil && w.stateOf(a) == "auth" {
					w.ReleaseAuth(a)
				}
				if a != nil && w.stateOf(a) == "gate" {
					w.Release(a)
					return true
				}
				return false
			}
			fireTimerOf := func(a *Actor) bool {
				for round := 0; round < 2; round++ {
					for _, tm := range w.DueTimers() {
						if tm.owner == a.name {
							w.Fire(tm)
							return true
						}
					}
					// not due yet: advance to the owner's timer
					adv := -1
					w.mu.Lock()
					for _, tm := range w.timers {
						if tm.owner == a.name && !tm.stopped && !tm.fired {
							adv = int(tm.due.Sub(w.now) / Unit)
						}
					}
					w.mu.Unlock()
					if adv < 0 {
						return false
					}
					if adv > 0 {
						w.Advance(adv)
					}
				}
				return false
			}
			for _, s := range steps {
				if w.Panicked() {
					break
				}
				done := true
				switch s.A {
				case "Execute":
					a := w.StartExecute(s.X, find(w, s.Y), "", []string{s.Z, "t"}, 0)
					clients[s.X] = a
					release(a)
				case "WaitExecution":
					a := w.StartWaitExecution(s.X, fmt.Sprintf("o%d", s.K))
					clients[s.X] = a
					release(a)
					release(a)
				case "StreamSend", "StreamSendFails":
					a := clients[s.X]
					if a != nil && w.stateOf(a) == "send" {
						if s.A == "StreamSend" {
							w.ReleaseSend(a, nil)
						} else {
							w.ReleaseSend(a, fmt.Errorf("connection reset"))
						}
					} else {
						done = false
					}
				case "ClientCancel":
					a := clients[s.X]
					if a != nil && !a.done && !a.cancelled {
						w.Cancel(a)
					} else {
						done = false
					}
				case "StreamWake":
					a := clients[s.X]
					if a == nil || a.done {
						done = false
					} else if !release(a) {
						if w.stateOf(a) == "running" && fireTimerOf(a) {
							done = release(a)
						} else {
							done = false
						}
					}
				case "StreamFin":
					done = release(clients[s.X])
				case "SyncEnter":
					d := workers[s.X]
					if d.call != nil {
						done = false
						break
					}
					args := SyncArgs{PreferIdle: s.Z == "prefer"}
					var cur *actionDef
					if d.Executing != "" {
						cur = find(w, d.Executing)
					}
					switch s.Y {
					case "idle":
						args.State = "idle"
					case "executing":
						if cur == nil {
							done = false
						}
						args.State, args.Digest = "executing", cur
					case "completed":
						if cur == nil {
							done = false
						}
						sc.tokenSeq++
						args.State, args.Digest, args.Token, args.Duration = "completed", cur, fmt.Sprintf("r%d", sc.tokenSeq), 1
						if s.K == 0 {
							args.Code = 13
						}
					case "wrong":
						other := find(w, "d2")
						args.State, args.Digest = "executing", other
					}
					if !done {
						break
					}
					a := w.StartSynchronize(d, args)
					release(a)
				case "SyncWake":
					d := workers[s.X]
					a := d.call
					if a == nil {
						done = false
					} else if s.Y == "timeout" {
						if w.stateOf(a) == "running" && fireTimerOf(a) {
							done = release(a)
						} else {
							done = release(a)
						}
					} else {
						done = release(a)
					}
				case "KillOperation":
					a := w.KillOperation(fmt.Sprintf("o%d", s.K), 8)
					release(a)
					release(a)
				case "AddDrain", "RemoveDrain":
					d := workers[s.X]
					a := w.Drain(s.A == "AddDrain", "", "p1", 0, map[string]string{"host": d.ID["host"]})
					release(a)
				case "TerminateWorker":
					d := workers[s.X]
					a := w.Terminate(map[string]string{"host": d.ID["host"]})
					release(a)
				default:
					done = false
				}
				if !done {
					skipped++
				}
				tr.Emit(common.Ev{"ev": "design", "a": s.A, "x": s.X, "y": s.Y, "k": s.K, "done": done,
					"stages": s.Abs.Stages, "workers": s.Abs.Workers, "alive": s.Abs.Alive})
			}
			sc.drain()
		})
	}
}
