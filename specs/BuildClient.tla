----------------------------- MODULE BuildClient -----------------------------
(***************************************************************************)
(* Model of pkg/builder/build_client.go (property C08): one worker thread  *)
(* that repeatedly calls BuildClient.Run(), the executor goroutine that    *)
(* startExecution() spawns, the bounded update channel between the two,    *)
(* and an adversarial scheduler / executor / clock / shutdown signal.      *)
(*                                                                         *)
(* Run() is followed line by line; every place where the worker thread    *)
(* can block or where another goroutine can interleave is an action:      *)
(*                                                                         *)
(*   RunEnter      shutdown check at the top of Run()                      *)
(*   ReadyOk/Fail  CheckReadiness (only while the scheduler cannot think   *)
(*                 that we are executing)                                  *)
(*   TimerFires / RecvUpdate   the select on timer and update channel      *)
(*   DrainOne / DrainDone      consumeExecutionUpdatesNonBlocking          *)
(*   Send          choose prefer_being_idle, issue Synchronize             *)
(*   SyncReply(r)  r in {execute d, idle, no change, RPC error, invalid    *)
(*                 timestamp, unknown desired state, invalid execute}      *)
(*   StopBegin / StopDrain / StopEnd   stopExecution: cancel, then read    *)
(*                 the channel until it is closed; then spawn or go idle   *)
(*   LoopCheck     LaunchWorkerThread: terminate iff mayTerminate and the  *)
(*                 context is cancelled                                    *)
(*   ExecEnter / ExecProgress / ExecObserveCancel / ExecFinish /           *)
(*   ExecSendCompleted / ExecClose     the goroutine around Execute()      *)
(*   Shutdown, Tick                    environment                         *)
(*                                                                         *)
(* Times are small integers; NoTime (-1) stands for a nil pointer.         *)
(***************************************************************************)
EXTENDS Integers, Sequences, FiniteSets

CONSTANTS Digests,    \* action digests the scheduler may hand out (strings)
          MaxUpd,     \* an executor sends at most this many progress updates
          MaxExecs,   \* at most this many executions are started
          MaxClock,   \* the clock runs from 0 to MaxClock
          Minute,     \* the grace period added by touchSchedulerMayThinkExecuting
          Deltas,     \* next_synchronization_at = clock + delta, delta \in Deltas
          Cap         \* capacity of the update channel

NoTime == -1

VARIABLES pc,        \* where the worker thread is
          cur,       \* request.CurrentState.WorkerState
          execs,     \* all executions ever spawned, in order
          ch,        \* contents of the update channel of the newest execution
          closed,    \* ... and whether it has been closed
          hasExec,   \* executionCancellation # nil
          cancelled, \* per execution: has its context been cancelled
          M,         \* schedulerMayThinkExecutingUntil (NoTime = nil)
          ns,        \* nextSynchronizationAt
          clock,
          shutdown,  \* the worker's context has been cancelled
          pending,   \* what stopExecution is followed by: "" | digest | "idle"
          retv,      \* return value of Run(): [may, err]
          req,       \* the SynchronizeRequest most recently sent
          reply,     \* the reply most recently received
          execAtReq, \* currentStateIsExecuting of the request in flight
          B,         \* observer: belief of the scheduler, computed from the
                     \* exchanged messages only (see BeliefAfter)
          needReady, \* observer: a non-OK completion was reported and no
                     \* readiness check passed since
          act        \* label of the last action (for exported behaviours)

vars == <<pc, cur, execs, ch, closed, hasExec, cancelled, M, ns, clock, shutdown,
          pending, retv, req, reply, execAtReq, B, needReady, act>>

-----------------------------------------------------------------------------
(* Values.  All records of one kind have the same fields.                  *)

IdleState            == [kind |-> "idle", d |-> "", phase |-> 0, rid |-> 0, ok |-> TRUE]
ExecutingState(d, p) == [kind |-> "executing", d |-> d, phase |-> p, rid |-> 0, ok |-> TRUE]
CompletedState(d, n, ok) == [kind |-> "completed", d |-> d, phase |-> 0, rid |-> n, ok |-> ok]

NewExec(d) == [d |-> d, st |-> "spawned", sent |-> 0, cancelSeen |-> FALSE, ok |-> TRUE]
\* st: "spawned"  goroutine created, Execute() not yet entered
\*     "running"  between entry of Execute() and its return
\*     "returned" Execute() returned, completion message not yet queued
\*     "sent"     completion queued, channel not yet closed
\*     "done"     channel closed, goroutine gone

Stopped(e) == e.st \in {"returned", "sent", "done"}

\* ("badexec", an execute request with an invalid instance name or digest
\* function, behaves exactly like "unknown" and is only used by the drivers.)
ReplyKinds == {"exec", "idle", "nochange", "err", "badts", "unknown", "badexec"}
Replies ==
  [kind : {"exec"}, d : Digests, delta : Deltas] \cup
  [kind : {"idle", "nochange", "unknown"}, d : {""}, delta : Deltas] \cup
  [kind : {"err", "badts"}, d : {""}, delta : {0}]

\* A reply whose timestamp is valid updates nextSynchronizationAt.
ValidTimestamp(k) == k \in {"exec", "idle", "nochange", "unknown", "badexec"}

Min(a, b) == IF a < b THEN a ELSE b

-----------------------------------------------------------------------------
(* Operators shared with the trace specification: they speak about          *)
(* observable data only.                                                    *)

\* What the scheduler may believe after one Synchronize exchange.
\*   b       belief before (NoTime: cannot believe that we are executing)
\*   nsOld   next_synchronization_at known to the worker before the exchange
\*   rk      kind of the request's current state
\*   k       kind of the reply,  nsNew  its timestamp
BeliefAfter(b, nsOld, rk, k, nsNew) ==
  LET t == IF b = NoTime THEN nsOld + Minute ELSE b IN
    CASE k \in {"err", "badts", "unknown", "badexec"} -> t
      [] k = "exec"     -> nsNew + Minute
      [] k = "idle"     -> NoTime
      [] k = "nochange" -> IF rk = "executing" THEN nsNew + Minute ELSE NoTime

SafeToTerminate(b, c) == b = NoTime \/ c > b

\* The report st (a current-state record) describes the newest execution of E.
HonestState(st, E) ==
  LET n == Len(E) IN
    CASE st.kind = "idle"      -> \A i \in 1 .. n : Stopped(E[i])
      [] st.kind = "executing" -> /\ n > 0
                                  /\ st.d = E[n].d
                                  /\ st.phase \in 0 .. E[n].sent
      [] st.kind = "completed" -> /\ n > 0
                                  /\ st.d = E[n].d
                                  /\ Stopped(E[n])
                                  /\ st.rid = n
                                  /\ st.ok = E[n].ok
      [] OTHER -> FALSE

\* Reports about one execution never go backwards.
NoReport == [n |-> 0, kind |-> "idle", phase |-> 0]
ReportOf(st, E) == [n |-> IF st.kind = "idle" THEN 0 ELSE Len(E), kind |-> st.kind, phase |-> st.phase]
Monotone(prev, st, E) ==
  (st.kind # "idle" /\ prev.n = Len(E)) =>
     /\ prev.kind = "completed" => st.kind = "completed"
     /\ (prev.kind = "executing" /\ st.kind = "executing") => st.phase >= prev.phase

\* No two executions between entry and return of Execute(); a later one exists
\* only if all earlier ones have stopped.
OneAtATime(E) ==
  \A i, j \in 1 .. Len(E) : i < j => Stopped(E[i])

PreferOK(r, nr) ==
  /\ (r.st.kind = "completed" /\ ~r.st.ok) => r.prefer
  /\ (~r.prefer /\ r.st.kind \in {"idle", "completed"}) => ~nr

-----------------------------------------------------------------------------
Init ==
  /\ pc = "top"
  /\ cur = IdleState
  /\ execs = <<>>
  /\ ch = <<>>
  /\ closed = FALSE
  /\ hasExec = FALSE
  /\ cancelled = <<>>
  /\ M = NoTime
  /\ ns = 0
  /\ clock = 0
  /\ shutdown = FALSE
  /\ pending = ""
  /\ retv = [may |-> FALSE, err |-> FALSE]
  /\ req = [st |-> IdleState, prefer |-> FALSE, sd |-> FALSE]
  /\ reply = [kind |-> "nochange", d |-> "", delta |-> 0]
  /\ execAtReq = FALSE
  /\ B = NoTime
  /\ needReady = FALSE
  /\ act = [a |-> "Init", d |-> "", k |-> "", n |-> 0, ok |-> TRUE]

Label(a) == [a |-> a, d |-> "", k |-> "", n |-> 0, ok |-> TRUE]

Last == Len(execs)

Return(may, err) == pc' = "ret" /\ retv' = [may |-> may, err |-> err]

AfterReadiness == IF hasExec THEN "wait" ELSE "send"

-----------------------------------------------------------------------------
(* The worker thread.                                                      *)

RunEnter ==
  /\ pc = "top"
  /\ act' = Label("RunEnter")
  /\ IF shutdown /\ (M = NoTime \/ clock > M)
       THEN Return(TRUE, FALSE)
       ELSE /\ pc' = IF M = NoTime THEN "ready" ELSE AfterReadiness
            /\ UNCHANGED retv
  /\ UNCHANGED <<cur, execs, ch, closed, hasExec, cancelled, M, ns, clock, shutdown,
                 pending, req, reply, execAtReq, B, needReady>>

ReadyOk ==
  /\ pc = "ready"
  /\ act' = Label("ReadyOk")
  /\ pc' = AfterReadiness
  /\ needReady' = FALSE
  /\ UNCHANGED <<cur, execs, ch, closed, hasExec, cancelled, M, ns, clock, shutdown,
                 pending, retv, req, reply, execAtReq, B>>

ReadyFail ==
  /\ pc = "ready"
  /\ act' = Label("ReadyFail")
  /\ Return(TRUE, TRUE)
  /\ UNCHANGED <<cur, execs, ch, closed, hasExec, cancelled, M, ns, clock, shutdown,
                 pending, req, reply, execAtReq, B, needReady>>

\* The timer created with nextSynchronizationAt - now has expired.
TimerFires ==
  /\ pc = "wait"
  /\ clock >= ns
  /\ act' = Label("TimerFires")
  /\ pc' = "send"
  /\ UNCHANGED <<cur, execs, ch, closed, hasExec, cancelled, M, ns, clock, shutdown,
                 pending, retv, req, reply, execAtReq, B, needReady>>

\* applyExecutionUpdate on whatever a receive from the channel yields.
CanReceive == hasExec /\ (ch # <<>> \/ closed)
Receive ==
  IF ch # <<>>
    THEN /\ cur' = Head(ch)
         /\ ch' = Tail(ch)
         /\ UNCHANGED <<hasExec, cancelled>>
    ELSE \* closed: nil update, clean up (cancels the context once more)
         /\ hasExec' = FALSE
         /\ cancelled' = [cancelled EXCEPT ![Last] = TRUE]
         /\ UNCHANGED <<cur, ch>>

RecvUpdate ==
  /\ pc = "wait"
  /\ CanReceive
  /\ act' = Label("RecvUpdate")
  /\ Receive
  /\ pc' = "drain"
  /\ UNCHANGED <<execs, closed, M, ns, clock, shutdown,
                 pending, retv, req, reply, execAtReq, B, needReady>>

DrainOne ==
  /\ pc = "drain"
  /\ CanReceive
  /\ act' = Label("DrainOne")
  /\ Receive
  /\ UNCHANGED <<pc, execs, closed, M, ns, clock, shutdown,
                 pending, retv, req, reply, execAtReq, B, needReady>>

DrainDone ==
  /\ pc = "drain"
  /\ ~CanReceive
  /\ act' = Label("DrainDone")
  /\ ns' = Min(ns, clock)
  /\ pc' = "send"
  /\ UNCHANGED <<cur, execs, ch, closed, hasExec, cancelled, M, clock, shutdown,
                 pending, retv, req, reply, execAtReq, B, needReady>>

\* Choice of prefer_being_idle and the call of Synchronize.
Prefer ==
  IF shutdown THEN TRUE
  ELSE CASE cur.kind = "idle"      -> M # NoTime
         [] cur.kind = "completed" -> ~cur.ok
         [] cur.kind = "executing" -> FALSE

Send ==
  /\ pc = "send"
  /\ act' = Label("Send")
  /\ req' = [st |-> cur, prefer |-> Prefer, sd |-> shutdown]
  /\ execAtReq' = (cur.kind = "executing")
  /\ needReady' = (needReady \/ (cur.kind = "completed" /\ ~cur.ok))
  /\ pc' = "sync"
  /\ UNCHANGED <<cur, execs, ch, closed, hasExec, cancelled, M, ns, clock, shutdown,
                 pending, retv, reply, B>>

SyncReply(r) ==
  /\ pc = "sync"
  /\ r.kind = "exec" => Len(execs) < MaxExecs
  /\ act' = [a |-> "SyncReply", d |-> r.d, k |-> r.kind, n |-> r.delta, ok |-> TRUE]
  /\ reply' = r
  /\ B' = BeliefAfter(B, ns, req.st.kind, r.kind, clock + r.delta)
  /\ needReady' = IF r.kind = "exec" THEN FALSE ELSE needReady
  /\ LET touched == IF M = NoTime THEN ns + Minute ELSE M IN
       CASE r.kind \in {"err", "badts"} ->
              /\ M' = touched /\ Return(FALSE, TRUE)
              /\ UNCHANGED <<ns, pending>>
         [] r.kind \in {"unknown", "badexec"} ->
              /\ ns' = clock + r.delta
              /\ M' = touched /\ Return(FALSE, TRUE)
              /\ UNCHANGED pending
         [] r.kind = "exec" ->
              /\ ns' = clock + r.delta
              /\ M' = touched /\ pending' = r.d /\ pc' = "stop"
              /\ UNCHANGED retv
         [] r.kind = "idle" ->
              /\ ns' = clock + r.delta
              /\ M' = touched /\ pending' = "idle" /\ pc' = "stop"
              /\ UNCHANGED retv
         [] r.kind = "nochange" ->
              /\ ns' = clock + r.delta
              /\ UNCHANGED pending
              /\ IF execAtReq
                   THEN M' = clock + r.delta + Minute /\ Return(FALSE, FALSE)
                   ELSE M' = NoTime /\ Return(TRUE, FALSE)
  /\ UNCHANGED <<cur, execs, ch, closed, hasExec, cancelled, clock, shutdown,
                 req, execAtReq>>

\* stopExecution, first half: cancel the running action (if any).
StopBegin ==
  /\ pc = "stop"
  /\ act' = Label("StopBegin")
  /\ IF hasExec
       THEN /\ cancelled' = [cancelled EXCEPT ![Last] = TRUE]
            /\ pc' = "stopdrain"
            /\ UNCHANGED cur
       ELSE /\ cur' = IdleState
            /\ pc' = "stopped"
            /\ UNCHANGED cancelled
  /\ UNCHANGED <<execs, ch, closed, hasExec, M, ns, clock, shutdown,
                 pending, retv, req, reply, execAtReq, B, needReady>>

\* ... second half: read and discard until the channel is closed.
StopDrain ==
  /\ pc = "stopdrain"
  /\ act' = Label("StopDrain")
  /\ IF ch # <<>>
       THEN /\ ch' = Tail(ch)
            /\ UNCHANGED <<pc, hasExec, cur>>
       ELSE /\ closed
            /\ hasExec' = FALSE
            /\ cur' = IdleState
            /\ pc' = "stopped"
            /\ UNCHANGED ch
  /\ UNCHANGED <<execs, closed, cancelled, M, ns, clock, shutdown,
                 pending, retv, req, reply, execAtReq, B, needReady>>

\* After stopExecution: either spawn the requested action or stay idle.
StopEnd ==
  /\ pc = "stopped"
  /\ act' = Label("StopEnd")
  /\ IF pending = "idle"
       THEN /\ M' = NoTime
            /\ Return(TRUE, FALSE)
            /\ UNCHANGED <<cur, execs, ch, closed, hasExec, cancelled>>
       ELSE /\ execs' = Append(execs, NewExec(pending))
            /\ cancelled' = Append(cancelled, FALSE)
            /\ ch' = <<>>
            /\ closed' = FALSE
            /\ hasExec' = TRUE
            /\ cur' = ExecutingState(pending, 0)
            /\ M' = ns + Minute
            /\ Return(FALSE, FALSE)
  /\ pending' = ""
  /\ UNCHANGED <<ns, clock, shutdown, req, reply, execAtReq, B, needReady>>

\* LaunchWorkerThread's use of the return value.
LoopCheck ==
  /\ pc = "ret"
  /\ act' = Label("LoopCheck")
  /\ pc' = IF retv.may /\ shutdown THEN "terminated" ELSE "top"
  /\ UNCHANGED <<cur, execs, ch, closed, hasExec, cancelled, M, ns, clock, shutdown,
                 pending, retv, req, reply, execAtReq, B, needReady>>

-----------------------------------------------------------------------------
(* The goroutine around BuildExecutor.Execute().                           *)

ExecUnch == UNCHANGED <<pc, cur, hasExec, cancelled, M, ns, clock, shutdown,
                        pending, retv, req, reply, execAtReq, B, needReady>>

ExecEnter(i) ==
  /\ execs[i].st = "spawned"
  /\ act' = [Label("ExecEnter") EXCEPT !.n = i]
  /\ execs' = [execs EXCEPT ![i].st = "running"]
  /\ UNCHANGED <<ch, closed>> /\ ExecUnch

ExecProgress(i) ==
  /\ execs[i].st = "running"
  /\ execs[i].sent < MaxUpd
  /\ Len(ch) < Cap
  /\ act' = [Label("ExecProgress") EXCEPT !.n = i]
  /\ execs' = [execs EXCEPT ![i].sent = @ + 1]
  /\ ch' = Append(ch, ExecutingState(execs[i].d, execs[i].sent + 1))
  /\ UNCHANGED closed /\ ExecUnch

ExecObserveCancel(i) ==
  /\ execs[i].st = "running"
  /\ cancelled[i]
  /\ ~execs[i].cancelSeen
  /\ act' = [Label("ExecObserveCancel") EXCEPT !.n = i]
  /\ execs' = [execs EXCEPT ![i].cancelSeen = TRUE]
  /\ UNCHANGED <<ch, closed>> /\ ExecUnch

ExecFinish(i, ok) ==
  /\ execs[i].st = "running"
  /\ act' = [Label("ExecFinish") EXCEPT !.n = i, !.ok = ok]
  /\ execs' = [execs EXCEPT ![i].st = "returned", ![i].ok = ok]
  /\ UNCHANGED <<ch, closed>> /\ ExecUnch

ExecSendCompleted(i) ==
  /\ execs[i].st = "returned"
  /\ Len(ch) < Cap
  /\ act' = [Label("ExecSendCompleted") EXCEPT !.n = i]
  /\ execs' = [execs EXCEPT ![i].st = "sent"]
  /\ ch' = Append(ch, CompletedState(execs[i].d, i, execs[i].ok))
  /\ UNCHANGED closed /\ ExecUnch

ExecClose(i) ==
  /\ execs[i].st = "sent"
  /\ act' = [Label("ExecClose") EXCEPT !.n = i]
  /\ execs' = [execs EXCEPT ![i].st = "done"]
  /\ closed' = TRUE
  /\ UNCHANGED ch /\ ExecUnch

-----------------------------------------------------------------------------
(* Environment.                                                            *)

\* The context is read at the top of Run(), just before Synchronize and by the
\* loop around Run(); cancelling it anywhere else is equivalent to cancelling
\* it at the next of these places, so only those are explored.
Shutdown ==
  /\ ~shutdown
  /\ pc \in {"top", "send", "ret"}
  /\ act' = Label("Shutdown")
  /\ shutdown' = TRUE
  /\ UNCHANGED <<pc, cur, execs, ch, closed, hasExec, cancelled, M, ns, clock,
                 pending, retv, req, reply, execAtReq, B, needReady>>

\* The clock is read at the top of Run(), when the timer is armed / fires,
\* after draining and when a reply arrives; a tick anywhere else commutes with
\* its neighbours and can be moved to one of these places.
Tick ==
  /\ clock < MaxClock
  /\ pc \in {"top", "wait", "sync"}
  /\ act' = Label("Tick")
  /\ clock' = clock + 1
  /\ UNCHANGED <<pc, cur, execs, ch, closed, hasExec, cancelled, M, ns, shutdown,
                 pending, retv, req, reply, execAtReq, B, needReady>>

Next ==
  \/ RunEnter \/ ReadyOk \/ ReadyFail \/ TimerFires \/ RecvUpdate
  \/ DrainOne \/ DrainDone \/ Send
  \/ \E r \in Replies : SyncReply(r)
  \/ StopBegin \/ StopDrain \/ StopEnd \/ LoopCheck
  \/ \E i \in 1 .. Len(execs) :
       \/ ExecEnter(i) \/ ExecProgress(i) \/ ExecObserveCancel(i)
       \/ \E ok \in BOOLEAN : ExecFinish(i, ok)
       \/ ExecSendCompleted(i) \/ ExecClose(i)
  \/ Shutdown \/ Tick

Spec == Init /\ [][Next]_vars

\* The view under which states are identified.  It drops what can never be
\* read again: the label of the last action; the details of executions that
\* are no longer the newest (only "has it stopped" is ever asked of them); the
\* request, reply and return value once the step that reads them has passed.
NoReq == [st |-> IdleState, prefer |-> FALSE, sd |-> FALSE]
StateView ==
  <<pc, cur,
    [i \in 1 .. Len(execs) |-> IF i < Len(execs) THEN <<execs[i].st>> ELSE <<execs[i], cancelled[i]>>],
    ch, closed, hasExec, M, ns, clock, shutdown, pending,
    IF pc = "ret" THEN <<retv, reply.kind>> ELSE <<>>,
    IF pc = "sync" THEN <<req, execAtReq>> ELSE <<>>,
    B, needReady>>

-----------------------------------------------------------------------------
(* Properties.                                                             *)

StateKinds == {"idle", "executing", "completed"}

TypeOK ==
  /\ pc \in {"top", "ready", "wait", "drain", "send", "sync", "stop", "stopdrain",
             "stopped", "ret", "terminated"}
  /\ cur.kind \in StateKinds
  /\ Len(execs) <= MaxExecs /\ Len(cancelled) = Len(execs)
  /\ Len(ch) <= Cap
  /\ M \in {NoTime} \cup (0 .. MaxClock + Minute + 2)
  /\ B \in {NoTime} \cup (0 .. MaxClock + Minute + 2)
  /\ clock \in 0 .. MaxClock

\* A worker thread never runs two actions at once; a new one is spawned only
\* after the previous one has fully stopped (its channel is even closed).
C08_OneAtATime ==
  /\ OneAtATime(execs)
  /\ \A i \in 1 .. Len(execs) : i < Len(execs) => execs[i].st = "done"
  /\ hasExec => Len(execs) > 0

\* Whoever is told to stop is cancelled first.
C08_CancelBeforeWait ==
  pc = "stopdrain" => cancelled[Last]

\* Every report describes the action actually being run; completion carries
\* that action's own response.
C08_Honest ==
  pc = "sync" => HonestState(req.st, execs)

\* (what is reported is `cur`, so it suffices that `cur` never goes backwards)
C08_MonotoneReports ==
  [][Len(execs') = Len(execs) => Monotone(ReportOf(cur, execs), cur', execs)]_vars

\* Told to go idle: the executor has stopped and the state is idle when Run
\* returns; told to execute: that action (and no other) is what is reported.
C08_GoesIdle ==
  (pc = "ret" /\ reply.kind = "idle") =>
     /\ cur = IdleState
     /\ \A i \in 1 .. Len(execs) : execs[i].st = "done"
     /\ ~hasExec

C08_IdleAfterFailure ==
  [][pc' = "sync" /\ pc = "send" => PreferOK(req', needReady)]_vars

\* Termination only when the scheduler cannot believe that we are executing.
C08_Shutdown ==
  pc = "terminated" => (shutdown /\ SafeToTerminate(B, clock))

\* From the moment shutdown began every request asks to be left idle.
C08_NoSolicit ==
  pc = "sync" => (req.sd => req.prefer)

\* The code's own bookkeeping agrees with the observer's belief whenever the
\* worker is not in the middle of handling a reply.
BeliefAgrees ==
  pc \notin {"stop", "stopdrain", "stopped"} => M = B

\* cancellation function set <=> a goroutine may still have to be waited for
ExecBookkeeping ==
  /\ (~hasExec /\ pc \notin {"stopped"}) =>
        \A i \in 1 .. Len(execs) : execs[i].st = "done"
  /\ cur.kind = "executing" => (Len(execs) > 0 /\ cur.d = execs[Last].d)
=============================================================================
