"""C07I - stand-alone entry for parts 2 and 3 of C07 (module ISCC): the
analyzers' choices and the mutable proto store, without the scheduler part.
`bin/check C07I` writes evidence/C07I.json; checks/c07.py combines this module
with the scheduler part."""
from checks import c07_iscc

run = c07_iscc.run
replay = c07_iscc.replay
