SPECIFICATION Spec
CONSTANTS
  Threads = {"t1", "t2", "t3"}
  WithDirs = FALSE
  MaxCtr = 0
INVARIANTS
  TypeOK
  C12_Mutex
  C12_UseCount
  C12_NoLostWakeup
PROPERTIES
  C12_Edges
  C12_NoStartAfterFailedClean
CHECK_DEADLOCK TRUE
