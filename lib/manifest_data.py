"""Source of truth for MANIFEST.json (bin/genmanifest.py)."""

HOOK_COMMITS = [
    "9ad3cc6",  # ByteRangeLockSet.VerifEntries
    "de55c5c",  # scheduler enter/leave tracer + VerifSnapshot
    "1e05bf9",  # file pool quota counters / free sector count
    "78d63cc",  # pool-backed file counters
    "dae9147",  # NFSv4.1 program state export
    "79725d5",  # NFSv4.0 program state export
    "9ea6bb0",  # in-memory directory state export
    "4d43ddb",  # IdleInvoker state probe
    "7057f6d",  # mutable proto store snapshot
    "8b54f47",  # lock probes (directories, files, handle allocator, opened files pool, idle invoker, sector allocator)
    "0f82fc5",  # non-blocking probe of the NFSv4.0 program lock
]

# harness packages compiled by bin/setup (those of the registered checks)
SETUP_PACKAGES = ["brl", "sched", "buildclient", "filepool", "execpipe", "poolfile", "inputroot", "suspclock", "outputs", "nfs40", "nfs41", "locks", "lockrace", "vfsdir", "idleinv", "iscc"]

NOT_APPLICABLE = {}

_NOTE = ("Trusted: TLC 1.8, the Go toolchain, the harness' fakes (clock, streams, storage), the projection from "
         "real objects to logged state, and the bounds stated in the evidence. Exhaustive only for the small constants "
         "of the MC_*.cfg configurations; beyond them behaviour is sampled by seeded drivers.")

CHECKS = {
    "C20": {
        "text": "ByteRangeLocks.tla is a per-byte reference table checked exhaustively by TLC for POSIX record-lock rules; the real ByteRangeLockSet is driven by seeded random histories and by an exhaustive every-op-from-every-state enumeration, and TLC validates every recorded reply/list against the reference (differing reply = violation since the property is 'behaves like POSIX record locks').",
        "design_ref": "DESIGN.md section 5, C20",
        "note": _NOTE,
        "technique": "TLA+ reference model + TLC trace validation of real-code traces (random + exhaustive small-domain enumeration)",
    },
}

_SCHED_TECH = "TLA+ snapshot predicates (SchedPreds) + trace specification (SchedTrace) validated by TLC on traces of the real InMemoryBuildQueue driven as a deterministic scheduler of its critical sections; design model Sched.tla model-checked with the same predicates"
_SCHED_NOTE = "Trusted: TLC 1.8, the Go toolchain, the harness (gates at bq.enter, fake clock/streams/CAS/analyzer, projection of the raw snapshot to labelled records), the verif hook that exports the raw scheduler state under its lock. The drivers bound the exploration: <= 3 workers, <= 3 clients, 4-6 actions, invocation paths of depth 2, priorities that are multiples of 100 (exact score comparison), ~100-step schedules; design model Sched.tla exhaustive only for its small configurations."


def _sched(text):
    return {"text": text, "design_ref": "DESIGN.md sections 2 and 14", "note": _SCHED_NOTE, "technique": _SCHED_TECH}


CHECKS.update({
    "C01": _sched("Every critical section of the real scheduler ends with an exported snapshot; TLC evaluates C01_Inv (each live task queued in exactly one size-class queue or held by exactly one worker, bidirectional links, nothing stray queued) on every snapshot, and the step rules (execute replies name the assigned task, completed tasks never change or restart) on every Synchronize reply, for seeded random interleavings of Execute/WaitExecution/Synchronize/Kill/Drain/Terminate/cancel/clock moves, hand-written corner scenarios and queue-order histories. The same predicate is an invariant of the design model Sched.tla."),
    "C02": _sched("Every message sent on every (fake) client stream and every stream return is logged in order with the snapshot it was built from; TLC checks: nothing after done, stages only advance except the retry fall-back, the final message equals the task's result, every task result is either the accepted worker's response or a scheduler-made status whose stated cause really holds in the pre-state (worker overdue, all operations abandoned and overdue, retry limit reached, operator kill, queue removed), streams that return OK got exactly one done message, and at quiescent points no stream is parked although its task changed stage (lost wake-up)."),
    "C03": _sched("TLC checks on every snapshot that no two live cacheable tasks share an action digest, and on every Execute section that a request for an in-flight cacheable action attaches to the existing task (no new task, existing task undisturbed), that do_not_cache requests always create a task, and that final messages of all attached streams equal the task's single result; scenario background-run-vs-dedup reproduces the repaired defect F5."),
    "C04": _sched("Reference model of the documented policy in SchedTrace.tla (AllowedAt: direct operations first by priority/expected duration/age, else child with lowest (executing+1)*2^(priority/100), ties to the least recently served, per-level stickiness windows; HandOffOK: direct hand-off to the most closely related waiting worker) evaluated on the state the scheduler chose from (end-of-section snapshot with the chosen task put back); plus the state invariant that nothing is queued while an undrained worker of the queue waits. Not decided: priorities that are not multiples of 100 and exact score ties between different priorities (floating point in the implementation)."),
    "C05": _sched("On every Execute section TLC recomputes the longest registered instance-name prefix with equal platform from the snapshot and compares queue, size class (as selected by the scripted analyzer) and instance-name suffix of the created task; rejections must carry UNAVAILABLE before and FAILED_PRECONDITION after the start-up grace period; every assignment step is checked against the worker's drained/terminating flags and queue; retried tasks must land on the largest size class of the same platform queue."),
    "C06": _sched("Cleanup rules as step predicates over consecutive snapshots (overdue workers/operations/queues are gone and their tasks failed with the documented code, nothing is removed before its time-out, time-outs are armed at now+configured value, retry limit), quiescence predicates (no Synchronize/stream/TerminateWorkers call parked while its wake-up condition holds) and the final predicate after every trace's drain phase (all actors gone, clock past every time-out: no operations, tasks, invocations, workers, dynamic queues, cleanup entries; lock free)."),
})

CHECKS["C08"] = {
    "text": "BuildClient.tla follows BuildClient.Run() line by line (plus executor goroutine, update channel, scheduler/clock/shutdown environment, LaunchWorkerThread's termination rule); TLC checks the C08 predicates exhaustively for 2 digests, every scheduler reply, executors with 0-3 updates, readiness failures and shutdown at any point. The real BuildClient runs inside testing/synctest with a scripted OperationQueueClient, a gated executor and a fake clock: TLC-simulated behaviours are replayed on it, and seeded random environments (around a loop equivalent to LaunchWorkerThread and around the real LaunchWorkerThread) are recorded; BuildClientTrace.tla evaluates the predicates on every logged line.",
    "design_ref": "DESIGN.md section 3 (C08)",
    "note": _NOTE + " The scheduler is assumed to forget a worker one minute after the last next_synchronization_at (the code's own rule); executors honour cancellation.",
    "technique": "TLA+ model of Run() checked by TLC; spec->code replay of simulated behaviours and code->spec trace validation",
}

CHECKS["C15"] = {
    "text": "FilePool.tla/FilePoolOps.tla: abstract sparse byte array per file over device sectors with stale contents, free set, per-file sector map, quota counters and a fault budget; TLC checks exhaustively on tiny configurations that the sector-map design denotes the abstract file, that no sector has two owners and that sectors and quota are conserved, also after an injected failure. The real block-device-backed pool + real bitmap allocator (behind a logging SectorAllocator) + quota pool are driven over an in-memory block device with fault injection by seeded random interleavings on 1-3 files, a Go-side exhaustive enumeration of call sequences of depth 3-4 over tiny domains (incl. single fault positions) and an allocator-only driver; TLC recomputes every reply (bytes, n, EOF, region offsets, refusals) and tracks sector ownership, quota and free-bit count; each trace ends with close-all and a full-capacity probe.",
    "design_ref": "DESIGN.md section 4 (C15)",
    "note": _NOTE + " Assumes hole sources not longer than the file they are created with, sequential calls per pool, small offsets.",
    "technique": "TLA+ reference model + TLC validation of real-code traces (random, exhaustive small-domain enumeration, fault enumeration)",
}

CHECKS["C09"] = {
    "text": "ExecPipeline.tla models the batching layer (Put / flushLocked / flush callback, sticky error) under StorageFlushing and Caching; TLC explores it exhaustively (<=3 blobs with duplicates, 3-4 Puts, batch size 1..3, semaphore 1..2, every pre-existing CAS subset, every base outcome, do_not_cache, ok/fail/cancel at every CAS FindMissing/Put, AC Put and historical Put) and checks C09_AC, C09_Error, C09_Ack, C09_Buffers. The real decorator stack Caching(...StorageFlushing(base, flush)) over the real NewBatchedStoreBlobAccess runs on instrumented CAS/AC fakes for every canonical put sequence, every pre-existing subset, batch 1..3, 3 outcomes x do_not_cache, with a failure and a cancellation injected at every storage-call position, plus seeded random multi-fault and concurrent scenarios; TLC evaluates the four clauses on every logged run.",
    "design_ref": "DESIGN.md section 3 (C09)",
    "note": _NOTE + " The base executor is a scripted fake that references a digest only if its Put returned nil (as localBuildExecutor does); the CAS fake answers FindMissing truthfully.",
    "technique": "TLA+ spec + exhaustive TLC; exhaustive fault-position enumeration on the real decorator stack validated by TLC",
}

PENDING = {}
PENDING["C16"] = {
    "text": "PoolFile.tla: design model of pool-backed files (reference count = links + descriptors + frozen readers, freeze/unfreeze, bounded wait for writers, cached digest, two-half CAS transfer); TLC explores all interleavings of 2 client threads and 2 uploaders and checks C16_Refs, C16_CloseOnce, C16_CloseForGood, C16_Stale, C16_StaleUntouched, C16_Digest, C16_NoLostWakeup and C16_BoundedWait (under fairness). The real NewPoolBackedFileAllocator behind the real FUSE and NFS stateful handle allocators (directly and through the virtual build directory) runs over an instrumented pool and a fake CAS with a gated two-half Put, inside testing/synctest: 11 scripted races x 4 wirings, seeded random histories, an enumeration of all legal histories to depth 4-5, and the dead-file data operations driver; PoolFileTrace.tla judges every line (Close count vs references, touches of released storage, statuses on released/live files, reported digest = SHA-256 of the CAS bytes = a content the file had during the upload, link counts, parked calls).",
    "design_ref": "DESIGN.md section 4 (C16)",
    "note": _NOTE + " Kernel calling convention assumed (read/write only through a descriptor with that access, Unlink only while linked); one call per step.",
    "technique": "TLA+ design model checked by TLC (safety + bounded-wait liveness); TLC validation of real-code traces (scripted races, random, exhaustive short histories)",
}
PENDING["C17"] = {
    "text": "InputRootOps/InputRoot.tla: reference model with a CAS of raw Directory/Tree messages (well-formed, invalid or duplicate names, bad digests, missing), Denotation(root digest) and a lazily materialised per-action tree; TLC checks exhaustively that every exploration order interleaved with local modifications and a storage error shows exactly Denotation overlaid with the modifications, that malformed directories only produce errors and create nothing, that a failed load stays retryable, that CAS files refuse alteration and that actions only change their own tree. The real stack is assembled as bb_worker does (in-memory directory + virtual build directory, MergeDirectoryContents, CASInitialContentsFetcher, stateless-handle and BlobAccess CAS file factories, BlobAccessDirectoryFetcher, optionally CachingDirectoryFetcher, FUSE and NFS handle allocators) over seeded random DAGs in an in-memory CAS with injected Get errors, explored through kernel- and worker-facing calls with interleaved local modifications and alteration attempts; TLC recomputes the prescribed reply for every logged event and every blob is re-hashed at the end.",
    "design_ref": "DESIGN.md section 4 (C17)",
    "note": _NOTE + " One goroutine per scenario, case-sensitive normalizer; the native (naiveBuildDirectory / HardlinkingFileFetcher) path is not covered.",
    "technique": "TLA+ reference model + TLC exhaustive design check + TLC validation of seeded real-code traces",
}

CHECKS["C16"] = PENDING.pop("C16")
CHECKS["C17"] = PENDING.pop("C17")
CHECKS["C11"] = {
    "text": "SuspClock.tla: reference model of the SuspendableClock re-arm loop with parametric timing equations (expiry only with unsuspended elapsed in (timeout - threshold, timeout] or at wall = timeout + maximum compensation; a running object never exceeds either bound; reported duration = unsuspended time however the object ended; Resume never without Suspend; re-arm asks for exactly the remaining budget); TLC checks all timelines of bounded configurations. The real SuspendableClock (NewContextWithTimeout, NewTimer, nested Suspend/Resume, own and parent cancel) runs over a harness-owned base clock inside testing/synctest: exhaustive enumeration of suspension-level patterns over H unit intervals with both orders of timer delivery vs suspension change, seeded random timelines with concurrent contexts/timers and storage operations, and every method of SuspendingBlobAccess / SuspendingDirectoryFetcher over gated backends (8 reply kinds x 14 buffer uses); TLC recomputes the unsuspended integral from the logged events and judges every observation of Done/Err/UnsuspendedDurationKey and the suspend/resume bracketing of every storage operation.",
    "design_ref": "DESIGN.md section 3 (C11)",
    "note": _NOTE + " The base clock is punctual (a due timer is delivered before time advances), whole milliseconds, timeoutThreshold > 0; localBuildExecutor's use of the clock is not covered.",
    "technique": "TLA+ reference model checked by TLC; TLC validation of real-code timelines (exhaustive small patterns + random) and of wrapper bracketing traces",
}

CHECKS["C10"] = {
    "text": "OutputHierarchy.tla is a reference model of output_hierarchy.go as a pure function of (command, produced tree): Resolve with escape detection, ParentDirs, Expected() (declared path string, kind, executable bit, symlink target, content id), Tree well-formedness (root first, every referenced child present exactly once, parents before children, no unreferenced entries) and the Tree's denotation; TLC checks its internal consistency over every small command and tree. The real NewOutputHierarchy / CreateParentDirectories / UploadOutputs are driven directly and through the real localBuildExecutor with a fake runner, over a real virtual build directory (and a naive one on the local file system) with an in-memory CAS, for the whole small command space, every tree of a small family, and seeded random deeper cases; ActionResult and every Tree blob are decoded at wire level and TLC validates each case against Expected().",
    "design_ref": "DESIGN.md section 3 (C10)",
    "note": _NOTE + " Trusted: the harness' tree walk, digest->content table and Tree wire decoder. Ordering of ActionResult lists is free. Declared paths below a symlink are not judged.",
    "technique": "TLA+ reference model + TLC validation of real-code cases (small-space enumeration + seeded random)",
}

_NFS_NOTE = _NOTE + (" NFS: byte contents of READ/WRITE, attribute encoding, READDIR/LINK/CREATE and backchannel are not modelled; one state-changing "
                     "operation per COMPOUND in the NFSv4.0 drivers; a request 'differs in content' when its sequence of operation types differs "
                     "(NFSv4.1) / the operation type differs (NFSv4.0), as RFC 7530 9.1.9 permits; concurrency is limited to I/O held in flight "
                     "inside instrumented leaves and duplicates of requests in flight. Known findings K1/K2 (one lock-owner through two "
                     "open-owners on one file) are listed in known_findings.jsonl.")
_NFS_TECH = "TLA+ reference models NFS40.tla / NFS41.tla checked by TLC; TLC validation of real-server traces (scripted corner cases, seeded random multi-client histories, TLC-simulated behaviours replayed on the NFSv4.0 server)"
PENDING["C18"] = {
    "text": "NFS40.tla and NFS41.tla are reference models of the two servers at the granularity of their lock sections (clients/confirmations/incarnations, sessions and slots, open-owners, open-owner files with share counts incl. lock-owner and in-flight-I/O clones, two-phase CLOSE, lock-owners, lock-owner files, per-file lock tables, opened-files pool, lease and unused-owner expiry); TLC checks C18_Balance/Counts/Reach/StateIds/Final on bounded configurations. The real NewNFS40Program / NewNFS41Program over a real in-memory directory, NFS handle allocator and OpenedFilesPool with instrumented leaves (counting every open/close per access bit, gating I/O) are driven by scripted special cases, seeded random multi-client histories and TLC-simulated behaviours; every reply, leaf counter and hook snapshot is validated by TLC against the models; each history ends with the clients vanishing, the clock passing the lease and a final snapshot.",
    "design_ref": "DESIGN.md section 5 (C18)", "note": _NFS_NOTE, "technique": _NFS_TECH,
}
PENDING["C19"] = {
    "text": "The same models carry the replay machinery (NFSv4.0: per open-owner/lock-owner seqid, cached last response, same-operation-type rule, isNextStateID, the RFC 7530 9.1.7 list of errors that do not advance the seqid, two-phase CLOSE; NFSv4.1: slot lastSeq/lastResult/in-flight waiters, sa_cachethis and RETRY_UNCACHED_REP, shape check and SEQ_FALSE_RETRY, CREATE_SESSION replay); TLC checks C19_Once/Same/Misordered/FalseRetry/InFlight on bounded configurations. Real-code histories include retransmissions (same and different content), misordered and old sequence numbers, and duplicates arriving while the original is held inside a gated leaf read (inside testing/synctest; a duplicate that never returns is logged and judged); TLC compares every retransmitted reply byte-for-byte (hash) with the first and checks the absence of effects of rejected/replayed requests.",
    "design_ref": "DESIGN.md section 5 (C19)", "note": _NFS_NOTE, "technique": _NFS_TECH,
}
CHECKS["C20"] = {
    "text": "Table level: ByteRangeLocks.tla is a per-byte reference table checked exhaustively by TLC for POSIX record-lock rules; the real ByteRangeLockSet is driven by seeded random histories and by an exhaustive every-operation-from-every-state enumeration of a small domain, and TLC validates every reply/list against the reference. NFS level: in NFS40.tla / NFS41.tla one protocol lock-owner is one table owner across opens, files and open-owners; LOCK/LOCKT/LOCKU/CLOSE/lease expiry keep lockCount = number of table entries of that owner on that file (which gates RELEASE_LOCKOWNER / FREE_STATEID), denied replies report a really conflicting range and owner, offset/length edge cases (length 0, all-ones = to EOF, overflow); the real servers' traces (with hook snapshots of the lock tables) are validated by TLC against these models.",
    "design_ref": "DESIGN.md section 5 (C20)", "note": _NFS_NOTE, "technique": "TLA+ reference models + TLC validation of real-code traces (lock table: random + exhaustive small-domain enumeration; NFS servers: scripted + random + simulated behaviours)",
}
PENDING["C14"] = {
    "text": "(b) LockPile.tla models lock_pile.go one primitive operation per action; TLC checks mutual exclusion, no leaked lock, pile = locks held at call boundaries, blocking only empty-handed, no wait-for cycle, the return value and deadlock freedom exhaustively up to 3 threads x 3 locks (liveness under fairness for one backing-off thread); the real LockPile runs over gated TryLocker fakes with schedules from context-bounded DFS and seeded random runs, judged by LockPileTrace.tla. (a) Lock balance: every public method of the real in-memory directory is swept across receiver states x name classes (rename across target classes in both directions), seeded random sequences incl. removed and lazily initialised failing directories; pool-backed files, OpenedFilesPool, IdleInvoker and the sector allocator likewise, with faults injected in pool, symlink factory and fetcher; after every call all known locks are probed with TryLock hooks under a watchdog; LockBalanceTrace.tla checks C14_Balance and reports which outcome classes were reached (UNEXERCISED ones are listed). (c) Six workers issue overlapping calls (renames in opposite directions, removal of directories being entered, bulk removals) on one real tree with a watchdog that reports a deadlock when every unfinished worker is parked in sync.Mutex.Lock. The scheduler's lock is probed at the end of every scheduler trace (Sched family).",
    "design_ref": "DESIGN.md section 4 (C14)",
    "note": _NOTE + " The static 'every control-flow path' reading is not decided, only the dynamic one (unexercised outcome classes and unreached blocks are listed in the evidence); sync.Mutex is assumed starvation free; directory cycles are not exercised.",
    "technique": "TLA+ model of LockPile checked by TLC + gated replay; lock-probe traces of the real file system objects validated by TLC; concurrent stress with deadlock watchdog",
}

CHECKS["C18"] = PENDING.pop("C18")
CHECKS["C19"] = PENDING.pop("C19")
CHECKS["C14"] = PENDING.pop("C14")
CHECKS["C20"]["text"] += " Parallel level: eight lock-owners of different clients ask for overlapping ranges of one opened file at the same moment (real goroutines, spin barrier); 'granted' is logged after Lock() returned and 'releasing' before UnlockAll() is called, and LockRaceTrace.tla checks that no two different owners ever hold conflicting locks at once."

CHECKS["C13"] = {
    "text": "VFSDir.tla is a reference POSIX-style hierarchy (directories with deleted/lazy flags, change counter and ordered entries with cookies; leaves with kind and link count) in which every API call is an operator returning the set of outcomes POSIX plus the documented interface permit; TLC explores five small universes exhaustively (2-3 directories, 1-2 leaves plus a symlink, case-insensitive normalizer on/off, hidden names on/off, a Listing process resuming from cookies interleaved with every mutation) and checks map/list agreement, deleted-is-empty-and-accepts-nothing, link counts, tree shape, pagination, change-counter and cookie stability. The real NewInMemoryPrepopulatedDirectory (real pool-backed file allocator, symlink factory, FUSE- and NFS-style handle allocators, both normalizers, hidden matcher) is driven by seeded random histories mixing Virtual* and bulk calls, by every single call and pair of calls from four seed states, and by replayed tlc -simulate behaviours; TLC judges every call on status, returned child, ChangeInfo, listing pages, resulting contents, cookies, change counter and link counts.",
    "design_ref": "DESIGN.md section 4 (C13)",
    "note": _NOTE + " Single-threaded histories (concurrency is C14); cookies and change IDs are abstract (order, stability, increase); where several error conditions hold any applicable error is accepted; the FUSE RawFileSystem front end is not driven.",
    "technique": "TLA+ reference model + TLC validation of real-code traces + spec->code behaviour replay",
}
CHECKS["C12"] = {
    "text": "IdleInvoker.tla models idle_invoker.go at critical-section granularity (Acquire: lock, park on wakeup, clean at 0->1; Release: clean at 1->0; cleaner ok/fail; cancellation while parked) plus the Shared(Clean(Root)) creator chain; TLC explores all interleavings of 3 threads (mutual exclusion of cleaning and running, use count, no lost wake-up, cleaning exactly at the edges, no start after a failed cleaning, deadlock), 2 threads with directory faults (directories distinct, nothing left, only while held, clean root) and liveness under fairness. The real IdleInvoker is driven inside testing/synctest with a gated instrumented Cleaner: every harness step from every reachable quiescent state, TLC-simulated schedules and seeded random schedules, directly, through CleanRunner, through CleanBuildDirectoryCreator and through Shared(Clean(Root(virtual build directory))) chains over one real in-memory directory with injected failures; TLC validates every event against the set of all specification states consistent with the log.",
    "design_ref": "DESIGN.md section 3 (C12)",
    "note": _NOTE + " Only the virtual in-memory backend; the real process-table/tmpdir cleaners and localBuildExecutor's deferred Close are not driven.",
    "technique": "TLA+ model checked by TLC (safety, deadlock, liveness); powerset trace validation of real-code traces (exhaustive quiescent-state enumeration, simulated schedules, random)",
}
PENDING["C07"] = {
    "text": "(1) Linear protocol in the scheduler (Sched family): ghost counters over the scripted analyzer's logged calls — every selector gets exactly one of Select/Abandoned, every learner at most one terminal call matching what happened (Succeeded with the reported duration only for OK/exit 0, Failed(timedOut = DEADLINE_EXCEEDED) for worker failures, Abandoned otherwise), a learner returned by Failed means the task is re-queued once on the largest size class with that timeout, background runs are do_not_cache, in the background invocation, bounded and do not delay the client. (2) ISCC.tla part A transcribes the selector/learner state machine; the real FeedbackDrivenAnalyzer (real PageRank and smallest-size-class calculators) and FallbackAnalyzer are driven by seeded stats, size-class lists, timeouts and outcome sequences; TLC checks index < n, 0 <= timeout <= action timeout, probabilities in [0,1] summing to <= 1, retry at most once, exactly one (dirty when an outcome was recorded) release of the stats handle. (3) ISCC.tla part B models the mutable proto store per lock section; TLC checks the design exhaustively (useCount balance, in-use handle in the map and not queued, no lost update after draining, monotonic writes); the real store runs TLC counterexample schedules of the as-coded variant, simulated and seeded random schedules over a gated fake BlobAccess, is drained and read back, and the same predicates are evaluated on hook-observed states.",
    "design_ref": "DESIGN.md sections 2 (C07) and 14",
    "note": _NOTE + " The numeric quality/convergence of the PageRank iteration is out of reach of this technique (a non-returning call makes the driver exit 2).",
    "technique": "TLA+ models + TLC; trace validation of scheduler, analyzer and store traces; spec->code replay of TLC counterexample and simulated schedules on the real store",
}

CHECKS["C07"] = PENDING.pop("C07")

# --- additions after the abstraction audits (DESIGN.md section 15.2) ---------
def _append(pid, text=None, note_replace=None, note_add=None):
    c = CHECKS[pid]
    if text:
        c["text"] = c["text"] + " " + text
    if note_replace:
        c["note"] = c["note"].replace(note_replace[0], note_replace[1])
    if note_add:
        c["note"] = c["note"] + " " + note_add

_append("C09", "Since the audit the real localBuildExecutor with the real OutputHierarchy and build directories also runs under the real wrapper stack (driver TestPipeline: every fault kind at every storage call, referenced digests include files inside Trees and Directory messages), and cancellation that no storage call reports (okcancel) is a fault kind of the model and the drivers.",
        note_replace=("The base executor is a scripted fake that references a digest only if its Put returned nil (as localBuildExecutor does)", "In the enumeration drivers the base executor is a scripted fake that references a digest only if its Put returned nil; the real localBuildExecutor is driven by TestPipeline"))
_append("C11", "The real LocalBuildExecutor runs over the real SuspendableClock on the harness clock (driver TestExecutor: every suspension pattern x every instant at which the command ends): DEADLINE_EXCEEDED exactly when the clock ended the command, virtual_execution_duration = unsuspended time at that moment.",
        note_replace=("localBuildExecutor's use of the clock is not covered", "late delivery of base timers and NewTicker are not covered"))
_append("C12", "The real LocalBuildExecutor.Execute runs over Shared(Clean(Root)) with a gated runner (every way an action can end: ok, runner error, missing input root/command, directory faults, cancellation): the build directory is removed and the invoker released when Execute returns; every other random schedule uses the real ChainedCleaner.")
_append("C13", "Attributes returned with looked-up and listed children (incl. the change-id mask an NFSv4 client requests) are judged against the observed counters of the child.")
_append("C14", "Gated lock-order scenarios hold real directory mutexes through a parking ComponentNormalizer; calls that wait by design (frozen readers / writers) and their wakers; both handle allocators, handle resolution, UserSettableSymlink; the FUSE environment's removal notifier needs the directory's mutex like the kernel does (a notification delivered under a lock is a deterministic hang). Hang and deadlock verdicts come from one consistent goroutine snapshot (every goroutine with real-package frames waits, at least one for a mutex), not from elapsed time. The lock probes of the NFSv4.0/4.1 drivers and of the scheduler traces are C14 verdicts of this check as well.")
_append("C16", "File contents are accumulated from the call arguments (create size, write, setsize, allocate, O_TRUNC; overlapping parked mutators judged as any permutation), not from the instrumented pool's own events; the digest function of uploads and stats is varied.")
_append("C17", "A deterministic gallery of 37 malformed Directory kinds (invalid names, duplicates within and across lists, unparsable digests, absent / junk messages) as child, as input root and inside a Tree.")
for pid in ("C18", "C19", "C20"):
    CHECKS[pid]["note"] = CHECKS[pid]["note"].replace(
        "Known findings K1/K2 (one lock-owner through two open-owners on one file) are listed in known_findings.jsonl.",
        "The former known findings K1/K2 (one lock-owner through two open-owners on one file) were repaired (aac8f12, 87b13f9): a lock-owner has at most one lock-owner file per file. The server's range of lockable offsets is 0 .. 2^64-2 after 62d23a8: [x,2^64-1) and [x,EOF] denote the same lockable bytes, byte 2^64-1 matters only for requests that start at it. Same slot/seqid and same operation type(s) with other arguments is unspecified (cached reply or rejection, never side effects).")
_append("C19", "NFSv4.1: CREATE_SESSION replay cache, slot and reply-cache records compared at every snapshot (a request that must not execute leaves them unchanged), duplicates of uncached originals in flight, DESTROY_* while a request is held, random histories with requests held in flight. NFSv4.0: OPEN held in flight with retransmissions parked behind it, seqid wrap-around, retry classes by request content.")
_append("C20", "Requests that start at offset 2^64-1 are generated for LOCK, LOCKT and LOCKU in both servers (finding F12).")
_append("C07", "The content of a stats message is the set of updates it incorporates (one bit per dirty release in the driver), so a handle created from a stale read visibly lacks updates (finding F11); ISCC.tla has three guard levels (as pinned / write guard / read guard) and MC_ISCC_store_staleread.cfg turns the counterexample of the middle level into a schedule that is replayed on the real store in every run.") if "C07" in CHECKS else None
