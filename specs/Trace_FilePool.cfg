SPECIFICATION TraceSpec
INVARIANTS
  VerdictOK
  NonconfReport
POSTCONDITION Accepted
CHECK_DEADLOCK FALSE
