----------------------------- MODULE InputRoot -----------------------------
(***************************************************************************)
(* Reference model for property C17: "the input root is exactly the        *)
(* requested tree and cannot be altered".  The data model and the pure     *)
(* operators (Fetch, WellFormed, Materialize, Expand, OpLookup, OpList,    *)
(* OpRemove, OpRename, OpCreate, OpPut, OpMerge, ReadOf) are in            *)
(* InputRootOps.tla; this module is the state machine: a lazily            *)
(* materialised tree per action (what the real code holds) next to the     *)
(* fully expanded reference (Denotation of the root digest overlaid with   *)
(* the local modifications), explored in every order, interleaved with     *)
(* local modifications and storage errors.                                 *)
(***************************************************************************)
EXTENDS InputRootOps

-----------------------------------------------------------------------------
(* State of the design-level model (one or more actions over one CAS)      *)

CONSTANTS Actions,      \* set of concurrently running actions
          CasInit,      \* the CAS
          RootOf,       \* action -> source of its input root
          Names,        \* names used by modifications and look-ups
          MaxMods,      \* bound on local modifications per behaviour
          MaxFaults,    \* bound on injected storage errors
          PutNodes,     \* nodes CreateChildren may insert
          RenameTo      \* target names of renames

VARIABLES cas,     \* contents of the CAS (never changed by any action)
          tree,    \* action -> lazily materialised tree (what the code holds)
          ref,     \* action -> fully expanded reference tree
          reply,   \* last reply, computed on `tree`
          want,    \* the same reply computed on `ref`
          mods, faults

vars == <<cas, tree, ref, reply, want, mods, faults>>

NoReply == [a |-> "", op |-> "init", ok |-> TRUE, why |-> "", val |-> NoAttr, fault |-> FALSE, cas |-> FALSE]

Init ==
  /\ cas = CasInit
  /\ tree = [a \in Actions |-> LET r == InitialTree(CasInit, RootOf[a]) IN r.t]
  /\ ref  = [a \in Actions |-> Expand(CasInit, tree[a])]
  /\ reply = NoReply /\ want = NoReply
  /\ mods = 0 /\ faults = 0

Dirs(t) == {p \in DOMAIN t : t[p].kind = "dir"}
Rep(a, op, r) == [a |-> a, op |-> op, ok |-> r.ok, why |-> r.why, val |-> r.val, fault |-> FALSE, cas |-> FALSE]

\* An operation `F(t)` performed by action a on its own tree, and the same
\* operation on the reference.  The reference addresses only paths that
\* exist in the lazy tree (the kernel can only name what it has looked up).
Apply(a, op, rl, rr) ==
  /\ tree' = [tree EXCEPT ![a] = rl.t]
  /\ ref'  = [ref EXCEPT ![a] = Expand(cas, rr.t)]   \* the reference is always fully explored
  /\ reply' = Rep(a, op, rl)
  /\ want'  = Rep(a, op, rr)
  /\ UNCHANGED <<cas, faults>>

\* A storage error while a lazy directory is being loaded: the operation
\* fails, nothing is created, the directory stays lazy.
LoadFault(a, p) ==
  /\ faults < MaxFaults
  /\ IsDir(tree[a], p) /\ tree[a][p].st = "lazy"
  /\ faults' = faults + 1
  /\ reply' = [NoReply EXCEPT !.a = a, !.op = "list", !.ok = FALSE, !.why = "fault", !.fault = TRUE]
  /\ want' = reply'
  /\ UNCHANGED <<cas, tree, ref, mods>>

Lookup(a, p, n) ==
  /\ Apply(a, "lookup", OpLookup(cas, tree[a], p, n), OpLookup(cas, ref[a], p, n))
  /\ UNCHANGED mods

List(a, p) ==
  /\ Apply(a, "list", OpList(cas, tree[a], p), OpList(cas, ref[a], p))
  /\ UNCHANGED mods

Modify(a, op, rl, rr) ==
  /\ mods < MaxMods
  /\ mods' = mods + 1
  /\ Apply(a, op, rl, rr)

Remove(a, p, n) ==
  \E rd, rl \in BOOLEAN :
    Modify(a, "remove", OpRemove(cas, tree[a], p, n, rd, rl), OpRemove(cas, ref[a], p, n, rd, rl))

Rename(a, p, n, p2, n2) ==
  /\ OpRename(cas, tree[a], p, n, p2, n2).why # "illegal"
  /\ Modify(a, "rename", OpRename(cas, tree[a], p, n, p2, n2), OpRename(cas, ref[a], p, n, p2, n2))

Mkdir(a, p, n) ==
  Modify(a, "mkdir", OpCreate(cas, tree[a], p, n, MatDir), OpCreate(cas, ref[a], p, n, MatDir))

CreateFile(a, p, n) ==
  Modify(a, "create", OpCreate(cas, tree[a], p, n, LocalFile(FALSE)), OpCreate(cas, ref[a], p, n, LocalFile(FALSE)))

PutChild(a, p, n, node, ow) ==
  LET kids == <<[name |-> n, node |-> node]>> IN
  Modify(a, "put", OpPut(cas, tree[a], p, kids, ow), OpPut(cas, ref[a], p, kids, ow))

\* Reading a CAS-backed file and attempts to alter it.
Read(a, q) ==
  /\ IsCasFile(tree[a], q) /\ BlobPresent(cas, tree[a], q)
  /\ reply' = [NoReply EXCEPT !.a = a, !.op = "read", !.cas = TRUE,
                              !.val = ReadOf(cas, tree[a], q, 0, 100)]
  /\ want' = [NoReply EXCEPT !.a = a, !.op = "read", !.cas = TRUE,
                             !.val = [data |-> cas.blobs[tree[a][q].blob], eof |-> TRUE]]
  /\ UNCHANGED <<cas, tree, ref, mods, faults>>

Alter(a, q, k) ==
  /\ IsCasFile(tree[a], q)
  /\ reply' = [NoReply EXCEPT !.a = a, !.op = k, !.cas = TRUE, !.ok = FALSE, !.why = "refused"]
  /\ want' = reply'
  /\ UNCHANGED <<cas, tree, ref, mods, faults>>

Next ==
  \E a \in Actions :
    \/ \E p \in Dirs(tree[a]) :
         \/ LoadFault(a, p)
         \/ List(a, p)
         \/ \E n \in Names :
              \/ Lookup(a, p, n)
              \/ Remove(a, p, n)
              \/ Mkdir(a, p, n)
              \/ CreateFile(a, p, n)
              \/ \E node \in PutNodes : \E ow \in BOOLEAN : PutChild(a, p, n, node, ow)
              \/ \E p2 \in Dirs(tree[a]) : \E n2 \in RenameTo : Rename(a, p, n, p2, n2)
    \/ \E q \in DOMAIN tree[a] :
         \/ Read(a, q)
         \/ \E k \in AlterKinds : Alter(a, q, k)

Spec == Init /\ [][Next]_vars

\* reply and want are checked by action properties on every transition;
\* they need not distinguish states.
StateView == <<tree, ref, mods, faults>>

-----------------------------------------------------------------------------
(* The property                                                            *)

\* Denotation of an input root: the tree its digest names.
Denotation(c, src) == Expand(c, InitialTree(c, src).t)

\* What is visible at the paths that have been explored so far equals the
\* denotation overlaid with the local modifications made so far, whatever
\* the exploration order: the lazy tree, fully explored, IS the reference.
C17_Fidelity ==
  \A a \in Actions : Expand(cas, tree[a]) = ref[a]

\* At the start the reference is the denotation of the root digest.
C17_InitialDenotation ==
  (mods = 0) => \A a \in Actions :
     InitialTree(CasInit, RootOf[a]).ok => ref[a] = Denotation(CasInit, RootOf[a])

\* Every reply computed on the lazy tree equals the reply computed on the
\* fully expanded reference (unless a storage error was injected).
C17_ReplyFidelity ==
  [][reply'.ok = want'.ok /\ reply'.val = want'.val /\ reply'.why = want'.why]_vars

\* Malformed or missing directories surface as errors, never as a
\* different tree: a directory stays lazy in the fully expanded tree only
\* if its message is unavailable, nothing exists below it, and every
\* operation that needs its contents fails.
C17_Errors ==
  \A a \in Actions : \A p \in DOMAIN ref[a] :
    (ref[a][p].kind = "dir" /\ ref[a][p].st = "lazy") =>
      /\ ~Available(cas, ref[a][p].src)
      /\ Subtree(ref[a], p) = {p}
      /\ ~OpList(cas, ref[a], p).ok
      /\ \A n \in Names : ~OpLookup(cas, ref[a], p, n).ok
      /\ (p \in DOMAIN tree[a] => ~OpList(cas, tree[a], p).ok)

\* A failed load creates nothing and can be retried.
C17_FaultLeavesLazy ==
  [][reply'.fault => (tree' = tree /\ ref' = ref /\ ~reply'.ok)]_vars

\* CAS-backed files refuse every attempt to alter them; reads return the
\* blob; the CAS itself never changes.
C17_Immutable ==
  [][ /\ cas' = cas
      /\ (reply'.cas /\ reply'.op \in AlterKinds) => ~reply'.ok
      /\ (reply'.cas /\ reply'.op = "read") => reply'.val = want'.val ]_vars

\* An action changes only its own tree.
C17_OwnTreeOnly ==
  [][\A a \in Actions : (reply'.a # a) => (tree'[a] = tree[a] /\ ref'[a] = ref[a])]_vars
=============================================================================
